#!/bin/bash
# Build the framework from files on disk only (offline): full Coq .vo build of the
# development, extraction of the executable models, OCaml driver.
set -e
cd "$(dirname "$0")"
mkdir -p evidence/replay coq/observed
cd coq
coq_makefile -f _CoqProject -o Makefile > /dev/null
timeout 3000 make -j16
cd ../ocaml
ocamlfind ocamlopt -O3 -package str model.mli model.ml driver.ml -o modelrun 2>&1 | grep -v 'options -O3' || true
test -x modelrun
echo "setup ok"
