#!/bin/bash
# Re-check every compiled property file and everything it depends on with the independent
# checker, and print the axioms the whole development relies on (takes ~8 minutes).
cd "$(dirname "$0")/../coq" || exit 2
mods=$(ls props/*.vo | sed 's/\.vo$//; s/\//./g; s/^/PV./')
timeout 3600 coqchk -silent -o -R . PV $mods
