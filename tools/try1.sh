#!/bin/bash
# tools/try1.sh <Cxx> <A|B> <prop>...: apply /tmp/mut/<Cxx>-out/patch<L>.diff to the scratch worktree /tmp/mut/<Cxx>, run the checks there, undo
id=$1; L=$2; shift 2
git -C /tmp/mut/$id checkout -q -- . && git -C /tmp/mut/$id apply /tmp/mut/$id-out/patch$L.diff || exit 2
for p in "$@"; do (cd /verif && VERIF_REPO=/tmp/mut/$id VERIF_EVID=/tmp/mut/ev ./check $p --tier quick 2>&1 | grep -v KNOWN | tail -3); done
git -C /tmp/mut/$id checkout -q -- .; rm -rf /tmp/mut/ev
