import re, zlib, sys
def load(path):
    data=open(path,"rb").read()
    objs={}
    for m in re.finditer(rb"(\d+)\s+(\d+)\s+obj\b", data):
        num=int(m.group(1)); start=m.end()
        end=data.find(b"endobj", start)
        objs[num]=data[start:end]
    # expand object streams
    def stream_of(body):
        m=re.search(rb"stream\r?\n", body)
        if not m: return None
        raw=body[m.end():]
        e=raw.rfind(b"endstream")
        raw=raw[:e]
        if b"/FlateDecode" in body[:m.start()]:
            try: return zlib.decompress(raw)
            except Exception as ex:
                try: return zlib.decompressobj().decompress(raw)
                except Exception: return None
        return raw
    for num,body in list(objs.items()):
        if b"/ObjStm" in body[:300]:
            s=stream_of(body)
            N=int(re.search(rb"/N\s+(\d+)",body).group(1)); first=int(re.search(rb"/First\s+(\d+)",body).group(1))
            hdr=s[:first].split()
            for i in range(N):
                on=int(hdr[2*i]); off=int(hdr[2*i+1])
                nxt=int(hdr[2*i+3]) if i+1<N else len(s)-first
                objs.setdefault(on, s[first+off:first+nxt])
    return objs, stream_of
def parse_cmap(s):
    mp={}
    for blk in re.findall(rb"beginbfchar(.*?)endbfchar", s, re.S):
        for a,b in re.findall(rb"<([0-9A-Fa-f]+)>\s*<([0-9A-Fa-f]+)>", blk):
            mp[int(a,16)]=bytes.fromhex(b.decode()).decode("utf-16-be",errors="replace")
    for blk in re.findall(rb"beginbfrange(.*?)endbfrange", s, re.S):
        for a,b,c in re.findall(rb"<([0-9A-Fa-f]+)>\s*<([0-9A-Fa-f]+)>\s*<([0-9A-Fa-f]+)>", blk):
            a=int(a,16);b=int(b,16);c0=int(c,16)
            for i in range(a,b+1): mp[i]=chr(c0+i-a)
        for a,b,arr in re.findall(rb"<([0-9A-Fa-f]+)>\s*<([0-9A-Fa-f]+)>\s*\[(.*?)\]", blk, re.S):
            a=int(a,16)
            for i,h in enumerate(re.findall(rb"<([0-9A-Fa-f]+)>",arr)):
                mp[a+i]=bytes.fromhex(h.decode()).decode("utf-16-be",errors="replace")
    return mp
def ref(body,key):
    m=re.search(rb"/"+key+rb"\s+(\d+)\s+0\s+R", body)
    return int(m.group(1)) if m else None
def main(path):
    objs,stream_of=load(path)
    # pages in order: walk Pages tree
    cat=[n for n,b in objs.items() if re.search(rb"/Type\s*/Catalog",b)][0]
    root=ref(objs[cat],b"Pages")
    pages=[]
    def walk(n):
        b=objs[n]
        if re.search(rb"/Type\s*/Pages",b):
            kids=re.search(rb"/Kids\s*\[(.*?)\]",b,re.S).group(1)
            for k in re.findall(rb"(\d+)\s+0\s+R",kids): walk(int(k))
        else: pages.append(n)
    walk(root)
    out=[]
    for pi,p in enumerate(pages):
        b=objs[p]
        # fonts
        fonts={}
        res=b
        r=ref(b,b"Resources")
        if r: res=objs[r]
        fm=re.search(rb"/Font\s*<<(.*?)>>",res,re.S)
        if fm is None:
            fr=ref(res,b"Font")
            fd=objs[fr] if fr else b""
        else: fd=fm.group(1)
        for name,fn in re.findall(rb"/(\w+)\s+(\d+)\s+0\s+R",fd):
            fb=objs[int(fn)]
            tu=ref(fb,b"ToUnicode")
            cm=parse_cmap(stream_of(objs[tu])) if tu else None
            two=b"/Identity-H" in fb
            fonts[name]=(cm,two)
        cont=re.search(rb"/Contents\s*(\[(.*?)\]|(\d+)\s+0\s+R)",b,re.S)
        ids=[int(x) for x in re.findall(rb"(\d+)\s+0\s+R",cont.group(0))]
        s=b"\n".join(stream_of(objs[i]) or b"" for i in ids)
        out.append(f"\n\n======== PAGE {pi+1} ========\n")
        cur=None; lasty=None
        # tokenise roughly
        tok=re.compile(rb"/(\w+)\s+[\d.]+\s+Tf|\[((?:[^\]\\]|\\.)*)\]\s*TJ|\(((?:[^)\\]|\\.)*)\)\s*Tj|<([0-9A-Fa-f]+)>\s*Tj|([-\d.]+)\s+([-\d.]+)\s+Td|([-\d.]+)\s+([-\d.]+)\s+([-\d.]+)\s+([-\d.]+)\s+([-\d.]+)\s+([-\d.]+)\s+Tm|(ET)|T\*", re.S)
        def dec_bytes(bs):
            cm,two=fonts.get(cur,(None,False))
            if two:
                cs=[int.from_bytes(bs[i:i+2],"big") for i in range(0,len(bs),2)]
            else: cs=list(bs)
            if cm: return "".join(cm.get(c,"?") for c in cs)
            return bytes(cs).decode("cp1252",errors="replace") if not two else "".join(chr(c) for c in cs)
        def unesc(b):
            o=bytearray();i=0
            while i<len(b):
                c=b[i]
                if c==0x5c:
                    i+=1;d=b[i:i+1]
                    mp={b"n":10,b"r":13,b"t":9,b"b":8,b"f":12,b"(":40,b")":41,b"\\":92}
                    if d in mp:o.append(mp[d]);i+=1
                    elif d.isdigit():
                        j=i
                        while j<len(b) and j<i+3 and b[j:j+1].isdigit(): j+=1
                        o.append(int(b[i:j],8)&255);i=j
                    else: i+=1
                else:o.append(c);i+=1
            return bytes(o)
        line=[]
        for m in tok.finditer(s):
            if m.group(1): cur=m.group(1)
            elif m.group(2) is not None:
                arr=m.group(2); txt=""
                for mm in re.finditer(rb"\(((?:[^)\\]|\\.)*)\)|<([0-9A-Fa-f]+)>|([-\d.]+)",arr):
                    if mm.group(1) is not None: txt+=dec_bytes(unesc(mm.group(1)))
                    elif mm.group(2) is not None: txt+=dec_bytes(bytes.fromhex(mm.group(2).decode()))
                    else:
                        try:
                            if float(mm.group(3))<-200: txt+=" "
                        except: pass
                out.append(txt)
            elif m.group(3) is not None: out.append(dec_bytes(unesc(m.group(3))))
            elif m.group(4) is not None: out.append(dec_bytes(bytes.fromhex(m.group(4).decode())))
            elif m.group(5) is not None:
                if float(m.group(6))!=0: out.append("\n")
                else: out.append(" ")
            elif m.group(7) is not None:
                y=m.group(12)
                if y!=lasty: out.append("\n"); lasty=y
                else: out.append(" | ")
            elif m.group(13): out.append(" ")
            else: out.append("\n")
    return "".join(out)
if __name__=="__main__":
    sys.stdout.write(main(sys.argv[1]))
