#!/bin/bash
# tools/all_quick.sh [seed] [tier]: every registered check on /repo's working tree, three lanes; one summary line per check.
# Evidence is diverted to a scratch directory (VERIF_EVID) so that a seed sweep does not overwrite the committed run's evidence.
SEED=${1:-0}; TIER=${2:-quick}
SCR=$(mktemp -d /tmp/allq.XXXX)
lane() { for p in "$@"; do out=$(cd /verif && VERIF_SEED=$SEED VERIF_EVID=$SCR ./check $p --tier $TIER 2>&1); rc=$?; echo "seed=$SEED rc=$rc $(echo "$out" | tail -1)"; echo "$out" | grep "^VIOLATION" | head -3; done; }
lane C01 C05 C08 C11 C14 C17 C19 & lane C02 C04 C07 C10 C13 C18 & lane C03 C06 C09 C12 C15 C16 & wait
rm -rf $SCR
