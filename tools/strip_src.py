"""Print python source without docstrings/comments/blank lines (reading aid)."""
import ast, sys, io, tokenize
def strip(path):
    src = open(path).read()
    tree = ast.parse(src)
    doc_lines = set()
    for node in ast.walk(tree):
        body = getattr(node, 'body', None)
        if isinstance(body, list):
            for st in body:
                if isinstance(st, ast.Expr) and isinstance(st.value, ast.Constant) and isinstance(st.value.value, str):
                    for l in range(st.lineno, st.end_lineno + 1):
                        doc_lines.add(l)
    out = []
    for i, line in enumerate(src.splitlines(), 1):
        if i in doc_lines: continue
        s = line.strip()
        if not s or s.startswith('#'): continue
        out.append(line)
    return '\n'.join(out)
for p in sys.argv[1:]:
    print('#### ' + p)
    print(strip(p))
