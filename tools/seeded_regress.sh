#!/bin/bash
# tools/seeded_regress.sh [lanes]: every saved seeded change (seeded/<id>/patch.diff) against the CURRENT checks.
# Each lane owns a scratch worktree of /repo (outside /repo and /verif, removed at the end); a change is applied there,
# its own property's quick check is run with VERIF_REPO pointing at the worktree and evidence diverted to a scratch
# directory, and one line per change goes to seeded/REGRESSION.txt:  <id> rc=<exit> with_input=<n> without=<n>
LANES=${1:-4}
ROOT=$(mktemp -d /tmp/sreg.XXXX)
ids=$(ls /verif/seeded | grep -E '^C[0-9]{2}-')
lane() {
  k=$1; WT=$ROOT/w$k
  git -C /repo worktree add -q --detach $WT HEAD || exit 2
  i=0
  for id in $ids; do
    i=$((i+1)); [ $((i % LANES)) -eq $((k % LANES)) ] || continue
    P=${id%%-*}
    git -C $WT checkout -q -- . ; git -C $WT clean -fdq
    if ! git -C $WT apply /verif/seeded/$id/patch.diff 2>/dev/null; then echo "$id PATCH-DOES-NOT-APPLY" >> $ROOT/out.$k; continue; fi
    SCR=$(mktemp -d $ROOT/ev.XXXX)
    out=$(cd /verif && VERIF_REPO=$WT VERIF_EVID=$SCR ./check $P --tier quick 2>&1); rc=$?
    nin=$(echo "$out" | grep -c "^VIOLATION.*json$"); nno=$(echo "$out" | grep -c "no-failing-input-found")
    echo "$id rc=$rc with_input=$nin without=$nno" >> $ROOT/out.$k
    rm -rf $SCR
  done
  git -C $WT checkout -q -- . ; git -C /repo worktree remove --force $WT
}
for k in $(seq 1 $LANES); do lane $k & done; wait
git -C /repo worktree prune
{ echo "# seeded changes against the checks of $(git -C /verif rev-parse --short HEAD) ($(date -u +%F)); own property's quick check"; cat $ROOT/out.* | sort; } > /verif/seeded/REGRESSION.txt
rm -rf $ROOT
grep -vc "rc=1" /verif/seeded/REGRESSION.txt
