#!/bin/bash
# tools/try_mutant.sh <worktree> <patch> <demo.py> <prop> [<prop>...]
# 1. patch applies to the pristine worktree; 2. the pinned suite passes with it; 3. the demo
# fails with it and passes without; 4. each named check is run against the patched worktree
# (VERIF_REPO), evidence diverted to a scratch directory.  Prints one summary line per step.
WT="$1"; PATCH="$2"; DEMO="$3"; shift 3
git -C "$WT" checkout -q -- . ; git -C "$WT" clean -fdq
echo "== $(basename $PATCH) on $WT"
timeout 120 env PYTHONPATH=$WT /venv/bin/python "$DEMO" >/dev/null 2>&1; echo "demo on original: exit $?"
git -C "$WT" apply "$PATCH" || { echo "PATCH DOES NOT APPLY"; exit 2; }
( cd "$WT" && PYTHONPATH=$WT /venv/bin/python -m pytest -q -p no:cacheprovider 2>&1 | tail -1 )
timeout 120 env PYTHONPATH=$WT /venv/bin/python "$DEMO" >/dev/null 2>&1; echo "demo on mutant: exit $?"
SCR=$(mktemp -d /tmp/mutevid.XXXX)
for P in "$@"; do
  out=$(cd /verif && VERIF_REPO=$WT VERIF_EVID=$SCR ./check $P --tier quick 2>&1)
  rc=$?
  echo "check $P on mutant: exit $rc :: $(echo "$out" | grep -E 'VIOLATION|KNOWN' | head -3 | tr '\n' ' ')"
  echo "$out" | tail -2
done
rm -rf "$SCR"
git -C "$WT" checkout -q -- . ; git -C "$WT" clean -fdq
