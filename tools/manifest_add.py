"""tools/manifest_add.py <json-file>: add/replace one check entry in MANIFEST.json, drop the
property from not_applicable, register the engine."""
import json, sys
m = json.load(open('/verif/MANIFEST.json'))
e = json.load(open(sys.argv[1]))
eng = e.pop('_engine', None)
pid = e['property_id']
m['checks'] = [c for c in m['checks'] if c['property_id'] != pid] + [e]
m['checks'].sort(key=lambda c: c['property_id'])
m['not_applicable'] = [x for x in m.get('not_applicable', []) if x['property_id'] != pid]
if eng:
    for g in m['engines']:
        if g['name'] == eng['name']:
            g.update({k: v for k, v in eng.items() if k != 'serves_properties'})
            if pid not in g['serves_properties']:
                g['serves_properties'].append(pid)
            break
    else:
        eng['serves_properties'] = [pid]
        m['engines'].append(eng)
json.dump(m, open('/verif/MANIFEST.json', 'w'), indent=1)
print('checks:', [c['property_id'] for c in m['checks']], 'n/a:', [x['property_id'] for x in m['not_applicable']])
