(* driver.ml — line-oriented I/O around the extracted [Model.run_case].
   Input: one case per line, whitespace-separated decimal integers.
   Output: one line of integers per case. *)
open Model

let rec pos_of_int n = if n = 1 then XH else if n land 1 = 1 then XI (pos_of_int (n lsr 1)) else XO (pos_of_int (n lsr 1))
let z_of_int n = if n = 0 then Z0 else if n > 0 then Zpos (pos_of_int n) else Zneg (pos_of_int (- n))
let rec int_of_pos = function XH -> 1 | XO p -> 2 * int_of_pos p | XI p -> 2 * int_of_pos p + 1
let int_of_z = function Z0 -> 0 | Zpos p -> int_of_pos p | Zneg p -> - (int_of_pos p)

let () =
  try
    while true do
      let line = input_line stdin in
      let toks = List.filter (fun s -> s <> "") (String.split_on_char ' ' (String.trim line)) in
      let args = List.map (fun s -> z_of_int (int_of_string s)) toks in
      let out = run_case args in
      print_string (String.concat " " (List.map (fun z -> string_of_int (int_of_z z)) out));
      print_newline ()
    done
  with End_of_file -> ()
