"""C02, API part: which retry policy each public command is handed to the socket with, and
what that means on the wire when the first write fails.

Observed two ways on a real client against the scripted console: (a) the (message, policy)
pair the API object passes to socket.send (recording proxy), for every public call and
every enum argument, compared with the extracted API model; (b) behaviourally: the first
write of the command fails, the client reconnects, and the console counts how often the
command arrives - non-idempotent commands at most once in total, idempotent ones again on
the new connection."""

from __future__ import annotations

import random

from . import api_tie as T
from . import common, console


def expected_policy(call: int, args: list) -> int:
    """0 idempotent, 1 non-idempotent: of the public calls only the AC power toggle is not idempotent"""
    return 1 if (call == 1 and args[0] == 0) else 0


def run(ck: common.Check, tier: str) -> None:
    rng = random.Random(ck.seed * 31 + 2)
    n = 0
    for gen in (4, 5):
        nf = 7 if gen == 4 else 8
        inst = T.tie_installation(gen, [True] * 5, [True] * nf, (16, 30) if gen == 4 else (16, 30, 18, 32))
        rig = T.make_rig(inst)
        try:
            ac = rig.at.air_conditioners[0]
            spec = inst.acs[0]
            jobs = [("ac", ac, 1, [i]) for i in range(5)] + [("ac", ac, 2, [i, on]) for i in range(5) for on in (0, 1)]
            jobs += [("ac", ac, 3, [i]) for i in range(8)] + [("ac", ac, 4, [21.5]), ("ac", ac, 5, [1, 90]), ("ac", ac, 6, [0, 7, 30]),
                                                               ("ac", ac, 7, [1]), ("ac", ac, 8, [])]
            for z in ac.zones:
                jobs += [("zone", z, 11, [i]) for i in range(3)] + [("zone", z, 12, [22.0]), ("zone", z, 13, [40])]
            mcases = []
            for kind, tgt, call, args in jobs:
                obj = T.flat_ac(rig, spec) if kind == "ac" else T.flat_zone(rig, tgt.zone_id)
                mcases.append([T.CALL, gen, 0 if kind == "ac" else 1] + obj + [call] + T.model_args(call, args))
            mres = common.run_model(mcases)
            for (kind, tgt, call, args), mo in zip(jobs, mres):
                ck.count()
                n += 1
                out, frames, detail = T.invoke(rig, tgt, call, args)
                if out[:1] != [0]:
                    continue
                replay = {"kind": "api-policy", "gen": gen, "target": kind, "call": call, "args": args,
                          "trigger": {"class": "api-policy", "gen": gen, "call": call, "args": args}}
                if out[1] != expected_policy(call, args):
                    ck.violation("a public command is sent with the wrong retry policy",
                                 dict(replay, failure=f"policy index {out[1]} (0 idempotent, 1 non-idempotent, 2 connected-only), "
                                                      f"expected {expected_policy(call, args)}"))
                elif out[:2] != mo[:2]:
                    ck.violation("API policy model and implementation disagree", dict(replay, implementation=out[:2], model=mo[:2]),
                                 found_input=False)
            # behavioural: first write fails -> idempotent commands arrive again after the reconnect,
            # the toggle does not
            for call, args, again in ((1, [0], False), (1, [2], True), (2, [4, 0], True)):
                ck.count()
                before = len(rig.console.received)
                rig.net.fail_next_write = True
                t = rig.start(ac.set_power(T.POWER_CTL[args[0]]) if call == 1 else ac.set_mode(T.MODES[args[0]]))
                rig.advance(5 * 1024)
                got = [f for f in rig.console.received[before:]
                       if f[5] == (0x2C if gen == 4 else 0xC0) and f[8][:1] != (b"\x23" if gen == 5 else b"")
                       and (gen == 4 or f[8][0] == 0x22)]
                if again and len(got) != 1:
                    ck.violation("an idempotent command was not re-sent after a transient write failure",
                                 {"kind": "api-policy-fault", "gen": gen, "call": call, "args": args, "arrivals": len(got),
                                  "trigger": {"class": "api-policy-fault", "gen": gen, "call": call}})
                if not again and len(got) != 0:
                    ck.violation("a non-idempotent command was transmitted again after a write failure",
                                 {"kind": "api-policy-fault", "gen": gen, "call": call, "args": args, "arrivals": len(got),
                                  "trigger": {"class": "api-policy-fault", "gen": gen, "call": call}})
        finally:
            rig.close()
    ck.extra["api_policy_calls"] = n
    ck.extra["internal_requests_observed"] = internal_requests(ck)


def internal_requests(ck: common.Check) -> int:
    """Every request the client issues on its own - the six handshake requests, the error-text request, the
    heartbeat, the refresh after a reconnection, the AT4 group poll - must be handed to the socket with the
    connected-only policy (discarded unless a connection exists within one second; C02 statement)."""
    import pyairtouch.comms.socket as psock
    seen = 0
    shapes = [(4, 2, 5, False), (4, 2, 5, True), (4, 1, 16, False), (5, 2, 5, False), (5, 2, 5, True), (5, 1, 0, False), (5, 3, 0, True), (5, 1, 16, False)]
    for gen, n_acs, n_zones, faulty in shapes:
        if True:
            inst = console.simple_installation(gen, n_acs, n_zones)
            if faulty:
                import dataclasses
                for a in list(inst.ac_status):
                    inst.ac_status[a] = dataclasses.replace(inst.ac_status[a], error_code=7)
                    inst.errors[a] = "ER: 07"
            rig = console.ApiRig(inst, record_sends=True)
            try:
                phases = []
                r, _ = rig.init()
                phases.append(("handshake", len(rig.sock.sends)))
                rig.advance(301 * 1024)
                phases.append(("heartbeat", len(rig.sock.sends)))
                cur = rig.net.current()
                if cur is not None:
                    cur.transport.peer_reset()
                rig.advance(4 * 1024)
                phases.append(("refresh after reconnection", len(rig.sock.sends)))
                rig.console.silent_from = 0
                rig.advance(302 * 1024)
                phases.append(("silence (AT4 group poll, heartbeat)", len(rig.sock.sends)))
                lo = 0
                for name, hi in phases:
                    for msg, pol in rig.sock.sends[lo:hi]:
                        ck.count()
                        seen += 1
                        if (pol.max_retries, pol.max_lifetime) != (psock.RETRY_CONNECTED.max_retries, psock.RETRY_CONNECTED.max_lifetime):
                            ck.violation("a request the client issues on its own is not sent with the connected-only policy",
                                         {"kind": "api-internal-policy", "gen": gen, "phase": name, "message": type(msg).__name__ + " " + repr(msg)[:120],
                                          "policy": {"max_retries": pol.max_retries, "max_lifetime": pol.max_lifetime},
                                          "ac_in_fault_at_connect": faulty, "acs": n_acs, "zones": n_zones,
                                          "trigger": {"class": "api-internal-policy", "gen": gen, "phase": name, "message": type(msg).__name__}})
                    lo = hi
                if r != ("ok", True) or len(rig.sock.sends) < 9:
                    ck.violation("internal request scenario did not run as expected",
                                 {"kind": "api-internal-policy", "gen": gen, "init": list(r), "sends": len(rig.sock.sends)}, found_input=False)
            finally:
                rig.close()
    return seen
