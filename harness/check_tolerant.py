"""Check C17 (unknown and malformed input is tolerated, never misread).

  python -m harness.check_tolerant C17 --tier quick|thorough

Instruments: (1) the theorems of coq/props/C17.v; (2) correspondence of the receive-path
model with the registries' real decoders (model case 41) against the real AirTouchSocket
on the virtual loop: every unregistered type byte, unknown sub-types of the 0x1F and 0xC0
wrappers, oversized strides, and mutated byte streams (bit flips with recomputed check
bytes, truncations, splices, random bytes); (3) the monitor: an unknown type / sub-type is
delivered as an unsupported message with identical payload and no reset; nothing is
delivered for input that is not a checksum-valid frame; no exception reaches the loop's
unhandled-exception handler; after every input an intact probe frame is delivered.
"""

from __future__ import annotations

import argparse
import random
import struct
import sys
from collections import Counter

from pyairtouch import comms

from . import codec_tie, common, rxrig, sockrun

RX = 41
REG_TYPES = {4: {0x1F, 0x2A, 0x2B, 0x2C, 0x2D, 0x36, 0x37}, 5: {0x1F, 0xC0}}
REG_SUBS = {4: {0xFF10, 0xFF11, 0xFF12, 0xFF20, 0xFF30}, 5: {0xFF10, 0xFF11, 0xFF13, 0xFF30, 0xFF49}}
REG_C0 = {0x20, 0x21, 0x22, 0x23, 0x32, 0x33}


def rnd_payload(rng, sizes=(0, 1, 2, 5, 9, 17, 40)) -> bytes:
    return bytes(rng.randrange(256) for _ in range(rng.choice(sizes)))


def parse_model(ints: list[int]):
    """-> (list of (hdr tuple, flat message), alive, buffered)"""
    out = []
    i = 0
    while i < len(ints):
        if ints[i] == 1:
            h = tuple(ints[i + 1:i + 6])
            n = ints[i + 6]
            out.append((h, ints[i + 7:i + 7 + n]))
            i += 7 + n
        elif ints[i] == 2:
            return out, bool(ints[i + 1]), ints[i + 2]
        else:
            raise ValueError(ints[:40])
    raise ValueError("no terminator")


def recrc(gen: int, frame: bytes) -> bytes:
    pre = 2 if gen == 4 else 14
    body = frame[pre:-2]
    return frame[:pre] + body + struct.pack(">H", sockrun.crc16_ref(body))


def valid_frames(gen: int, rng: random.Random, n: int) -> list[bytes]:
    """frames of every kind the package can encode, as a console would send them"""
    c = codec_tie.codec(gen)
    out = list(sockrun.rx_catalogue(gen))
    while len(out) < n:
        m = c.gen_message(rng)
        r = c.impl_encode(m)
        if r[0] == "ok" and len(r[2]) < 400:
            out.append(sockrun.build_frame(gen, 0xB0, 0x90 if m.message_id == 0x1F else 0x80, rng.randrange(256),
                                           m.message_id, r[2]))
    return out


def gen_cases(gen: int, rng: random.Random, tier: str):
    """yield (class, expectation, stream bytes); expectation = None or ('unsupported', level, id, payload)"""
    # (a) every unregistered type byte
    for t in range(256):
        if t in REG_TYPES[gen]:
            continue
        for _ in range(2 if tier == "quick" else 8):
            p = rnd_payload(rng)
            yield "unknown-type", ("unsupported", 0, t, p), sockrun.build_frame(gen, 0xB0, rng.choice([0x80, 0x90]), rng.randrange(256), t, p)
    # (b) unknown sub-types of 0x1F
    subs = set()
    for s in REG_SUBS[gen]:
        subs.update({s - 1, s + 1, s ^ 0x0100, s ^ 0x8000})
    subs.update({0, 1, 0xFFFF, 0xFF00, 0x00FF} | {rng.randrange(65536) for _ in range(40 if tier == "quick" else 400)})
    for s in sorted(subs - REG_SUBS[gen]):
        p = rnd_payload(rng)
        yield "unknown-1F-sub", ("unsupported", 1, s, p), sockrun.build_frame(gen, 0xB0, 0x90, rng.randrange(256), 0x1F, struct.pack(">H", s) + p)
    # (c) unknown sub-types of 0xC0 with consistent lengths, any pad byte
    if gen == 5:
        for s in range(256):
            if s in REG_C0:
                continue
            nrl = rng.choice([0, 0, 1, 4])
            rl = rng.choice([0, 1, 4, 8, 11])
            rc = rng.choice([0, 1, 2, 5])
            body = bytes(rng.randrange(256) for _ in range(nrl + rl * rc))
            hdr = bytes([s, rng.choice([0, 0, 0xFF, rng.randrange(256)])]) + struct.pack(">HHH", nrl, rl, rc)
            yield "unknown-C0-sub", ("unsupported", 1, s, body), sockrun.build_frame(5, 0xB0, 0x80, rng.randrange(256), 0xC0, hdr + body)
    # (c2) status records longer than the known layout: several messages on the same connection,
    #      each must be delivered equal to the message made of the records' known prefixes
    if gen == 5:
        for _ in range(40 if tier == "quick" else 400):
            sub, base = rng.choice([(0x21, 8), (0x23, 8), (0x33, 9)])
            stride = rng.choice([base + 1, base + 2, 12, 17, 32])
            count = rng.choice([1, 2, 3, 8])
            recs = []
            for _k in range(count):
                b = bytearray(rng.randrange(256) for _ in range(stride))
                if sub == 0x21:
                    b[0] = (rng.choice([0, 1, 3]) << 6) | (b[0] & 0x3F)
                elif sub == 0x23:
                    b[0] = (rng.choice([0, 1, 2, 3, 5]) << 4) | (b[0] & 0x0F)
                    b[1] = (rng.choice([0, 1, 2, 3, 4, 8, 9]) << 4) | rng.choice([0, 1, 2, 3, 4, 5, 6, 9, 10, 11, 12, 13, 14])
                recs.append(bytes(b))
            long = struct.pack(">BBHHH", sub, 0, 0, stride, count) + b"".join(recs)
            compact = struct.pack(">BBHHH", sub, 0, 0, base, count) + b"".join(r[:base] for r in recs)
            yield "long-stride", ("prefix", compact), sockrun.build_frame(5, 0xB0, 0x80, rng.randrange(256), 0xC0, long)
    # (d) mutated streams
    lib = valid_frames(gen, rng, 60 if tier == "quick" else 300)
    pre = 2 if gen == 4 else 14
    for _ in range(5000 if tier == "quick" else 60000):
        f = bytearray(rng.choice(lib))
        k = rng.randrange(8)
        if k == 0 and len(f) > pre + 8:      # payload bit flip, check bytes recomputed: decodes differently or is rejected
            i = rng.randrange(pre + 6, len(f) - 2)
            f[i] ^= 1 << rng.randrange(8)
            s = recrc(gen, bytes(f))
            cls = "flip-recrc"
        elif k == 1:                          # header field flip (type / length / address), check bytes recomputed
            i = rng.randrange(pre, pre + 6)
            f[i] ^= 1 << rng.randrange(8)
            s = recrc(gen, bytes(f))
            if gen == 5:                      # keep the duplicated outer length consistent half of the time
                if rng.random() < 0.5:
                    ln = struct.unpack_from(">H", s, pre + 4)[0]
                    dl = (10 + ln + 2) & 0xFFFF
                    s = s[:6] + struct.pack(">HH", dl, dl) + s[10:]
            cls = "header-flip-recrc"
        elif k == 2:                          # bit flip without fixing the check bytes
            f[rng.randrange(len(f))] ^= 1 << rng.randrange(8)
            s = bytes(f)
            cls = "flip"
        elif k == 3:                          # truncated frame followed by an intact one
            s = bytes(f[: rng.randrange(1, len(f))]) + rng.choice(lib)
            cls = "truncate+frame"
        elif k == 4:                          # random bytes
            s = bytes(rng.randrange(256) for _ in range(rng.choice([1, 7, 8, 20, 21, 60])))
            cls = "random"
        elif k == 5:                          # splice of two frames
            g = rng.choice(lib)
            s = bytes(f[: rng.randrange(len(f))]) + g[rng.randrange(len(g)):]
            cls = "splice"
        elif k == 6:                          # payload extended / shortened with the length field and CRC adjusted
            payload = bytes(f[pre + 6:-2])
            if rng.random() < 0.5:
                payload += bytes(rng.randrange(256) for _ in range(rng.choice([1, 2, 3, 8])))
            else:
                payload = payload[: rng.randrange(len(payload) + 1)]
            s = sockrun.build_frame(gen, f[pre], f[pre + 1], f[pre + 2], f[pre + 3], payload)
            cls = "resized-payload"
        else:                                 # several valid frames back to back
            s = b"".join(rng.choice(lib) for _ in range(rng.choice([2, 3])))
            cls = "valid-sequence"
        yield cls, None, s


def check_c17(tier: str) -> int:
    ck = common.Check("C17", tier)
    ck.rule = ("both generations: every unregistered type byte x random payloads; unknown 0x1F sub-ids (neighbours of the "
               "registered ones, corner values, random) and all unknown 0xC0 sub-ids with random consistent lengths and pad "
               "bytes; mutated streams (payload/header bit flips with recomputed check bytes, raw flips, truncation + intact "
               "frame, random bytes, splices, resized payloads, valid sequences) fed to the real socket; compared per case "
               "with the extracted receive-path model using the real decoders' model (deliveries as header + flattened "
               "message, reset flag); monitor: unsupported delivery with identical payload and no reset, silent "
               "unhandled-exception handler, probe frame delivered afterwards; non-trivial/distinct = distinct input streams")
    ck.assumptions = [
        "that an exception raised in a decoder is caught by the read loop is CPython behaviour: asserted by the model (RxReset), sampled by the tie (loop exception handler must stay silent)",
        "recovery after a reset is the socket model's C07 theorems; here every case ends with a probe frame through the real client",
    ]
    rng = random.Random(ck.seed * 3571 + 17)
    with common.Lock():
        proved = ck.prove()
        if not proved:
            ck.violation("proof", {"theorem_file": "coq/props/C17.v", "failed_at": getattr(ck, "failed_at", "?"),
                                   "log_tail": getattr(ck, "proof_log", "")[-1500:]}, found_input=False)
        try:
            common.build_driver()
        except RuntimeError as ex:
            ck.violation("model-build", {"error": str(ex)[-1500:]}, found_input=False)
            return ck.finish()
    dist = Counter()
    corr_bad = 0
    for gen in (4, 5):
        c = codec_tie.codec(gen)
        cases = list(gen_cases(gen, rng, tier))
        mres = common.run_model([rxrig.model_stream_case(gen, [s])[:0] + [RX, gen, len(s)] + list(s) for _, _, s in cases])
        probe = sockrun.build_frame(gen, 0xB0, 0x80, 0x77, 0x99, b"probe")
        rig = rxrig.RxRig(gen)
        try:
            for (cls, expect, s), mr in zip(cases, mres):
                ck.count()
                ck.note_case((gen, s))
                dist[f"at{gen}_{cls}"] += 1
                if not rig.connect():
                    ck.violation("client did not recover", {"kind": "recovery", "gen": gen, "trigger": {"class": "no-reconnect"},
                                                          "before_case": s.hex()})
                    break
                # every third input is followed by the console's close in the same pass (data and end-of-stream arrive
                # together): what was complete is still delivered, and the client reconnects as after any close
                eof_now = ck.evaluations % 3 == 0
                rig.feed([s], then_eof=eof_now)
                hdrs, msgs, reset, unh = rig.take()
                if eof_now:
                    dist[f"at{gen}_closed_right_behind_the_input"] += 1
                    reset = not parse_model(mr)[1]          # the reset that follows is the console's doing
                replay = {"gen": gen, "class": cls, "stream": s.hex(), "console_closes_right_behind_it": eof_now,
                          "replay_cmd": f"cd /verif && ./check C17 --replay-stream {gen} {s.hex()}"}
                if unh:
                    ck.violation("an exception escaped the receive task",
                                 dict(replay, kind="unhandled", trigger={"class": "unhandled-exception"}, count=unh))
                # monitor for unknown ids
                bad = None
                if expect is not None and expect[0] == "prefix":
                    want = c.impl_decode(0xC0, expect[1])
                    if reset:
                        bad = "the connection was reset"
                    elif len(msgs) != 1:
                        bad = f"{len(msgs)} deliveries"
                    elif want[0] != "ok" or msgs[0] != want[1]:
                        bad = f"delivered {repr(msgs[0])[:200]}, the known prefixes mean {repr(want[1])[:200]}"
                    if bad:
                        ck.violation("record with a longer stride not decoded from its known prefix",
                                     dict(replay, kind="long-stride", trigger={"class": cls}, failure=bad))
                elif expect is not None:
                    _, level, uid, payload = expect
                    if reset:
                        bad = "the connection was reset"
                    elif len(msgs) != 1:
                        bad = f"{len(msgs)} deliveries"
                    else:
                        m = msgs[0]
                        if level == 1:
                            m = getattr(m, "sub_message", None)
                        if not isinstance(m, comms.UnsupportedMessage):
                            bad = f"delivered {type(m).__name__}"
                        elif m.unsupported_id != uid or bytes(m.raw_data) != payload:
                            bad = f"unsupported id {m.unsupported_id:#x} payload {bytes(m.raw_data).hex()}"
                    if bad:
                        ck.violation("unknown id not delivered unchanged",
                                     dict(replay, kind="unknown-id", trigger={"class": cls}, expected_id=uid,
                                          expected_payload=payload.hex(), failure=bad))
                # monitor: every delivery is the decoding of a checksum-valid frame of the stream
                frames, _ = sockrun.split_frames(gen, s)
                okf = [f for f in frames if f[5]]
                for (to, frm, pid, mid, ln), m in zip(hdrs, msgs):
                    match = [f for f in okf if f[:4] == (to, frm, pid, mid) and len(f[4]) == ln]
                    d = None
                    for f in match:
                        d = c.impl_decode(mid, f[4], to, frm, pid)
                        if d[0] == "ok" and d[1] == m:
                            break
                    else:
                        ck.violation("a message was delivered that the bytes do not mean",
                                     dict(replay, kind="misread", trigger={"class": "misread"}, delivered=repr(m)[:300]))
                # correspondence with the model
                m_ds, m_alive, _ = parse_model(mr)
                impl_ds = []
                flat_ok = True
                for h, m in zip(hdrs, msgs):
                    try:
                        impl_ds.append((tuple(h), c.flatten(m)))
                    except c.NotFlat:
                        flat_ok = False
                if flat_ok and (impl_ds != m_ds or reset == m_alive):
                    corr_bad += 1
                    extra = [d for d in impl_ds if d not in m_ds]
                    if not bad and corr_bad <= 5 and extra:
                        # the disagreement is itself a failing input: the client delivered a message which the protocol
                        # model (whose decoders the C05/C17 theorems are about) does not read out of these bytes
                        ck.violation("a message was delivered that the bytes do not mean (protocol model: malformed, or another message)",
                                     dict(replay, kind="misread-vs-model", trigger={"class": "misread"}, model_deliveries=len(m_ds),
                                          impl_deliveries=len(impl_ds), delivered=[repr(d)[:300] for d in extra[:2]],
                                          model_alive=m_alive, impl_reset=reset))
                    elif not bad and corr_bad <= 5 and reset and m_alive:
                        ck.violation("input the protocol model tolerates (connection kept) made the client drop the connection",
                                     dict(replay, kind="not-tolerated-vs-model", trigger={"class": "not-tolerated"},
                                          model_deliveries=len(m_ds), impl_deliveries=len(impl_ds)))
                    elif not bad and corr_bad <= 5:
                        ck.violation("receive-path model and implementation disagree",
                                     dict(replay, kind="correspondence", model_deliveries=len(m_ds), impl_deliveries=len(impl_ds),
                                          model_alive=m_alive, impl_reset=reset,
                                          correspondence="coq/stream/Stream.v + Codec4/5.v (model case 41) vs AirTouchSocket receive path"),
                                     found_input=False)
                dist[f"at{gen}_{'reset' if reset else 'alive'}"] += 1
                dist[f"at{gen}_deliveries"] += len(msgs)
                # probe: whatever state the input left the reader in (possibly the middle of a frame),
                # the client recovers: drop the connection from the console side, let it reconnect, and
                # an intact frame is delivered
                cur = rig.net.current()
                if cur is not None:
                    # alternately by reset and by an orderly close (end of stream in the middle of a frame)
                    (cur.transport.peer_reset if ck.evaluations % 2 else cur.transport.peer_eof)()
                    rig.loop.settle()
                    rig.take()
                if not rig.connect():
                    ck.violation("client did not recover", dict(replay, kind="recovery", trigger={"class": "no-reconnect"}))
                    break
                rig.feed([probe])
                ph, pm, preset, punh = rig.take()
                if [tuple(x) for x in ph] != [(0xB0, 0x80, 0x77, 0x99, 5)] or preset or punh:
                    ck.violation("probe frame not delivered after the input",
                                 dict(replay, kind="probe", trigger={"class": "probe-lost"}, got=str(ph), reset=preset))
        finally:
            rig.close()
    ck.extra["input_distribution"] = dict(sorted(dist.items()))
    ck.extra["correspondence_disagreements"] = corr_bad
    ck.sample("AT4 type 0x99 payload 0102030405 -> UnsupportedMessage(0x99, 0102030405)")
    return ck.finish()


def replay_stream(gen: int, hexs: str) -> int:
    s = bytes.fromhex(hexs)
    common.build_driver()
    print("model:", parse_model(common.run_model([[RX, gen, len(s)] + list(s)])[0]))
    rig = rxrig.RxRig(gen)
    rig.feed([s])
    print("implementation:", rig.take())
    rig.close()
    return 0


def main() -> int:
    ap = argparse.ArgumentParser()
    ap.add_argument("prop", choices=["C17"])
    ap.add_argument("--tier", default="quick", choices=["quick", "thorough"])
    ap.add_argument("--replay-stream", nargs=2)
    a = ap.parse_args()
    if a.replay_stream:
        return replay_stream(int(a.replay_stream[0]), a.replay_stream[1])
    return check_c17(a.tier)


if __name__ == "__main__":
    sys.exit(main())
