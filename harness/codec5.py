"""AT5 codec tie: message generators, flattening of message objects to the integer format
of coq/at5/Flat5.v, and encode/decode through the package's public registry."""

from __future__ import annotations

import datetime
import random

import pyairtouch.at5.comms.hdr as hdr5
import pyairtouch.at5.comms.registry as reg5
import pyairtouch.at5.comms.x1F_ext as ext
import pyairtouch.at5.comms.x1FFF10_err_info as err
import pyairtouch.at5.comms.x1FFF11_ac_ability as abil
import pyairtouch.at5.comms.x1FFF13_zone_names as names
import pyairtouch.at5.comms.x1FFF30_console_ver as ver
import pyairtouch.at5.comms.x1FFF49_quick_timer as qt
import pyairtouch.at5.comms.xC0_ctrl_status as c0
import pyairtouch.at5.comms.xC020_zone_ctrl as zc
import pyairtouch.at5.comms.xC021_zone_status as zs
import pyairtouch.at5.comms.xC022_ac_ctrl as ac
import pyairtouch.at5.comms.xC023_ac_status as acs
import pyairtouch.at5.comms.xC032_ac_timer_ctrl as tc
import pyairtouch.at5.comms.xC033_ac_timer_status as tst
from pyairtouch import comms

from .codec4 import NotFlat, f_all_or, f_bytes, f_timer, rand_name, tenths

REG = reg5.INSTANCE


def f_optf(t) -> list[int]:
    return [0, 0] if t is None else [1, tenths(t)]


def f_ability(a) -> list[int]:
    M, F = abil.AcModeControl, abil.AcFanSpeedControl
    out = [a.ac_number] + f_bytes(a.ac_name) + [a.start_zone, a.zone_count]
    out += [int(a.ac_mode_support[m]) for m in (M.AUTO, M.HEAT, M.DRY, M.FAN, M.COOL)]
    out += [int(a.fan_speed_support[f]) for f in (F.AUTO, F.QUIET, F.LOW, F.MEDIUM, F.HIGH, F.POWERFUL, F.TURBO,
                                                  F.INTELLIGENT_AUTO)]
    out += [a.min_cool_set_point, a.max_cool_set_point, a.min_heat_set_point, a.max_heat_set_point]
    return out


def flatten(m) -> list[int]:
    if isinstance(m, c0.ControlStatusMessage):
        s = m.sub_message
        if isinstance(s, zc.ZoneControlMessage):
            out = [2, 1, len(s.zone_control)]
            for z in s.zone_control:
                st = z.zone_setting
                if st is None:
                    f = [0, 0]
                elif isinstance(st, zc.ZoneIncreaseDecrease):
                    f = [1, 0] if st == zc.ZoneIncreaseDecrease.DECREASE else [2, 0]
                elif isinstance(st, zc.ZoneDamperControl):
                    f = [3, st.open_percentage]
                else:
                    f = [4, tenths(st.set_point)]
                out += [z.zone_number, z.zone_power.value] + f
            return out
        if isinstance(s, zs.ZoneStatusMessage):
            out = [2, 2, len(s.zones)]
            for z in s.zones:
                out += [z.zone_number, z.power_state.value, int(z.spill_active), z.control_method.value,
                        int(z.has_sensor), z.battery_status.value] + f_optf(z.temperature) + [z.damper_percentage]
                out += f_optf(z.set_point)
            return out
        if isinstance(s, zs.ZoneStatusRequest):
            return [2, 3]
        if isinstance(s, ac.AcControlMessage):
            out = [2, 4, len(s.ac_control)]
            for a in s.ac_control:
                out += [a.ac_number, a.power.value, a.mode.value, a.fan_speed.value] + f_optf(a.set_point)
            return out
        if isinstance(s, acs.AcStatusMessage):
            out = [2, 5, len(s.ac_status)]
            for a in s.ac_status:
                out += [a.ac_number, a.power_state.value, a.mode.value, a.fan_speed.value, int(a.turbo_active),
                        int(a.bypass_active), int(a.spill_active), int(a.timer_set), tenths(a.set_point),
                        tenths(a.temperature), a.error_code]
            return out
        if isinstance(s, acs.AcStatusRequest):
            return [2, 6]
        if isinstance(s, tc.AcTimerControlMessage):
            return [2, 7, len(s.ac_timer_status)] + [x for t in s.ac_timer_status for x in f_timer(t)]
        if isinstance(s, tst.AcTimerStatusMessage):
            return [2, 8, len(s.ac_timer_status)] + [x for t in s.ac_timer_status for x in f_timer(t)]
        if isinstance(s, tst.AcTimerStatusRequest):
            return [2, 9]
        if isinstance(s, comms.UnsupportedMessage):
            return [2, 10, s.unsupported_id] + f_bytes(s.raw_data)
    if isinstance(m, ext.ExtendedMessage):
        s = m.sub_message
        if isinstance(s, err.AcErrorInformationMessage):
            return [1, 1, s.ac_number] + ([0, 0] if s.error_info is None else [1] + f_bytes(s.error_info))
        if isinstance(s, err.AcErrorInformationRequest):
            return [1, 2, s.ac_number]
        if isinstance(s, abil.AcAbilityMessage):
            return [1, 3, len(s.ac_abilities)] + [x for a in s.ac_abilities for x in f_ability(a)]
        if isinstance(s, abil.AcAbilityRequest):
            return [1, 4] + f_all_or(s.ac_number)
        if isinstance(s, names.ZoneNamesMessage):
            out = [1, 5, len(s.zone_names)]
            for k, v in s.zone_names.items():
                out += [k] + f_bytes(v)
            return out
        if isinstance(s, names.ZoneNamesRequest):
            return [1, 6] + f_all_or(s.zone_number)
        if isinstance(s, qt.QuickTimerMessage):
            secs = s.duration.total_seconds()
            if secs < 0 or secs != int(secs) or int(secs) % 60:
                raise NotFlat("duration is not a whole number of minutes")
            mins = int(secs) // 60
            return [1, 7, s.ac_number, s.timer_type.value, mins // 60, mins % 60]
        if isinstance(s, ver.ConsoleVersionMessage):
            out = [1, 8, int(s.update_available), len(s.versions)]
            for v in s.versions:
                out += f_bytes(v)
            return out
        if isinstance(s, ver.ConsoleVersionRequest):
            return [1, 9]
        if isinstance(s, comms.UnsupportedMessage):
            return [1, 10, s.unsupported_id] + f_bytes(s.raw_data)
    if isinstance(m, comms.UnsupportedMessage):
        return [3, m.unsupported_id] + f_bytes(m.raw_data)
    raise NotFlat(type(m).__name__)


# ------------------------------------------------------------------------ generators
def rand_sp(rng, wild=False):
    """A set-point k/10 (AT5: 10.0 .. 35.4 degC is what a byte can carry)."""
    d = rng.choice([100, 354, 101, 250, 215, rng.randrange(100, 355)])
    if wild:
        d = rng.choice([d, 99, 355, 356, 0, 50, 400])
    return d / 10.0


def rand_temp(rng, lo=-500, hi=1547):
    d = rng.choice([lo, hi, 0, 1, -1, 215, 1000, 1500, 1501, rng.randrange(lo, hi + 1)])
    return d / 10.0


def gen_message(rng: random.Random, kind: int | None = None, in_domain: bool = True):
    """A random message of one of the 18 AT5 classes (kind 0..17)."""
    k = rng.randrange(18) if kind is None else kind
    wild = (not in_domain) and rng.random() < 0.5

    def small(n):
        return rng.choice([0, n - 1, rng.randrange(n)]) if not wild else rng.choice([n, 255, 256, 300, rng.randrange(n)])

    def count(hi=16):
        return rng.choice([0, 1, 1, 2, 5, hi])

    if k == 0:
        out = []
        for _ in range(rng.choice([0, 1, 1, 2, 16])):
            setting = rng.choice([None, zc.ZoneIncreaseDecrease.INCREASE, zc.ZoneIncreaseDecrease.DECREASE,
                                  zc.ZoneDamperControl(small(101)), zc.ZoneSetPointControl(rand_sp(rng, wild))])
            out.append(zc.ZoneControlData(small(16), rng.choice(list(zc.ZonePowerControl)), setting))
        return c0.ControlStatusMessage(zc.ZoneControlMessage(out))
    if k == 1:
        zones = []
        for _ in range(count()):
            sensor = rng.random() < 0.6
            temp = None
            if sensor or wild:
                temp = rng.choice([None, rand_temp(rng, -500, 1500), rand_temp(rng, -500, 1500),
                                   rand_temp(rng) if not in_domain else 21.5])
            zones.append(zs.ZoneStatusData(
                small(16), rng.choice(list(zs.ZonePowerState)), rng.random() < 0.5, rng.choice(list(zs.ZoneControlMethod)),
                sensor, rng.choice(list(zs.SensorBatteryStatus)), temp, small(101),
                rng.choice([None, rand_sp(rng, wild)])))
        return c0.ControlStatusMessage(zs.ZoneStatusMessage(zones))
    if k == 2:
        return c0.ControlStatusMessage(zs.ZoneStatusRequest())
    if k == 3:
        return c0.ControlStatusMessage(ac.AcControlMessage([
            ac.AcControlData(small(16 if rng.random() < 0.5 else 4), rng.choice(list(ac.AcPowerControl)),
                             rng.choice(list(ac.AcModeControl)), rng.choice(list(ac.AcFanSpeedControl)),
                             rng.choice([None, rand_sp(rng, wild)]))
            for _ in range(rng.choice([0, 1, 1, 2, 8]))]))
    if k == 4:
        return c0.ControlStatusMessage(acs.AcStatusMessage([acs.AcStatusData(
            small(16 if rng.random() < 0.5 else 4), rng.choice(list(acs.AcPowerState)), rng.choice(list(acs.AcMode)),
            rng.choice(list(acs.AcFanSpeed)), rng.random() < 0.5, rng.random() < 0.5, rng.random() < 0.5,
            rng.random() < 0.5, rand_sp(rng, wild), rand_temp(rng),
            rng.choice([0, 1, 0xFFFE, 0xFFFF, rng.randrange(65536)]) if not wild else 70000)
            for _ in range(rng.choice([0, 1, 1, 2, 4, 8]))]))
    if k == 5:
        return c0.ControlStatusMessage(acs.AcStatusRequest())
    if k in (6, 7):
        cls = tc.AcTimerControlMessage if k == 6 else tst.AcTimerStatusMessage
        return c0.ControlStatusMessage(cls([
            tst.AcTimerStatusData(small(16 if rng.random() < 0.5 else 4),
                                  tst.AcTimerState(rng.random() < 0.5, small(24), small(60)),
                                  tst.AcTimerState(rng.random() < 0.5, small(24), small(60)))
            for _ in range(rng.choice([0, 1, 1, 2, 4, 8]))]))
    if k == 8:
        return c0.ControlStatusMessage(tst.AcTimerStatusRequest())
    if k == 9:
        info = rng.choice([None, "ER: FFFE", rand_name(rng, 40), "x" * 255])
        if not in_domain and rng.random() < 0.3:
            info = rng.choice(["", "y" * 256])
        return ext.ExtendedMessage(err.AcErrorInformationMessage(small(8), info))
    if k == 10:
        return ext.ExtendedMessage(err.AcErrorInformationRequest(small(8)))
    if k == 11:
        M, F = abil.AcModeControl, abil.AcFanSpeedControl
        abs_ = []
        for _ in range(rng.choice([1, 1, 2, 4, 8])):
            ms = {m: rng.random() < 0.6 for m in (M.AUTO, M.HEAT, M.DRY, M.FAN, M.COOL)}
            ms[M.UNCHANGED] = True
            fs = {f: rng.random() < 0.6 for f in (F.AUTO, F.QUIET, F.LOW, F.MEDIUM, F.HIGH, F.POWERFUL, F.TURBO,
                                                   F.INTELLIGENT_AUTO)}
            fs[F.UNCHANGED] = True
            abs_.append(abil.AcAbility(small(8), rand_name(rng, 16 if in_domain else 20, over=not in_domain), small(16), small(17), ms, fs,
                                       small(33), small(33), small(33), small(33)))
        return ext.ExtendedMessage(abil.AcAbilityMessage(abs_))
    if k == 12:
        return ext.ExtendedMessage(abil.AcAbilityRequest(rng.choice(["ALL", small(8)])))
    if k == 13:
        n = rng.choice([1, 2, 5, 16])
        keys = rng.sample(range(16), n) if in_domain else [small(16) for _ in range(n)]
        d = {g: rand_name(rng, 40) for g in keys}
        if rng.random() < 0.1:
            d[keys[0]] = "z" * (255 if in_domain else 256)
        return ext.ExtendedMessage(names.ZoneNamesMessage(d))
    if k == 14:
        return ext.ExtendedMessage(names.ZoneNamesRequest(rng.choice(["ALL", small(16)])))
    if k == 15:
        dur = datetime.timedelta(hours=small(24), minutes=small(60))
        if not in_domain and rng.random() < 0.4:
            dur = datetime.timedelta(hours=rng.choice([24, 30]), minutes=3, seconds=rng.choice([0, 30]))
        return ext.ExtendedMessage(qt.QuickTimerMessage(small(8), rng.choice(list(qt.TimerType)), dur))
    if k == 16:
        vs = [rng.choice(["1.2.3", "1.0", "v2", "", "a|b"]) for _ in range(rng.choice([1, 1, 2, 3]))]
        return ext.ExtendedMessage(ver.ConsoleVersionMessage(rng.random() < 0.5, vs))
    return ext.ExtendedMessage(ver.ConsoleVersionRequest())


# ------------------------------------------------------------------------ the real codec
def impl_encode(m):
    try:
        enc = REG.get_encoder(m.message_id)
        size = enc.size(m)
        header = REG.header_factory.create_from_message(m, size)
        payload = bytes(enc.encode(header, m))
        return ("ok", size, payload, header)
    except Exception as ex:  # noqa: BLE001
        return ("exc", type(ex).__name__)


def impl_decode(mtype: int, payload: bytes, to=0xB0, frm=0x80, pid=1):
    header = hdr5.At5Header(to, frm, pid, mtype, len(payload))
    try:
        res = REG.get_decoder(mtype).decode(payload, header)
        res.assert_complete()
        return ("ok", res.message)
    except Exception as ex:  # noqa: BLE001
        return ("exc", type(ex).__name__)


NKINDS = 18
