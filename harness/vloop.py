"""Virtual-time asyncio event loop with a simulated network.

The loop is a SelectorEventLoop whose selector never blocks: ``select(timeout)``
moves a virtual clock forward to the next timer and returns no I/O events.  TCP
connections and datagram endpoints are replaced by in-memory transports whose callback
order mimics asyncio's selector transports where the client code can observe it.

Time is kept in *ticks* of 2**-10 s on the harness side; the loop clock is
``ticks / 1024`` so that every instant the harness produces is an exact binary float.
"""

from __future__ import annotations

import asyncio
import selectors
from typing import Any, Callable, Optional

TICK = 1.0 / 1024.0


class Deadlock(RuntimeError):
    """The loop was asked to block for ever with nothing scheduled."""


class _VSelector(selectors.BaseSelector):
    def __init__(self, loop: "VLoop") -> None:
        self._loop = loop
        self._map: dict[Any, selectors.SelectorKey] = {}

    def register(self, fileobj, events, data=None):
        fd = fileobj if isinstance(fileobj, int) else fileobj.fileno()
        key = selectors.SelectorKey(fileobj, fd, events, data)
        self._map[fd] = key
        return key

    def unregister(self, fileobj):
        fd = fileobj if isinstance(fileobj, int) else fileobj.fileno()
        return self._map.pop(fd)

    def modify(self, fileobj, events, data=None):
        self.unregister(fileobj)
        return self.register(fileobj, events, data)

    def select(self, timeout=None):
        if timeout is None:
            raise Deadlock("select(None) with nothing scheduled")
        if timeout > 0:
            self._loop._vnow += timeout
        return []

    def get_map(self):
        return self._map

    def close(self):
        self._map.clear()


class VLoop(asyncio.SelectorEventLoop):
    """SelectorEventLoop on a virtual clock with a simulated network."""

    def __init__(self) -> None:
        self._vnow = 0.0
        super().__init__(_VSelector(self))
        self.net: Optional["SimNet"] = None
        self.unhandled: list[dict] = []
        self.set_exception_handler(lambda loop, ctx: self.unhandled.append(ctx))

    def time(self) -> float:
        return self._vnow

    creep = 0.0      # optional: virtual seconds that pass per loop iteration (time normally stands still while callbacks run)

    def _run_once(self):
        if self.creep:
            self._vnow += self.creep
        super()._run_once()

    # -- TCP ---------------------------------------------------------------------
    async def create_connection(self, protocol_factory, host=None, port=None, **kw):
        assert self.net is not None
        return await self.net.dial(self, protocol_factory, host, port)

    # -- UDP ---------------------------------------------------------------------
    async def create_datagram_endpoint(self, protocol_factory, local_addr=None,
                                       remote_addr=None, *, sock=None, **kw):
        assert self.net is not None
        if sock is not None:
            with_sock = sock
            try:
                with_sock.close()
            except OSError:
                pass
        protocol = protocol_factory()
        transport = SimDatagramTransport(self, protocol, self.net, kw)
        self.net.udp_endpoints.append(transport)
        protocol.connection_made(transport)
        return transport, protocol

    # -- helpers -----------------------------------------------------------------
    def settle(self, max_turns: int = 400) -> int:
        """Run loop iterations without advancing time until nothing is ready."""
        turns = 0
        while self._ready:
            self.call_soon(self.stop)
            self.run_forever()
            turns += 1
            if turns > max_turns:
                raise RuntimeError("loop does not settle")
        return turns

    def next_timer(self) -> Optional[float]:
        live = [h._when for h in self._scheduled if not h._cancelled]
        return min(live) if live else None

    def advance_to(self, t_end: float) -> None:
        """Advance virtual time to t_end, firing timers in order on the way."""
        self.settle()
        while True:
            nt = self.next_timer()
            if nt is None or nt > t_end:
                break
            if nt > self._vnow:
                self._vnow = nt
            # fire everything due now
            self.call_soon(self.stop)
            self.run_forever()
            self.settle()
        if t_end > self._vnow:
            self._vnow = t_end
        self.settle()

    def timers_at(self, t: float) -> int:
        return sum(1 for h in self._scheduled if not h._cancelled and h._when == t)

    def live_timers(self) -> int:
        return sum(1 for h in self._scheduled if not h._cancelled)


class SimConn:
    """One simulated TCP connection as seen from the network side."""

    def __init__(self, cid: int, net: "SimNet") -> None:
        self.cid = cid
        self.net = net
        self.out = bytearray()        # bytes the client wrote
        self.writes: list[bytes] = []  # each transport.write() call
        self.client_closed = False     # client called close()/abort()
        self.lost = False              # connection_lost delivered / scheduled
        self.transport: Optional["SimTransport"] = None


_LOG_STATE = {"n": 0}


def log_debug(on) -> None:
    """The library's DEBUG-only code paths (frame dumps in the socket) are part of the code under check: rigs run
    with the package logger at DEBUG (records go to a null handler) or with logging disabled.  on=None alternates."""
    import logging
    if on is None:
        _LOG_STATE["n"] += 1
        on = _LOG_STATE["n"] % 2 == 0
    lg = logging.getLogger("pyairtouch")
    _LOG_STATE["on"] = bool(on)
    if on:
        logging.disable(logging.NOTSET)
        if not any(isinstance(h, logging.NullHandler) for h in lg.handlers):
            lg.addHandler(logging.NullHandler())
        lg.propagate = False
        lg.setLevel(logging.DEBUG)
    else:
        lg.setLevel(logging.WARNING)
        logging.disable(logging.CRITICAL)


class SimTransport(asyncio.Transport):
    def __init__(self, loop: VLoop, protocol, conn: SimConn) -> None:
        super().__init__()
        self._loop = loop
        self._protocol = protocol
        self.conn = conn
        self._closing = False
        self._conn_lost = 0
        self._paused = False
        self._peer_eof = False
        conn.transport = self

    # asyncio.Transport API used by streams
    def get_extra_info(self, name, default=None):
        return default

    def is_closing(self) -> bool:
        return self._closing

    def set_protocol(self, protocol):
        self._protocol = protocol

    def get_protocol(self):
        return self._protocol

    def pause_reading(self):
        self._paused = True

    def resume_reading(self):
        self._paused = False

    def is_reading(self):
        return not self._paused and not self._closing

    def set_write_buffer_limits(self, high=None, low=None):
        pass

    def get_write_buffer_size(self):
        return 0

    def get_write_buffer_limits(self):
        return (0, 0)

    def can_write_eof(self):
        return True

    def write_eof(self):
        pass

    def write(self, data) -> None:
        data = bytes(data)
        if self._conn_lost:
            self._conn_lost += 1
            return
        if not data:
            return
        conn = self.conn
        if conn.net.fail_next_write:
            conn.net.fail_next_write = False
            conn.net.event(("wfail", conn.cid, data))
            self._force_close(conn.net.next_error("simulated write failure"))
            return
        conn.out += data
        conn.writes.append(data)
        conn.net.on_client_bytes(conn)

    def close(self) -> None:
        hook, self.conn.net.on_client_close = self.conn.net.on_client_close, None
        if hook is not None:
            hook(self.conn)
        if self._closing:
            if not self.conn.client_closed and not getattr(self.conn, "dead_close_seen", False):
                # the client lets go of a connection that is already dead (first time only): the start of its tear-down
                self.conn.dead_close_seen = True
                self.conn.net.event(("deadclose", self.conn.cid))
            return
        self._closing = True
        self.conn.client_closed = True
        self.conn.net.event(("close", self.conn.cid))
        self._conn_lost += 1
        delay = self.conn.net.close_delay_ticks
        if delay:
            # the peer takes a moment to finish closing: wait_closed() stays suspended meanwhile
            self._loop.call_later(delay * TICK, self._call_connection_lost, None)
        else:
            self._loop.call_soon(self._call_connection_lost, None)

    def abort(self) -> None:
        if self._conn_lost:
            return
        self.conn.client_closed = True
        self.conn.net.event(("close", self.conn.cid))
        self._force_close(None)

    def _force_close(self, exc) -> None:
        if self._conn_lost:
            return
        self._closing = True
        self._conn_lost += 1
        self._loop.call_soon(self._call_connection_lost, exc)

    def _call_connection_lost(self, exc) -> None:
        self.conn.lost = True
        try:
            self._protocol.connection_lost(exc)
        finally:
            pass

    # network side
    def peer_bytes(self, data: bytes) -> None:
        if self._closing or self._conn_lost or self._peer_eof:
            return
        self._protocol.data_received(data)

    def peer_eof(self) -> None:
        if self._closing or self._conn_lost or self._peer_eof:
            return
        self._peer_eof = True
        keep_open = self._protocol.eof_received()
        if not keep_open:
            self.close_from_peer()

    def close_from_peer(self) -> None:
        # what _SelectorSocketTransport does when eof_received() returns falsy
        if self._closing:
            return
        self._closing = True
        self._conn_lost += 1
        self._loop.call_soon(self._call_connection_lost, None)

    def peer_reset(self) -> None:
        if self._conn_lost:
            return
        self._force_close(self.conn.net.next_error("simulated peer reset"))


class SimDatagramTransport(asyncio.DatagramTransport):
    def __init__(self, loop: VLoop, protocol, net: "SimNet", kw) -> None:
        super().__init__()
        self._loop = loop
        self._protocol = protocol
        self.net = net
        self.kw = kw
        self.closed = False
        self.sent: list[tuple[float, bytes, Any]] = []

    def sendto(self, data, addr=None):
        if self.closed:
            return
        self.sent.append((self._loop.time(), bytes(data), addr))
        self.net.event(("udp_send", bytes(data), addr))

    def close(self):
        if self.closed:
            return
        self.closed = True
        self._loop.call_soon(self._protocol.connection_lost, None)

    def abort(self):
        self.close()

    def is_closing(self):
        return self.closed

    def get_extra_info(self, name, default=None):
        return default

    def deliver(self, data: bytes, addr) -> None:
        if not self.closed:
            self._protocol.datagram_received(data, addr)


class SimNet:
    """Scripted network: decides dial outcomes, records everything the client does."""

    def __init__(self, loop: VLoop) -> None:
        self.loop = loop
        loop.net = self
        self.accept = True
        self.latency_ticks = 1
        self.fail_next_write = False   # the next transport.write() on any connection fails
        self.refuse_next = 0           # this many connection attempts fail although `accept` is on
        self.close_delay_ticks = 0     # a close() by the client completes (connection_lost) this much later
        self.events: list[tuple] = []
        self.conns: list[SimConn] = []
        self._live: list[SimConn] = []          # connections not yet seen dead (pruned lazily: long runs open 10^5)
        self.udp_endpoints: list[SimDatagramTransport] = []
        self.dials = 0
        self.on_bytes: Optional[Callable[[SimConn], None]] = None
        self.on_open: Optional[Callable[[SimConn], None]] = None
        self.on_client_close: Optional[Callable[[SimConn], None]] = None   # the client called transport.close()

    def event(self, ev: tuple) -> None:
        self.events.append(ev)

    # the OS reports a dead connection in many ways: not only ConnectionError subclasses
    ERRORS = (
        lambda m: ConnectionResetError(m),
        lambda m: OSError(113, "No route to host (" + m + ")"),          # EHOSTUNREACH
        lambda m: BrokenPipeError(m),
        lambda m: TimeoutError(110, "Connection timed out (" + m + ")"),  # ETIMEDOUT
        lambda m: ConnectionAbortedError(m),
        lambda m: OSError(101, "Network is unreachable (" + m + ")"),     # ENETUNREACH
    )

    def next_error(self, msg: str) -> OSError:
        """the exception a failing connection reports; cycles through the classes above"""
        self.error_index = getattr(self, "error_index", -1) + 1
        return self.ERRORS[self.error_index % len(self.ERRORS)](msg)

    # ... and a connection attempt fails in many ways too (the first of a run is the classic refusal)
    DIAL_ERRORS = (
        lambda: ConnectionRefusedError("simulated refusal"),
        lambda: OSError(113, "No route to host (simulated)"),               # EHOSTUNREACH
        lambda: TimeoutError(110, "Connection timed out (simulated)"),      # ETIMEDOUT
        lambda: OSError(101, "Network is unreachable (simulated)"),         # ENETUNREACH
        lambda: __import__("socket").gaierror(-3, "Temporary failure in name resolution (simulated)"),
        lambda: ConnectionRefusedError("simulated refusal"),
        lambda: ConnectionAbortedError("simulated abort during the handshake"),
    )

    def next_dial_error(self) -> OSError:
        self.dial_error_index = getattr(self, "dial_error_index", -1) + 1
        return self.DIAL_ERRORS[self.dial_error_index % len(self.DIAL_ERRORS)]()

    def take_events(self) -> list[tuple]:
        evs, self.events = self.events, []
        return evs

    def on_client_bytes(self, conn: SimConn) -> None:
        if self.on_bytes:
            self.on_bytes(conn)

    async def dial(self, loop: VLoop, protocol_factory, host, port):
        self.dials += 1
        self.event(("dial", host, port))
        latency = self.latency_ticks
        await asyncio.sleep(latency * TICK)
        if not self.accept or self.refuse_next > 0:
            if self.refuse_next > 0:
                self.refuse_next -= 1
            self.event(("refused",))
            raise self.next_dial_error()
        conn = SimConn(len(self.conns), self)
        self.conns.append(conn)
        self._live.append(conn)
        protocol = protocol_factory()
        transport = SimTransport(loop, protocol, conn)
        self.event(("open", conn.cid))
        protocol.connection_made(transport)
        if self.on_open:
            self.on_open(conn)
        return transport, protocol

    # conveniences
    def live_conns(self) -> list[SimConn]:
        self._live = [c for c in self._live if not c.client_closed and not c.lost]
        return list(self._live)

    def current(self) -> Optional[SimConn]:
        live = self.live_conns()
        return live[-1] if live else None


_REAL_TIME = None


def erratic_wall_clock() -> None:
    """The client's timing is specified on the event loop's clock.  The wall clock may step (NTP, a user setting the
    date): rigs run with time.time() jumping by hours in both directions between calls, so that any dependence on
    it shows.  (The harness itself measures with time.perf_counter.)"""
    global _REAL_TIME
    import time
    if _REAL_TIME is not None:
        return
    _REAL_TIME = time.time
    state = {"n": 0, "off": 0.0}

    def fake():
        state["n"] += 1
        state["off"] += (3600.0, -1800.0, 0.001, 86400.0, -90000.0)[state["n"] % 5]
        return _REAL_TIME() + state["off"]
    time.time = fake


def new_loop() -> tuple[VLoop, SimNet]:
    import os
    erratic_wall_clock()
    forced = os.environ.get("VERIF_DEBUGLOG")
    log_debug(None if forced is None else forced == "1")
    loop = VLoop()
    net = SimNet(loop)
    return loop, net


def run(loop: VLoop, coro):
    """Run a coroutine to completion on the virtual loop (timers fire as needed)."""
    return loop.run_until_complete(coro)
