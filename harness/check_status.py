"""Check C05 (status frames are interpreted as the vendor protocol defines).

  python -m harness.check_status C05 --tier quick|thorough

Instruments: (1) the theorems of coq/props/C05.v (decoder model = transcription of the
vendor documents, for every byte value of every record layout); (2) correspondence of the
decoder models with the package's public decoders: exhaustive per byte position (quick)
and per adjacent byte pair (thorough) over several backgrounds, all 11-bit temperature
values, random records with random strides and counts, generated and mutated strings;
(3) the monitor: the public decoder's result compared field by field with the reading of
the same bytes by the extracted Spec4/Spec5 (model case 40).
"""

from __future__ import annotations

import argparse
import json
import random
import sys
from collections import Counter

from . import codec_tie, common

SPEC = 40
VAL, NA, UNDEF = 0, 1, 2


# ------------------------------------------------------------------ payload builders
def c0(sub: int, stride: int, count: int, body: bytes, nrl: int = 0) -> bytes:
    return bytes([sub, 0, nrl >> 8, nrl & 255, stride >> 8, stride & 255, count >> 8, count & 255]) + body


LAYOUTS = {
    # name: (gen, message type, record size, payload builder from one record, spec layout id)
    "at4_group_status": (4, 0x2B, 6, lambda r: r, 1),
    "at4_ac_status": (4, 0x2D, 8, lambda r: r, 2),
    "at5_zone_status": (5, 0xC0, 8, lambda r: c0(0x21, len(r), 1, r), 3),
    "at5_ac_status": (5, 0xC0, 10, lambda r: c0(0x23, len(r), 1, r), 4),
    "at4_ability_old": (4, 0x1F, 24, lambda r: b"\xff\x11" + r, 5),
    "at4_ability_new": (4, 0x1F, 26, lambda r: b"\xff\x11" + r, 5),
    "at5_ability": (5, 0x1F, 26, lambda r: b"\xff\x11" + r, 6),
    "at4_group_name": (4, 0x1F, 9, lambda r: b"\xff\x12" + r, 7),
}

BACKGROUNDS = {
    "at4_group_status": [bytes.fromhex("41e41a806180"), bytes.fromhex("000000800000"), bytes.fromhex("cf7fbf80ff10")],
    "at4_ac_status": [bytes.fromhex("40421a0061800000"), bytes.fromhex("0000000000000000"), bytes.fromhex("4396ff00fee0fffe")],
    "at5_zone_status": [bytes.fromhex("4080968002e70000"), bytes.fromhex("0000ff800000037f"), bytes.fromhex("cfe4fa8007d003ff")],
    "at5_ac_status": [bytes.fromhex("101278c002da00000000"), bytes.fromhex("00000000000000008000"), bytes.fromhex("5f9efacf07d0fffe1234")],
    "at4_ability_old": [bytes.fromhex("0016554e49540000000000000000000000000004171d111f"),
                        bytes.fromhex("0316c3bc6e69746e616d6531323334353600100c1f7f0020")],
    "at4_ability_new": [bytes.fromhex("0018554e49540000000000000000000000000004171d111f0700"),
                        bytes.fromhex("0318e5ad90e4be9be983a8e5b18b000000000210157f1420ffff")],
    "at5_ability": [bytes.fromhex("0018554e49540000000000000000000000000004171d101f121f"),
                    bytes.fromhex("0f18c39c6e69746e616d653132333435360f10ff1f10201220ff"[:52])],
    "at4_group_name": [bytes.fromhex("004c6976696e670000"), bytes.fromhex("0fc3bc6265723132e9")],
}


def impl_record(name: str, rec: bytes):
    """Public decoder on a one-record payload -> ('ok', record object) | ('exc', class)"""
    gen, mtype, _, build, _ = LAYOUTS[name]
    c = codec_tie.codec(gen)
    d = c.impl_decode(mtype, build(bytes(rec)))
    if d[0] != "ok":
        return d
    m = d[1]
    sub = getattr(m, "sub_message", m)
    for attr in ("groups", "ac_status", "zones", "ac_abilities"):
        if hasattr(sub, attr):
            seq = getattr(sub, attr)
            return ("ok", seq[0]) if len(seq) == 1 else ("exc", f"{len(seq)} records")
    if hasattr(sub, "group_names"):
        items = list(sub.group_names.items())
        return ("ok", items[0]) if len(items) == 1 else ("exc", f"{len(items)} names")
    return ("exc", "unexpected " + type(sub).__name__)


def tenths(x):
    return None if x is None else round(x * 10)


def exact_tenths(x, d) -> bool:
    """the decoder's float is the double nearest to d/10"""
    return x is not None and x == d / 10.0


def take_reading(it):
    tag, v = next(it), next(it)
    return tag, v


def compare(name: str, rec: bytes, obj, spec: list[int]) -> list[tuple[str, str]]:
    """-> list of (trigger class, description); obj is the decoded record or an exception tuple"""
    out = []
    it = iter(spec)
    rejected = obj[0] != "ok"
    o = obj[1] if not rejected else None

    def field(label, impl_val, spec_val):
        if not rejected and impl_val != spec_val:
            out.append((f"{name}:{label}", f"{label}: decoder {impl_val!r}, document {spec_val!r}"))

    def enum_field(label, get, allow_reject=True):
        tag, code = take_reading(it)
        if tag != VAL:
            enum_field.undefined = True
            if not rejected:
                out.append((f"{name}:{label}", f"{label}: document says {'not available' if tag == NA else 'undefined'}, "
                                               f"decoder returned {get()!r}"))
        elif not rejected and get().value != code:
            out.append((f"{name}:{label}", f"{label}: decoder {get()!r}, document code {code}"))
    enum_field.undefined = False

    def temp_field(label, impl_val, sensor=True, na_class=None):
        tag, d = take_reading(it)
        if rejected:
            return
        if tag == VAL:
            if sensor:
                if not exact_tenths(impl_val, d):
                    out.append((f"{name}:{label}", f"{label}: decoder {impl_val!r}, document {d / 10.0}"))
            elif impl_val is not None and not exact_tenths(impl_val, d):
                out.append((f"{name}:{label}", f"{label}: decoder {impl_val!r}, document {d / 10.0}"))
        else:
            if impl_val is not None:
                out.append((na_class or f"{name}:{label}",
                            f"{label}: document says not available, decoder returned {impl_val!r}"))

    if name == "at4_group_status":
        field("group number", o and o.group_number, next(it))
        enum_field("power", lambda: o.power_state)
        field("control method", o and o.control_method.value, next(it))
        field("open percentage", o and o.damper_percentage, next(it))
        field("battery low", o and o.battery_status.value, next(it))
        field("turbo support", o and int(o.supports_turbo), next(it))
        sp = next(it)
        sensor = next(it)
        field("sensor", o and int(o.has_sensor), sensor)
        if not rejected:
            want = sp if sensor else None
            if o.set_point != want:
                out.append((f"{name}:set point", f"set point: decoder {o.set_point!r}, document {want!r} (sensor={sensor})"))
        temp_field("temperature", o and o.temperature, sensor=bool(sensor))
        if not rejected and not sensor and o.temperature is not None:
            out.append((f"{name}:temperature", "temperature reported for a group without sensor"))
        field("spill", o and int(o.spill_active), next(it))
    elif name == "at4_ac_status":
        field("AC number", o and o.ac_number, next(it))
        enum_field("power", lambda: o.power_state)
        enum_field("mode", lambda: o.mode)
        enum_field("fan speed", lambda: o.fan_speed)
        field("spill", o and int(o.spill_active), next(it))
        field("timer", o and int(o.timer_set), next(it))
        field("set point", o and o.set_point, next(it))
        temp_field("temperature", o and o.temperature, na_class="at4-ac-temp-ff")
        field("error code", o and o.error_code, next(it))
    elif name == "at5_zone_status":
        field("zone index", o and o.zone_number, next(it))
        enum_field("power", lambda: o.power_state)
        field("control method", o and o.control_method.value, next(it))
        field("open percentage", o and o.damper_percentage, next(it))
        temp_field("set point", o and o.set_point)
        sensor = next(it)
        field("sensor", o and int(o.has_sensor), sensor)
        temp_field("temperature", o and o.temperature, sensor=bool(sensor))
        if not rejected and not sensor and o.temperature is not None:
            out.append((f"{name}:temperature", "temperature reported for a zone without sensor"))
        field("spill", o and int(o.spill_active), next(it))
        field("low battery", o and o.battery_status.value, next(it))
    elif name == "at5_ac_status":
        field("AC index", o and o.ac_number, next(it))
        enum_field("power", lambda: o.power_state)
        enum_field("mode", lambda: o.mode)
        enum_field("fan speed", lambda: o.fan_speed)
        temp_field("set point", o and o.set_point, na_class="at5-ac-setpoint-na")
        field("turbo", o and int(o.turbo_active), next(it))
        field("bypass", o and int(o.bypass_active), next(it))
        field("spill", o and int(o.spill_active), next(it))
        field("timer", o and int(o.timer_set), next(it))
        temp_field("temperature", o and o.temperature, na_class="at5-ac-temp-na")
        field("error code", o and o.error_code, next(it))
    elif name in ("at4_ability_old", "at4_ability_new"):
        import pyairtouch.at4.comms.x1FFF11_ac_ability as ab
        M, F = ab.AcModeControl, ab.AcFanSpeedControl
        field("AC number", o and o.ac_number, next(it))
        next(it)  # following length
        n = next(it)
        nm = bytes(next(it) for _ in range(n))
        bad_utf8 = False
        try:
            nm.decode()
        except UnicodeDecodeError:
            bad_utf8 = True
        if not rejected:
            field("name", o.ac_name.encode(), nm)
        field("start group", o and o.start_group, next(it))
        field("group count", o and o.group_count, next(it))
        field("modes", o and [int(o.ac_mode_support[m]) for m in (M.AUTO, M.HEAT, M.DRY, M.FAN, M.COOL)], [next(it) for _ in range(5)])
        field("fan speeds", o and [int(o.fan_speed_support[f]) for f in (F.AUTO, F.QUIET, F.LOW, F.MEDIUM, F.HIGH, F.POWERFUL, F.TURBO)],
              [next(it) for _ in range(7)])
        field("min set point", o and o.min_set_point, next(it))
        field("max set point", o and o.max_set_point, next(it))
        has = next(it)
        k = next(it)
        gs = [next(it) for _ in range(k)]
        if not rejected:
            field("groups", None if o.groups is None else sorted(o.groups), gs if has else None)
        # the record length follows from the "following data length" byte (22 -> 24 bytes, 24 -> 26 bytes);
        # a record whose length contradicts it is not one the document describes
        inconsistent = (len(rec) == 24 and rec[1] == 24) or (len(rec) == 26 and rec[1] != 24)
        if rejected and not bad_utf8 and not inconsistent:
            out.append((f"{name}:rejected", f"decoder rejected ({obj[1]}) a record the document defines"))
        return out
    elif name == "at5_ability":
        import pyairtouch.at5.comms.x1FFF11_ac_ability as ab
        M, F = ab.AcModeControl, ab.AcFanSpeedControl
        field("AC index", o and o.ac_number, next(it))
        n = next(it)
        nm = bytes(next(it) for _ in range(n))
        bad_utf8 = False
        try:
            nm.decode()
        except UnicodeDecodeError:
            bad_utf8 = True
        if not rejected:
            field("name", o.ac_name.encode(), nm)
        field("start zone", o and o.start_zone, next(it))
        field("zone count", o and o.zone_count, next(it))
        field("modes", o and [int(o.ac_mode_support[m]) for m in (M.AUTO, M.HEAT, M.DRY, M.FAN, M.COOL)], [next(it) for _ in range(5)])
        field("fan speeds", o and [int(o.fan_speed_support[f]) for f in (F.AUTO, F.QUIET, F.LOW, F.MEDIUM, F.HIGH, F.POWERFUL,
                                                                          F.TURBO, F.INTELLIGENT_AUTO)], [next(it) for _ in range(8)])
        for lab, attr in (("min cool", "min_cool_set_point"), ("max cool", "max_cool_set_point"),
                          ("min heat", "min_heat_set_point"), ("max heat", "max_heat_set_point")):
            field(lab, o and getattr(o, attr), next(it))
        if rejected and not bad_utf8:
            out.append((f"{name}:rejected", f"decoder rejected ({obj[1]}) a record the document defines"))
        return out
    elif name == "at4_group_name":
        g = next(it)
        n = next(it)
        nm = bytes(next(it) for _ in range(n))
        bad_utf8 = False
        try:
            nm.decode()
        except UnicodeDecodeError:
            bad_utf8 = True
        if not rejected:
            field("group number", o[0], g)
            field("name", o[1].encode(), nm)
        elif not bad_utf8:
            out.append((f"{name}:rejected", f"decoder rejected ({obj[1]}) a record the document defines"))
        return out
    if rejected and not enum_field.undefined:
        out.append((f"{name}:rejected", f"decoder rejected ({obj[1]}) a record every field of which the document defines"))
    return out


KNOWN_CLASSES = {"at4-ac-temp-ff", "at5-ac-setpoint-na", "at5-ac-temp-na"}


# ------------------------------------------------------------------ the sweeps
def record_cases(name: str, rng: random.Random, tier: str):
    """yield (label, record bytes)"""
    size = LAYOUTS[name][2]
    bgs = list(BACKGROUNDS[name]) + [bytes(rng.randrange(256) for _ in range(size))]
    bgs = [(b + bytes(size))[:size] for b in bgs]
    numeric = name in ("at4_group_status", "at4_ac_status", "at5_zone_status", "at5_ac_status")
    positions = range(size)
    for bi, bg in enumerate(bgs):
        for i in positions:
            for v in range(256):
                r = bytearray(bg)
                r[i] = v
                yield (f"byte{i + 1}", bytes(r))
    if numeric:
        # every value of the 11-bit temperature field, with and without sensor
        for v in range(2048):
            for sensor in (0x80, 0x00):
                r = bytearray(bgs[0])
                if name.startswith("at4"):
                    r[4] = v >> 3
                    r[5] = ((v & 7) << 5) | (r[5] & 0x1F)
                else:
                    r[4] = (r[4] & 0xF8) | (v >> 8)
                    r[5] = v & 0xFF
                if name in ("at4_group_status", "at5_zone_status"):
                    r[3] = sensor
                elif sensor == 0:
                    continue
                yield ("temperature", bytes(r))
        pairs = range(size - 1) if tier == "thorough" else ()
        for i in pairs:
            bg = bgs[i % len(bgs)]
            for v in range(65536):
                r = bytearray(bg)
                r[i] = v >> 8
                r[i + 1] = v & 255
                yield (f"pair{i + 1}-{i + 2}", bytes(r))
    for _ in range(2000 if tier == "quick" else 40000):
        yield ("random", bytes(rng.randrange(256) for _ in range(size)))


def stride_cases(rng: random.Random, n: int):
    """AT5 multi-record payloads with announced strides >= the known layout."""
    for _ in range(n):
        sub, base = rng.choice([(0x21, 8), (0x23, 8), (0x33, 9)])
        stride = rng.choice([base, base, 10, 12, 14, 17, 32])
        count = rng.choice([1, 2, 3, 8, 16])
        recs = [bytes(rng.randrange(256) for _ in range(stride)) for _ in range(count)]
        # keep enum codes mostly defined so that whole messages decode
        fixed = []
        for r in recs:
            b = bytearray(r)
            if sub == 0x21:
                b[0] = (rng.choice([0, 1, 3]) << 6) | (b[0] & 0x3F)
            elif sub == 0x33:
                pass
            else:
                b[0] = (rng.choice([0, 1, 2, 3, 5]) << 4) | (b[0] & 0x0F)
                b[1] = (rng.choice([0, 1, 2, 3, 4, 8, 9]) << 4) | rng.choice([0, 1, 2, 3, 4, 5, 6, 9, 10, 11, 12, 13, 14])
            fixed.append(bytes(b))
        body = b"".join(fixed)
        if rng.random() < 0.3:
            body = body[: len(body) - (stride - base)]      # last record without its tail
        yield sub, stride, count, fixed, c0(sub, stride, count, body)


def check_c05(tier: str) -> int:
    ck = common.Check("C05", tier)
    ck.rule = ("every byte position of every record layout (AT4 group/AC status, ability old+new, group name; AT5 zone/AC "
               "status, ability) x all 256 values x 3-4 backgrounds; all 2048 values of the 11-bit temperature fields with "
               "and without sensor; thorough: every adjacent byte pair (65 536 values) of the four numeric layouts; random "
               "records; AT5 multi-record payloads with strides 8..32 and counts 1..16; each decoded through the package's "
               "public decoders and compared (a) with the extracted decoder model, (b) field by field with the extracted "
               "Spec4/Spec5 reading of the same bytes; non-trivial/distinct = distinct record byte strings")
    ck.assumptions = [
        "Spec4.v/Spec5.v are our transcription of the vendor PDFs (spec_text/); timer status layouts are not in the documents and are covered by C03 only",
        "a group/zone without sensor reports no temperature (and, on AirTouch 4, no set-point): documented refinement of the reading",
    ]
    rng = random.Random(ck.seed * 6151 + 5)
    with common.Lock():
        proved = ck.prove()
        if not proved:
            ck.violation("proof", {"theorem_file": "coq/props/C05.v", "failed_at": getattr(ck, "failed_at", "?"),
                                   "log_tail": getattr(ck, "proof_log", "")[-1500:]}, found_input=False)
        try:
            common.build_driver()
        except RuntimeError as ex:
            ck.violation("model-build", {"error": str(ex)[-1500:]}, found_input=False)
            return ck.finish()
    dist = Counter()
    reported = Counter()
    corr_bad = 0
    for name, (gen, mtype, size, build, layout) in LAYOUTS.items():
        cases = list(record_cases(name, rng, tier))
        recs = [r for _, r in cases]
        specs = common.run_model([[SPEC, layout] + list(r) for r in recs])
        dec = codec_tie.decode_cases(gen, [(mtype, build(r)) for r in recs])
        for (label, r), sp, (_, _, d, _, mis) in zip(cases, specs, dec):
            ck.count()
            ck.note_case((name, r))
            dist[f"{name}_{label.rstrip('0123456789-')}"] += 1
            obj = impl_record(name, r) if d[0] == "ok" else d
            dist[f"{name}_{'decoded' if obj[0] == 'ok' else 'rejected'}"] += 1
            found = False
            for cls, desc in compare(name, r, obj, sp):
                found = True
                key = cls if cls in KNOWN_CLASSES else (name, cls)
                reported[key] += 1
                if reported[key] <= 2:
                    ck.violation("decoder departs from the vendor document",
                                 {"kind": "conformance", "trigger": {"class": cls}, "layout": name, "record": r.hex(),
                                  "payload": build(r).hex(), "message_type": mtype, "failure": desc,
                                  "replay_cmd": f"cd /verif && ./check C05 --replay-record {name} {r.hex()}"})
            if mis is not None:
                corr_bad += 1
                if not found and corr_bad <= 4:
                    ck.violation("decoder model and implementation disagree",
                                 {"kind": "correspondence", "layout": name, "record": r.hex(), "disagreement": mis,
                                  "correspondence": f"coq/at{gen}/Codec{gen}.v (decode) vs pyairtouch.at{gen}.comms"},
                                 found_input=False)
    # several records in one message (AT4 layouts and the ability messages have no stride field: records follow
    # one another, ability records of both lengths may be mixed): every record must read as it does alone
    FAMILIES = {"at4_group_status": ["at4_group_status"], "at4_ac_status": ["at4_ac_status"],
                "at4_ability": ["at4_ability_old", "at4_ability_new"], "at5_ability": ["at5_ability"],
                "at4_group_name": ["at4_group_name"]}
    for fam, names in FAMILIES.items():
        gen, mtype, _, build, _ = LAYOUTS[names[0]]
        pool = []
        for nm in names:
            sz = LAYOUTS[nm][2]
            cands = [(b + bytes(sz))[:sz] for b in BACKGROUNDS[nm]]
            for _ in range(60):
                r = bytearray(rng.choice(cands))
                for _k in range(rng.choice([1, 2, 4])):
                    j = rng.randrange(sz)
                    if nm.startswith(("at4_ability", "at5_ability")) and j == 1:
                        continue                       # the record's own length byte
                    r[j] = rng.randrange(256)
                cands.append(bytes(r))
            if nm == "at4_group_name":
                cands += [bytes([g]) + rng.choice(["Living", "Bed 2", "Küche", "", "ABCDEFGH", "x"]).encode()[:8].ljust(8, b"\0")
                          for g in range(16)]
            pool += [(nm, r) for r in cands if impl_record(nm, r)[0] == "ok"]
        multis = []
        dist[f"multi_{fam}_pool"] = len(pool)
        for _ in range((150 if tier == "quick" else 3000) if pool else 0):
            pick = [rng.choice(pool) for _k in range(rng.choice([2, 2, 3, 4]))]
            if fam == "at4_group_name" and len({r[0] for _, r in pick}) != len(pick):
                continue
            multis.append(pick)
        flat = [(nm, r) for pick in multis for nm, r in pick]
        if not flat:
            continue
        specs = iter(common.run_model([[SPEC, LAYOUTS[nm][4]] + list(r) for nm, r in flat]))
        c = codec_tie.codec(gen)
        for pick in multis:
            ck.count()
            dist[f"multi_{fam}_{len(pick)}"] += 1
            payload = build(b"".join(r for _, r in pick))
            d = c.impl_decode(mtype, payload)
            sps = [next(specs) for _ in pick]
            replay = {"kind": "multi-record", "family": fam, "payload": payload.hex(), "message_type": mtype,
                      "records": [[nm, r.hex()] for nm, r in pick]}
            if d[0] != "ok":
                ck.violation("a message of individually readable records is rejected",
                             dict(replay, trigger={"class": f"multi:{fam}:rejected"}, failure=str(d[1])))
                continue
            sub = getattr(d[1], "sub_message", d[1])
            if hasattr(sub, "group_names"):
                seq = list(sub.group_names.items())
            else:
                seq = [getattr(sub, a) for a in ("groups", "ac_status", "zones", "ac_abilities") if hasattr(sub, a)][0]
            if len(seq) != len(pick):
                ck.violation("record count differs from the records present",
                             dict(replay, trigger={"class": f"multi:{fam}:count"}, failure=f"{len(seq)} decoded, {len(pick)} present"))
                continue
            for i, ((nm, r), sp, o) in enumerate(zip(pick, sps, seq)):
                for cls, desc in compare(nm, r, ("ok", o), sp):
                    if cls in KNOWN_CLASSES:
                        continue
                    reported[("multi", fam)] += 1
                    if reported[("multi", fam)] <= 2:
                        ck.violation("a record reads differently inside a multi-record message than the document says",
                                     dict(replay, trigger={"class": "multi:" + cls}, record_index=i, failure=desc))
    # variable-length extended messages: console version (update flag: any non-zero byte; versions separated as the
    # generation's document says) and AC error information (AC number, text or none)
    for gen in (4, 5):
        c = codec_tie.codec(gen)
        sep = 0x7C if gen == 4 else 0x2C
        texts = [b"1.2.3", b"", b"1.0|2.0", b"1.0,2.0", b"a|b,c", "v\u00fc".encode(), b"|", b","]
        vcases = [(ub, t) for ub in range(256) for t in (texts if ub in (0, 1, 2, 0x80, 0xFF) else texts[:1])]
        specs = common.run_model([[SPEC, 10, sep, ub, len(t)] + list(t) for ub, t in vcases])
        for (ub, t), sp in zip(vcases, specs):
            ck.count()
            dist[f"at{gen}_version_messages"] += 1
            payload = b"\xff\x30" + bytes([ub, len(t)]) + t
            d = c.impl_decode(0x1F, payload)
            if d[0] != "ok":
                bad = f"decoder raised {d[1]}"
            else:
                m = d[1].sub_message
                # spec flat: [bool, n, (len, bytes...)*]
                want_up = bool(sp[0])
                want_vs, i = [], 2
                for _ in range(sp[1]):
                    ln = sp[i]
                    want_vs.append(bytes(sp[i + 1:i + 1 + ln]))
                    i += 1 + ln
                got_vs = [v.encode() for v in m.versions]
                bad = None if (bool(m.update_available), got_vs) == (want_up, want_vs) else \
                    f"decoder ({m.update_available}, {got_vs}), document ({want_up}, {want_vs})"
            if bad:
                reported[("version", gen)] += 1
                if reported[("version", gen)] <= 2:
                    ck.violation("decoder departs from the vendor document",
                                 {"kind": "conformance", "trigger": {"class": f"at{gen}_version"}, "layout": f"at{gen}_console_version",
                                  "payload": payload.hex(), "message_type": 0x1F, "failure": bad})
        ecases = [(ac, t) for ac in (0, 1, 3, 15, 255) for t in (None, b"ER: 05", b"", "F\u00fc".encode(), b"x" * 40)]
        specs = common.run_model([[SPEC, 9, ac, 0 if t is None else len(t)] + list(t or b"") for ac, t in ecases])
        for (ac, t), sp in zip(ecases, specs):
            ck.count()
            dist[f"at{gen}_error_messages"] += 1
            payload = b"\xff\x10" + bytes([ac, 0 if t is None else len(t)]) + (t or b"")
            d = c.impl_decode(0x1F, payload)
            if d[0] != "ok":
                bad = f"decoder raised {d[1]}"
            else:
                m = d[1].sub_message
                want = None if sp[1] == 0 else bytes(sp[3:3 + sp[2]])
                got = None if m.error_info is None else m.error_info.encode()
                bad = None if (m.ac_number, got) == (sp[0], want) else f"decoder ({m.ac_number}, {got}), document ({sp[0]}, {want})"
            if bad:
                reported[("errinfo", gen)] += 1
                if reported[("errinfo", gen)] <= 2:
                    ck.violation("decoder departs from the vendor document",
                                 {"kind": "conformance", "trigger": {"class": f"at{gen}_error_info"}, "layout": f"at{gen}_error_info",
                                  "payload": payload.hex(), "message_type": 0x1F, "failure": bad})
    # strides
    c5 = codec_tie.codec(5)
    scases = list(stride_cases(rng, 600 if tier == "quick" else 20000))
    sdec = codec_tie.decode_cases(5, [(0xC0, p) for *_, p in scases])
    for (sub, stride, count, recs, p), (_, _, d, _, mis) in zip(scases, sdec):
        ck.count()
        dist[f"stride_{stride}"] += 1
        if sub == 0x33:
            # the timer status layout is not in the vendor document; the reading is the one the
            # module's own description gives: AC number, on timer, off timer (disabled bit 8, hour
            # bits 5-1, minute bits 6-1), at offset i * stride
            if d[0] == "ok":
                seq = d[1].sub_message.ac_timer_status
                want = [(r[0], bool(r[1] & 0x80), r[1] & 0x1F, r[2] & 0x3F, bool(r[3] & 0x80), r[3] & 0x1F, r[4] & 0x3F) for r in recs]
                got = [(t.ac_number, t.on_timer.disabled, t.on_timer.hour, t.on_timer.minute,
                        t.off_timer.disabled, t.off_timer.hour, t.off_timer.minute) for t in seq]
                if got != want:
                    ck.violation("timer record not read at its announced offset",
                                 {"kind": "stride", "trigger": {"class": "stride:timer"}, "payload": p.hex(), "stride": stride,
                                  "failure": f"decoder {got[:3]}..., bytes at i*stride mean {want[:3]}..."})
            elif True:
                ck.violation("timer status with a longer stride rejected",
                             {"kind": "stride", "trigger": {"class": "stride:timer-rejected"}, "payload": p.hex(), "failure": str(d[1])})
            if mis is not None:
                corr_bad += 1
            continue
        name = "at5_zone_status" if sub == 0x21 else "at5_ac_status"
        layout = LAYOUTS[name][4]
        if d[0] == "ok":
            seq = d[1].sub_message.zones if sub == 0x21 else d[1].sub_message.ac_status
            if len(seq) != count:
                ck.violation("record count not honoured", {"kind": "stride", "trigger": {"class": "stride-count"}, "payload": p.hex(),
                                                          "failure": f"{len(seq)} records decoded, {count} announced"})
                continue
            specs = common.run_model([[SPEC, layout] + list(r[:8]) for r in recs])
            for i, (r, sp, o) in enumerate(zip(recs, specs, seq)):
                for cls, desc in compare(name, r[:8], ("ok", o), sp):
                    if cls in KNOWN_CLASSES:
                        continue
                    ck.violation("record not read at its announced offset",
                                 {"kind": "stride", "trigger": {"class": "stride:" + cls}, "payload": p.hex(), "stride": stride,
                                  "record_index": i, "failure": desc})
        elif count == len(recs) and recs:
            # rejected: only legitimate when some record carries a value the document leaves undefined
            specs = common.run_model([[SPEC, layout] + list(r[:8]) for r in recs])
            reasons = [cls for r, sp in zip(recs, specs) for cls, _ in compare(name, r[:8], d, sp)]
            if any(c.endswith(":rejected") for c in reasons):
                reported[("stride-rejected", name)] += 1
                if reported[("stride-rejected", name)] <= 2:
                    ck.violation("a status message whose records the document defines is rejected",
                                 {"kind": "stride", "trigger": {"class": "stride:rejected"}, "payload": p.hex(), "stride": stride,
                                  "count": count, "failure": f"decoder raised {d[1]}; every field of every record (read at i * stride) is defined"})
                continue
        if mis is not None:
            corr_bad += 1
            if corr_bad <= 6:
                ck.violation("decoder model and implementation disagree",
                             {"kind": "correspondence", "payload": p.hex(), "disagreement": mis}, found_input=False)
    ck.extra["input_distribution"] = dict(sorted(dist.items()))
    ck.extra["correspondence_disagreements"] = corr_bad
    ck.extra["known_finding_hits"] = {k: v for k, v in reported.items() if isinstance(k, str) and k in KNOWN_CLASSES}
    ck.sample("at4_group_status 41e41a806180 (the document's example record)")
    return ck.finish()


def replay_record(name: str, hexrec: str) -> int:
    r = bytes.fromhex(hexrec)
    common.build_driver()
    sp = common.run_model([[SPEC, LAYOUTS[name][4]] + list(r)])[0]
    obj = impl_record(name, r)
    print("decoder:", obj)
    print("document reading (flat):", sp)
    for cls, desc in compare(name, r, obj, sp):
        print("DEPARTS:", cls, desc)
    return 0


def main() -> int:
    ap = argparse.ArgumentParser()
    ap.add_argument("prop", choices=["C05"])
    ap.add_argument("--tier", default="quick", choices=["quick", "thorough"])
    ap.add_argument("--replay-record", nargs=2)
    a = ap.parse_args()
    if a.replay_record:
        return replay_record(*a.replay_record)
    return check_c05(a.tier)


if __name__ == "__main__":
    sys.exit(main())
