"""Run heartbeat scripts against the real HeartbeatManager + AirTouchSocket on the virtual loop.

Script stimuli: ("start",) ("stop",) ("resp",) ("noise",) ("adv", ticks) ("rst",)
The manager is built through public names only: HeartbeatManager, HeartbeatConfig.
Each stimulus yields canonical events and the connectivity sampled before it ran.
"""

from __future__ import annotations

import asyncio
import logging
import struct

from . import sockrun, vloop

logging.disable(logging.CRITICAL)

import pyairtouch.comms.heartbeat as hb  # noqa: E402
import pyairtouch.comms.socket as psock  # noqa: E402


def version_request(gen: int):
    if gen == 4:
        import pyairtouch.at4.comms.x1F_ext as ext
        import pyairtouch.at4.comms.x1FFF30_console_ver as ver
    else:
        import pyairtouch.at5.comms.x1F_ext as ext
        import pyairtouch.at5.comms.x1FFF30_console_ver as ver
    return ext, ver


class HbRunner:
    def __init__(self, gen: int, interval_ticks: int | None, timeout_ticks: int | None) -> None:
        self.gen = gen
        self.loop, self.net = vloop.new_loop()
        asyncio.set_event_loop(self.loop)
        self.reg = sockrun.registry(gen)
        self.sock = psock.AirTouchSocket(self.loop, "10.0.0.1", 9000 + gen, self.reg)
        ext, ver = version_request(gen)
        self.ext, self.ver = ext, ver

        def match(message) -> bool:
            return isinstance(message, ext.ExtendedMessage) and message.sub_message.message_id == ver.MESSAGE_ID

        kw = {}
        if interval_ticks is not None:
            kw["interval"] = interval_ticks / 1024
            kw["timeout"] = timeout_ticks / 1024
        self.cfg = hb.HeartbeatConfig(message=ext.ExtendedMessage(ver.ConsoleVersionRequest()),
                                      response_match=match, **kw)
        self.mgr = hb.HeartbeatManager(self.loop, self.sock, self.cfg)
        self.resp_frame = sockrun.rx_catalogue(gen)[2]      # console version message
        self.noise_frame = sockrun.rx_catalogue(gen)[3]     # unknown type
        self.consumed: dict[int, int] = {}
        self.loop.create_task(self.sock.open_socket())
        self.loop.settle()
        self.loop.advance_to(self.loop.time() + 1 * vloop.TICK)   # connect (latency 1)
        self.net.take_events()

    def interval_ticks(self) -> int:
        return int(self.cfg.interval * 1024)

    def timeout_ticks(self) -> int:
        return int(self.cfg.timeout * 1024)

    def _collect(self) -> list[tuple]:
        self.loop.settle()
        evs = []
        now = int(self.loop.time() * 1024)
        reset = False
        for e in self.net.take_events():
            if e[0] in ("close",):
                reset = True
        for conn in self.net.conns:
            done = self.consumed.get(conn.cid, 0)
            data = bytes(conn.out[done:])
            if not data:
                continue
            frames, left = sockrun.split_frames(self.gen, data)
            self.consumed[conn.cid] = len(conn.out)
            for (to, frm, pid, mtype, payload, ok) in frames:
                if ok and mtype == 0x1F and payload == b"\xff\x30":
                    evs.append(("send", now))
                else:
                    evs.append(("otherframe", mtype))
        if reset:
            evs.append(("reset", now))
        if self.loop.unhandled:
            evs.append(("unhandled", len(self.loop.unhandled)))
            self.loop.unhandled.clear()
        return evs

    def step(self, st: tuple):
        connected = bool(self.sock.is_connected)
        kind = st[0]
        if kind == "start":
            self.loop.create_task(self.mgr.start())
        elif kind == "stop":
            self.loop.create_task(self.mgr.stop())
        elif kind in ("resp", "noise"):
            cur = self.net.current()
            if cur is not None and self.sock.is_connected:
                cur.transport.peer_bytes(self.resp_frame if kind == "resp" else self.noise_frame)
            else:
                return connected, [("skipped",)]
        elif kind == "rst":
            cur = self.net.current()
            if cur is not None:
                cur.transport.peer_reset()
        elif kind == "adv":
            self.loop.settle()
            t0 = self.loop.time()
            target = t0 + st[1] * vloop.TICK
            nt = self.loop.next_timer()
            if nt is not None and nt <= target:
                if self.loop.timers_at(nt) > 1:
                    return connected, [("tie",)]
                self.loop.advance_to(nt)
            else:
                self.loop.advance_to(target)
            evs = self._collect()
            evs.append(("time", int(self.loop.time() * 1024)))
            return connected, evs
        else:
            raise ValueError(st)
        return connected, self._collect()

    def finish(self) -> None:
        for t in asyncio.all_tasks(self.loop):
            t.cancel()
        try:
            self.loop.settle()
        except Exception:  # noqa: BLE001
            pass
        self.loop.close()


def run_script(gen: int, script, interval_ticks=None, timeout_ticks=None):
    r = HbRunner(gen, interval_ticks, timeout_ticks)
    try:
        out = []
        for st in script:
            c, evs = r.step(st)
            out.append((c, evs))
            if evs == [("tie",)]:
                break
        return r.interval_ticks(), r.timeout_ticks(), out
    finally:
        r.finish()


if __name__ == "__main__":
    import json
    import sys
    script = [tuple(x) for x in json.loads(sys.argv[2])]
    i, t, out = run_script(int(sys.argv[1]), script, *(int(x) for x in sys.argv[3:5]))
    print("interval", i, "timeout", t)
    for st, (c, evs) in zip(script, out):
        print(st, "connected" if c else "down", "->", evs)
