"""Check C03 (every message frames and parses back identically, lengths agree).

  python -m harness.check_codec C03 --tier quick|thorough

Instruments: (1) the theorems of coq/props/C03.v; (2) correspondence of the codec models
with the package's encoders, size() and decoders (structured in-domain messages, an
out-of-domain stream, mutated payloads), and which generated messages lie in the
theorems' domain (extracted dom4/dom5); (3) the monitor: for every message the model
places in the domain, the real size(), encode(), decode() and the real socket send path
followed by the real receive path must return the message unchanged.
"""

from __future__ import annotations

import argparse
import asyncio
import dataclasses
import json
import random
import sys
from collections import Counter

from . import codec_tie, common, rxrig, sockrun

import pyairtouch.comms.socket as psock  # noqa: E402

DOM_SEL = {4: 22, 5: 32}


def short_repr(m) -> str:
    return repr(m)[:260]


def short(m, n=260) -> str:
    return repr(m)[:n]


def msg_equal(a, b) -> bool:
    """Dataclass equality; floats compare exactly (0.0 == -0.0 is fine), dict order ignored
    by Python's dict equality - the model checks order separately through the tie."""
    return type(a) is type(b) and a == b


def payload_monitor(c, m) -> str | None:
    """The conclusion of C03_payload_roundtrip on the implementation."""
    r = c.impl_encode(m)
    if r[0] != "ok":
        return f"encode raised {r[1]}"
    _, size, payload, header = r
    if size != len(payload):
        return f"size()={size} but encode() produced {len(payload)} bytes"
    if header.message_length != len(payload):
        return f"header announces {header.message_length} for {len(payload)} payload bytes"
    d = c.impl_decode(m.message_id, payload)
    if d[0] != "ok":
        return f"decode(encode(m)) raised {d[1]}"
    if not msg_equal(d[1], m):
        return f"decode(encode(m)) = {short(d[1])}"
    return None


class Loopback:
    """A real AirTouchSocket whose written frames are fed back into its own receive path."""

    def __init__(self, gen: int) -> None:
        self.gen = gen
        self.rig = rxrig.RxRig(gen)

    def roundtrip(self, m, tail: bytes = b""):
        """-> (frame bytes written, deliveries [(hdr tuple, msg)], reset?)"""
        rig = self.rig
        if not rig.connect():
            raise RuntimeError("loopback rig did not connect")
        conn = rig.net.current()
        before = len(conn.out)
        exc = None
        try:
            t = rig.loop.create_task(rig.sock.send(m, psock.RETRY_NON_IDEMPOTENT))
            rig.loop.settle()
            if t.done() and t.exception() is not None:
                exc = type(t.exception()).__name__
        except Exception as ex:  # noqa: BLE001
            exc = type(ex).__name__
        rig.net.take_events()
        conn2 = rig.net.current()
        if exc is not None or conn2 is not conn:
            return None, [], exc or "reset-on-send"
        frame = bytes(conn.out[before:])
        # how the bytes travel is not part of the message: every fourth frame comes back in two pieces (cut before the
        # last byte, between the check bytes' neighbours, after the first byte, in the middle), one loop turn apart
        self.n_trips = getattr(self, "n_trips", 0) + 1
        data = frame + tail
        if self.n_trips % 4 == 0 and len(data) > 3:
            cut = [len(data) - 1, len(data) - 2, 1, len(data) // 2, len(data) - 3][(self.n_trips // 4) % 5]
            rig.feed([data[:cut], data[cut:]], turns=1)
        else:
            rig.feed([data])
        hdrs, msgs, reset, unh = rig.take()
        return frame, list(zip(hdrs, msgs)), ("reset" if reset else None)

    def batch_roundtrip(self, ms):
        """The messages are accepted while the link is down (each sized at that time) and written when it is back.
        -> (bytes written, deliveries [(hdr tuple, msg)], reset?)"""
        rig = self.rig
        if not rig.connect():
            raise RuntimeError("loopback rig did not connect")
        rig.net.accept = False
        rig.net.current().transport.peer_reset()
        rig.loop.settle()
        rig.take()
        tasks = [rig.loop.create_task(rig.sock.send(m, psock.RETRY_IDEMPOTENT)) for m in ms]
        rig.loop.settle()
        errs = [type(t.exception()).__name__ for t in tasks if t.done() and t.exception() is not None]
        rig.net.accept = True
        if not rig.connect():
            raise RuntimeError("loopback rig did not reconnect")
        rig.loop.settle()
        conn = rig.net.current()
        data = bytes(conn.out)
        rig.net.take_events()
        rig.delivered = []
        rig.feed([data])
        hdrs, msgs, reset, unh = rig.take()
        return data, list(zip(hdrs, msgs)), ("reset" if reset else None), errs

    def close(self):
        self.rig.close()


def frame_monitor(lb: Loopback, m, expect_to: int) -> tuple[str | None, bytes | None]:
    """The conclusion of C03_frame_roundtrip on the implementation."""
    frame, ds, err = lb.roundtrip(m)
    if frame is None:
        return f"send failed: {err}", None
    if err:
        return "the receive path rejected the frame the send path produced (connection reset)", frame
    if len(ds) != 1:
        return f"{len(ds)} deliveries for one frame", frame
    (to, frm, pid, mid, ln), got = ds[0]
    if (to, frm, mid) != (expect_to, 0xB0, m.message_id):
        return f"header to/from/type = {to:#x}/{frm:#x}/{mid:#x}", frame
    if not msg_equal(got, m):
        return f"delivered {short(got)}", frame
    return None, frame


FLT = 8


def float_tie(ck, dist) -> None:
    """The binary64 model of the utils.py lines (coq/base/Flt.v) against the real functions, on every value the
    theorems quantify over: the decoded float (bit for bit), the re-encoded integer, and what the encoders make
    of the float nearest to k/10 (k/10.0, also what round(x, 1) returns)."""
    import math
    from pyairtouch.at4.comms import utils as u4
    from pyairtouch.at5.comms import utils as u5

    def guarded(f, x):
        try:
            return f(x)
        except (ValueError, OverflowError):
            return -1

    plan = []            # (which, argument, implementation float, implementation re-encoded)
    for v in range(2048):
        raw = v << 5
        f = u4.decode_temperature(raw)
        plan.append((1, raw, f, guarded(u4.encode_temperature, f)))
    for r in range(256):
        f = u5.decode_set_point(r)
        plan.append((2, r, f, guarded(u5.encode_set_point, f)))
    for r in range(2048):
        f = u5.decode_temperature(r)
        plan.append((3, r, f, guarded(u5.encode_temperature, f)))
    for k in range(100, 356):
        plan.append((4, k, k / 10.0, guarded(u5.encode_set_point, k / 10.0)))
    for k in range(-1500, 1548):
        plan.append((5, k, k / 10.0, guarded(u5.encode_temperature, k / 10.0)))
    for k in range(-500, 1548):
        plan.append((6, k, k / 10.0, guarded(u4.encode_temperature, k / 10.0)))
    outs = common.run_model([[FLT, w, a] for w, a, _, _ in plan])
    for (w, a, f, e), o in zip(plan, outs):
        ck.count()
        dist[f"float_line_{w}"] += 1
        if len(o) != 5:
            mf, me = None, None
        else:
            cls, sg, m, ex, me = o
            mf = (math.copysign(0.0, -1.0 if sg else 1.0) if cls == 0 else
                  (math.ldexp(m, ex) * (-1 if sg else 1)) if cls == 1 else float("nan"))
        same = mf is not None and (mf == f and math.copysign(1.0, mf) == math.copysign(1.0, f)) and me == e
        if not same:
            names = {1: "at4 decode_temperature/encode_temperature", 2: "at5 decode_set_point/encode_set_point",
                     3: "at5 decode_temperature/encode_temperature", 4: "at5 encode_set_point(k/10.0)",
                     5: "at5 encode_temperature(k/10.0)", 6: "at4 encode_temperature(k/10.0)"}
            ok_roundtrip = (w in (1, 2, 3) and e == a) or (w == 4 and e == a - 100) or (w == 5 and e == a + 500) \
                or (w == 6 and e == ((a + 500) << 5) & 0xFFE0)
            ck.violation("floating-point temperature arithmetic differs from its binary64 model",
                         {"kind": "float", "line": names[w], "argument": a, "implementation_float": f.hex(),
                          "implementation_integer": e, "model_float": None if mf is None else float(mf).hex(),
                          "model_integer": me, "round_trip_holds_on_implementation": ok_roundtrip,
                          "theorems": "C03_float_* (coq/props/C03.v)"},
                         found_input=not ok_roundtrip)
            return
    # round(x, 1) returns the float nearest to a whole number of tenths (what f_tenths models)
    for i in range(-2000, 4000):
        x = i / 20.0 + (1e-9 if i % 3 == 0 else 0.0)
        y = round(x, 1)
        k = round(y * 10)
        ck.count()
        if y != k / 10.0:
            ck.violation("round(x, 1) is not the float nearest to a whole number of tenths",
                         {"kind": "float", "x": x.hex(), "round": y.hex(), "tenths": k}, found_input=False)
            return


def check_c03(tier: str) -> int:
    ck = common.Check("C03", tier)
    ck.rule = ("structured random messages of all 18+18 classes (boundary values, every enum member, multi-byte UTF-8 "
               "names, counts 0..16) plus an out-of-domain stream and mutated payloads (bit flip, truncation, extension): "
               "model vs. implementation on size(), encode() bytes, decode() result/exception; for every message in the "
               "theorems' domain (extracted dom4/dom5) the implementation must satisfy size == produced == announced and "
               "decode(encode(m)) == m, and a sample of each class goes through the real socket send path and back "
               "through the real receive path; the floating-point lines of utils.py are compared bit for bit with their binary64 "
               "model on every field value (9.7k values); non-trivial/distinct = distinct in-domain messages")
    ck.assumptions = [
        "a Python str is identified with its UTF-8 bytes; temperatures and set-points with tenths of a degree (floats k/10)",
        "frame-level theorems need the payload to fit the 16-bit length field (fits4/fits5, < 65 524 bytes)",
        "CPython float arithmetic is IEEE-754 binary64 with round-to-nearest-even (what Coq.Floats.SpecFloat defines); "
        "checked bit for bit on every field value against the extracted model on each run",
    ]
    rng = random.Random(ck.seed * 7919 + 3)
    with common.Lock():
        proved = ck.prove()
        if not proved:
            ck.violation("proof", {"theorem_file": "coq/props/C03.v", "failed_at": getattr(ck, "failed_at", "?"),
                                   "log_tail": getattr(ck, "proof_log", "")[-1500:]}, found_input=False)
        try:
            common.build_driver()
        except RuntimeError as ex:
            ck.violation("model-build", {"error": str(ex)[-1500:]}, found_input=False)
            return ck.finish()
    per_kind = 200 if tier == "quick" else 2500
    dist = Counter()
    corr_bad = []
    for gen in (4, 5):
        c = codec_tie.codec(gen)
        msgs = []
        for k in range(c.NKINDS):
            msgs += [(k, c.gen_message(rng, k)) for _ in range(per_kind)]
            msgs += [(k, c.gen_message(rng, k, in_domain=False)) for _ in range(per_kind // 3)]
        enc = codec_tie.encode_cases(gen, [m for _, m in msgs])
        flats = [fl for _, _, fl, _ in enc]
        doms = common.run_model([[DOM_SEL[gen]] + (fl if fl is not None else [0]) for fl in flats])
        lb = Loopback(gen)
        seen_frame = Counter()
        try:
            for (k, m), (_, r, fl, mis), dm in zip(msgs, enc, doms):
                ck.count()
                dist[f"at{gen}_impl_{'ok' if r[0] == 'ok' else r[1]}"] += 1
                if r[0] == "ok" and r[1] != len(r[2]):
                    # whatever the message (inside the theorems' domain or not): the length computed in advance, which
                    # goes into the header, is the number of bytes produced
                    ck.violation("round trip fails on the implementation",
                                 {"kind": "size-vs-encode", "gen": gen, "message": repr(m)[:400],
                                  "failure": f"size() announces {r[1]} bytes, encode() produced {len(r[2])}: {bytes(r[2]).hex()[:200]}"})
                if fl is None:
                    dist[f"at{gen}_outside_model_value_space"] += 1
                    continue
                in_dom = dm[:1] == [1]
                fits = dm[1:2] == [1]
                dist[f"at{gen}_{'in' if in_dom else 'out_of'}_domain"] += 1
                bad = None
                if in_dom:
                    ck.note_case((gen, tuple(fl)))
                    bad = payload_monitor(c, m)
                    if bad is None and fits and seen_frame[k] < (4 if tier == "quick" else 40):
                        seen_frame[k] += 1
                        dist[f"at{gen}_socket_roundtrips"] += 1
                        bad, frame = frame_monitor(lb, m, 0x90 if m.message_id == 0x1F else 0x80)
                        if bad:
                            bad = "socket send->receive: " + bad + (f" frame={frame.hex()}" if frame else "")
                    if bad:
                        ck.violation("round trip fails on the implementation",
                                     {"kind": "roundtrip", "gen": gen, "message": repr(m), "flat": fl, "failure": bad,
                                      "replay_cmd": f"cd /verif && PYTHONPATH=/repo:/verif /venv/bin/python -m harness.check_codec C03 --replay-flat {gen} '{json.dumps(fl)}'"})
                if mis is not None:
                    corr_bad.append((gen, m, fl, mis, bad))
            # decode correspondence: valid payloads and mutations of them
            items = [(m.message_id, r[2]) for (_, m), (_, r, fl, _) in zip(msgs, enc) if r[0] == "ok"]
            for (ty, p) in list(items):
                if p and rng.random() < 0.7:
                    b = bytearray(p)
                    kk = rng.randrange(3)
                    if kk == 0:
                        b[rng.randrange(len(b))] ^= 1 << rng.randrange(8)
                    elif kk == 1:
                        b = b[:rng.randrange(len(b))]
                    else:
                        b += bytes(rng.randrange(256) for _ in range(rng.choice([1, 2, 6])))
                    items.append((ty, bytes(b)))
            dec = codec_tie.decode_cases(gen, items)
            for ty, p, d, fl, mis in dec:
                ck.count()
                dist[f"at{gen}_decode_{'ok' if d[0] == 'ok' else d[1]}"] += 1
                if mis is not None:
                    corr_bad.append((gen, (ty, p.hex()), None, mis, None))
            # a run longer than the 256-value packet counter: every send still yields one well-formed frame,
            # numbered consecutively modulo 256 (theorem hypothesis pid < 256 is what the header factory must supply)
            cand = [m for (k, m), (_, r, fl, _), dm in zip(msgs, enc, doms) if fl is not None and dm[:2] == [1, 1] and r[0] == "ok" and len(r[2]) < 40]
            if cand:
                m = cand[0]
                last = None
                for i in range(300 if tier == "quick" else 1100):
                    ck.count()
                    dist[f"at{gen}_counter_run"] += 1
                    bad, frame = frame_monitor(lb, m, 0x90 if m.message_id == 0x1F else 0x80)
                    pid = frame[(2 if gen == 4 else 14) + 2] if frame else None
                    if bad is None and last is not None and pid != (last + 1) % 256:
                        bad = f"packet id {pid} follows {last}"
                    if bad:
                        ck.violation("round trip fails on the implementation",
                                     {"kind": "roundtrip-counter-run", "gen": gen, "message": repr(m), "send_number": i + 1,
                                      "failure": f"send number {i + 1} of a run through one registry: " + bad})
                        break
                    last = pid
            # messages accepted while the link is down are sized at once and encoded later, one after another, by the
            # shared encoder objects: each frame must still be its own message's
            pool = [m for (k, m), (_, r, fl, _), dm in zip(msgs, enc, doms) if fl is not None and dm[:2] == [1, 1] and r[0] == "ok" and len(r[2]) < 120]
            for i in range(60 if tier == "quick" else 1500):
                if len(pool) < 4:
                    break
                batch = [rng.choice(pool) for _ in range(rng.choice([2, 3, 4]))]
                ck.count()
                dist[f"at{gen}_queued_batches"] += 1
                data, ds, err, errs = lb.batch_roundtrip(batch)
                bad = None
                if errs:
                    bad = f"send raised {errs}"
                elif err:
                    bad = "the receive path rejected what the send path wrote (connection reset)"
                elif len(ds) != len(batch):
                    bad = f"{len(ds)} deliveries for {len(batch)} messages"
                else:
                    for j, (((to, frm, pid, mid, ln), got), m) in enumerate(zip(ds, batch)):
                        if mid != m.message_id or not msg_equal(got, m):
                            bad = f"message {j} delivered as {short_repr(got)}"
                            break
                if bad:
                    ck.violation("round trip fails on the implementation",
                                 {"kind": "roundtrip-queued-batch", "gen": gen, "messages": [repr(m)[:300] for m in batch],
                                  "written": data.hex()[:600], "failure": "accepted while the link was down, written after the reconnection: " + bad})
                    break
            # short-lived messages: built, sent and dropped one after another (what an application does all day), so
            # that a later message may live at the address of an earlier one; and one message object that is sent,
            # updated in place (its names table grows) and sent again.  Each frame must be its own message's as it is
            # at the time of the send.
            import copy
            for i in range(150 if tier == "quick" else 3000):
                if len(pool) < 4:
                    break
                ck.count()
                dist[f"at{gen}_short_lived_messages"] += 1
                w = copy.deepcopy(rng.choice(pool))
                bad, frame = frame_monitor(lb, w, 0x90 if w.message_id == 0x1F else 0x80)
                rep = repr(w)[:300]
                del w
                if bad:
                    ck.violation("round trip fails on the implementation",
                                 {"kind": "roundtrip-short-lived", "gen": gen, "message": rep, "send_number": i + 1,
                                  "failure": "messages built, sent and dropped one after another through one registry: " + bad})
                    break
            tables = []
            for m in pool:
                inner = getattr(m, "sub_message", m)
                for f in dataclasses.fields(inner) if dataclasses.is_dataclass(inner) else []:
                    v = getattr(inner, f.name)
                    if isinstance(v, dict) and v and all(isinstance(k, int) for k in v) and all(isinstance(x, str) for x in v.values()):
                        tables.append((m, f.name))
            for m, fname in tables[:6 if tier == "quick" else 40]:
                w = copy.deepcopy(m)
                table = getattr(getattr(w, "sub_message", w), fname)
                free = [k for k in range(16) if k not in table]
                steps = []
                for rnd in range(3):
                    ck.count()
                    dist[f"at{gen}_updated_in_place"] += 1
                    bad, frame = frame_monitor(lb, w, 0x90 if w.message_id == 0x1F else 0x80)
                    if bad:
                        ck.violation("round trip fails on the implementation",
                                     {"kind": "roundtrip-updated-in-place", "gen": gen, "message": repr(w)[:300], "updates": steps,
                                      "failure": f"the same message object sent again after its {fname} table was updated in place: " + bad})
                        break
                    if free:
                        k = free.pop(0)
                        table[k] = "N%d" % k
                        steps.append(f"{fname}[{k}] = 'N{k}'")
                    else:
                        k = sorted(table)[0]
                        del table[k]
                        steps.append(f"del {fname}[{k}]")
        finally:
            lb.close()
    float_tie(ck, dist)
    # a broken correspondence without a failing input is still reported
    for gen, m, fl, mis, bad in corr_bad[:6]:
        if bad:
            continue      # already reported with its failing input
        ck.violation("codec model and implementation disagree",
                     {"kind": "correspondence", "gen": gen, "input": short(m, 400), "flat": fl, "disagreement": mis,
                      "correspondence": "coq/at%d/Codec%d.v vs pyairtouch.at%d.comms (encode/size/decode)" % (gen, gen, gen)},
                     found_input=False)
    ck.extra["input_distribution"] = dict(sorted(dist.items()))
    ck.extra["correspondence_disagreements"] = len(corr_bad)
    for s in [m for _, m in msgs[:3]]:
        ck.sample(short(s, 200))
    return ck.finish()


def replay_flat(gen: int, flat: list[int]) -> int:
    print("flat message", flat)
    common.build_driver()
    print("model encode:", common.run_model([[codec_tie.ENC_SEL[gen]] + flat])[0][:80])
    print("model dom/fits:", common.run_model([[DOM_SEL[gen]] + flat])[0])
    return 0


def main() -> int:
    ap = argparse.ArgumentParser()
    ap.add_argument("prop", choices=["C03"])
    ap.add_argument("--tier", default="quick", choices=["quick", "thorough"])
    ap.add_argument("--replay-flat", nargs=2)
    a = ap.parse_args()
    if a.replay_flat:
        return replay_flat(int(a.replay_flat[0]), json.loads(a.replay_flat[1]))
    return {"C03": check_c03}[a.prop](a.tier)


if __name__ == "__main__":
    sys.exit(main())
