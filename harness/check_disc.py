"""Check C18: discovery.

  python -m harness.check_disc C18 --tier quick|thorough

pyairtouch.discover() runs on the virtual loop; the OS socket it creates is replaced by a
stub (socket.socket is substituted for the duration of the run: the package is untouched),
the datagram endpoints are simulated and datagrams arrive on a schedule.
"""

from __future__ import annotations

import argparse
import asyncio
import json
import logging
import random
import socket as _socket
import sys
from collections import Counter

from . import common, vloop

logging.disable(logging.CRITICAL)


class _FakeSock:
    """Stands in for the UDP socket the discoverer creates and binds itself."""

    def __init__(self, *a, **kw):
        self.addr = None
        self.opts = []

    def setsockopt(self, *a):
        self.opts.append(a)

    def bind(self, addr):
        self.addr = addr

    def getsockname(self):
        return self.addr

    def close(self):
        pass

    def fileno(self):
        return -1


def run_discover(arrivals4, arrivals5, remote_host=None, init_clients=False):
    """arrivals: list of (tick, bytes) per generation (delivered to the endpoint bound to
    the corresponding local port).  Returns dict with requests, return time, clients."""
    import pyairtouch
    loop, net = vloop.new_loop()
    asyncio.set_event_loop(loop)
    real_socket = _socket.socket
    _socket.socket = _FakeSock
    # identify endpoints by the local port the discoverer bound
    orig_cde = loop.create_datagram_endpoint
    endpoints = {}

    async def cde(protocol_factory, local_addr=None, remote_addr=None, *, sock=None, **kw):
        tr, pr = await orig_cde(protocol_factory, local_addr, remote_addr, sock=sock, **kw)
        port = sock.getsockname()[1] if sock is not None and sock.getsockname() else None
        endpoints[port] = tr
        tr.local_port = port
        return tr, pr

    loop.create_datagram_endpoint = cde
    unhandled = []

    def deliver(port, data):
        tr = endpoints.get(port)
        if tr is None or tr.closed:
            return
        try:
            tr.deliver(data, ("10.0.0.9", port))
        except Exception as ex:  # noqa: BLE001 - what asyncio's handle would report
            unhandled.append(type(ex).__name__)

    result = {}
    handles = []
    try:
        for port, arr in ((49004, arrivals4), (49005, arrivals5)):
            for (t, data) in arr:
                handles.append(loop.call_at(t * vloop.TICK, deliver, port, bytes(data)))
        clients = loop.run_until_complete(pyairtouch.discover(remote_host) if remote_host else pyairtouch.discover())
        tend = loop.time() * 1024
        for h in handles:
            h.cancel()          # the harness' own arrival timers are not the client's
        reqs = {}
        for tr in net.udp_endpoints:
            reqs[tr.local_port] = [(int(t * 1024), d, a) for (t, d, a) in tr.sent]
        result = {
            "requests": reqs, "tend": int(tend), "closed": [tr.closed for tr in net.udp_endpoints],
            "clients": sorted((c.model.name, c.host, c.airtouch_id, c.serial, c.name) for c in clients),
            "unhandled": unhandled + [str(c.get("exception")) for c in loop.unhandled],
            "pending_timers": loop.live_timers(),
        }
        if init_clients:
            ports = []
            for c in clients:
                net.take_events()
                net.accept = False
                t = loop.create_task(c.init())
                loop.settle()
                for e in net.take_events():
                    if e[0] == "dial":
                        ports.append((c.model.name, e[1], e[2]))
                loop.run_until_complete(c.shutdown())
                try:
                    t.cancel()
                except Exception:  # noqa: BLE001
                    pass
            result["dials"] = sorted(ports)
    finally:
        _socket.socket = real_socket
        for t in asyncio.all_tasks(loop):
            t.cancel()
        try:
            loop.settle()
        except Exception:  # noqa: BLE001
            pass
        loop.close()
    return result


# ---- datagram generators ------------------------------------------------------------------
def rand_text(rng, allow_comma=False, maxlen=12) -> bytes:
    alphabet = "abcXYZ019.-_ :é√𝄞" + ("," if allow_comma else "")
    return "".join(rng.choice(alphabet) for _ in range(rng.randrange(0, maxlen))).encode()


def valid_dgram(rng, gen: int) -> bytes:
    host = rng.choice([b"192.168.1.4", b"10.0.0.7", rand_text(rng)])
    serial = rng.choice([b"E8F2E2000001", rand_text(rng)])
    if gen == 4:
        aid = rand_text(rng, allow_comma=rng.random() < 0.3)
        return host + b"," + serial + b",AirTouch4," + aid
    aid = rand_text(rng)
    name = rand_text(rng, allow_comma=rng.random() < 0.4)
    return host + b"," + serial + b",AirTouch5," + aid + b"," + name


def mutate(rng, d: bytes, gen: int) -> bytes:
    r = rng.random()
    ident = b"AirTouch4" if gen == 4 else b"AirTouch5"
    if r < 0.15:
        return (b"HF-A11ASSISTHREAD" if gen == 4 else b"::REQUEST-POLYAIRE-AIRTOUCH-DEVICE-INFO:;")
    if r < 0.30:      # drop a part
        parts = d.split(b",")
        del parts[rng.randrange(len(parts))]
        return b",".join(parts)
    if r < 0.45:      # misplace the id
        parts = d.split(b",")
        rng.shuffle(parts)
        return b",".join(parts)
    if r < 0.60:      # invalid UTF-8 somewhere
        i = rng.randrange(len(d) + 1)
        return d[:i] + rng.choice([b"\xff", b"\xc0\x80", b"\xed\xa0\x80", b"\xe2\x82", b"\xf4\x90\x80\x80"]) + d[i:]
    if r < 0.70:      # other generation's id
        return d.replace(ident, b"AirTouch5" if gen == 4 else b"AirTouch4")
    if r < 0.80:
        return bytes(rng.randrange(256) for _ in range(rng.randrange(0, 30)))
    if r < 0.90:      # the id string only inside the last field
        return b"a,b,c,x," + ident + b",tail"
    i = rng.randrange(len(d) + 1)
    return d[:i] + bytes([rng.randrange(256)]) + d[i + 1:]


def parse_dres(ints, pos=0):
    tag = ints[pos]
    pos += 1
    if tag in (0, 1, 2, 3):
        return (("nomatch", "request", "decodeerror", "unicodeerror")[tag],), pos
    n = 3 if tag == 4 else 4
    fields = []
    for _ in range(n):
        ln = ints[pos]
        fields.append(bytes(ints[pos + 1:pos + 1 + ln]))
        pos += 1 + ln
    return (("resp4" if tag == 4 else "resp5"),) + tuple(fields), pos


def enc(s: str) -> bytes:
    """UTF-8 bytes of a decoded field; a str that cannot be encoded (lone surrogates) is reported as such, not raised"""
    try:
        return s.encode()
    except UnicodeEncodeError:
        return b"<not encodable as UTF-8: " + repr(s).encode("ascii", "backslashreplace") + b">"


def impl_decode(gen: int, d: bytes):
    """The public decoder of the discovery CONFIG, as datagram_received uses it."""
    from pyairtouch import comms
    if gen == 4:
        import pyairtouch.at4.comms.discovery as m
    else:
        import pyairtouch.at5.comms.discovery as m
    dec = m.CONFIG.decoder
    if not dec.match(d):
        return ("nomatch",)
    try:
        msg = dec.decode(d)
    except comms.DecodeError:
        return ("decodeerror",)
    except UnicodeDecodeError:
        return ("unicodeerror",)
    if isinstance(msg, m.CONFIG.response_type):
        if gen == 4:
            return ("resp4", enc(msg.host), enc(msg.serial), enc(msg.airtouch_id))
        return ("resp5", enc(msg.host), enc(msg.serial), enc(msg.airtouch_id), enc(msg.name))
    return ("request",)


def observe():
    r = run_discover([], [])
    r2 = run_discover([(100, b"1.2.3.4,S4,AirTouch4,ID4")], [(100, b"1.2.3.5,S5,AirTouch5,ID5,Name5")], init_clients=True)
    obs = {
        "req4": list(r["requests"][49004][0][1]), "req5": list(r["requests"][49005][0][1]),
        "udp4": r["requests"][49004][0][2][1], "udp5": r["requests"][49005][0][2][1],
        "inst4": [t for t, _, _ in r["requests"][49004]], "inst5": [t for t, _, _ in r["requests"][49005]],
        "ret": r["tend"],
        "tcp4": next((p for m, h, p in r2.get("dials", []) if m == "AIRTOUCH_4"), 0),
        "tcp5": next((p for m, h, p in r2.get("dials", []) if m == "AIRTOUCH_5"), 0),
        "bcast": r["requests"][49004][0][2][0],
    }
    return obs, r, r2


def write_obs(o) -> None:
    def lst(xs, sc):
        return "[" + "; ".join(str(x) for x in xs) + "]%" + sc
    txt = ("(* generated on every run by harness/check_disc.py from /repo (discover() on a silent simulated network) *)\n"
           "From Coq Require Import NArith ZArith List.\nImport ListNotations.\n"
           f"Definition obs_req4 : list N := {lst(o['req4'], 'N')}.\n"
           f"Definition obs_req5 : list N := {lst(o['req5'], 'N')}.\n"
           f"Definition obs_udp4 : N := {o['udp4']}%N.\nDefinition obs_udp5 : N := {o['udp5']}%N.\n"
           f"Definition obs_instants4 : list Z := {lst(o['inst4'], 'Z')}.\n"
           f"Definition obs_instants5 : list Z := {lst(o['inst5'], 'Z')}.\n"
           f"Definition obs_return : Z := {o['ret']}%Z.\n"
           f"Definition obs_tcp4 : N := {o['tcp4']}%N.\nDefinition obs_tcp5 : N := {o['tcp5']}%N.\n")
    p = common.COQ / "observed" / "Obs_C18.v"
    if not p.exists() or p.read_text() != txt:
        p.write_text(txt)


def check(tier: str) -> int:
    ck = common.Check("C18", tier)
    ck.rule = ("(a) datagrams: grammar-generated vendor-format responses (commas inside id/name, multi-byte UTF-8), mutated ones "
               "(request echo, dropped/shuffled parts, invalid UTF-8, other generation's id, random bytes) through the public "
               "decoders vs the extracted model; (b) discover() on the virtual loop with arrival schedules on a grid around the "
               "three request instants, broadcast and unicast; non-trivial/distinct = distinct datagram bytes / distinct schedules")
    ck.assumptions = [
        "a str is identified with its UTF-8 bytes; CPython's strict decoder = the Unicode well-formedness table (Utf8.v)",
        "arrival instants are taken one tick off the request instants (grid 511/513, 1023/1025, 1535/1537): the order of a datagram and a timer due at the same instant is a loop artefact",
        "the OS socket object is replaced by a stub for the duration of a run; datagram endpoints are simulated",
    ]
    rng = random.Random(ck.seed * 7723 + 18)
    with common.Lock():
        o, r0, r2 = observe()
        write_obs(o)
        proved = ck.prove(["observed/Obs_C18.vo"])
        if not proved:
            exp = {"req4": list(b"HF-A11ASSISTHREAD"), "req5": list(b"::REQUEST-POLYAIRE-AIRTOUCH-DEVICE-INFO:;"),
                   "udp4": 49004, "udp5": 49005, "inst4": [0, 512, 1024], "inst5": [0, 512, 1024], "ret": 1536,
                   "tcp4": 9004, "tcp5": 9005}
            diff = {k: (o[k], v) for k, v in exp.items() if o[k] != v}
            if diff:
                ck.violation("discovery constants differ from the protocol: " + ", ".join(diff), {
                    "kind": "discovery-silent-run", "observed_vs_expected": {k: list(v) for k, v in diff.items()},
                    "trigger": {"keys": sorted(diff)}})
            else:
                ck.violation("proof", {"theorem_file": "coq/props/C18.v", "failed_at": getattr(ck, "failed_at", "?"),
                                       "log_tail": getattr(ck, "proof_log", "")[-1500:]}, found_input=False)
        try:
            common.build_driver()
        except RuntimeError as ex:
            ck.violation("model-build", {"error": str(ex)[-1500:]}, found_input=False)
            return ck.finish()
    dist = Counter()
    if not all(r0["closed"]) or r0["pending_timers"]:
        ck.violation("discover() returned with an open endpoint or a pending timer", {
            "kind": "discovery-silent-run", "closed": r0["closed"], "timers": r0["pending_timers"], "trigger": {"what": "leak"}})
    # ---- (a) decoders -----------------------------------------------------------------------
    ndg = 40000 if tier == "quick" else 600000
    for gen in (4, 5):
        dgs = []
        for _ in range(ndg // 2):
            d = valid_dgram(rng, gen)
            if rng.random() < 0.55:
                d = mutate(rng, d, gen)
            dgs.append(d)
        mres = common.run_model([[6, gen] + list(d) for d in dgs])
        for d, mr in zip(dgs, mres):
            ck.count()
            ck.note_case((gen, d))
            want, _ = parse_dres(mr)
            got = impl_decode(gen, d)
            dist[got[0]] += 1
            if got != want:
                # is it a property violation? a vendor-format datagram must yield its fields; others nothing
                parts = d.split(b",", 3 if gen == 4 else 4)
                replay = {"kind": "discovery-datagram", "gen": gen, "datagram_hex": d.hex(), "datagram_repr": repr(d),
                          "impl": [x.hex() if isinstance(x, bytes) else x for x in got],
                          "model": [x.hex() if isinstance(x, bytes) else x for x in want],
                          "trigger": {"datagram_hex": d.hex()}}
                ck.violation(f"datagram decoded as {got[0]}, the vendor format says {want[0]}", replay)
                break
    # ---- (b) search schedules --------------------------------------------------------------------
    nsched = 1500 if tier == "quick" else 20000
    # instants exactly on a request instant are avoided: the order of a datagram and a timer
    # falling due at the same instant is an artefact of the loop, not of the client
    grid = [1, 100, 511, 513, 700, 1023, 1025, 1400, 1535, 1537, 2000]
    for k in range(nsched):
        arr = {4: [], 5: []}
        for gen in (4, 5):
            for _ in range(rng.choice([0, 0, 1, 1, 2, 3, 5])):
                d = valid_dgram(rng, gen)
                if rng.random() < 0.4:
                    d = mutate(rng, d, gen)
                t = rng.choice(grid)
                arr[gen].append((t, d))
                if rng.random() < 0.3:
                    arr[gen].append((rng.choice(grid), d))      # duplicate
                if rng.random() < 0.25:
                    # a different datagram that shares the address and id (or the address and serial) with d:
                    # not a duplicate - every vendor-format datagram yields its own entry
                    parts = d.split(b",")
                    if len(parts) >= 4:
                        j = rng.choice([1, len(parts) - 1])
                        parts[j] = parts[j] + rng.choice([b"X", b"2", b" "])
                        arr[gen].append((rng.choice(grid), b",".join(parts)))
        remote = rng.choice([None, None, "10.1.2.3"])
        res = run_discover(arr[4], arr[5], remote)
        ck.count()
        ck.note_case(json.dumps([[t, d.hex()] for g in (4, 5) for t, d in arr[g]]))
        cases = []
        for gen in (4, 5):
            c = [7, gen]
            for (t, d) in sorted(arr[gen], key=lambda x: x[0]):
                c += [t, len(d)] + list(d)
            cases.append(c)
        m4, m5 = common.run_model(cases)
        exp_clients, exp_reqs, exp_end = [], {}, 0
        for gen, mr in ((4, m4), (5, m5)):
            n = mr[0]
            exp_reqs[gen] = mr[1:1 + n]
            tend, nres = mr[1 + n], mr[2 + n]
            exp_end = max(exp_end, tend)
            pos = 3 + n
            for _ in range(nres):
                dr, pos = parse_dres(mr, pos)
                if dr[0] == "resp4":
                    exp_clients.append(("AIRTOUCH_4", dr[1].decode(), dr[3].decode(), dr[2].decode(), "AirTouch 4"))
                else:
                    exp_clients.append(("AIRTOUCH_5", dr[1].decode(), dr[3].decode(), dr[2].decode(), dr[4].decode()))
        got_reqs = {4: [t for t, _, _ in res["requests"].get(49004, [])], 5: [t for t, _, _ in res["requests"].get(49005, [])]}
        dist[f"requests_{len(got_reqs[4])}"] += 1
        dist[f"clients_{min(len(res['clients']), 3)}"] += 1
        dests = {a[0] for p in res["requests"].values() for _, _, a in p}
        replay = {"kind": "discovery-schedule", "arrivals4": [[t, d.hex()] for t, d in arr[4]],
                  "arrivals5": [[t, d.hex()] for t, d in arr[5]], "remote_host": remote,
                  "impl": {"requests": got_reqs, "clients": res["clients"], "returned_at": res["tend"]},
                  "model": {"requests": exp_reqs, "clients": sorted(exp_clients), "returned_at": exp_end},
                  "trigger": {"arrivals": json.dumps([[t, d.hex()] for g in (4, 5) for t, d in arr[g]])}}
        problems = []
        if got_reqs != exp_reqs:
            problems.append(f"requests sent at {got_reqs}, expected {exp_reqs}")
        if res["clients"] != sorted(exp_clients):
            problems.append("returned consoles differ from the answering consoles")
        if res["tend"] != exp_end:
            problems.append(f"returned at {res['tend']}, expected {exp_end}")
        if dests != {remote or "255.255.255.255"}:
            problems.append(f"requests sent to {dests}")
        if not all(res["closed"]) or res["pending_timers"]:
            problems.append("endpoint or timer left behind")
        if problems:
            ck.violation("; ".join(problems), replay)
            break
    ck.extra["input_distribution"] = dict(dist)
    ck.sample({"datagram": repr(dgs[0]), "decoded": [x.hex() if isinstance(x, bytes) else x for x in impl_decode(5, dgs[0])]})
    ck.sample({"arrivals4": [[t, repr(d)] for t, d in arr[4]], "clients": res["clients"]})
    return ck.finish()


def main() -> int:
    ap = argparse.ArgumentParser()
    ap.add_argument("prop", choices=["C18"])
    ap.add_argument("--tier", default="quick", choices=["quick", "thorough"])
    ap.add_argument("--replay")
    a = ap.parse_args()
    return check(a.tier)


if __name__ == "__main__":
    sys.exit(main())
