"""Run stimulus scripts against the real AirTouchSocket on the virtual loop.

A script is a list of tuples; the same alphabet is understood by the Coq model
(coq/sock/Sock.v, decoded in coq/extract/Cases.v):

  ("open",) ("close",) ("send", k, pol) ("send2", k1, pol1, k2, pol2)
  ("adv", ticks) ("net", accept, latency_ticks) ("eof",) ("rst",)
  ("frame", j) ("bad", kind) ("failw",) ("reset",) ("subraise", flag)
and, outside the model (monitors only): ("bp", on) ("subsend", k, pol) ("sendclose", k, pol) ("trunc", j, cut) ("burn", next_id) ("cancelsends",) ("cancelclose",) ("lostparked",) ("subsenddown", k, pol) ("slowclose", ticks) ("until", tick)

The result is one list of canonical events per stimulus.
"""

from __future__ import annotations

import asyncio
import math
import struct
import sys
import warnings

from . import vloop

warnings.simplefilter("ignore", RuntimeWarning)

import pyairtouch.comms.socket as psock  # noqa: E402
from pyairtouch import comms  # noqa: E402

# ---- retry policies --------------------------------------------------------------
# index -> policy object taken from the package's public names; 3 is a custom policy
POLICIES = {
    0: psock.RETRY_IDEMPOTENT,
    1: psock.RETRY_NON_IDEMPOTENT,
    2: psock.RETRY_CONNECTED,
    3: psock.RetryPolicy(max_retries=1, max_lifetime=3.0),
    4: psock.RetryPolicy(max_retries=1, max_lifetime=2),       # lifetime given as an int
}


def policy_params(pol: int) -> tuple[int, int]:
    p = POLICIES[pol]
    ticks = p.max_lifetime * 1024
    assert ticks == int(ticks)
    return p.max_retries, int(ticks)


# ---- message catalogues -------------------------------------------------------------
ENC_OK, ENC_NOENC, ENC_BADWRITE = 0, 1, 2


def catalogue(gen: int):
    """[(message, enc_class)] — index = k."""
    if gen == 4:
        import pyairtouch.at4.comms.x1F_ext as ext
        import pyairtouch.at4.comms.x1FFF30_console_ver as ver
        import pyairtouch.at4.comms.x1FFF11_ac_ability as abil
        import pyairtouch.at4.comms.x1FFF10_err_info as err
        import pyairtouch.at4.comms.x2A_group_ctrl as gc
        import pyairtouch.at4.comms.x2B_group_status as gs
        import pyairtouch.at4.comms.x2C_ac_ctrl as ac
        import pyairtouch.at4.comms.x2D_ac_status as acs
        return [
            (ac.AcControlMessage(0, ac.AcPowerControl.TURN_ON, ac.AcModeControl.UNCHANGED,
                                 ac.AcFanSpeedControl.UNCHANGED, None), ENC_OK),
            (ac.AcControlMessage(1, ac.AcPowerControl.TOGGLE, ac.AcModeControl.COOL,
                                 ac.AcFanSpeedControl.LOW, ac.AcSetPointValue(24)), ENC_OK),
            (gc.GroupControlMessage(3, gc.GroupPowerControl.TURN_OFF,
                                    gc.GroupControlMethod.UNCHANGED, None), ENC_OK),
            (gc.GroupControlMessage(5, gc.GroupPowerControl.UNCHANGED,
                                    gc.GroupControlMethod.DAMPER,
                                    gc.GroupDamperControl(55)), ENC_OK),
            (acs.AcStatusRequest(), ENC_OK),
            (gs.GroupStatusRequest(), ENC_OK),
            (ext.ExtendedMessage(ver.ConsoleVersionRequest()), ENC_OK),
            (ext.ExtendedMessage(abil.AcAbilityRequest("ALL")), ENC_OK),
            (ext.ExtendedMessage(err.AcErrorInformationRequest(2)), ENC_OK),
            # unencodable at write time: struct.error ("B" out of range)
            (gc.GroupControlMessage(1, gc.GroupPowerControl.UNCHANGED,
                                    gc.GroupControlMethod.TEMPERATURE,
                                    gc.GroupSetPointControl(300)), ENC_BADWRITE),
            # no encoder registered
            (comms.UnsupportedMessage(0x77, b"\x01\x02"), ENC_NOENC),
            # unencodable at write time: ValueError (int(nan))
            (acs.AcStatusMessage([acs.AcStatusData(0, acs.AcPowerState.ON, acs.AcMode.COOL,
                                                   acs.AcFanSpeed.LOW, False, False, 22,
                                                   math.nan, 0)]), ENC_BADWRITE),
            # further kinds of unencodable messages (each raises in a different encoder, some in the nested
            # 0x1F sub-encoder): group number / damper value that do not fit a byte, ids outside the request range
            (gc.GroupControlMessage(300, gc.GroupPowerControl.TURN_OFF, gc.GroupControlMethod.UNCHANGED, None), ENC_BADWRITE),
            (gc.GroupControlMessage(1, gc.GroupPowerControl.UNCHANGED, gc.GroupControlMethod.DAMPER,
                                    gc.GroupDamperControl(300)), ENC_BADWRITE),
            (ext.ExtendedMessage(abil.AcAbilityRequest(300)), ENC_BADWRITE),
            (ext.ExtendedMessage(__import__("pyairtouch.at4.comms.x1FFF12_group_names", fromlist=["x"]).GroupNamesRequest(300)), ENC_BADWRITE),
            # a body longer than the 16-bit length field: fails when the HEADER is packed
            (ext.ExtendedMessage(ver.ConsoleVersionMessage(False, ["x" * 70000])), ENC_BADWRITE),
            # requests whose argument is 0 (falsy): announced size and bytes written must still agree
            (ext.ExtendedMessage(__import__("pyairtouch.at4.comms.x1FFF12_group_names", fromlist=["x"]).GroupNamesRequest(0)), ENC_OK),
            (ext.ExtendedMessage(abil.AcAbilityRequest(0)), ENC_OK),
        ]
    import pyairtouch.at5.comms.x1F_ext as ext
    import pyairtouch.at5.comms.x1FFF30_console_ver as ver
    import pyairtouch.at5.comms.x1FFF11_ac_ability as abil
    import pyairtouch.at5.comms.x1FFF10_err_info as err
    import pyairtouch.at5.comms.xC0_ctrl_status as cs
    import pyairtouch.at5.comms.xC020_zone_ctrl as zc
    import pyairtouch.at5.comms.xC021_zone_status as zs
    import pyairtouch.at5.comms.xC022_ac_ctrl as ac
    import pyairtouch.at5.comms.xC023_ac_status as acs
    return [
        (cs.ControlStatusMessage(ac.AcControlMessage([ac.AcControlData(
            0, ac.AcPowerControl.TURN_ON, ac.AcModeControl.UNCHANGED,
            ac.AcFanSpeedControl.UNCHANGED, None)])), ENC_OK),
        (cs.ControlStatusMessage(ac.AcControlMessage([ac.AcControlData(
            1, ac.AcPowerControl.TOGGLE, ac.AcModeControl.COOL,
            ac.AcFanSpeedControl.LOW, 24.0)])), ENC_OK),
        (cs.ControlStatusMessage(zc.ZoneControlMessage([zc.ZoneControlData(
            3, zc.ZonePowerControl.TURN_OFF, None)])), ENC_OK),
        (cs.ControlStatusMessage(zc.ZoneControlMessage([zc.ZoneControlData(
            5, zc.ZonePowerControl.UNCHANGED, zc.ZoneDamperControl(55))])), ENC_OK),
        (cs.ControlStatusMessage(acs.AcStatusRequest()), ENC_OK),
        (cs.ControlStatusMessage(zs.ZoneStatusRequest()), ENC_OK),
        (ext.ExtendedMessage(ver.ConsoleVersionRequest()), ENC_OK),
        (ext.ExtendedMessage(abil.AcAbilityRequest("ALL")), ENC_OK),
        (ext.ExtendedMessage(err.AcErrorInformationRequest(2)), ENC_OK),
        # unencodable at write time: struct.error (set-point 5.0 -> -50)
        (cs.ControlStatusMessage(zc.ZoneControlMessage([zc.ZoneControlData(
            1, zc.ZonePowerControl.UNCHANGED, zc.ZoneSetPointControl(5.0))])), ENC_BADWRITE),
        (comms.UnsupportedMessage(0x77, b"\x01\x02"), ENC_NOENC),
        # unencodable at write time: ValueError (int(nan))
        (cs.ControlStatusMessage(zc.ZoneControlMessage([zc.ZoneControlData(
            1, zc.ZonePowerControl.UNCHANGED, zc.ZoneSetPointControl(math.nan))])),
         ENC_BADWRITE),
        (cs.ControlStatusMessage(zc.ZoneControlMessage([zc.ZoneControlData(300, zc.ZonePowerControl.TURN_OFF, None)])), ENC_BADWRITE),
        (cs.ControlStatusMessage(zc.ZoneControlMessage([zc.ZoneControlData(
            1, zc.ZonePowerControl.UNCHANGED, zc.ZoneDamperControl(300))])), ENC_BADWRITE),
        (ext.ExtendedMessage(abil.AcAbilityRequest(300)), ENC_BADWRITE),
        (ext.ExtendedMessage(__import__("pyairtouch.at5.comms.x1FFF13_zone_names", fromlist=["x"]).ZoneNamesRequest(300)), ENC_BADWRITE),
        (ext.ExtendedMessage(ver.ConsoleVersionMessage(False, ["x" * 70000])), ENC_BADWRITE),
        (ext.ExtendedMessage(__import__("pyairtouch.at5.comms.x1FFF13_zone_names", fromlist=["x"]).ZoneNamesRequest(0)), ENC_OK),
        (ext.ExtendedMessage(abil.AcAbilityRequest(0)), ENC_OK),
    ]


def registry(gen: int):
    if gen == 4:
        import pyairtouch.at4.comms.registry as reg
    else:
        import pyairtouch.at5.comms.registry as reg
    return reg.INSTANCE


# ---- independent framing (reference reader of what the client wrote) -----------------
def crc16_ref(data: bytes) -> int:
    crc = 0xFFFF
    for b in data:
        crc ^= b
        for _ in range(8):
            crc = (crc >> 1) ^ 0xA001 if crc & 1 else crc >> 1
    return crc


def build_frame(gen: int, to: int, frm: int, pid: int, mtype: int, payload: bytes) -> bytes:
    inner = bytes([to, frm, pid, mtype]) + struct.pack(">H", len(payload)) + payload
    crc = struct.pack(">H", crc16_ref(inner))
    if gen == 4:
        return b"\x55\x55" + inner + crc
    dl = 10 + len(payload) + 2
    return b"\x55\x55\x55\xab\x00\x00" + struct.pack(">HH", dl, dl) + b"\x55\x55\x55\xaa" + inner + crc


def split_frames(gen: int, data: bytes):
    """Parse bytes the client wrote. Returns (frames, leftover) with
    frame = (to, frm, pid, mtype, payload, crc_ok)."""
    frames = []
    pos = 0
    pre = 2 if gen == 4 else 14
    while True:
        if len(data) - pos < pre + 6:
            break
        if gen == 4:
            if data[pos:pos + 2] != b"\x55\x55":
                return frames, data[pos:]
        else:
            if data[pos:pos + 4] != b"\x55\x55\x55\xab" or data[pos + 10:pos + 14] != b"\x55\x55\x55\xaa":
                return frames, data[pos:]
        to, frm, pid, mtype, ln = struct.unpack_from(">BBBBH", data, pos + pre)
        end = pos + pre + 6 + ln + 2
        if end > len(data):
            break
        payload = data[pos + pre + 6:end - 2]
        crc = struct.unpack_from(">H", data, end - 2)[0]
        ok = crc == crc16_ref(data[pos + pre:end - 2])
        if gen == 5:
            dl1, dl2 = struct.unpack_from(">HH", data, pos + 6)
            ok = ok and dl1 == dl2 == 10 + ln + 2
        frames.append((to, frm, pid, mtype, bytes(payload), ok))
        pos = end
    return frames, data[pos:]


# ---- received-frame catalogue (what the simulated console sends) ---------------------
def rx_catalogue(gen: int) -> list[bytes]:
    """Valid frames from the console, built with the reference framing."""
    if gen == 4:
        return [
            build_frame(4, 0xB0, 0x80, 1, 0x2B, bytes.fromhex("4080968002e7")),
            build_frame(4, 0xB0, 0x80, 1, 0x2D, bytes.fromhex("10120078c0020000" "4142001a61800000")),
            build_frame(4, 0xB0, 0x90, 1, 0x1F, bytes.fromhex("ff30" "000b312e322e337c312e322e33")),
            build_frame(4, 0xB0, 0x80, 9, 0x99, bytes.fromhex("0102030405")),
        ]
    return [
        build_frame(5, 0xB0, 0x80, 1, 0xC0, bytes.fromhex("2100000000080001" "4080968002e70000")),
        build_frame(5, 0xB0, 0x80, 1, 0xC0, bytes.fromhex("23000000000a0001" "10120078c00200000000")),
        build_frame(5, 0xB0, 0x90, 1, 0x1F, bytes.fromhex("ff30" "000b312e322e337c312e322e33")),
        build_frame(5, 0xB0, 0x80, 9, 0x99, bytes.fromhex("0102030405")),
    ]


def bad_input(gen: int, kind: int) -> bytes:
    good = rx_catalogue(gen)[0]
    if kind == 0:   # garbage of header length
        return bytes([0x13, 0x37] * 10)[: (8 if gen == 4 else 20)]
    if kind == 1:   # bad CRC
        return good[:-1] + bytes([good[-1] ^ 0x01])
    if kind == 2:   # valid framing, undecodable payload (status length not multiple)
        if gen == 4:
            return build_frame(4, 0xB0, 0x80, 1, 0x2B, b"\x01\x02\x03")
        return build_frame(5, 0xB0, 0x80, 1, 0xC0, bytes.fromhex("2100000000080001") + b"\x01\x02\x03")
    raise ValueError(kind)


# ---- canonical events ------------------------------------------------------------------
# ("dial",) ("refused",) ("open", c) ("close", c) ("wfail", c) ("wrote", c, k, pid)
# ("garbled", c) ("notify", b) ("deliver", j) ("sendok",) ("senderr", code) ("time", t)
# ("leak", n) ("unhandled", n) ("sendexc", name)

ERR_CODES = {"NotImplementedError": 1, "NotOpenError": 2, "QueueOverflowError": 3}


class TimerTie(Exception):
    """Two client timers fall due at the same instant: their order is a CPython artefact."""


class SockRunner:
    def __init__(self, gen: int) -> None:
        self.gen = gen
        from . import bystander
        bystander.ensure_sock(gen)              # a second socket of this generation is alive in the process
        self.loop, self.net = vloop.new_loop()
        asyncio.set_event_loop(self.loop)
        self.reg = registry(gen)
        self.cat = catalogue(gen)
        self.rx = rx_catalogue(gen)
        self.sock = psock.AirTouchSocket(self.loop, "10.0.0.1", 9000 + gen, self.reg)
        self.events: list[tuple] = []
        self.sub_raise = False
        self.sub_send = None
        self.sock.subscribe_on_connection_changed(self._conn_changed)
        self.sock.subscribe_on_message_received(self._msg_received)
        self.consumed: dict[int, int] = {}
        # calibrate the shared packet-id counter through the public factory
        h = self.reg.header_factory.create_from_message(self.cat[0][0], 0)
        self.pid0 = (h.packet_id + 1) % 256
        # expected payloads per catalogue entry, from the package's own encoders
        self.expected: list = []
        for msg, cls in self.cat:
            if cls != ENC_OK:
                self.expected.append(None)
                continue
            enc = self.reg.get_encoder(msg.message_id)
            hdr = self.reg.header_factory.create_from_message(msg, enc.size(msg))
            self.pid0 = (self.pid0 + 1) % 256
            self.expected.append((hdr.to_address, msg.message_id, bytes(enc.encode(hdr, msg))))
        self.rx_decoded: list = []
        self.tasks: list[asyncio.Task] = []

    async def _conn_changed(self, *, connected: bool) -> None:
        self.events.append(("notify", bool(connected)))
        if not connected and getattr(self, "sub_send_down", None) is not None:
            # one-shot: a subscriber reacting to the disconnected notification by sending (re-entrancy into the client)
            (k, pol), self.sub_send_down = self.sub_send_down, None
            self.events.append(("downsend",))
            await self._do_send(k, pol)
        if connected and self.sub_send is not None:
            # a connection subscriber that sends when the link comes up (as the API classes do)
            k, pol = self.sub_send
            await self._do_send(k, pol)

    async def _msg_received(self, hdr, msg) -> None:
        j = self._identify_rx(hdr, msg)
        self.events.append(("deliver", j))
        if self.sub_raise:
            raise RuntimeError("subscriber failure (simulated)")

    def _identify_rx(self, hdr, msg) -> int:
        # identify by header fields (type, pid, length) against the rx catalogue
        for j, fr in enumerate(self.rx):
            pre = 2 if self.gen == 4 else 14
            to, frm, pid, mtype, ln = struct.unpack_from(">BBBBH", fr, pre)
            if (hdr.message_id, hdr.packet_id, hdr.message_length, hdr.from_address) == (mtype, pid, ln, frm):
                return j
        return -1

    # -- stimulus execution ----------------------------------------------------------
    def _spawn(self, coro) -> asyncio.Task:
        t = self.loop.create_task(coro)
        self.tasks.append(t)
        return t

    async def _do_send(self, k: int, pol: int) -> None:
        msg, _ = self.cat[k]
        try:
            await self.sock.send(msg, POLICIES[pol])
            self.events.append(("sendok",))
        except asyncio.CancelledError:
            self.events.append(("sendcancelled",))
            raise
        except Exception as ex:  # noqa: BLE001
            code = ERR_CODES.get(type(ex).__name__)
            if code is None:
                self.events.append(("sendexc", type(ex).__name__))
            else:
                self.events.append(("senderr", code))

    def _collect(self) -> list[tuple]:
        self.loop.settle()
        evs = []
        for e in self.net.take_events():
            if e[0] == "dial":
                evs.append(("dial",))
            elif e[0] in ("refused",):
                evs.append(("refused",))
            elif e[0] in ("open", "close", "deadclose"):
                evs.append((e[0], e[1]))
            elif e[0] == "wfail":
                # the failing write carries the header: its packet id identifies the message
                pre = 2 if self.gen == 4 else 14
                data = e[2]
                pid = data[pre + 2] if len(data) > pre + 2 else -1
                evs.append(("wfail", e[1], pid))
        # frames written since last collection, per connection
        for conn in self.net.conns:
            done = self.consumed.get(conn.cid, 0)
            data = bytes(conn.out[done:])
            if not data:
                continue
            frames, left = split_frames(self.gen, data)
            self.consumed[conn.cid] = len(conn.out)
            for (to, frm, pid, mtype, payload, ok) in frames:
                k = self._identify_tx(to, frm, mtype, payload) if ok else -1
                if k < 0:
                    evs.append(("garbled", conn.cid))
                else:
                    evs.append(("wrote", conn.cid, k, pid))
            if left:
                evs.append(("garbled", conn.cid))
        evs.extend(self.events)
        self.events = []
        if self.loop.unhandled:
            evs.append(("unhandled", len(self.loop.unhandled)))
            self.loop.unhandled.clear()
        return evs

    def _identify_tx(self, to, frm, mtype, payload) -> int:
        if frm != 0xB0:
            return -1
        for k, exp in enumerate(self.expected):
            if exp is not None and exp == (to, mtype, payload):
                return k
        return -1

    def step(self, st: tuple) -> list[tuple]:
        kind = st[0]
        loop, net = self.loop, self.net
        if kind == "open":
            self._spawn(self.sock.open_socket())
        elif kind == "close":
            self._spawn(self.sock.close())
        elif kind == "send":
            self._spawn(self._do_send(st[1], st[2]))
        elif kind == "send2":
            if net.fail_next_write:
                self._spawn(self._do_send(st[1], st[2]))
                loop.settle()
                self._spawn(self._do_send(st[3], st[4]))
            else:
                self._spawn(self._do_send(st[1], st[2]))
                self._spawn(self._do_send(st[3], st[4]))
        elif kind == "adv":
            loop.settle()
            target = loop.time() + st[1] * vloop.TICK
            nt = loop.next_timer()
            if nt is not None and nt <= target:
                if loop.timers_at(nt) > 1:
                    raise TimerTie(f"{loop.timers_at(nt)} timers due at {nt}")
                loop.advance_to(nt)
            else:
                loop.advance_to(target)
            evs = self._collect()
            t = loop.time() * 1024
            assert t == int(t)
            evs.append(("time", int(t)))
            return evs
        elif kind == "net":
            net.accept = bool(st[1])
            net.latency_ticks = int(st[2])
        elif kind == "eof":
            cur = net.current()
            if cur is not None:
                cur.transport.peer_eof()
        elif kind == "rst":
            cur = net.current()
            if cur is not None:
                cur.transport.peer_reset()
        elif kind == "frame":
            cur = net.current()
            if cur is not None:
                cur.transport.peer_bytes(self.rx[st[1]])
        elif kind == "bad":
            cur = net.current()
            if cur is not None:
                cur.transport.peer_bytes(bad_input(self.gen, st[1]))
        elif kind == "cancelsends":
            # the callers of the send() calls still in progress give up (asyncio.wait_for time-out / cancellation)
            for t in self.tasks:
                if not t.done():
                    t.cancel()
        elif kind == "cancelclose":
            # ... at the moment the client closes its transport (while the failing send is inside reset_connection)
            def hook(conn):
                self.events.append(("hookcancel",))
                for t in self.tasks:
                    if not t.done():
                        t.cancel()
            net.on_client_close = hook
        elif kind == "lostparked":
            pass        # marker for the monitors: the next stimulus kills the link while drain loops are suspended
        elif kind == "until":
            # advance, timer by timer, to the absolute instant st[1] (ticks); outside the model, monitors only
            loop.settle()
            target = st[1] * vloop.TICK
            for _ in range(10000):
                nt = loop.next_timer()
                if nt is None or nt > target:
                    break
                loop.advance_to(nt)
                loop.settle()
            if loop.time() < target:
                loop.advance_to(target)
            evs = self._collect()
            evs.append(("time", int(round(loop.time() * 1024))))
            return evs
        elif kind == "slowclose":
            # from now on a close() by the client completes st[1] ticks later (the peer takes a moment to finish closing):
            # wait_closed() stays suspended meanwhile and timers can fire inside the tear-down; outside the model
            net.close_delay_ticks = int(st[1])
        elif kind == "burn":
            # consume packet ids (public header factory) until the next send gets id st[1]: puts the wrap of the
            # 256-value counter inside the scenario; outside the model, monitors only
            for _ in range(600):
                h = self.reg.header_factory.create_from_message(self.cat[0][0], 0)
                if (h.packet_id + 1) % 256 == st[1] % 256:
                    break
        elif kind == "trunc":
            # the first `cut` bytes of a good frame (the rest never comes): outside the model, monitors only
            cur = net.current()
            if cur is not None:
                fr = self.rx[st[1] % len(self.rx)]
                cur.transport.peer_bytes(fr[:max(1, min(len(fr) - 1, st[2]))])
        elif kind == "failw":
            net.fail_next_write = True
        elif kind == "reset":
            async def do_reset():
                if self.sock.is_connected:
                    await self.sock.reset_connection()
            self._spawn(do_reset())
        elif kind == "subraise":
            self.sub_raise = bool(st[1])
        elif kind == "subsend":
            self.sub_send = (st[1], st[2]) if st[1] >= 0 else None
        elif kind == "subsenddown":
            self.sub_send_down = (st[1], st[2])
        elif kind == "sendclose":
            # another task calls send() at the moment the client closes its transport (teardown window of
            # reset_connection / of the read loop after a fault): one-shot
            k, pol = st[1], st[2]
            net.on_client_close = lambda conn: (self.events.append(("hooksend", int(bool(conn.lost or conn.transport._conn_lost)))),
                                                self._spawn(self._do_send(k, pol)))
        elif kind == "bp":
            # transport back-pressure: while on, writer.drain() blocks (the transport called
            # pause_writing() on the stream protocol); also applied to connections opened meanwhile
            on = bool(st[1])
            net.backpressure = on
            cur = net.current()
            if cur is not None:
                proto = cur.transport.get_protocol()
                if bool(getattr(proto, "_paused", False)) != on:
                    (proto.pause_writing if on else proto.resume_writing)()
            net.on_open = (lambda conn: conn.transport.get_protocol().pause_writing()) if on else None
        else:
            raise ValueError(st)
        evs = self._collect()
        if kind == "close":
            # C15: nothing of the client may remain scheduled after close() returned
            n = loop.live_timers() + sum(1 for t in asyncio.all_tasks(loop) if not t.done())
            if n:
                evs.append(("leak", n))
        return evs

    def finish(self) -> None:
        for t in asyncio.all_tasks(self.loop):
            t.cancel()
        try:
            self.loop.settle()
        except Exception:  # noqa: BLE001
            pass
        self.loop.close()


def run_script(gen: int, script: list[tuple]):
    r = SockRunner(gen)
    # which OSError class the first failing write reports depends on the script (all six classes get their turn as
    # the FIRST fault: ConnectionResetError, EHOSTUNREACH, BrokenPipeError, ETIMEDOUT, ConnectionAbortedError, ENETUNREACH)
    import zlib
    r.net.error_index = zlib.crc32(repr(script).encode()) % 6 - 1
    try:
        out = []
        for st in script:
            try:
                out.append(r.step(st))
            except TimerTie:
                out.append([("tie",)])
                break
            except Exception as ex:  # noqa: BLE001 - the client broke the harness' expectations
                out.append([("crash", type(ex).__name__ + ": " + str(ex)[:200])])
                break
        return r.pid0, out
    finally:
        r.finish()


if __name__ == "__main__":
    import json
    script = [tuple(x) for x in json.loads(sys.argv[2])]
    pid0, out = run_script(int(sys.argv[1]), script)
    print("pid0", pid0)
    for st, evs in zip(script, out):
        print(st, "->", evs)
