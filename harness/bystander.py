"""Bystanders: a second client of every kind, alive in the same process as the one under check.

Every property is stated for "the client".  A process may hold several (two consoles; an AirTouch 4 and an
AirTouch 5 side by side), and nothing in the statements lets one client's behaviour depend on another's.
State that leaks between client objects - a queue, a subscriber set, a task set, a zone table declared on
the class instead of the instance - is invisible to any rig that runs one client at a time.  So each rig
module registers here: at first use a bystander of the same classes is created on its own virtual loop,
initialised against its own scripted console (a different installation), and left alone while the check runs.
When the check finishes the bystanders are verified:

  API bystander (pyairtouch.connect + init):  nobody called its subscribers, its console received nothing,
  its public state is what it was; then a status change pushed by ITS console is shown by its getters and
  announced to its subscriber, and a command sent through it arrives at its console as exactly one frame.
  Socket bystander (AirTouchSocket):  nothing was written on its connection, its subscribers were not
  called; then a frame sent to it is delivered and a message sent through it is written, alone.

A failure names the client object that was disturbed; the failing input is "any second client in the process"."""

from __future__ import annotations

import asyncio
import dataclasses
from typing import Optional

STATE: dict = {"api": {}, "sock": {}, "building": False}


def _restore(loop) -> None:
    try:
        asyncio.set_event_loop(loop)
    except Exception:  # noqa: BLE001
        pass


def ensure_api(gen: int) -> None:
    """called by console.ApiRig when a rig for `gen` is created"""
    if STATE["building"] or gen in STATE["api"]:
        return
    from . import api_tie as T
    from . import console
    STATE["building"] = True
    prev = None
    try:
        try:
            prev = asyncio.get_event_loop_policy().get_event_loop()
        except Exception:  # noqa: BLE001
            prev = None
        inst = console.simple_installation(gen, 2, 4)
        inst.zones = {z: f"By{z}" for z in inst.zones}
        inst.version = (False, ["9.9.9"])
        rig = console.ApiRig(inst)
        r, _ = rig.init()
        calls = []

        async def cb(ident):
            calls.append(ident)
        for ac in rig.at.air_conditioners:
            ac.subscribe(cb)
            ac.subscribe_ac_state(cb)
            for z in ac.zones:
                z.subscribe(cb)
        rig.at.subscribe(cb)
        rig.pump()
        snap = _api_snapshot(T, rig)
        STATE["api"][gen] = {"rig": rig, "calls": calls, "snap": snap, "init": r, "n_rx": len(rig.console.received),
                             "cid": rig.net.current().cid if rig.net.current() is not None else None}
    finally:
        STATE["building"] = False
        _restore(prev)


def _api_snapshot(T, rig) -> dict:
    at = rig.at
    return {"initialised": bool(at.initialised), "version": (bool(at.update_available), list(at.console_versions)),
            "acs": {ac.ac_id: (ac.name, sorted(z.zone_id for z in ac.zones), T.safe(T.getters_ac, ac),
                               {z.zone_id: (z.name, T.safe(T.getters_zone, z)) for z in ac.zones})
                    for ac in at.air_conditioners}}


def ensure_sock(gen: int) -> None:
    """called by sockrun.SockRunner / rxrig.RxRig when a socket rig for `gen` is created"""
    if STATE["building"] or gen in STATE["sock"]:
        return
    from . import rxrig
    STATE["building"] = True
    prev = None
    try:
        try:
            prev = asyncio.get_event_loop_policy().get_event_loop()
        except Exception:  # noqa: BLE001
            prev = None
        rig = rxrig.RxRig(gen)
        conn = rig.net.current()
        STATE["sock"][gen] = {"rig": rig, "cid": conn.cid if conn is not None else None,
                              "written": len(conn.out) if conn is not None else 0}
    finally:
        STATE["building"] = False
        _restore(prev)


def verify(ck) -> None:
    """run by common.Check.finish()"""
    from . import api_tie as T
    from . import sockrun
    import pyairtouch.comms.socket as psock
    prev = None
    try:
        prev = asyncio.get_event_loop_policy().get_event_loop()
    except Exception:  # noqa: BLE001
        prev = None
    try:
        for gen, b in list(STATE["api"].items()):
            rig = b["rig"]
            asyncio.set_event_loop(rig.loop)
            bad = []
            if b["init"] != ("ok", True):
                bad.append(f"the bystander did not initialise: {b['init']}")
            try:
                rig.pump()
                if b["calls"]:
                    bad.append(f"its subscribers were invoked {len(b['calls'])} times although its console sent nothing")
                if len(rig.console.received) != b["n_rx"]:
                    extra = rig.console.received[b["n_rx"]:]
                    bad.append(f"its console received {len(extra)} frame(s) it never sent: {[f[8].hex() for f in extra[:3]]}")
                snap = _api_snapshot(T, rig)
                if snap != b["snap"]:
                    keys = [k for k in snap if snap[k] != b["snap"].get(k)]
                    bad.append(f"its public state changed ({keys}) although its console sent nothing")
                cur = rig.net.current()
                if cur is None or cur.cid != b["cid"]:
                    bad.append("its connection was closed or replaced")
                if not bad:
                    # it still works: a change pushed by its console is shown and announced; a command arrives, alone
                    inst = rig.inst
                    n = inst.acs[0].number
                    st = inst.ac_status[n]
                    new = dataclasses.replace(st, set_point=(st.set_point + 1) if gen == 4 else round(st.set_point * 10 + 10) / 10.0)
                    inst.ac_status[n] = new
                    rig.console.push(inst.ac_status_message(only={n}))
                    rig.pump()
                    ac = [a for a in rig.at.air_conditioners if a.ac_id == n][0]
                    if float(ac.target_temperature) != float(new.set_point) or not b["calls"]:
                        bad.append(f"a status change from its console is not shown / announced (target {ac.target_temperature}, calls {len(b['calls'])})")
                    b["calls"].clear()
                    # ... and a zone status change reaches ITS zone object and ITS zone subscriber
                    zs = sorted(inst.zone_status)
                    if zs:
                        z = zs[0]
                        zst = inst.zone_status[z]
                        newd = (zst.damper_percentage + 7) % 101 if hasattr(zst, "damper_percentage") else None
                        if newd is not None:
                            inst.zone_status[z] = dataclasses.replace(zst, damper_percentage=newd)
                            rig.console.push(inst.zone_status_message(only={z}))
                            rig.pump()
                            zo = [zz for a in rig.at.air_conditioners for zz in a.zones if zz.zone_id == z]
                            if not zo or zo[0].current_damper_percentage != newd or not b["calls"]:
                                bad.append(f"a zone status change from its console is not shown / announced "
                                           f"(damper {zo[0].current_damper_percentage if zo else None}, expected {newd}, calls {len(b['calls'])})")
                    b["calls"].clear()
                    m0 = len(rig.console.received)
                    rig.run(ac.set_power(T.POWER_CTL[2]))
                    rig.pump()
                    got = rig.console.received[m0:]
                    if len(got) != 1:
                        bad.append(f"one command sent through it produced {len(got)} frame(s) at its console: {[f[8].hex() for f in got[:3]]}")
                    b["snap"] = _api_snapshot(T, rig)
                    b["n_rx"] = len(rig.console.received)
            except Exception as ex:  # noqa: BLE001
                bad.append(f"exception while exercising it: {type(ex).__name__}: {str(ex)[:200]}")
            ck.extra["bystander_clients_verified"] = ck.extra.get("bystander_clients_verified", 0) + 1
            if bad:
                ck.violation("a second client alive in the same process was disturbed by the client under check",
                             {"kind": "bystander-client", "gen": gen, "failure": bad[:4],
                              "trigger": {"class": "bystander-client", "gen": gen},
                              "input": f"a second AirTouch {gen} client (2 ACs, 4 zones, its own console) initialised in the same process "
                                       f"before the scenarios of this check ran"})
                STATE["api"].pop(gen, None)
        for gen, b in list(STATE["sock"].items()):
            rig = b["rig"]
            asyncio.set_event_loop(rig.loop)
            bad = []
            try:
                rig.loop.settle()
                conn = rig.net.current()
                if conn is None or conn.cid != b["cid"]:
                    bad.append("its connection was closed or replaced")
                elif len(conn.out) != b["written"]:
                    bad.append(f"{len(conn.out) - b['written']} bytes were written on its connection although nothing was sent through it")
                if rig.delivered:
                    bad.append(f"{len(rig.delivered)} message(s) were delivered to its subscriber although its console sent nothing")
                if not bad:
                    probe = sockrun.rx_catalogue(gen)[0]
                    rig.feed([probe])
                    ds, _, reset, unh = rig.take()
                    if len(ds) != 1 or reset:
                        bad.append(f"a frame from its console was not delivered (deliveries {len(ds)}, reset {reset})")
                    conn = rig.net.current()
                    before = len(conn.out)
                    msg = sockrun.catalogue(gen)[0][0]
                    t = rig.loop.create_task(rig.sock.send(msg, psock.RETRY_NON_IDEMPOTENT))
                    rig.loop.settle()
                    frames, left = sockrun.split_frames(gen, bytes(conn.out[before:]))
                    if len(frames) != 1 or left or not frames[0][5]:
                        bad.append(f"one message sent through it produced {len(frames)} frame(s) (+{len(left)} stray bytes) on its connection")
                    b["written"] = len(conn.out)
            except Exception as ex:  # noqa: BLE001
                bad.append(f"exception while exercising it: {type(ex).__name__}: {str(ex)[:200]}")
            ck.extra["bystander_sockets_verified"] = ck.extra.get("bystander_sockets_verified", 0) + 1
            if bad:
                ck.violation("a second socket alive in the same process was disturbed by the socket under check",
                             {"kind": "bystander-socket", "gen": gen, "failure": bad[:4],
                              "trigger": {"class": "bystander-socket", "gen": gen},
                              "input": f"a second AirTouchSocket (generation {gen}) opened and connected in the same process before the "
                                       f"scripts of this check ran"})
                STATE["sock"].pop(gen, None)
    finally:
        _restore(prev)
