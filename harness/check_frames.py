"""Checks C06 (checksum / damaged frames) and C13 (segmentation independence).

  python -m harness.check_frames <C06|C13> --tier quick|thorough
"""

from __future__ import annotations

import argparse
import itertools
import json
import random
import struct
import sys
from collections import Counter

from . import vloop, common, rxrig, sockrun


# ================================================================================ C06
def observe_crc_table() -> list[int]:
    """T[i] recovered through the public calculator: crc([b]) = 0x00FF ^ T[b ^ 0xFF]."""
    from pyairtouch.comms.crc16 import Crc16Modbus
    c = Crc16Modbus()
    return [int.from_bytes(c.calculate(bytes([i ^ 0xFF])), "big") ^ 0x00FF for i in range(256)]


def write_obs_c06(table: list[int]) -> None:
    p = common.COQ / "observed" / "Obs_C06.v"
    p.parent.mkdir(exist_ok=True)
    txt = ("(* generated on every run by harness/check_frames.py from /repo's Crc16Modbus *)\n"
           "From Coq Require Import NArith List.\nImport ListNotations.\nOpen Scope N_scope.\n"
           "Definition obs_table : list N := [%s].\n" % "; ".join(map(str, table)))
    if not p.exists() or p.read_text() != txt:
        p.write_text(txt)


def weight(bs) -> int:
    return sum(bin(b).count("1") for b in bs)


def span_lsb(bs) -> int:
    pos = [8 * i + j for i, x in enumerate(bs) for j in range(8) if x >> j & 1]
    return max(pos) - min(pos) + 1 if pos else 0


def is_detectable(n: int, em: bytes, eh: int, el: int) -> bool:
    """Python rendering of the Coq predicate CrcProofs.detectable."""
    nz = [i for i, b in enumerate(em) if b]
    chk = (eh, el) != (0, 0)
    if not nz:
        return chk
    if not chk:
        lo, hi = nz[0], nz[-1]
        if hi - lo <= 1:
            return True
        if hi - lo == 2:
            e0, e2 = em[lo], em[hi]
            tz = (e0 & -e0).bit_length() - 1
            if 1 <= tz and e2.bit_length() <= tz and e2.bit_length() <= 7:
                return True
        if weight(em) == 2 and n <= 4095:
            return True
        return False
    if weight(em) == 1 and weight((eh, el)) == 1 and n <= 4093:
        return True
    return False


def apply_pattern(gen: int, frame: bytes, em: bytes, eh: int, el: int) -> bytes:
    pre = 2 if gen == 4 else 14
    b = bytearray(frame)
    for i, e in enumerate(em):
        b[pre + i] ^= e
    b[-2] ^= eh
    b[-1] ^= el
    return bytes(b)


def gen_patterns(n: int, rng: random.Random, tier: str):
    """Error patterns over n covered bytes + 2 check bytes, as (em, eh, el, label)."""
    total_bits = 8 * (n + 2)

    def from_bits(bits):
        e = bytearray(n + 2)
        for p in bits:
            e[p // 8] |= 1 << (p % 8)
        return bytes(e[:n]), e[n], e[n + 1]
    # every single bit
    for p in range(total_bits):
        yield (*from_bits([p]), "single")
    # double bits: all pairs within a window, plus random far pairs
    win = 24 if tier == "quick" else 64
    for p in range(total_bits):
        for q in range(p + 1, min(total_bits, p + win)):
            yield (*from_bits([p, q]), "double")
    for _ in range(300 if tier == "quick" else 3000):
        p, q = rng.sample(range(total_bits), 2)
        yield (*from_bits([p, q]), "double-far")
    # bursts (LSB-first bit order) of every length 3..16 at every position: both ends set
    for L in range(3, 17):
        for p in range(total_bits - L + 1):
            reps = 1 if tier == "quick" else 4
            for _ in range(reps):
                mid = [p + k for k in range(1, L - 1) if rng.random() < 0.5]
                yield (*from_bits([p, p + L - 1] + mid), "burst")
    # random other patterns (outside the guarantee; model comparison only)
    for _ in range(200 if tier == "quick" else 2000):
        k = rng.choice([3, 4, 5, 8])
        yield (*from_bits(rng.sample(range(total_bits), k)), "random")


def undecodable(gen: int, frame: bytes) -> bool:
    """the frame's payload, as it stands, is rejected by the registry's message decoder"""
    from . import codec_tie
    pre = 2 if gen == 4 else 14
    try:
        _, _, _, mtype, ln = struct.unpack_from(">BBBBH", frame, pre)
        d = codec_tie.codec(gen).impl_decode(mtype, bytes(frame[pre + 6:pre + 6 + ln]))
    except Exception:  # noqa: BLE001
        return False
    return d[0] != "ok"


def check_c06(tier: str) -> int:
    ck = common.Check("C06", tier)
    ck.rule = ("(a) Crc16Modbus.calculate/validate vs the extracted table-driven model on all strings of length 0..2 "
               "and seeded random strings; table observed exhaustively into Obs_C06.v and re-proved equal to the model's; "
               "(b) error patterns (every single bit, double bits in a window + far pairs, LSB-first bursts of every length "
               "3..16 at every position, random others) applied to console frames of both generations and fed to the real "
               "receive path; non-trivial/distinct = distinct (generation, frame, pattern) with a non-zero pattern")
    ck.assumptions = [
        "bursts are taken in the CRC's own bit order (LSB first within a byte); TCP defines none",
        "detection is claimed for <= 4093/4095 covered bytes (period of the generator); longer frames are outside every CRC-16 guarantee",
        "limits of the vendor format (check bytes sent high byte first; AT4 length field unprotected) are known findings, not code defects",
    ]
    rng = random.Random(ck.seed * 104729 + 6)
    with common.Lock():
        table = observe_crc_table()
        write_obs_c06(table)
        proved = ck.prove(["observed/Obs_C06.vo"])
        if not proved:
            # search for a concrete failing input: a table entry that is not L8(index)
            ref = [sockrun.crc16_ref(bytes([i ^ 0xFF])) ^ 0xFF for i in range(256)]
            badidx = [i for i in range(256) if table[i] != ref[i]]
            if badidx:
                i = badidx[0]
                ck.violation("checksum differs from CRC-16/MODBUS", {
                    "kind": "crc-input", "input_hex": bytes([i ^ 0xFF]).hex(),
                    "impl": f"{table[i] ^ 0xFF:04x}", "crc16_modbus": f"{ref[i] ^ 0xFF:04x}",
                    "table_index": i, "trigger": {"table_index": i}})
            else:
                ck.violation("proof", {"theorem_file": "coq/props/C06.v", "failed_at": getattr(ck, "failed_at", "?"),
                                       "log_tail": getattr(ck, "proof_log", "")[-1500:]}, found_input=False)
        try:
            common.build_driver()
        except RuntimeError as ex:
            ck.violation("model-build", {"error": str(ex)[-1500:]}, found_input=False)
            return ck.finish()

    from pyairtouch.comms.crc16 import Crc16Modbus
    calc = Crc16Modbus()
    dist = Counter()
    # ---- (a) calculate / validate --------------------------------------------------------
    strings = [b""] + [bytes([a]) for a in range(256)] + [bytes([a, b]) for a in range(256) for b in range(256)]
    nrand = 3000 if tier == "quick" else 40000
    for _ in range(nrand):
        L = rng.choice([3, 4, 5, 8, 13, 21, 40, 100, 255, 256, 257])
        strings.append(bytes(rng.randrange(256) for _ in range(L)))
    for L in ([2048, 4093, 4096, 5000] if tier == "quick" else [2048, 4093, 4096, 5000, 20000, 65535]):
        strings.append(bytes(rng.randrange(256) for _ in range(L)))
    cases = [[2] + list(s) for s in strings]
    mres = common.run_model(cases)
    for s, mr in zip(strings, mres):
        ck.count()
        got = int.from_bytes(calc.calculate(s), "big")
        ref = sockrun.crc16_ref(s)
        dist["crc_strings"] += 1
        if got != ref:
            ck.violation("checksum differs from CRC-16/MODBUS", {
                "kind": "crc-input", "input_hex": s.hex()[:400], "impl": f"{got:04x}", "crc16_modbus": f"{ref:04x}",
                "trigger": {"input_hex": s.hex()[:64]}})
            break
        if got != mr[0]:
            ck.violation("correspondence", {"kind": "crc-input", "input_hex": s.hex()[:400], "impl": got, "model": mr[0],
                                            "no_longer_checks": "crc_tbl (Crc.v) vs Crc16Modbus.calculate"}, found_input=False)
            break
    if tier == "thorough":
        # the property's own sweep: every 3-byte string exercises every (register, byte) step
        bad3 = None
        # reference: bit-by-bit for one byte step, tabulated once (256 x 8 shifts), then chained byte by byte
        step_t = []
        for v in range(256):
            r = v
            for _ in range(8):
                r = (r >> 1) ^ 0xA001 if r & 1 else r >> 1
            step_t.append(r)
        calculate = calc.calculate
        for a in range(256):
            ra = (0xFFFF >> 8) ^ step_t[(0xFFFF ^ a) & 0xFF]
            for b in range(256):
                rb = (ra >> 8) ^ step_t[(ra ^ b) & 0xFF]
                pre_ = bytes([a, b])
                for c in range(256):
                    rc = (rb >> 8) ^ step_t[(rb ^ c) & 0xFF]
                    if calculate(pre_ + bytes((c,))) != rc.to_bytes(2, "big"):
                        bad3 = pre_ + bytes((c,))
                        break
                if bad3:
                    break
            if bad3:
                break
        if bad3 is None and any(sockrun.crc16_ref(bytes(t)) != int.from_bytes(calculate(bytes(t)), "big")
                                for t in [(0, 0, 0), (255, 255, 255), (1, 2, 3), (0x29, 0xD6, 0x80)]):
            bad3 = bytes(3)
        ck.count(1 << 24)
        dist["crc_3byte_exhaustive"] = 1 << 24
        if bad3:
            ck.violation("checksum differs from CRC-16/MODBUS", {"kind": "crc-input", "input_hex": bad3.hex(),
                                                                  "trigger": {"input_hex": bad3.hex()}})
    # validate(): right and wrong check bytes
    vcases, vexp = [], []
    for _ in range(2000 if tier == "quick" else 20000):
        s = bytes(rng.randrange(256) for _ in range(rng.choice([0, 1, 5, 16, 40])))
        good = calc.calculate(s)
        chk = good if rng.random() < 0.5 else bytes([good[0] ^ rng.choice([0, 1, 0x80]), good[1] ^ rng.choice([0, 2, 0x40])])
        vexp.append((s, chk, bool(calc.validate(s, chk))))
        vcases.append([3, chk[0], chk[1]] + list(s))
    for (s, chk, got), mr in zip(vexp, common.run_model(vcases)):
        ck.count()
        dist["validate_calls"] += 1
        if got != bool(mr[0]) or got != (chk == sockrun.crc16_ref(s).to_bytes(2, "big")):
            ck.violation("validate() wrong", {"kind": "validate", "buffer_hex": s.hex(), "checksum_hex": chk.hex(),
                                              "impl": got, "model": bool(mr[0]),
                                              "trigger": {"buffer_hex": s.hex(), "checksum_hex": chk.hex()}})
            break

    # ---- (a') the check bytes the SEND path writes: CRC over address .. payload, for any address bytes -----------
    import dataclasses
    import pyairtouch.comms.socket as psock
    for gen in (4, 5):
        rig = rxrig.RxRig(gen)
        try:
            reg = sockrun.registry(gen)
            cat = [m for m, c in sockrun.catalogue(gen) if c == sockrun.ENC_OK]
            for to, frm in [(0x80, 0xB0), (0x55, 0xB0), (0x55, 0x55), (0xAA, 0x55), (0x00, 0xFF), (0x90, 0xB0), (0xB0, 0x80)]:
                for msg in (cat[0], cat[6]):
                    ck.count()
                    dist["send_path_check_bytes"] += 1
                    if not rig.connect():
                        break
                    conn = rig.net.current()
                    before = len(conn.out)
                    enc = reg.get_encoder(msg.message_id)
                    hdr = dataclasses.replace(reg.header_factory.create_from_message(msg, enc.size(msg)), to_address=to, from_address=frm)
                    t = rig.loop.create_task(rig.sock.send_with_header(hdr, msg, psock.RETRY_NON_IDEMPOTENT))
                    rig.loop.settle()
                    data = bytes(conn.out[before:])
                    frames, left = sockrun.split_frames(gen, data)
                    ok = len(frames) == 1 and not left and frames[0][5] and frames[0][0] == to and frames[0][1] == frm
                    if not ok:
                        ck.violation("check bytes written by the send path are not CRC-16/MODBUS over address through payload", {
                            "kind": "crc-send-path", "gen": gen, "to_address": to, "from_address": frm, "message": repr(msg)[:120],
                            "written_hex": data.hex(), "trigger": {"class": "crc-send-path", "gen": gen, "to": to, "from": frm},
                            "failure": f"reference reader: {[(f[0], f[1], f[2], f[3], f[5]) for f in frames]} (to, from, id, type, crc ok), left over {len(left)} bytes"})
        finally:
            rig.close()
    # ---- (a'') headers that bring the check register to 0 (and to 0xFFFF) before the payload ----------------------
    # The register is 16 bits of state like any other; a calculator that treats 0 (or its start value) as "nothing
    # accumulated yet" is wrong for one header in 65536.  Such headers are found by search with the reference CRC, then
    # (i) written by the send path, (ii) received as frames.
    for gen in (4, 5):
        rig = rxrig.RxRig(gen)
        try:
            reg = sockrun.registry(gen)
            cat = [m for m, c in sockrun.catalogue(gen) if c == sockrun.ENC_OK]
            msg = cat[0]
            enc = reg.get_encoder(msg.message_id)
            for want in (0x0000, 0xFFFF):
                found = None
                for _ in range(40):
                    h0 = reg.header_factory.create_from_message(msg, enc.size(msg))
                    if not rig.connect():
                        break
                    conn = rig.net.current()
                    before = len(conn.out)
                    rig.loop.create_task(rig.sock.send_with_header(h0, msg, psock.RETRY_NON_IDEMPOTENT))
                    rig.loop.settle()
                    fs, _left = sockrun.split_frames(gen, bytes(conn.out[before:]))
                    if len(fs) != 1:
                        break
                    _to, _frm, pid, mtype, payload, _ok = fs[0][:6]
                    tail = bytes([pid, mtype]) + struct.pack(">H", len(payload))
                    hits = [(to, frm) for to in range(256) for frm in range(256)
                            if sockrun.crc16_ref(bytes([to, frm]) + tail) == want]
                    if hits:
                        found = (hits[0], h0, payload, pid, mtype)
                        break
                if found is None:
                    ck.extra.setdefault("notes", []).append(f"AT{gen}: no header with check register {want:#06x} found in 40 packet ids")
                    continue
                (to, frm), h0, payload, pid, mtype = found
                ck.count()
                dist["register_%04x_headers" % want] += 1
                conn = rig.net.current()
                before = len(conn.out)
                hdr = dataclasses.replace(h0, to_address=to, from_address=frm)
                rig.loop.create_task(rig.sock.send_with_header(hdr, msg, psock.RETRY_NON_IDEMPOTENT))
                rig.loop.settle()
                data = bytes(conn.out[before:])
                fs, left = sockrun.split_frames(gen, data)
                rep = {"kind": "crc-register", "gen": gen, "to_address": to, "from_address": frm, "packet_id": pid,
                       "register_after_header": want, "message": repr(msg)[:120],
                       "trigger": {"class": "crc-register", "gen": gen, "register": want}}
                if not (len(fs) == 1 and not left and fs[0][5]):
                    ck.violation("check bytes written by the send path are wrong for a header that brings the check register to "
                                 f"{want:#06x}", dict(rep, written_hex=data.hex(),
                                                      failure=f"reference reader: {[(f[0], f[1], f[2], f[3], f[5]) for f in fs]} (to, from, id, type, crc ok)"))
                # (ii) the same header on a frame FROM the console: it is intact, so it is delivered
                rx = rxrig.frame_library(gen, random.Random(5), 1)[0]
                pre_ = 2 if gen == 4 else 14
                rpid, rtype = rx[pre_ + 2], rx[pre_ + 3]
                rpayload = rx[pre_ + 6:-2]
                rtail = bytes([rpid, rtype]) + struct.pack(">H", len(rpayload))
                rhits = []
                for p2 in range(256):
                    rtail = bytes([p2, rtype]) + struct.pack(">H", len(rpayload))
                    rhits = [(a, b, p2) for a in (0xB0, 0x80, 0x90) for b in range(256) if sockrun.crc16_ref(bytes([a, b]) + rtail) == want]
                    if rhits:
                        break
                if rhits:
                    a, b, p2 = rhits[0]
                    fr = sockrun.build_frame(gen, a, b, p2, rtype, rpayload)
                    if rig.connect():
                        rig.take()
                        rig.feed([fr])
                        ds, _, reset, _unh = rig.take()
                        ck.count()
                        dist["register_%04x_frames_received" % want] += 1
                        if len(ds) != 1 or reset:
                            ck.violation(f"an intact frame whose header brings the check register to {want:#06x} is not delivered",
                                         dict(rep, kind="crc-register-rx", frame_hex=fr.hex(), failure=f"deliveries {len(ds)}, reset {reset}"))
        finally:
            rig.close()
    # ---- (b) corrupted frames through the real receive path ---------------------------------
    known_hits = Counter()
    for gen in (4, 5):
        pre = 2 if gen == 4 else 14
        lib = rxrig.frame_library(gen, rng, 3 if tier == "quick" else 8)
        nfr = 3 if tier == "quick" else len(lib)
        frames = [rxrig.with_pid(gen, f, 10 + i) for i, f in enumerate(lib[:2] + lib[4:4 + nfr - 2])]
        # frames without payload (length field 0): a status request echoed by the console, an unknown type with no body
        frames = [sockrun.build_frame(gen, 0xB0, 0x80, 90, 0x2B if gen == 4 else 0x99, b""),
                  sockrun.build_frame(gen, 0xB0, 0x80, 91, 0x2D if gen == 4 else 0x77, b"")] + frames
        good_probe = rxrig.with_pid(gen, lib[0], 200)
        rig = rxrig.RxRig(gen)
        try:
            for fi, fr in enumerate(frames):
                n = len(fr) - pre - 2
                ln = struct.unpack_from(">H", fr, pre + 4)[0]
                hdr_t = tuple(struct.unpack_from(">BBBBH", fr, pre))
                batch, meta = [], []
                for em, eh, el, label in gen_patterns(n, rng, tier):
                    bad = apply_pattern(gen, fr, em, eh, el)
                    touches_len = gen == 4 and (em[4] or em[5])
                    batch.append(rxrig.model_stream_case(gen, [bad]))
                    meta.append((em, eh, el, label, bad, touches_len))
                mres = common.run_model(batch)
                for (em, eh, el, label, bad, touches_len), mr in zip(meta, mres):
                    ck.count()
                    ck.note_case((gen, fi, em, eh, el))
                    dist[f"pattern_{label}"] += 1
                    if not rig.connect():
                        ck.violation("client did not reconnect after a rejected frame", {
                            "kind": "corrupt-frame", "gen": gen, "trigger": {"what": "no-reconnect"}})
                        break
                    vloop.log_debug(ck.evaluations % 2 == 0)      # the DEBUG-only frame dump is code under check too
                    if ck.evaluations % 3 == 0:
                        # the usual history of a damaged frame: the console has sent the same frame before, intact, on this
                        # connection (a status it repeats).  Having accepted a frame says nothing about the next one.
                        rig.feed([fr])
                        rig.take()
                        dist["damaged_copy_after_the_intact_frame"] += 1
                        replay_prefix = fr.hex()
                        if not rig.connect():
                            break
                    else:
                        replay_prefix = None
                    aftermath = None
                    if ck.evaluations % 5 == 1:
                        # the first attempt to re-establish the connection fails (refusal, no route, time-out, unreachable
                        # network, name resolution, abort: the classes cycle); the next one is accepted
                        rig.net.refuse_next = 1
                        aftermath = "first reconnection attempt fails"
                        dist["reject_then_failed_first_redial"] += 1
                    rig.feed([bad])
                    ds, msgs, reset, unh = rig.take()
                    if reset and ck.evaluations % 7 == 3 and not rig.sock.is_connected:
                        # the application closes and re-opens the client while the reconnection is still in flight
                        t_ = rig.loop.create_task(rig.sock.close())
                        rig.loop.settle()
                        t2_ = rig.loop.create_task(rig.sock.open_socket())
                        rig.loop.settle()
                        rig.net.take_events()
                        aftermath = (aftermath + "; " if aftermath else "") + "close() and open_socket() while the reconnection is in flight"
                        dist["reject_then_close_open_during_redial"] += 1
                    m_ds, m_alive, m_buf = rxrig.parse_model_stream(mr)
                    det = is_detectable(n, em, eh, el) and not touches_len
                    dist["detectable" if det else "outside_guarantee"] += 1
                    replay = {"kind": "corrupt-frame", "gen": gen, "frame_hex": fr.hex(), "received_hex": bad.hex(),
                              "pattern_covered_hex": em.hex(), "pattern_check_hex": f"{eh:02x}{el:02x}", "class": label,
                              "intact_frame_received_first_hex": replay_prefix,
                              "delivered": [list(d) for d in ds], "model_delivered": [list(d) for d in m_ds]}
                    if ds:
                        if det:
                            replay["trigger"] = {"received_hex": bad.hex()}
                            ck.violation(f"a frame damaged by a detectable pattern ({label}) was delivered", replay)
                        else:
                            straddle = bool(any(em[-2:]) and (eh or el) and not any(em[:-2]))
                            cls = ("at4-length-field" if touches_len else
                                   "burst-straddling-check-bytes" if straddle else "outside-crc16-guarantee")
                            replay["trigger"] = {"class": cls}
                            known_hits[cls] += 1
                            if cls == "outside-crc16-guarantee":
                                pass     # e.g. a random 5-bit pattern that is a codeword: no guarantee exists
                            else:
                                ck.violation(f"frame altered by a pattern the vendor format cannot detect ({cls}) was delivered", replay)
                    if ds != m_ds and not ds and m_ds and undecodable(gen, bad):
                        # the check bytes happen to fit (a pattern outside the CRC-16 guarantee) but the altered payload is
                        # no longer a decodable message: the receive path rejects it one step later, the raw stream model
                        # (which has no message decoder) cannot know
                        dist["altered_frame_rejected_by_the_message_decoder"] += 1
                    elif ds != m_ds:
                        replay["no_longer_checks"] = "Stream.v rx_one vs _read_one_message (deliveries)"
                        replay["trigger"] = {"received_hex": bad.hex(), "what": "model-mismatch"}
                        ck.violation("correspondence", replay, found_input=False)
                    if unh:
                        replay["trigger"] = {"received_hex": bad.hex(), "what": "unhandled"}
                        ck.violation("unhandled exception in the receive task", replay)
                    # the reader may be waiting for more bytes (length enlarged): flush with a reset
                    if not reset and not ds:
                        cur = rig.net.current()
                        if cur is not None:
                            cur.transport.peer_reset()
                        rig.take()
                    elif not reset and ds and m_alive and m_buf:
                        cur = rig.net.current()
                        if cur is not None:
                            cur.transport.peer_reset()
                        rig.take()
                    # later intact frames are delivered
                    if ck.evaluations % 97 == 0 or aftermath:
                        replay["after_the_rejection"] = aftermath
                        if not rig.connect():
                            replay["trigger"] = {"what": "no-reconnect"}
                            ck.violation("the connection was not re-established after a rejected frame", replay)
                            break
                        else:
                            rig.feed([good_probe])
                            ds2, _, _, _ = rig.take()
                            dist["probe_after_reject"] += 1
                            if [d[2] for d in ds2] != [200]:
                                replay["trigger"] = {"what": "probe-not-delivered"}
                                ck.violation("an intact frame sent after a rejected one was not delivered", replay)
        finally:
            rig.close()
    # the explicit K4 construct: AT4 frame embedding a shorter valid frame, one length bit flipped
    inner = sockrun.build_frame(4, 0xB0, 0x80, 7, 0x2C, bytes.fromhex("40125800"))
    outer = sockrun.build_frame(4, 0xB0, 0x80, 7, 0x2C, inner[8:])
    flipped = bytearray(outer)
    flipped[7] ^= 0x02
    rig = rxrig.RxRig(4)
    try:
        rig.feed([bytes(flipped)])
        ds, msgs, reset, unh = rig.take()
        ck.count()
        if ds and ds[0][4] == 4:
            ck.violation("frame altered by a pattern the vendor format cannot detect (at4-length-field) was delivered", {
                "kind": "corrupt-frame", "gen": 4, "frame_hex": outer.hex(), "received_hex": bytes(flipped).hex(),
                "delivered": [list(d) for d in ds], "trigger": {"class": "at4-length-field"}})
    finally:
        rig.close()
    # the same construct on AirTouch 5: there the length is carried three times (two outer fields, one inner and
    # covered by the check), so one flipped bit in the inner length of a frame that embeds a shorter valid frame
    # is caught by the consistency of the three and must NOT be delivered
    inner5 = sockrun.build_frame(5, 0xB0, 0x80, 7, 0x99, bytes.fromhex("01020304"))
    outer5 = sockrun.build_frame(5, 0xB0, 0x80, 7, 0x99, inner5[20:])         # payload = inner payload + inner check bytes
    for pos, bit, what in [(19, 0x02, "inner length 6 -> 4"), (9, 0x02, "second outer length"), (7, 0x02, "first outer length")]:
        fl5 = bytearray(outer5)
        fl5[pos] ^= bit
        rig = rxrig.RxRig(5)
        try:
            rig.feed([bytes(fl5)])
            ds, msgs, reset, unh = rig.take()
            ck.count()
            dist["at5_length_flip_constructs"] += 1
            if ds:
                ck.violation("an AirTouch 5 frame with one flipped length bit was delivered", {
                    "kind": "corrupt-frame", "gen": 5, "frame_hex": outer5.hex(), "received_hex": bytes(fl5).hex(), "flipped": what,
                    "delivered": [list(d) for d in ds], "trigger": {"class": "at5-length-field", "received_hex": bytes(fl5).hex()}})
        finally:
            rig.close()
    # the explicit straddle construct of C06_straddle_refuted (vendor document's example frame)
    rig = rxrig.RxRig(4)
    try:
        good = bytes.fromhex("555580b0012a000401020000da59")
        bad = bytes.fromhex("555580b0012a00040102000cdf59")
        rig.feed([bad])
        ds, msgs, reset, unh = rig.take()
        ck.count()
        if ds:
            ck.violation("frame altered by a pattern the vendor format cannot detect (burst-straddling-check-bytes) was delivered", {
                "kind": "corrupt-frame", "gen": 4, "frame_hex": good.hex(), "received_hex": bad.hex(),
                "delivered": [list(d) for d in ds], "trigger": {"class": "burst-straddling-check-bytes"}})
    finally:
        rig.close()
    ck.extra["input_distribution"] = dict(dist)
    ck.extra["undetectable_by_format_delivered"] = dict(known_hits)
    ck.sample({"crc_input_hex": strings[300].hex(), "crc": f"{sockrun.crc16_ref(strings[300]):04x}"})
    ck.sample({"frame_hex": frames[0].hex(), "pattern": "single bit 0 of covered byte 0"})
    return ck.finish()


# ================================================================================ C13
def cuts_to_chunks(s: bytes, cuts) -> list[bytes]:
    pts = [0] + list(cuts) + [len(s)]
    return [s[a:b] for a, b in zip(pts, pts[1:])]


def check_c13(tier: str) -> int:
    ck = common.Check("C13", tier)
    ck.rule = ("streams of 3 console frames (hand catalogue + unknown types with random payloads; with and without a "
               "corrupted frame in the middle) of both generations; segmentations: unsegmented, byte-at-a-time, every "
               "1-cut and every 2-cut position (thorough: every 3-cut on a short stream), random multi-cuts with empty "
               "chunks and 0..3 loop turns between segments; fed to the real socket and to the extracted reader model; "
               "non-trivial/distinct = distinct (stream, segmentation) with at least one cut")
    ck.assumptions = [
        "asyncio.StreamReader.readexactly buffers across data_received calls (CPython, modelled)",
        "message decoding is treated as a function of (header, payload): the model is parametric in it; the tie uses frames the real decoders accept",
    ]
    rng = random.Random(ck.seed * 104729 + 13)
    with common.Lock():
        proved = ck.prove()
        if not proved:
            ck.violation("proof", {"theorem_file": "coq/props/C13.v", "failed_at": getattr(ck, "failed_at", "?"),
                                   "log_tail": getattr(ck, "proof_log", "")[-1500:]}, found_input=False)
        try:
            common.build_driver()
        except RuntimeError as ex:
            ck.violation("model-build", {"error": str(ex)[-1500:]}, found_input=False)
            return ck.finish()
    dist = Counter()
    for gen in (4, 5):
        lib = rxrig.frame_library(gen, rng, 6)
        nstreams = 2 if tier == "quick" else 5
        for si in range(nstreams):
            # keep streams short enough for the exhaustive 2-cut enumeration
            cand = sorted(lib, key=len)[: (6 if si % 2 == 0 else len(lib))]
            frs = [rxrig.with_pid(gen, rng.choice(cand), 1 + i) for i in range(3)]
            frs[0] = rxrig.with_pid(gen, rng.choice(lib[-5:]), 1)      # one frame with unusual address bytes in every stream
            if gen == 5 and si == 0:
                # two status messages with longer records in one stream (lib[-9], lib[-8]: AC status, strides 12 and 14)
                frs[1], frs[2] = rxrig.with_pid(gen, lib[-9], 2), rxrig.with_pid(gen, lib[-8], 3)
            corrupted = si % 2 == 1
            if corrupted:
                b = bytearray(frs[1])
                b[-1] ^= 0x10
                frs[1] = bytes(b)
            s = b"".join(frs)
            segs = [[s], [bytes([x]) for x in s]]
            for c in range(1, len(s)):
                segs.append(cuts_to_chunks(s, [c]))
            two = list(itertools.combinations(range(1, len(s)), 2))
            if tier == "quick" and len(two) > 2500:
                two = rng.sample(two, 2500)
                exhaustive2 = False
            else:
                exhaustive2 = True
            for c in two:
                segs.append(cuts_to_chunks(s, c))
            if tier == "thorough" and si == 0:
                short = b"".join(frs[:2])
                three = list(itertools.combinations(range(1, len(short)), 3))
                if len(three) > 30000:
                    three = rng.sample(three, 30000)
                # (3-cut segmentations of the two-frame prefix, followed by the rest in one piece)
                for c in three:
                    segs.append(cuts_to_chunks(short, c) + [s[len(short):]])
            for _ in range(200 if tier == "quick" else 2000):
                k = rng.choice([3, 4, 6, 10])
                cuts = sorted(rng.choice(range(0, len(s) + 1)) for _ in range(k))
                segs.append(cuts_to_chunks(s, cuts))     # may contain empty chunks
            mres = common.run_model([rxrig.model_stream_case(gen, ch) for ch in segs])
            rig = rxrig.RxRig(gen)
            try:
                base = None
                for ch, mr in zip(segs, mres):
                    ck.count()
                    if len(ch) > 1:
                        ck.note_case((gen, si, tuple(len(c) for c in ch)))
                    dist[f"chunks_{min(len(ch), 5)}{'+' if len(ch) >= 5 else ''}"] += 1
                    if not rig.connect():
                        ck.violation("client did not reconnect", {"kind": "segmentation", "trigger": {"what": "no-reconnect"}})
                        break
                    turns = rng.choice([0, 0, 1, 2, 3])
                    rig.feed(ch, turns)
                    ds, msgs, reset, unh = rig.take()
                    m_ds, m_alive, m_buf = rxrig.parse_model_stream(mr)
                    if base is None:
                        base = ds
                        exp = [tuple(struct.unpack_from(">BBBBH", f, 2 if gen == 4 else 14)) for f in frs]
                        want = exp[:1] if corrupted else exp
                        if ds != want:
                            ck.violation("unsegmented stream not delivered as sent", {
                                "kind": "segmentation", "gen": gen, "stream_hex": s.hex(), "delivered": [list(d) for d in ds],
                                "expected": [list(d) for d in want], "trigger": {"stream_hex": s.hex(), "chunks": [len(s)]}})
                    replay = {"kind": "segmentation", "gen": gen, "stream_hex": s.hex(), "chunk_lengths": [len(c) for c in ch],
                              "loop_turns_between_segments": turns, "delivered": [list(d) for d in ds],
                              "unsegmented_delivered": [list(d) for d in base], "model_delivered": [list(d) for d in m_ds],
                              "trigger": {"stream_hex": s.hex(), "chunks": [len(c) for c in ch]}}
                    if ds != base:
                        ck.violation("deliveries depend on the segmentation of the stream", replay)
                    elif ds != m_ds or (reset == m_alive and not (m_alive and not reset)):
                        if ds != m_ds or (reset and m_alive):
                            replay["no_longer_checks"] = "Stream.v feed_all vs the real reader"
                            ck.violation("correspondence", replay, found_input=False)
                    if unh:
                        ck.violation("unhandled exception in the receive task", replay)
            finally:
                rig.close()
            ck.extra.setdefault("streams", []).append({"gen": gen, "bytes": len(s), "segmentations": len(segs),
                                                       "all_2_cuts": exhaustive2, "corrupted_middle_frame": corrupted})
    ck.extra["input_distribution"] = dict(dist)
    ck.extra["exhaustive"] = False
    ck.sample({"stream_hex": s.hex(), "chunk_lengths": [len(c) for c in segs[5]]})
    return ck.finish()


def main() -> int:
    ap = argparse.ArgumentParser()
    ap.add_argument("prop", choices=["C06", "C13"])
    ap.add_argument("--tier", default="quick", choices=["quick", "thorough"])
    ap.add_argument("--replay")
    a = ap.parse_args()
    return {"C06": check_c06, "C13": check_c13}[a.prop](a.tier)


if __name__ == "__main__":
    sys.exit(main())
