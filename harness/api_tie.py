"""Correspondence of the API object models (coq/api/Api4.v, Api5.v; model cases 50/51) with
the package's AirConditioner / Zone objects, reached through a client initialised against
the scripted console: getters after injected status frames, control calls with the
(message, retry policy) they hand to the socket and the frames seen by the console."""

from __future__ import annotations

import datetime
import math
import random

import pyairtouch.api as papi
import pyairtouch.comms.socket as psock

from . import codec_tie, common, console

CALL, GET = 50, 51

AC_POWER = list(papi.AcPowerState)
POWER_CTL = list(papi.AcPowerControl)
MODES = list(papi.AcMode)
FANS = list(papi.AcFanSpeed)
SPILL = list(papi.AcSpillState)
TIMER = list(papi.AcTimerType)
ZPOWER = list(papi.ZonePowerState)
ZMETHOD = list(papi.ZoneControlMethod)
BATTERY = list(papi.SensorBatteryStatus)

POLICY_IX = {(2, 30.0): 0, (0, 30.0): 1, (0, 1.0): 2}


def dyadic(x: float) -> tuple[int, int]:
    """x = m * 2**e exactly"""
    n, d = float(x).as_integer_ratio()
    return n, -(d.bit_length() - 1)


def tenths_exact(x) -> int:
    """a decoded temperature / set-point as tenths (they are k/10 or integers by construction)"""
    d = round(x * 10)
    if d / 10.0 != x:
        raise ValueError(f"{x!r} is not k/10")
    return d


# ------------------------------------------------------------------ flattening of objects
def flat_ac(rig: console.ApiRig, spec: console.AcSpec) -> list[int]:
    """[ability; status; timer; error text] of the console's view of one AC (= what the
    client object holds after the frames were delivered)"""
    inst = rig.inst
    c = inst.m["c"]
    ab = inst.ability_message().sub_message.ac_abilities[[a.number for a in inst.acs].index(spec.number)]
    out = c.f_ability(ab)
    st = inst.ac_status[spec.number]
    if inst.gen == 4:
        out += [st.ac_number, st.power_state.value, st.mode.value, st.fan_speed.value, int(st.spill_active),
                int(st.timer_set), st.set_point, tenths_exact(st.temperature), st.error_code]
    else:
        out += [st.ac_number, st.power_state.value, st.mode.value, st.fan_speed.value, int(st.turbo_active),
                int(st.bypass_active), int(st.spill_active), int(st.timer_set), tenths_exact(st.set_point),
                tenths_exact(st.temperature), st.error_code]
    out += c.f_timer(inst.timers[spec.number])
    e = rig.client_err.get(spec.number)
    out += [0, 0] if e is None else [1] + c.f_bytes(e)
    return out


def flat_zone(rig: console.ApiRig, z: int) -> list[int]:
    inst = rig.inst
    c = inst.m["c"]
    out = c.f_bytes(inst.zones[z])
    s = inst.zone_status[z]
    if inst.gen == 4:
        out += [s.group_number, s.power_state.value, s.control_method.value, int(s.spill_active), int(s.supports_turbo),
                int(s.has_sensor), s.battery_status.value]
        out += [0, 0] if s.temperature is None else [1, tenths_exact(s.temperature)]
        out += [s.damper_percentage] + ([0, 0] if s.set_point is None else [1, s.set_point])
    else:
        out += [s.zone_number, s.power_state.value, int(s.spill_active), s.control_method.value, int(s.has_sensor),
                s.battery_status.value]
        out += [0, 0] if s.temperature is None else [1, tenths_exact(s.temperature)]
        out += [s.damper_percentage] + ([0, 0] if s.set_point is None else [1, tenths_exact(s.set_point)])
    return out


# ------------------------------------------------------------------ getters of real objects
def read_timer(ac, t):
    try:
        v = ac.next_quick_timer(t)
    except ValueError:
        return [0, 0, 0]
    return [1, 0, 0] if v is None else [2, v.hour, v.minute]


def getters_ac(ac) -> list:
    """same layout as getters_ac4/getters_ac5; an exception in a getter is reported as ('exc', name)"""
    out = [AC_POWER.index(ac.power_state), MODES.index(ac.selected_mode), MODES.index(ac.active_mode),
           FANS.index(ac.selected_fan_speed), FANS.index(ac.active_fan_speed),
           tenths_exact(ac.current_temperature), tenths_exact(ac.target_temperature),
           tenths_exact(ac.min_target_temperature), tenths_exact(ac.max_target_temperature), SPILL.index(ac.spill_state)]
    out += read_timer(ac, papi.AcTimerType.OFF_TIMER) + read_timer(ac, papi.AcTimerType.ON_TIMER)
    e = ac.error_info
    if e is None:
        out += [0, 0, 0, 0]
    elif e.description is None:
        out += [1, e.code, 0, 0]
    else:
        b = e.description.encode()
        out += [1, e.code, 1, len(b)] + list(b)
    sm = [MODES.index(m) for m in ac.supported_modes]
    sf = [FANS.index(f) for f in ac.supported_fan_speeds]
    sp = [POWER_CTL.index(p) for p in ac.supported_power_controls]
    return out + [len(sm)] + sm + [len(sf)] + sf + [len(sp)] + sp


def getters_zone(z) -> list:
    sp = [ZPOWER.index(p) for p in z.supported_power_states]
    out = [len(sp)] + sp + [ZPOWER.index(z.power_state), ZMETHOD.index(z.control_method), int(z.has_temp_sensor),
                            BATTERY.index(z.sensor_battery_status)]
    ct = z.current_temperature
    out += [0, 0] if ct is None else [1, tenths_exact(ct)]
    tt = z.target_temperature
    out += [0, 0] if tt is None else [1, tenths_exact(tt)]
    return out + [z.current_damper_percentage, int(z.spill_active)]


def safe(f, *a):
    try:
        return f(*a)
    except Exception as ex:  # noqa: BLE001
        return ("exc", type(ex).__name__, str(ex)[:80])


# ------------------------------------------------------------------ control calls on real objects
def invoke(rig: console.ApiRig, target, call: int, args: list):
    """-> (outcome flat list, frames seen by the console, detail)"""
    c = rig.inst.m["c"]
    n_sends = len(rig.sock.sends)
    n_rx = len(rig.console.received)
    if call == 1:
        coro = target.set_power(POWER_CTL[args[0]])
    elif call == 2:
        coro = target.set_mode(MODES[args[0]], power_on=[False, True, 0, 1][args[1]])     # bools and plain ints
    elif call == 3:
        coro = target.set_fan_speed(FANS[args[0]])
    elif call in (4, 12):
        coro = target.set_target_temperature(args[0])
    elif call == 5:
        coro = target.set_quick_timer(TIMER[args[0]], datetime.timedelta(minutes=args[1]))
    elif call == 6:
        coro = target.set_quick_timer(TIMER[args[0]], datetime.time(hour=args[1], minute=args[2]))
    elif call == 7:
        coro = target.clear_quick_timer(TIMER[args[0]])
    elif call == 8:
        coro = rig.at.check_for_updates()
    elif call == 11:
        coro = target.set_power(ZPOWER[args[0]])
    elif call == 13:
        coro = target.set_damper_percentage(args[0])
    else:
        raise ValueError(call)
    r = rig.run(coro)
    sends = rig.sock.sends[n_sends:]
    frames = rig.console.received[n_rx:]
    if r[0] == "exc":
        out = [1] if r[1] == "ValueError" else [-9, r[1]]
        return out, frames, r
    if r[0] != "ok":
        return [-8], frames, r
    if len(sends) != 1:
        return [-7, len(sends)], frames, sends
    msg, pol = sends[0]
    pix = POLICY_IX.get((pol.max_retries, pol.max_lifetime), -1)
    if not frames:
        return [2], frames, (msg, pol)               # accepted, nothing transmitted
    try:
        fl = c.flatten(msg)
    except c.NotFlat as ex:
        return [-6, str(ex)], frames, (msg, pol)
    return [0, pix] + fl, frames, (msg, pol)


def model_args(call: int, args: list) -> list[int]:
    if call in (4, 12):
        m, e = dyadic(args[0])
        return [m, e]
    if call == 2:
        return [args[0], args[1] % 2]          # power_on given as False / True / 0 / 1
    return list(args)


# ------------------------------------------------------------------ installations for the tie
def tie_installation(gen: int, modes: list[bool], fans: list[bool], limits: tuple, ac_number=None, zone_base: int = 0) -> console.Installation:
    """one AC (any AC number), zones zone_base + 0 = sensor + turbo, + 1 = no sensor, + 2 = sensor, no turbo"""
    nz = 3 if gen == 4 else 5
    b = zone_base
    if ac_number is None:
        ac_number = 1 if gen == 5 else 0
    ac = console.AcSpec(ac_number, "Ünit", modes, fans, limits, start=b, count=nz,
                        groups={b, b + 1, b + 2} if gen == 4 else None)
    names = {b: "Living", b + 1: "Küche", b + 2: "Bed"}
    if gen == 5:
        names.update({b + 3: "Odd 3", b + 4: "Odd 4"})
    inst = console.Installation(gen, [ac], names)
    zs = inst.m["zstat"]
    return _renumber(inst, gen, b, zs)


def _renumber(inst, gen, b, zs):
    if gen == 4:
        inst.zone_status[b + 1] = zs.GroupStatusData(b + 1, zs.GroupPowerState.OFF, zs.GroupControlMethod.DAMPER, False, False, False,
                                                 zs.SensorBatteryStatus.NORMAL, None, 40, None)
        inst.zone_status[b + 2] = zs.GroupStatusData(b + 2, zs.GroupPowerState.ON, zs.GroupControlMethod.TEMPERATURE, True, False, True,
                                                 zs.SensorBatteryStatus.LOW, 19.0, 55, 21)
    else:
        inst.zone_status[b + 1] = zs.ZoneStatusData(b + 1, zs.ZonePowerState.OFF, False, zs.ZoneControlMethod.DAMPER, False,
                                                zs.SensorBatteryStatus.NORMAL, None, 40, None)
        inst.zone_status[b + 2] = zs.ZoneStatusData(b + 2, zs.ZonePowerState.ON, True, zs.ZoneControlMethod.TEMPERATURE, True,
                                                zs.SensorBatteryStatus.LOW, 19.0, 55, 21.5)
        # reports a console may send although they look odd: no sensor but a set-point byte, sensor but no set-point
        inst.zone_status[b + 3] = zs.ZoneStatusData(b + 3, zs.ZonePowerState.ON, False, zs.ZoneControlMethod.DAMPER, False,
                                                zs.SensorBatteryStatus.NORMAL, None, 70, 22.0)
        inst.zone_status[b + 4] = zs.ZoneStatusData(b + 4, zs.ZonePowerState.TURBO, False, zs.ZoneControlMethod.TEMPERATURE, True,
                                                zs.SensorBatteryStatus.NORMAL, 23.5, 100, None)
    return inst


def make_rig(inst: console.Installation) -> console.ApiRig:
    rig = console.ApiRig(inst, record_sends=True)
    rig.client_err = {}
    r, _ = rig.init()
    if r != ("ok", True):
        rig.close()
        raise RuntimeError(f"tie rig failed to initialise: {r}")
    return rig


def push_ac_status(rig, st) -> None:
    # the client forgets the error text when a changed status reports no error
    if rig.inst.ac_status.get(st.ac_number) != st:
        if st.error_code == 0:
            rig.client_err[st.ac_number] = None
        elif not rig.console.manual and "error_info" not in rig.console.mute:
            # the client asks for the error text and the console answers with what it holds
            text = rig.inst.errors.get(st.ac_number)
            rig.client_err[st.ac_number] = text.encode() if text else None
    rig.inst.ac_status[st.ac_number] = st
    rig.console.push(rig.inst.ac_status_message(only={st.ac_number}))
    rig.pump()


def push_zone_status(rig, st) -> None:
    z = st.group_number if rig.gen == 4 else st.zone_number
    rig.inst.zone_status[z] = st
    rig.console.push(rig.inst.zone_status_message(only={z}))
    rig.pump()


def push_timer(rig, t) -> None:
    rig.inst.timers[t.ac_number] = t
    rig.console.push(rig.inst.timer_message(only={t.ac_number}))
    rig.pump()


def push_error(rig, ac: int, text) -> None:
    rig.inst.errors[ac] = text
    rig.console.push(rig.inst.error_message(ac))
    rig.pump()
    rig.client_err[ac] = text.encode() if text else None
