"""Receive-path rig: a real AirTouchSocket on the virtual loop whose simulated console
feeds byte chunks; records what the message subscriber is given and what the client
does with the connection."""

from __future__ import annotations

import asyncio
import logging
import random
import struct

from . import sockrun, vloop

logging.disable(logging.CRITICAL)

import pyairtouch.comms.socket as psock  # noqa: E402


class RxRig:
    N_RIGS = 0

    def __init__(self, gen: int) -> None:
        self.gen = gen
        from . import bystander
        bystander.ensure_sock(gen)
        self.loop, self.net = vloop.new_loop()
        asyncio.set_event_loop(self.loop)
        self.reg = sockrun.registry(gen)
        self.sock = psock.AirTouchSocket(self.loop, "10.0.0.1", 9000 + gen, self.reg)
        self.delivered: list[tuple] = []
        self.raising = False
        self.sock.subscribe_on_message_received(self._on_msg)
        RxRig.N_RIGS += 1
        if RxRig.N_RIGS % 2 == 0:
            # registering the same callback again has no effect (a client object that is initialised a second time
            # does exactly this): every other rig in the process does so
            self.sock.subscribe_on_message_received(self._on_msg)
        t = self.loop.create_task(self.sock.open_socket())
        self.loop.settle()
        self.connect()
        self.net.take_events()

    async def _on_msg(self, hdr, msg) -> None:
        self.delivered.append((hdr.to_address, hdr.from_address, hdr.packet_id, hdr.message_id,
                               hdr.message_length, msg))
        if self.raising:
            raise RuntimeError("subscriber failure (simulated)")

    def connect(self, max_steps: int = 20) -> bool:
        for _ in range(max_steps):
            if self.sock.is_connected and self.net.current() is not None:
                return True
            nt = self.loop.next_timer()
            if nt is None:
                return False
            self.loop.advance_to(nt)
        return self.sock.is_connected

    def feed(self, chunks: list[bytes], turns: int = 0, then_eof: bool = False) -> None:
        conn = self.net.current()
        if conn is None:
            return
        for c in chunks:
            conn.transport.peer_bytes(bytes(c))
            for _ in range(turns):
                # run exactly one loop iteration
                self.loop.call_soon(self.loop.stop)
                self.loop.run_forever()
        if then_eof:
            # the console closes right behind its last byte: data and end-of-stream reach the client in the same pass
            conn.transport.peer_eof()
        self.loop.settle()

    def take(self):
        """(deliveries as header tuples, messages, was_reset, unhandled)"""
        self.loop.settle()
        d = self.delivered
        self.delivered = []
        evs = self.net.take_events()
        reset = any(e[0] in ("close", "dial") for e in evs)
        unhandled = len(self.loop.unhandled)
        self.loop.unhandled.clear()
        return [x[:5] for x in d], [x[5] for x in d], reset, unhandled

    def close(self) -> None:
        for t in asyncio.all_tasks(self.loop):
            t.cancel()
        try:
            self.loop.settle()
        except Exception:  # noqa: BLE001
            pass
        self.loop.close()


def frame_library(gen: int, rng: random.Random, n_unknown: int = 6) -> list[bytes]:
    """Valid console frames: the hand-written catalogue plus unknown-type frames with
    random payloads (delivered as unsupported messages).  Packet ids are rewritten by
    the caller to make deliveries identifiable."""
    frames = list(sockrun.rx_catalogue(gen))
    registered = {0x1F, 0x2A, 0x2B, 0x2C, 0x2D, 0x36, 0x37} if gen == 4 else {0x1F, 0xC0}
    for _ in range(n_unknown):
        t = rng.choice([x for x in range(256) if x not in registered])
        payload = bytes(rng.randrange(256) for _ in range(rng.choice([0, 1, 2, 5, 9, 17, 40])))
        frames.append(sockrun.build_frame(gen, 0xB0, 0x80, 0, t, payload))
    if gen == 5:
        # status messages whose records are longer than the known layout (announced in the sub-header), twice:
        # the second must be read like the first
        for sub, rec in [(0x23, bytes.fromhex("10120078c0020000" "0000")), (0x21, bytes.fromhex("4080968002e70000"))]:
            for pad in (2, 4):
                rl = len(rec) + pad
                body = bytes([sub, 0, 0, 0, rl >> 8, rl & 255, 0, 2]) + (rec + bytes([0xA5] * pad)) * 2
                frames.append(sockrun.build_frame(5, 0xB0, 0x80, 0, 0xC0, body))
    # address bytes are data like any other (frames addressed to another client, addresses that happen to equal the
    # prefix bytes 0x55 / 0xAA): the socket delivers them all, the API classes do the filtering
    base = sockrun.rx_catalogue(gen)
    pre = 2 if gen == 4 else 14
    for to, frm in [(0x55, 0x80), (0xB0, 0x55), (0x55, 0x55), (0xAA, 0x80), (0x00, 0xFF)]:
        f = base[rng.randrange(len(base))]
        _, _, _, mtype, ln = struct.unpack_from(">BBBBH", f, pre)
        frames.append(sockrun.build_frame(gen, to, frm, 0, mtype, f[pre + 6:pre + 6 + ln]))
    return frames


def with_pid(gen: int, frame: bytes, pid: int) -> bytes:
    pre = 2 if gen == 4 else 14
    to, frm, _, mtype, ln = struct.unpack_from(">BBBBH", frame, pre)
    payload = frame[pre + 6:pre + 6 + ln]
    return sockrun.build_frame(gen, to, frm, pid, mtype, payload)


def model_stream_case(gen: int, chunks: list[bytes]) -> list[int]:
    out = [4, gen]
    for c in chunks:
        out.append(len(c))
        out.extend(c)
    return out


def parse_model_stream(ints: list[int]):
    """-> (list of header tuples, alive, buffered)"""
    ds = []
    i = 0
    while i < len(ints):
        if ints[i] == 1:
            to, frm, pid, ty, ln = ints[i + 1:i + 6]
            ds.append((to, frm, pid, ty, ln))
            i += 6 + ln
        elif ints[i] == 2:
            return ds, bool(ints[i + 1]), ints[i + 2]
        else:
            raise ValueError(ints)
    raise ValueError("no terminator")
