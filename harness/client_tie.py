"""Correspondence of the client core model (coq/api/Core.v instantiated in Client4.v /
Client5.v; model case 60) with a real AirTouch4 / AirTouch5 object on the virtual loop.

A script is a list of stimuli:
  ("init",)                      start init() (the 5 s wait runs in the background)
  ("connected",)                 let the pending dial complete (1 tick): connected notification
  ("drop",)                      the console resets the connection (the client re-dials at once)
  ("frame", to, message)         the console sends one frame
  ("sub", kind, entity, n) kind: 0/1 zone subscribe/unsubscribe, 2/3 AC, 4/5 AC-state-only, 6/7 AirTouch
  ("shutdown",)
After each stimulus: the requests that reached the console (in order) and the subscriber
invocations (multiset).  At the end: a snapshot of everything the public API exposes."""

from __future__ import annotations

import asyncio
import random

import pyairtouch.api as papi

from . import api_tie as T
from . import codec_tie, common, console

CLIENT = 60
REQ_IX = {"version": 0, "names": 1, "ability": 2, "ac_status": 3, "timer_status": 4, "zone_status": 5, "error_info": 6}


class ClientRig(console.ApiRig):
    def __init__(self, inst: console.Installation, raising: frozenset = frozenset()) -> None:
        super().__init__(inst, record_sends=False)
        self.console.manual = True                   # the script decides what the client receives
        self.calls: list[tuple] = []                 # (kind, subscriber, id)
        self.raising = raising
        self.cbs: dict[int, object] = {}
        self.init_task = None
        self.seen = 0

    def cb(self, n: int, kind: int):
        """one callback object per (subscriber number); kind only labels the record"""
        key = n
        if key not in self.cbs:
            async def f(ident, _n=n):
                if _n % 3 == 1:
                    # a subscriber that suspends before it has done its work (others may fail meanwhile)
                    await asyncio.sleep(0)
                    await asyncio.sleep(0)
                self.calls.append((_n, ident if isinstance(ident, int) else 0))
                if _n in self.raising:
                    raise RuntimeError("subscriber failure (simulated)")
            self.cbs[key] = f
        return self.cbs[key]

    def find_zone(self, zid):
        for ac in self.at.air_conditioners:
            for z in ac.zones:
                if z.zone_id == zid:
                    return z
        return None

    def find_ac(self, aid):
        for ac in self.at.air_conditioners:
            if ac.ac_id == aid:
                return ac
        return None

    def step(self, st: tuple):
        """-> (requests [(ix, arg)], notifications sorted [(kind, sub, id)])"""
        k = st[0]
        self.calls = []
        if k == "init":
            self.init_task = self.loop.create_task(self.at.init())
            self.loop.settle()
            self.console.process(self.loop.time())
        elif k == "connected":
            self.loop.advance_to(self.loop.time() + 1 / 1024)
            self.pump()
        elif k == "drop":
            cur = self.net.current()
            if cur is not None:
                cur.transport.peer_reset()
            self.pump()
        elif k == "frame":
            self.console.push(st[2], st[1])
            self.pump()
        elif k == "sub":
            _, kind, ent, n = st
            f = self.cb(n, kind)
            if kind in (0, 1):
                z = self.find_zone(ent)
                if z is not None:
                    (z.subscribe if kind == 0 else z.unsubscribe)(f)
            elif kind in (2, 3):
                a = self.find_ac(ent)
                if a is not None:
                    (a.subscribe if kind == 2 else a.unsubscribe)(f)
            elif kind in (4, 5):
                a = self.find_ac(ent)
                if a is not None:
                    (a.subscribe_ac_state if kind == 4 else a.unsubscribe_ac_state)(f)
            else:
                (self.at.subscribe if kind == 6 else self.at.unsubscribe)(f)
        elif k == "shutdown":
            t = self.loop.create_task(self.at.shutdown())
            self.pump()
        else:
            raise ValueError(st)
        reqs = []
        for r in self.console.requests[self.seen:]:
            name = r[2]
            if name in REQ_IX:
                arg = 0
                if name == "error_info":
                    for rec in self.console.received:
                        if rec[4] == r[3] and rec[6] is not None and rec[0] == r[0]:
                            arg = getattr(rec[6], "sub_message", rec[6]).ac_number
                reqs.append((REQ_IX[name], arg))
            else:
                reqs.append((-1, name))
        self.seen = len(self.console.requests)
        notes = sorted(self.calls)
        return reqs, notes

    def snapshot(self) -> dict:
        at = self.at
        out = {"initialised": bool(at.initialised), "version": (bool(at.update_available), [v.encode() for v in at.console_versions]),
               "acs": {}, "zones": {}}
        for ac in at.air_conditioners:
            out["acs"][ac.ac_id] = {"name": ac.name.encode(), "zones": sorted(z.zone_id for z in ac.zones),
                                    "getters": T.safe(T.getters_ac, ac)}
            for z in ac.zones:
                out["zones"][z.zone_id] = {"name": z.name.encode(), "getters": T.safe(T.getters_zone, z)}
        return out


# ------------------------------------------------------------------ the model side
def model_script(gen: int, script) -> list[int]:
    c = codec_tie.codec(gen)
    out = [CLIENT, gen]
    for st in script:
        k = st[0]
        if k == "init":
            out.append(0)
        elif k in ("connected",):
            out.append(1)
        elif k == "drop":
            continue                                  # the model sees the reconnection, not the loss
        elif k == "frame":
            out += [2, st[1]] + c.flatten(st[2])
        elif k == "sub":
            out += [3, st[1], st[2], st[3]]
        elif k == "shutdown":
            out.append(4)
    return out


def parse_model(ints: list[int], script, sub_kind_of=None):
    """-> (per-stimulus (requests, notifications), snapshot dict)"""
    i = 0
    per = []

    def take(n):
        nonlocal i
        v = ints[i:i + n]
        i += n
        return v

    def take_bytes():
        n = take(1)[0]
        return bytes(take(n))

    for st in script:
        if st[0] == "drop":
            per.append(([], []))
            continue
        n = take(1)[0]
        if n < 0:
            raise ValueError(f"model script error at {st}: {ints[:20]}")
        reqs, notes = [], []
        for _ in range(n):
            tag, a, b = take(3)
            if tag == 1:
                reqs.append((a, b))
            elif tag in (2, 3, 4):
                notes.append((a, b))
            elif tag == 5:
                reqs.append((0, 0))                    # HeartbeatManager.start() sends its first heartbeat at once
        per.append((reqs, sorted(notes)))
    if take(1) != [-7]:
        raise ValueError("model output: snapshot marker missing")
    state, initialised = take(2)
    upd = take(1)[0]
    nv = take(1)[0]
    versions = [take_bytes() for _ in range(nv)]
    snap = {"initialised": bool(initialised), "version": (bool(upd), versions), "acs": {}, "zones": {}, "state": state}
    nz = take(1)[0]
    allz = {}
    for _ in range(nz):
        zid = take(1)[0]
        name = take_bytes()
        ns = take(1)[0]
        g = [ns] + take(ns)
        g += take(4)
        g += take(2) + take(2) + take(2)
        allz[zid] = {"name": name, "getters": g}
    na = take(1)[0]
    for _ in range(na):
        aid = take(1)[0]
        name = take_bytes()
        nzz = take(1)[0]
        zs = take(nzz)
        g = take(10) + take(3) + take(3)
        e = take(4)
        if e[0] == 1 and e[2] == 1:
            e += take(e[3])
        g += e
        for _k in range(3):
            n = take(1)[0]
            g += [n] + take(n)
        snap["acs"][aid] = {"name": name, "zones": sorted(zs), "getters": g}
        for z in zs:
            if z in allz:
                snap["zones"][z] = allz[z]
    snap["all_zones"] = allz
    return per, snap


def run_both(gen: int, inst: console.Installation, script, raising=frozenset()):
    """-> (impl per-stimulus, impl snapshot, model per-stimulus, model snapshot)"""
    rig = ClientRig(inst, raising)
    try:
        iper = [rig.step(st) for st in script]
        isnap = rig.snapshot()
        unhandled = len(rig.loop.unhandled)
    finally:
        rig.close()
    mper, msnap = parse_model(common.run_model([model_script(gen, script)])[0], script)
    return iper, isnap, mper, msnap, unhandled


def first_difference(iper, isnap, mper, msnap, script):
    for k, ((ir, inn), (mr, mn)) in enumerate(zip(iper, mper)):
        if ir != mr:
            return f"stimulus {k} {script[k][:2]}: requests implementation {ir} model {mr}"
        if inn != mn:
            return f"stimulus {k} {script[k][:2]}: notifications implementation {inn} model {mn}"
    for key in ("initialised", "version"):
        if isnap[key] != msnap[key]:
            return f"snapshot {key}: implementation {isnap[key]} model {msnap[key]}"
    if set(isnap["acs"]) != set(msnap["acs"]):
        return f"snapshot ACs: implementation {sorted(isnap['acs'])} model {sorted(msnap['acs'])}"
    for a in isnap["acs"]:
        for f in ("name", "zones", "getters"):
            if isnap["acs"][a][f] != msnap["acs"][a][f]:
                return f"snapshot AC {a} {f}: implementation {isnap['acs'][a][f]} model {msnap['acs'][a][f]}"
    for z in isnap["zones"]:
        for f in ("name", "getters"):
            if isnap["zones"][z][f] != msnap["zones"].get(z, {}).get(f):
                return f"snapshot zone {z} {f}: implementation {isnap['zones'][z][f]} model {msnap['zones'].get(z, {}).get(f)}"
    return None
