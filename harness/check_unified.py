"""Check C19 (the unified API behaves the same over AirTouch 4 and AirTouch 5).

  python -m harness.check_unified C19 --tier quick|thorough

Two real clients, one per generation, are initialised against two scripted consoles that
describe the same installation and state (common modes and fan speeds, whole-degree
set-points, one [min, max] for every mode, turbo-capable zones).  After every equivalent
status update every attribute both generations support is compared pairwise through the
public API; every common request is issued on both, the verdicts (accepted / ValueError)
are compared and the two frames, each read by its own vendor document (extracted Spec4 /
Spec5, model case 40), are compared for meaning."""

from __future__ import annotations

import argparse
import dataclasses
import datetime
import random
import sys
from collections import Counter

import pyairtouch.api as papi

from . import api_tie as T
from . import check_api, common, console

TICK = 1024


def common_installation(rng: random.Random):
    """-> (inst4, inst5) describing the same installation"""
    n_acs = rng.choice([1, 1, 2, 3, 4])
    n_z = rng.choice([1, 2, 3, 5, 8, 16])
    cuts = sorted(rng.choice(range(n_z + 1)) for _ in range(n_acs - 1))
    bounds = [0] + cuts + [n_z]
    acs4, acs5 = [], []
    old_format = rng.random() < 0.35         # an AirTouch 4 console whose ability records carry no group bitmap
    for i in range(n_acs):
        modes = [rng.random() < 0.7 for _ in range(5)]
        fans = [rng.random() < 0.7 for _ in range(7)]
        lo = rng.randrange(10, 25)
        hi = rng.randrange(lo, 36)
        name = rng.choice(["Main", "Up", "Küche"])
        rng_z = set(range(bounds[i], bounds[i + 1]))
        acs4.append(console.AcSpec(i, name, modes, fans, (lo, hi), start=bounds[i], count=bounds[i + 1] - bounds[i],
                                   groups=None if old_format else rng_z))
        acs5.append(console.AcSpec(i, name, modes, fans + [False], (lo, hi, lo, hi), start=bounds[i], count=bounds[i + 1] - bounds[i]))
    names = {z: rng.choice(["Living", "Bed", "Z%d" % z]) for z in range(n_z)}
    ver = (rng.random() < 0.5, rng.choice([["1.2.3"], ["1.0.3", "1.0.1"]]))       # one console, or two
    # the order in which a console lists its zone names is its own business: half of the time each console uses another
    order4, order5 = list(names), list(names)
    if rng.random() < 0.5:
        rng.shuffle(order4)
        rng.shuffle(order5)
    return (console.Installation(4, acs4, {z: names[z] for z in order4}, ver),
            console.Installation(5, acs5, {z: names[z] for z in order5}, ver))


def common_ac_status(i4, i5, rng, n):
    s4, s5 = i4.m["astat"], i5.m["astat"]
    on = rng.random() < 0.5
    mode = rng.choice(["AUTO", "HEAT", "DRY", "FAN", "COOL", "AUTO_HEAT", "AUTO_COOL"])
    fan = rng.choice(["AUTO", "QUIET", "LOW", "MEDIUM", "HIGH", "POWERFUL", "TURBO"])
    spill, timer = rng.random() < 0.5, rng.random() < 0.5
    sp = rng.randrange(10, 36)
    temp = rng.choice([-50.0, 0.0, 150.0]) if rng.random() < 0.15 else rng.randrange(-100, 500) / 10.0
    err = rng.choice([0, 0, 5, 7])      # a fault code may change to another without clearing in between
    a = s4.AcStatusData(n, s4.AcPowerState.ON if on else s4.AcPowerState.OFF, s4.AcMode[mode], s4.AcFanSpeed[fan], spill, timer, sp, temp, err)
    b = s5.AcStatusData(n, s5.AcPowerState.ON if on else s5.AcPowerState.OFF, s5.AcMode[mode], s5.AcFanSpeed[fan], False, False, spill, timer,
                        float(sp), temp, err)
    return a, b


def common_zone_status(i4, i5, rng, z):
    s4, s5 = i4.m["zstat"], i5.m["zstat"]
    pw = rng.choice(["OFF", "ON", "TURBO"])
    me = rng.choice(["DAMPER", "TEMPERATURE"])
    sensor = rng.random() < 0.6
    bat = rng.choice(["NORMAL", "LOW"])
    temp = ((rng.choice([-50.0, 0.0, 150.0]) if rng.random() < 0.15 else rng.randrange(-100, 500) / 10.0) if rng.random() < 0.8 else None) if sensor else None
    damper = rng.choice([0, 100, rng.randrange(101)])
    sp = rng.randrange(10, 36) if sensor else None
    spill = rng.random() < 0.5
    a = s4.GroupStatusData(z, s4.GroupPowerState[pw], s4.GroupControlMethod[me], spill, True, sensor, s4.SensorBatteryStatus[bat], temp, damper, sp)
    b = s5.ZoneStatusData(z, s5.ZonePowerState[pw], spill, s5.ZoneControlMethod[me], sensor, s5.SensorBatteryStatus[bat], temp, damper,
                          float(sp) if sp is not None else None)
    return a, b


def init_with_drop(rig, step: int):
    rig.console.silent_from = step
    t = rig.start(rig.at.init())
    rig.advance(256)
    cur = rig.net.current()
    rig.console.silent_from = None
    if cur is not None:
        cur.transport.peer_reset()
    rig.pump()
    for _ in range(400):
        if t.done():
            break
        nt = rig.loop.next_timer()
        if nt is None:
            break
        rig.loop.advance_to(nt)
        rig.pump()
    if not t.done():
        t.cancel()
        rig.pump()
        return ("hang", None)
    if t.cancelled():
        return ("exc", "CancelledError")
    if t.exception() is not None:
        return ("exc", type(t.exception()).__name__)
    return ("ok", t.result())


def common_view(at) -> dict:
    """every attribute both generations support"""
    out = {"update": at.update_available, "versions": list(at.console_versions), "acs": {}, "zones": {}}
    for ac in at.air_conditioners:
        e = ac.error_info
        out["acs"][ac.ac_id] = {
            "name": ac.name, "power": ac.power_state, "selected_mode": ac.selected_mode, "active_mode": ac.active_mode,
            "selected_fan": ac.selected_fan_speed, "active_fan": ac.active_fan_speed, "current": ac.current_temperature,
            "target": float(ac.target_temperature), "min": float(ac.min_target_temperature), "max": float(ac.max_target_temperature),
            "spill": ac.spill_state, "timer_off": ac.next_quick_timer(papi.AcTimerType.OFF_TIMER),
            "timer_on": ac.next_quick_timer(papi.AcTimerType.ON_TIMER), "error": None if e is None else (e.code, e.description),
            "modes": list(ac.supported_modes), "fans": list(ac.supported_fan_speeds),
            "zones": sorted(z.zone_id for z in ac.zones)}
        for z in ac.zones:
            tt = z.target_temperature
            out["zones"][z.zone_id] = {
                "name": z.name, "supported": list(z.supported_power_states), "power": z.power_state, "method": z.control_method,
                "sensor": z.has_temp_sensor, "battery": z.sensor_battery_status, "current": z.current_temperature,
                "target": None if tt is None else float(tt), "damper": z.current_damper_percentage, "spill": z.spill_active}
    return out


def diff_views(a: dict, b: dict) -> str | None:
    for k in ("update", "versions"):
        if a[k] != b[k]:
            return f"{k}: AirTouch 4 {a[k]!r}, AirTouch 5 {b[k]!r}"
    for kind in ("acs", "zones"):
        if set(a[kind]) != set(b[kind]):
            return f"{kind}: AirTouch 4 {sorted(a[kind])}, AirTouch 5 {sorted(b[kind])}"
        for i in a[kind]:
            for f in a[kind][i]:
                if a[kind][i][f] != b[kind][i][f]:
                    return f"{kind[:-1]} {i} {f}: AirTouch 4 {a[kind][i][f]!r}, AirTouch 5 {b[kind][i][f]!r}"
    return None


def push_both(r4, r5, m4, m5) -> None:
    r4.console.push(m4)
    r5.console.push(m5)
    r4.pump()
    r5.pump()


def check_c19(tier: str) -> int:
    ck = common.Check("C19", tier)
    ck.rule = ("random installations and states expressible in both protocols (1-3 ACs, 1-8 zones, any common mode / fan-speed "
               "bitmaps, limits within 10..35, whole-degree set-points, any k/10 temperatures, AT4 bitmap or old ability format) "
               "on an AirTouch 4 and an AirTouch 5 client side by side; after each equivalent AC / zone / timer / error / version "
               "update all common getters compared pairwise; all common requests (power toggle/off/on, every mode with and without "
               "power-on, the seven common fan speeds and INTELLIGENT_AUTO, AC set-points on a grid incl. beyond the limits, zone "
               "power, zone set-points 8..37 degC, damper -5..105) issued on both: verdict and meaning of the two frames (each "
               "read by its own vendor document) compared; non-trivial/distinct = distinct (installation, update or request)")
    ck.assumptions = [
        "documented differences excluded from the comparison: set-point resolution (whole degrees only), away/sleep power controls, intelligent auto, bypass reporting, per-mode limits (equal limits used), target_temperature_resolution",
        "Spec4.v/Spec5.v are our transcription of the vendor PDFs",
    ]
    with common.Lock():
        proved = ck.prove()
        if not proved:
            ck.violation("proof", {"theorem_file": "coq/props/C19.v", "failed_at": getattr(ck, "failed_at", "?"),
                                   "log_tail": getattr(ck, "proof_log", "")[-1500:]}, found_input=False)
        try:
            common.build_driver()
        except RuntimeError as ex:
            ck.violation("model-build", {"error": str(ex)[-1500:]}, found_input=False)
            return ck.finish()
    rng = random.Random(ck.seed * 49979687 + 19)
    dist = Counter()
    reported = Counter()
    for i in range(56 if tier == "quick" else 1000):
        i4, i5 = common_installation(rng)
        for a4, a5 in zip(i4.acs, i5.acs):
            i4.ac_status[a4.number], i5.ac_status[a5.number] = common_ac_status(i4, i5, rng, a4.number)
            if i4.ac_status[a4.number].error_code and rng.random() < 0.7:
                i4.errors[a4.number] = i5.errors[a5.number] = rng.choice(["ER: 05", "Fault"])     # in fault when the clients connect
        for z in i4.zones:
            i4.zone_status[z], i5.zone_status[z] = common_zone_status(i4, i5, rng, z)
        r4 = console.ApiRig(i4, rng, record_sends=True)
        r5 = console.ApiRig(i5, rng, record_sends=True)
        try:
            drop_at = rng.choice([None, None, None, 1, 2, 3, 4, 5])
            if drop_at is None:
                res = (r4.init()[0], r5.init()[0])
            else:
                # the connection is lost in the middle of the start-up exchange (both consoles fall silent from the same
                # request on and drop the link a quarter of a second later), then everything works again
                res = (init_with_drop(r4, drop_at), init_with_drop(r5, drop_at))
                dist["init_with_link_loss_mid_handshake"] += 1
            if drop_at is not None and res[0] == res[1] and res[0][0] == "ok":
                dist[f"init_with_link_loss_result_{res[0][1]}"] += 1
                if res[0][1] is not True:
                    # both generations give up alike (a request of the start-up exchange that was lost with the link is
                    # not repeated by either): nothing to compare
                    continue
            if res != (("ok", True), ("ok", True)):
                ck.violation("equivalent consoles: one client did not initialise",
                             {"kind": "init", "trigger": {"class": "init"}, "link_lost_at_handshake_step": drop_at,
                              "installation": {"acs": [dataclasses.asdict(a) | {"groups": sorted(a.groups) if a.groups is not None else None} for a in i4.acs],
                                               "zones": i4.zones},
                              "failure": f"init() on AirTouch 4 -> {res[0]}, on AirTouch 5 -> {res[1]}"})
                continue
            replay = {"installation": {"acs": [dataclasses.asdict(a) | {"groups": sorted(a.groups) if a.groups is not None else None} for a in i4.acs],
                                       "zones": i4.zones}}

            def compare(what):
                ck.count()
                d = diff_views(common_view(r4.at), common_view(r5.at))
                if d:
                    reported["view"] += 1
                    if reported["view"] <= 3:
                        ck.violation("the two generations expose different values for a common attribute",
                                     dict(replay, kind="view", trigger={"class": "view"}, after=what, failure=d))
                return d is None

            compare("initialisation")
            dist["installations"] += 1
            for _ in range(rng.choice([3, 6, 10])):
                k = rng.randrange(5)
                if k == 0:
                    n = rng.choice([a.number for a in i4.acs])
                    a, b = common_ac_status(i4, i5, rng, n)
                    i4.ac_status[n], i5.ac_status[n] = a, b
                    push_both(r4, r5, i4.ac_status_message(only={n}), i5.ac_status_message(only={n}))
                    what = repr(a)
                elif k == 1:
                    z = rng.choice(sorted(i4.zones))
                    a, b = common_zone_status(i4, i5, rng, z)
                    i4.zone_status[z], i5.zone_status[z] = a, b
                    push_both(r4, r5, i4.zone_status_message(only={z}), i5.zone_status_message(only={z}))
                    what = repr(a)
                elif k == 2:
                    n = rng.choice([a.number for a in i4.acs])
                    vals = (rng.random() < 0.5, rng.randrange(24), rng.randrange(60), rng.random() < 0.5, rng.randrange(24), rng.randrange(60))
                    for inst in (i4, i5):
                        t = inst.m["tstat"]
                        inst.timers[n] = t.AcTimerStatusData(n, t.AcTimerState(*vals[:3]), t.AcTimerState(*vals[3:]))
                    push_both(r4, r5, i4.timer_message(only={n}), i5.timer_message(only={n}))
                    what = f"timers {vals}"
                elif k == 3:
                    n = rng.choice([a.number for a in i4.acs])
                    text = rng.choice([None, "ER: 5"])
                    i4.errors[n] = i5.errors[n] = text
                    push_both(r4, r5, i4.error_message(n), i5.error_message(n))
                    what = f"error text {text!r}"
                else:
                    ver = (rng.random() < 0.5, rng.choice([["1.2.3"], ["2.0"], ["1.0.3", "1.0.1"], ["2.0", "2.0", "1.9"]]))
                    i4.version = i5.version = ver
                    push_both(r4, r5, i4.version_message(), i5.version_message())
                    what = f"version {ver}"
                dist[f"update_{k}"] += 1
                ck.note_case((i, what[:60]))
                if not compare(what):
                    break
            # ---- requests
            ac4 = r4.at.air_conditioners[0]
            ac5 = r5.at.air_conditioners[0]
            calls = [(1, [p]) for p in range(3)] + [(2, [m, on]) for m in range(5) for on in (0, 1, 2, 3)] + [(3, [f]) for f in range(8)]
            calls += [(4, [float(t)]) for t in rng.sample(range(5, 41), 8)]
            calls += [(6, [t, rng.randrange(24), rng.randrange(60)]) for t in (0, 1)] + [(7, [0]), (7, [1]), (5, [rng.randrange(2), rng.randrange(1440)])]
            jobs = [("ac", ac4, ac5, c, a) for c, a in calls]
            # zones are paired by identifier (the order of the `zones` sequence is not compared: an AirTouch 4 console
            # with one AC lists them in the order of its names message, an AirTouch 5 console in ascending order)
            by5 = {z.zone_id: z for z in ac5.zones}
            for z4, z5 in [(z, by5[z.zone_id]) for z in ac4.zones if z.zone_id in by5]:
                zc = [(11, [p]) for p in range(3)] + [(12, [float(t)]) for t in rng.sample(range(8, 38), 6)] + [(13, [p]) for p in rng.sample(range(-5, 106), 8)]
                jobs += [("zone", z4, z5, c, a) for c, a in zc]
            deferred = []
            for kind, t4, t5, call, args in jobs:
                ck.count()
                dist[f"request_{call}"] += 1
                o4, f4, _ = T.invoke(r4, t4, call, args)
                o5, f5, _ = T.invoke(r5, t5, call, args)
                rep = dict(replay, kind="request", target=kind, call=call, args=args)
                v4, v5 = o4[:1], o5[:1]
                if call == 3 and args[0] == 7:
                    continue            # INTELLIGENT_AUTO: AirTouch 5 only (documented)
                if call == 12 and [2] in (v4, v5) and v4 != v5:
                    continue            # a value only one wire format can carry (documented resolution/range difference)
                if v4 != v5:
                    ck.violation("the same request is accepted by one generation and refused by the other",
                                 dict(rep, trigger={"class": "verdict"}, failure=f"AirTouch 4 outcome {o4[:2]}, AirTouch 5 outcome {o5[:2]}"))
                    continue
                if v4 == [0]:
                    if o4[1] != o5[1]:
                        ck.violation("the same request is sent with different retry policies",
                                     dict(rep, trigger={"class": "policy"}, failure=f"AirTouch 4 policy {o4[1]}, AirTouch 5 policy {o5[1]}"))
                    if call in (5, 6, 7) and len(f4) == 1 and len(f5) == 1:
                        # quick timers are not in the vendor documents: compare the decoded messages
                        s4 = getattr(f4[0][6], "sub_message", f4[0][6])
                        s5 = getattr(f5[0][6], "sub_message", f5[0][6])
                        if call == 5:
                            m4 = (s4.ac_number, s4.timer_type.name, s4.duration)
                            m5 = (s5.ac_number, s5.timer_type.name, s5.duration)
                        else:
                            n = t4.ac_id
                            rec4 = [r for r in s4.ac_timer_status if r.ac_number == n][-1]
                            rec5 = [r for r in s5.ac_timer_status if r.ac_number == n][-1]
                            tup = lambda r: (r.ac_number, dataclasses.astuple(r.on_timer), dataclasses.astuple(r.off_timer))
                            m4, m5 = tup(rec4), tup(rec5)
                        if m4 != m5:
                            ck.violation("the same quick-timer request means different things on the two wires",
                                         dict(rep, trigger={"class": "meaning-timer"}, failure=f"AirTouch 4 sends {m4}, AirTouch 5 sends {m5}"))
                        continue
                    if len(f4) == 1 and len(f5) == 1:
                        q4 = check_api.spec_request(4, kind, f4[0])
                        q5 = check_api.spec_request(5, kind, f5[0])
                        if q4 and q5:
                            deferred.append((kind, q4, q5, rep, f4[0][8].hex(), f5[0][8].hex()))
            if deferred:
                rd = common.run_model([q4[0] for _, q4, *_ in deferred] + [q5[0] for _, _, q5, *_ in deferred])
                n = len(deferred)
                for j, (kind, q4, q5, rep, h4, h5) in enumerate(deferred):
                    m4 = check_api.norm(check_api.spec_parse(kind, rd[j], q4[1]))
                    m5 = check_api.norm(check_api.spec_parse(kind, rd[n + j], q5[1]))
                    m4.pop("pad"), m5.pop("pad")
                    if kind == "zone":
                        me4, me5 = m4.pop("method"), m5.pop("method")
                        if me4 != me5:
                            ck.violation("zone request: control-method part differs between the generations",
                                         dict(rep, trigger={"class": "zone-control-method"},
                                              failure=f"AirTouch 4 frame {h4} asks for control method {me4}, AirTouch 5 frame {h5} for {me5}"))
                    if m4 != m5:
                        ck.violation("the same request means different things on the two wires",
                                     dict(rep, trigger={"class": "meaning"}, failure=f"AirTouch 4 frame {h4} reads {m4}; AirTouch 5 frame {h5} reads {m5}"))
        finally:
            r4.close()
            r5.close()
    ck.extra["input_distribution"] = dict(sorted(dist.items()))
    ck.sample("AC 0 reports AUTO_COOL / TURBO / 24 degC on both consoles: selected AUTO, active COOL, fan TURBO, target 24.0 on both clients")
    return ck.finish()


def main() -> int:
    ap = argparse.ArgumentParser()
    ap.add_argument("prop", choices=["C19"])
    ap.add_argument("--tier", default="quick", choices=["quick", "thorough"])
    a = ap.parse_args()
    return check_c19(a.tier)


if __name__ == "__main__":
    sys.exit(main())
