"""Check C08: heartbeat period, detection of silence, quietness while answered.

  python -m harness.check_hb C08 --tier quick|thorough
"""

from __future__ import annotations

import argparse
import json
import random
import sys
from collections import Counter

from . import common, hbrun


def observe_defaults() -> tuple[int, int]:
    import pyairtouch.comms.heartbeat as hb
    cfg = hb.HeartbeatConfig(message=None, response_match=lambda m: False)
    i, t = cfg.interval * 1024, cfg.timeout * 1024
    return int(i), int(t)


def write_obs(i: int, t: int) -> None:
    p = common.COQ / "observed" / "Obs_C08.v"
    txt = ("(* generated on every run by harness/check_hb.py from /repo's HeartbeatConfig defaults *)\n"
           "From Coq Require Import ZArith.\nOpen Scope Z_scope.\n"
           f"Definition obs_interval : Z := {i}.\nDefinition obs_timeout : Z := {t}.\n")
    if not p.exists() or p.read_text() != txt:
        p.write_text(txt)


def to_model(interval: int, timeout: int, script, out):
    """Model case + index map (model op index per stimulus, or None)."""
    case = [5, interval, timeout, 1]        # the rig connects at tick 1
    idx = []
    now = 1
    k = 0
    for st, (c, evs) in zip(script, out):
        kind = st[0]
        if evs == [("tie",)]:
            idx.append(None)
            break
        if kind == "start":
            case += [0, int(c)]
        elif kind == "stop":
            case += [1]
        elif kind == "resp" and evs != [("skipped",)]:
            case += [2]
        elif kind == "adv":
            t = [e for e in evs if e[0] == "time"][-1][1]
            case += [3, t - now, int(c)]
            now = t
        else:
            idx.append(None)
            continue
        idx.append(k)
        k += 1
    return case, idx


def parse_model(ints):
    out, cur, i = [], [], 0
    names = {1: "send", 2: "reset", 3: "time"}
    while i < len(ints):
        if ints[i] == 0:
            out.append(cur)
            cur = []
            i += 1
        else:
            cur.append((names[ints[i]], ints[i + 1]))
            i += 2
    return out


def spec_monitor(interval, timeout, script, out):
    """The property restated on the implementation trace (independent of the Coq model):
    heartbeats only/always at start + k*interval while connected; a reset exactly when
    `timeout` has elapsed since start / the last response / the last timeout, if connected."""
    bad = []
    run = False
    start = nxt = dead = None
    now = 1
    for i, (st, (c, evs)) in enumerate(zip(script, out)):
        if evs == [("tie",)]:
            break
        kind = st[0]
        sends = [e[1] for e in evs if e[0] == "send"]
        resets = [e[1] for e in evs if e[0] == "reset"]
        exp_s, exp_r = [], []
        if kind == "start" and not run:
            run, start, nxt, dead = True, now, now + interval, now + timeout
            if c:
                exp_s = [now]
        elif kind == "stop":
            run = False
        elif kind == "resp" and evs != [("skipped",)] and run:
            dead = now + timeout
        elif kind == "adv":
            t = [e for e in evs if e[0] == "time"][-1][1]
            if run:
                if nxt <= t and nxt <= dead:
                    if nxt != t:
                        bad.append(f"step {i}: heartbeat timer due at {nxt} but the clock stopped at {t}")
                    if c:
                        exp_s = [nxt]
                    nxt += interval
                elif dead <= t:
                    if dead != t:
                        bad.append(f"step {i}: deadline {dead} passed without the monitor waking (clock at {t})")
                    if c:
                        exp_r = [dead]
                    dead += timeout
            now = t
        if sends != exp_s:
            bad.append(f"step {i}: heartbeats sent at {sends}, expected {exp_s} (start {start}, interval {interval})")
        if resets != exp_r:
            if exp_r:
                bad.append(f"step {i}: no response for {timeout} ticks up to {exp_r[0]} on a connected link but no reset")
            else:
                bad.append(f"step {i}: connection reset at {resets} although a response arrived within the timeout")
        if any(e[0] == "unhandled" for e in evs):
            bad.append(f"step {i}: unhandled exception in a heartbeat task")
    return bad


def gen_script(rng: random.Random, interval: int, timeout: int, n: int):
    """Answer patterns over n heartbeats + start/stop/reset/noise placements."""
    s = [("start",)]
    margin = timeout - interval
    for _ in range(n):
        r = rng.random()
        if r < 0.45:          # answered after some delay
            grid = [1, 2, max(1, margin - 1), max(1, margin // 2)]
            d = rng.choice([g for g in grid if 0 < g < interval] or [1])
            s += [("adv", d), ("resp",)]
        elif r < 0.60:        # answered late (at or after the margin)
            d = rng.choice([margin, margin + 1, margin + 5])
            if 0 < d < interval:
                s += [("adv", d), ("resp",)]
        elif r < 0.70:
            s += [("adv", rng.choice([1, 3])), ("noise",)]
        elif r < 0.76:
            s += [("rst",)]
        elif r < 0.80:
            s += [("stop",), ("adv", rng.choice([5, interval])), ("start",)]
        # then run to the next timers
        for _ in range(rng.choice([1, 2, 3])):
            s.append(("adv", rng.choice([interval, timeout, 10 * interval])))
    return s


def check(tier: str) -> int:
    ck = common.Check("C08", tier)
    ck.rule = ("scripts = answer patterns over N consecutive heartbeats (answered after d on a grid around timeout-interval, "
               "late, never), unsolicited/noise frames, peer resets, stop/start, for default and custom interval/timeout, "
               "both generations; run on the real HeartbeatManager + AirTouchSocket (virtual loop) and on the extracted model; "
               "non-trivial/distinct = distinct (config, script) containing at least one heartbeat and one response or reset")
    ck.assumptions = [
        "a response arriving at exactly the deadline instant loses against the timer (CPython runs the due timer first); scripts in which two client timers coincide are cut at that point",
        "the heartbeat machine is driven with the socket's real connectivity sampled before each stimulus",
    ]
    rng = random.Random(ck.seed * 7907 + 8)
    with common.Lock():
        oi, ot = observe_defaults()
        write_obs(oi, ot)
        proved = ck.prove(["observed/Obs_C08.vo"])
        if not proved:
            if (oi, ot) != (300 * 1024, 330 * 1024):
                ck.violation("heartbeat defaults are not 300 s / 330 s", {
                    "kind": "heartbeat-defaults", "interval_s": oi / 1024, "timeout_s": ot / 1024,
                    "trigger": {"interval": oi, "timeout": ot}})
            else:
                ck.violation("proof", {"theorem_file": "coq/props/C08.v", "failed_at": getattr(ck, "failed_at", "?"),
                                       "log_tail": getattr(ck, "proof_log", "")[-1500:]}, found_input=False)
        try:
            common.build_driver()
        except RuntimeError as ex:
            ck.violation("model-build", {"error": str(ex)[-1500:]}, found_input=False)
            return ck.finish()
    dist = Counter()
    configs = [(None, None), (8192, 10240), (1024, 1536), (4096, 4099), (2048, 6000)]
    nscripts = 2500 if tier == "quick" else 40000
    fixed = [
        [("start",)] + [("adv", 10 ** 7)] * 12,                                   # silence from the first heartbeat
        [("start",), ("adv", 2), ("resp",)] + [("adv", 10 ** 7)] * 10,            # silence after a response
        [("start",)] + [("adv", 10 ** 7)] * 4 + [("resp",)] + [("adv", 10 ** 7)] * 8,   # after a previous timeout
        [("adv", 50), ("start",), ("adv", 1), ("resp",), ("stop",), ("adv", 10 ** 7), ("adv", 10 ** 7), ("start",)] + [("adv", 10 ** 7)] * 4,
    ]
    first_bad = None
    for gen in (4, 5):
        for (ci, ct) in configs:
            scripts = list(fixed)
            per = nscripts // (2 * len(configs))
            iv, tv = (ci, ct) if ci else (oi, ot)
            for _ in range(per):
                scripts.append(gen_script(rng, iv, tv, rng.choice([3, 6, 12])))
            runs, cases = [], []
            for sc in scripts:
                i_t, t_t, out = hbrun.run_script(gen, sc, ci, ct)
                case, idx = to_model(i_t, t_t, sc, out)
                runs.append((sc, out, idx, i_t, t_t))
                cases.append(case)
            mres = common.run_model(cases)
            for (sc, out, idx, i_t, t_t), mr in zip(runs, mres):
                ck.count()
                mo = parse_model(mr)
                kinds = Counter(e[0] for _, evs in out for e in evs)
                if kinds["send"] and (kinds["reset"] or any(s[0] == "resp" for s in sc)):
                    ck.note_case((gen, i_t, t_t, json.dumps(sc)))
                for k in ("send", "reset", "tie", "skipped"):
                    dist[k] += kinds[k]
                dist["scripts"] += 1
                diff = None
                for j, (st, (c, evs)) in enumerate(zip(sc, out)):
                    if idx[j] is None if j < len(idx) else True:
                        continue
                    want = sorted(e for e in mo[idx[j]])
                    got = sorted(e for e in evs if e[0] in ("send", "reset", "time"))
                    if want != got:
                        diff = {"index": j, "stimulus": list(st), "model": want, "impl": got}
                        break
                mon = spec_monitor(i_t, t_t, sc, out)
                if (diff or mon) and first_bad is None:
                    first_bad = (gen, ci, ct, sc, out, diff, mon, i_t, t_t)
    ck.extra["input_distribution"] = dict(dist)
    if first_bad:
        gen, ci, ct, sc, out, diff, mon, i_t, t_t = first_bad
        replay = {"kind": "heartbeat-script", "gen": gen, "interval_ticks": i_t, "timeout_ticks": t_t,
                  "script": [list(x) for x in sc],
                  "impl_trace": [[c, [list(e) for e in evs]] for c, evs in out], "first_difference": diff, "monitor": mon,
                  "replay_cmd": f"cd /verif && PYTHONPATH=/repo:/verif /venv/bin/python -m harness.hbrun {gen} '{json.dumps([list(x) for x in sc])}' {i_t} {t_t}",
                  "trigger": {"script": json.dumps([list(x) for x in sc]), "gen": gen, "interval": i_t}}
        if mon:
            ck.violation("; ".join(mon[:3]), replay)
        else:
            replay["no_longer_checks"] = "Heartbeat.v (theorems of coq/props/C08.v) vs HeartbeatManager"
            ck.violation("correspondence", replay, found_input=False)
    api_level(ck, dist)
    ck.extra["input_distribution"] = dict(dist)
    ck.sample({"config_ticks": [oi, ot], "script": fixed[0][:6]})
    ck.sample({"script": [list(x) for x in scripts[-1]][:20]})
    return ck.finish()


def api_level(ck, dist) -> None:
    """'Once initialised': the statement's conclusions observed on whole clients (pyairtouch.connect + init) against
    scripted consoles, for every way the handshake can end (AT4 bitmap / old format, AT5 with and without zones)."""
    from . import console
    T = 1024
    shapes = [(4, 1, 3), (4, 2, 5), (4, 4, 16), (5, 1, 3), (5, 2, 5), (5, 1, 0), (5, 3, 0)]
    for gen, n_acs, n_zones in shapes:
        for silent in (False, True):
            inst = console.simple_installation(gen, n_acs, n_zones)
            # what the console answers a heartbeat with: an ordinary version, a blank one, two consoles' versions
            inst.version = [(False, ["1.2.3"]), (False, [""]), (True, ["1.1.0", "1.0.9"])][(n_acs + n_zones + int(silent)) % 3]
            rig = console.ApiRig(inst)
            try:
                r, _ = rig.init()
                ck.count()
                dist["api_level_clients"] += 1
                replay = {"kind": "heartbeat-api", "gen": gen, "acs": n_acs, "zones": n_zones, "console_silent_after_init": silent,
                          "trigger": {"class": "heartbeat-api", "gen": gen, "zones": n_zones, "silent": silent}}
                if r != ("ok", True):
                    ck.violation("the client does not initialise against an answering console (heartbeat scenario)",
                                 dict(replay, failure=f"init() -> {r}; console version answer {inst.version}"))
                    continue
                t0 = rig.now_ticks()
                m0 = len(rig.console.requests)
                cid0 = rig.net.current().cid
                if silent:
                    rig.console.silent_from = 0
                rig.advance(300 * T + 2)
                beats = [int(round(q[0] * 1024)) - t0 for q in rig.console.requests[m0:] if q[2] == "version"]
                if not beats or beats[-1] != 300 * T:
                    ck.violation("no console-version request 300 s after initialisation",
                                 dict(replay, failure=f"version requests after init at ticks {beats} (expected one at {300 * T})"))
                    continue
                rig.advance(31 * T)
                cur = rig.net.current()
                was_reset = cur is None or cur.cid != cid0
                if silent and not was_reset:
                    ck.violation("the link was not reset after 330 s without a console-version response",
                                 dict(replay, failure="same connection 331 s after initialisation although the console never answered"))
                if not silent and was_reset:
                    ck.violation("the heartbeat reset a link on which every heartbeat was answered", dict(replay, failure="connection replaced"))
                if not silent:
                    rig.advance(900 * T)
                    cur = rig.net.current()
                    beats = [int(round(q[0] * 1024)) - t0 for q in rig.console.requests[m0:] if q[2] == "version"]
                    if cur is None or cur.cid != cid0 or beats[-3:] != [600 * T, 900 * T, 1200 * T]:
                        ck.violation("heartbeats on an answered link are not every 300 s / reset the link",
                                     dict(replay, failure=f"version requests at {beats}, connection {'replaced' if cur is None or cur.cid != cid0 else 'kept'}"))
                        continue
                    # an outage that covers a heartbeat instant, with the send queue full of unexpired commands at that
                    # instant (nothing can be sent then, and nothing may break): once the link is back the heartbeat goes
                    # on - a version request 300 s after the previous tick, every 300 s
                    from . import api_tie as AT
                    rig.advance(t0 + 1480 * T - rig.now_ticks())   # 1480 s
                    rig.net.accept = False
                    rig.net.current().transport.peer_reset()
                    rig.pump()
                    rig.advance(10 * T)                        # 1490 s
                    ac0 = rig.at.air_conditioners[0]
                    for c in range(10):
                        rig.start(ac0.set_power(AT.POWER_CTL[1 + c % 2]))
                    rig.advance(15 * T)                        # 1505 s: the tick at 1500 s fell inside the outage
                    rig.net.accept = True
                    rig.advance(t0 + 2105 * T - rig.now_ticks())   # 2105 s
                    beats = [int(round(q[0] * 1024)) - t0 for q in rig.console.requests[m0:] if q[2] == "version"]
                    late = [b for b in beats if b > 1505 * T + 30 * T]
                    dist["api_level_outage_over_a_tick"] += 1
                    if late[:2] != [1800 * T, 2100 * T]:
                        ck.violation("after an outage that covered a heartbeat instant (send queue full at that instant) the "
                                     "heartbeat does not go on every 300 s",
                                     dict(replay, kind="heartbeat-api-outage",
                                          trigger={"class": "heartbeat-api-outage", "gen": gen},
                                          history="init; answered heartbeats to 1200 s; link lost at 1480 s; ten power commands at 1490 s; "
                                                  "link accepted again from 1505 s; observe to 2105 s",
                                          failure=f"version requests after the outage at {[b / T for b in beats if b > 1480 * T]} s "
                                                  f"(expected ... 1800, 2100)"))
            finally:
                rig.close()


def main() -> int:
    ap = argparse.ArgumentParser()
    ap.add_argument("prop", choices=["C08"])
    ap.add_argument("--tier", default="quick", choices=["quick", "thorough"])
    ap.add_argument("--replay")
    a = ap.parse_args()
    return check(a.tier)


if __name__ == "__main__":
    sys.exit(main())
