"""Checks of the socket-level properties C01 C02 C07 C15 C16.

  python -m harness.check_sock <Cxx> --tier quick|thorough [--replay file]

1. re-prove coq/props/<Cxx>.v (full .vo build, Print Assumptions captured);
2. rebuild the extracted model; run corpus, bounded-exhaustive and seeded random
   stimulus scripts through the real AirTouchSocket (virtual loop) and the model;
   compare the observables the property mentions;
3. run the property's trace monitors (the theorem conclusions as predicates) on every
   implementation trace; shrink and report violations.
"""

from __future__ import annotations

import argparse
import json
import random
import sys
from collections import Counter

from . import common, sockcorr, sockrun

PROPS = ("C01", "C02", "C07", "C15", "C16")

# event kinds compared per property (projection of the trace)
PROJ = {
    "C01": {"wrote", "garbled", "sendok", "senderr", "sendexc"},
    "C02": {"wrote", "garbled", "wfail", "sendok", "senderr", "sendexc"},
    "C07": {"dial", "refused", "open", "close", "notify", "deliver", "wrote", "garbled",
            "unhandled", "sendexc", "time"},
    "C15": {"dial", "refused", "open", "close", "notify", "wrote", "garbled", "leak", "senderr",
            "sendok", "sendexc", "unhandled", "time"},
    "C16": {"sendok", "senderr", "sendexc", "wrote", "garbled"},
}

PROFILE = {"C01": "mixed", "C02": "faults", "C07": "faults", "C15": "shutdown", "C16": "queue"}

ALPHABET = {
    "C01": [("send", 0, 0), ("send", 1, 2), ("send", 9, 0), ("adv", 2048), ("adv", 1024), ("rst",),
            ("net", False, 2), ("net", True, 2), ("send2", 2, 0, 3, 1)],
    "C02": [("send", 0, 0), ("send", 1, 1), ("send", 4, 2), ("failw",), ("adv", 2048), ("adv", 1023),
            ("rst",), ("net", True, 1024), ("net", False, 1)],
    "C07": [("send", 0, 0), ("send", 9, 0), ("failw",), ("adv", 2048), ("eof",), ("rst",), ("bad", 1),
            ("net", False, 2), ("net", True, 3), ("reset",)],
    "C15": [("send", 0, 0), ("close",), ("open",), ("adv", 2048), ("adv", 3), ("rst",),
            ("net", False, 2), ("net", True, 2), ("failw",)],
    "C16": [("send", 0, 0), ("send", 1, 2), ("send", 2, 3), ("adv", 1024), ("adv", 2048),
            ("net", False, 1), ("net", True, 1), ("close",), ("send", 10, 0)],
}

# probe appended to C07 scripts: the network behaves again; a sacrificial command absorbs
# a write fault that may still be armed; then a status frame must be delivered and a
# command must be written
PROBE = ([("net", True, 1)] + [("adv", 4096)] * 5 + [("send", 1, 0)] + [("adv", 4096)] * 5
         + [("frame", 0), ("send", 0, 0)])


def project(prop: str, evs: list[tuple]) -> list[tuple]:
    keep = PROJ[prop]
    out = [e for e in evs if e[0] in keep]
    if prop in ("C02", "C15", "C16"):
        # an exception escaping from the drain inside send() is C01/C07's subject; for
        # these properties the message counts as accepted
        out = [("sendok",) if e[0] == "sendexc" else e for e in out]
    return out


def differs(prop: str, gen: int, script, impl, model_out):
    pid0, iout = impl
    mout = sockcorr.merge_send2(script, sockcorr.parse_model(model_out))
    if iout and iout[-1] == [("tie",)]:
        # two client timers due at the same instant: their firing order is a CPython
        # artefact no property mentions; the script is compared up to that point only
        iout = iout[:-1]
        mout = mout[:len(iout)]
    if len(mout) != len(iout):
        return {"index": len(iout) - 1, "why": "length", "impl": [list(e) for e in iout[-1]] if iout else []}
    for i, (m, im) in enumerate(zip(mout, iout)):
        pm = [e for e in m if e[0] in PROJ[prop] or e[0] in sockcorr.GHOST]
        if sockcorr.canon(pm, True) != sockcorr.canon(project(prop, im), False):
            return {"index": i, "stimulus": list(script[i]), "model": [list(e) for e in m],
                    "impl": [list(e) for e in im]}
    return None


# ---------------------------------------------------------------------------- monitors
def monitor(prop: str, gen: int, script: list[tuple], iout: list[list[tuple]], pid0: int = 0) -> list[str]:
    """Evaluate the theorem conclusions of `prop` on an implementation trace."""
    cls = sockcorr.cat_classes(gen)
    next_pid = pid0
    bad: list[str] = []
    now = 0
    accepted: list[dict] = []      # ordinal -> info
    pending: list[int] = []        # ordinals accepted, not yet written (upper bound of the queue)
    held: list[int] = []           # connections currently held (walk)
    closed_phase = False
    is_open = False
    connected = False
    fault_seen = False
    faultless = True               # no write fault / unencodable so far: bookkeeping is exact
    last_written = -1
    attempts: Counter = Counter()
    n_faults = 0                   # failw stimuli so far
    refail = None                  # ordinal whose write failed once with retries left (the only fault so far)
    first_after_open = False       # the next frame written is the first on a new connection

    def find_ord(k, pid, only_pending=True):
        for o in (pending if only_pending else range(len(accepted) - 1, -1, -1)):
            a = accepted[o]
            if a["k"] == k and a["pid"] == pid:
                return o
        return None

    for idx, (st, evs) in enumerate(zip(script, iout)):
        kind = st[0]
        t_ev = [e for e in evs if e[0] == "time"]
        if t_ev:
            now = t_ev[-1][1]
        if kind == "failw":
            fault_seen = True
            faultless = False
            n_faults += 1
        if kind == "open":
            is_open = True
            closed_phase = False
        if evs == [("tie",)]:
            break
        sends = []
        if kind == "send":
            sends = [(st[1], st[2])]
        elif kind == "send2":
            sends = [(st[1], st[2]), (st[3], st[4])]
        results = [e for e in evs if e[0] in ("sendok", "senderr", "sendexc")]
        # --- connection discipline (C07_single / C15_all_closed / C01_on_open_link) -------
        if kind == "rst":
            held.clear()           # peer reset: the transport closes the socket itself
        for e in evs:
            if e[0] == "open":
                if held:
                    bad.append(f"step {idx}: connection {e[1]} opened while {held} still held")
                held.append(e[1])
            elif e[0] == "dial":
                if held:
                    bad.append(f"step {idx}: dial while connection {held} still held")
                if closed_phase:
                    bad.append(f"step {idx}: dial after close()")
            elif e[0] in ("close", "wfail"):
                if e[1] in held:
                    held.remove(e[1])
            elif e[0] == "notify" and e[1] and closed_phase:
                bad.append(f"step {idx}: connected notification after close()")
            elif e[0] == "leak":
                bad.append(f"step {idx}: {e[1]} timers/tasks still scheduled after close() returned")
            elif e[0] == "unhandled":
                bad.append(f"step {idx}: unhandled exception in a client task")
            elif e[0] == "garbled":
                bad.append(f"step {idx}: bytes on connection {e[1]} are not whole frames of submitted messages")
            elif e[0] == "crash":
                bad.append(f"step {idx}: unhandled failure while executing the stimulus: {e[1]}")
            elif e[0] == "sendexc":
                bad.append(f"step {idx}: send raised unexpected {e[1]}")
        # --- sends ---------------------------------------------------------------------------
        if sends and len(results) != len(sends):
            bad.append(f"step {idx}: {len(sends)} sends produced {len(results)} results")
        # expire bookkeeping before acceptance (the purge happens at enqueue)
        for (k, pol), res in zip(sends, results):
            r, life = sockrun.policy_params(pol)
            pending[:] = [o for o in pending if now < accepted[o]["exp"]]
            my_pid = next_pid
            if cls[k] != 1:
                next_pid = (next_pid + 1) % 256     # C01_pid_wrap: consumed by every send that has an encoder
            if res[0] == "sendok":
                if not is_open:
                    bad.append(f"step {idx}: send accepted on a client that is not open")
                accepted.append({"k": k, "pid": my_pid, "exp": now + life, "r": r, "t": now, "cls": cls[k]})
                pending.append(len(accepted) - 1)
                if cls[k] != 0:
                    faultless = False
            elif res[0] == "senderr":
                code = res[1]
                if code == 3:
                    if len(pending) < 10:
                        bad.append(f"step {idx}: QueueOverflowError with only {len(pending)} unexpired messages pending")
                elif code == 2:
                    if is_open:
                        bad.append(f"step {idx}: NotOpenError on an open client")
                elif code == 1:
                    if cls[k] != 1:
                        bad.append(f"step {idx}: NotImplementedError for an encodable message")
            if res[0] != "senderr" or res[1] != 3:
                if res[0] == "sendok" and faultless and not connected and len(pending) > 10:
                    bad.append(f"step {idx}: eleventh unexpired message accepted ({len(pending)} pending)")
        # --- frames ---------------------------------------------------------------------------
        for e in evs:
            if e[0] == "wrote":
                c, k, pid = e[1:]
                if closed_phase:
                    bad.append(f"step {idx}: frame written after close()")
                # assign packet ids lazily: the first unassigned pending ordinal with this k
                o = None
                for cand in pending:
                    a = accepted[cand]
                    if a["k"] == k and a["pid"] == pid:
                        o = cand
                        break
                if o is None:
                    # maybe a duplicate of something already written / dropped
                    dup = [j for j, a in enumerate(accepted) if a["k"] == k and a["pid"] == pid]
                    if dup:
                        bad.append(f"step {idx}: message #{dup[-1]} (k={k}, pid={pid}) written again or after it left the queue")
                    else:
                        bad.append(f"step {idx}: frame (k={k}, pid={pid}) was never submitted (or substituted)")
                    continue
                a = accepted[o]
                if first_after_open and refail is not None and n_faults == 1 and refail in pending and now < accepted[refail]["exp"] and o != refail:
                    bad.append(f"step {idx}: message #{refail} failed on a single transient write failure but message #{o} was re-sent before it on the next connection")
                first_after_open = False
                if o == refail:
                    refail = None
                attempts[o] += 1
                if attempts[o] > 1 + a["r"]:
                    bad.append(f"step {idx}: message #{o} attempted {attempts[o]} times, policy allows {1 + a['r']}")
                if not now < a["exp"]:
                    bad.append(f"step {idx}: message #{o} written at {now} >= expiry {a['exp']}")
                if o < last_written:
                    bad.append(f"step {idx}: message #{o} written after #{last_written} (acceptance order violated)")
                last_written = max(last_written, o)
                pending.remove(o)
                if c not in held:
                    bad.append(f"step {idx}: frame written on connection {c} which is not the held one {held}")
            elif e[0] == "wfail":
                pid = e[2]
                for cand in pending:
                    a = accepted[cand]
                    if a["pid"] == pid:
                        if a["cls"] == 0:
                            attempts[cand] += 1
                            if attempts[cand] > 1 + a["r"]:
                                bad.append(f"step {idx}: message #{cand} attempted {attempts[cand]} times, policy allows {1 + a['r']}")
                            if attempts[cand] > a["r"]:
                                pending.remove(cand)
                            elif n_faults == 1 and refail is None:
                                refail = cand
                            break
        # --- promptness (exact bookkeeping only) -------------------------------------------------
        for e in evs:
            if e[0] == "notify":
                connected = bool(e[1])
            if e[0] == "open":
                first_after_open = True
        if (refail is not None and n_faults == 1 and connected and any(e[0] == "open" for e in evs) and refail in pending
                and now < accepted[refail]["exp"] and not any(e[0] == "wfail" for e in evs)):
            bad.append(f"step {idx}: idempotent message #{refail} was lost after a single transient write failure "
                       f"(connected again at {now}, lifetime until {accepted[refail]['exp']}, never re-sent)")
            refail = None
        if kind == "close":
            refail = None
            is_open = False
            closed_phase = True
            connected = False
            pending.clear()
            if held:
                bad.append(f"step {idx}: close() returned with connection {held} not closed")
        if faultless and connected and not fault_seen:
            live = [o for o in pending if now < accepted[o]["exp"] and accepted[o]["cls"] == 0]
            if live:
                bad.append(f"step {idx}: connected and quiescent but messages {live} still unsent")
    return bad


RELEVANT_WORDS = {
    "*": ("unhandled failure",),
    "C01": ("never submitted", "written again", "acceptance order", "not whole frames", "still unsent",
            "not the held one", "sends produced", "unexpected"),
    "C02": ("attempted", "expiry", "written again", "single transient"),
    "C07": ("still held", "not whole frames", "unhandled", "not the held one", "probe"),
    "C15": ("after close()", "not closed", "still scheduled", "not open"),
    "C16": ("QueueOverflowError", "eleventh", "expiry", "not open", "NotOpenError"),
}


def probe_ok(trace) -> tuple[bool, bool]:
    return (any(e[0] == "deliver" and e[1] == 0 for e in trace[-2]),
            any(e[0] == "wrote" and e[-2 if len(e) == 5 else 2] == 0 for e in trace[-1]))


def prop_monitor(prop, gen, script, iout, pid0=0, mout=None):
    msgs = monitor(prop, gen, script, iout, pid0)
    msgs = [m for m in msgs if any(w in m for w in RELEVANT_WORDS[prop] + RELEVANT_WORDS['*'])]
    opened = False
    for st in script[:-len(PROBE)]:
        if st[0] == "open":
            opened = True
        elif st[0] == "close":
            opened = False
    tie = any(evs == [("tie",)] for evs in iout)
    if prop == "C07" and script[-len(PROBE):] == PROBE and opened and not tie and len(iout) == len(script):
        d_ok, w_ok = probe_ok(iout)
        # if the model fails the probe too, the probe was too short for this state
        # (many sleeping connect tasks), not a violation
        md_ok, mw_ok = probe_ok(mout) if mout is not None else (True, True)
        if not d_ok and md_ok:
            msgs.append("probe: status frame sent after the network recovered was not delivered")
        if not w_ok and mw_ok:
            msgs.append("probe: command submitted after the network recovered was not written")
    return msgs


def subscriber_send_scripts(ck, tier: str) -> None:
    """C07 with a connection subscriber that sends on the connected notification (what the API
    classes do), faults placed on exactly those sends.  Such sends are outside the stimulus
    alphabet of the socket model, so these scripts are judged by the healing monitor alone: after
    the network recovers the client must be connected, receive a frame and transmit a command."""
    rng = random.Random(ck.seed * 877 + 7)
    n = 0
    runs = []
    for gen in (4, 5):
        for _ in range(60 if tier == "quick" else 1500):
            pre = [("subsend", rng.choice([0, 1, 4]), rng.choice([0, 2]))]
            if rng.random() < 0.7:
                pre.append(("failw",))
            pre += [("open",), ("adv", 1)]
            for _k in range(rng.choice([0, 1, 3])):
                pre.append(rng.choice([("failw",), ("rst",), ("adv", rng.choice([1, 2048, 3000])), ("eof",), ("bad", rng.randrange(3)),
                                       ("net", rng.random() < 0.6, rng.choice([1, 5]))]))
            script = pre + [("subsend", -1, 0)] + PROBE
            pid0, out = sockcorr.run_impl(gen, script)
            runs.append((gen, script, out))
            n += 1
            ck.count()
            if any(evs == [("tie",)] for evs in out) or len(out) != len(script):
                continue
            d_ok, w_ok = probe_ok(out)
            bad = [e for evs in out for e in evs if e[0] in ("unhandled", "crash")]
            if not d_ok or not w_ok or bad:
                ck.violation("the client did not heal after a fault on a send made from the connected notification",
                             {"kind": "socket-script-subscriber-send", "gen": gen, "script": [list(x) for x in script],
                              "impl_trace": [[list(e) for e in evs] for evs in out],
                              "monitor": [f"probe frame delivered: {d_ok}", f"probe command written: {w_ok}", f"errors: {bad}"],
                              "trigger": {"class": "subscriber-send"},
                              "replay_cmd": f"cd /verif && PYTHONPATH=/repo:/verif /venv/bin/python -m harness.sockrun {gen} '{sockcorr.fmt(script)}'"})
                break
    teardown_acceptor(ck, "subscriber_send_scripts", runs)
    ck.extra["subscriber_send_scripts"] = n


def partial_input_scripts(ck, tier: str) -> None:
    """C07: the peer goes away in the middle of a frame (inside the header, inside the payload, between the two
    check bytes, one byte before the end), by EOF or by reset, possibly after whole frames; judged by the healing
    monitor.  (Bytes that follow an unfinished frame on the same connection are its continuation: no claim.)"""
    rng = random.Random(ck.seed * 991 + 7)
    n = 0
    runs = []
    for gen in (4, 5):
        hdr = 8 if gen == 4 else 20
        frames = sockrun.rx_catalogue(gen)
        for i in range(80 if tier == "quick" else 2000):
            j = rng.randrange(len(frames))
            ln = len(frames[j])
            cut = [1, hdr - 1, hdr, hdr + 1, ln - 2, ln - 1, rng.randrange(1, ln)][i % 7]
            script = [("open",), ("adv", 1)]
            if rng.random() < 0.4:
                script.append(("frame", rng.randrange(len(frames))))
            script.append(("trunc", j, cut))
            if rng.random() < 0.3:
                script.append(("adv", rng.choice([1, 1500])))
            script.append(rng.choice([("eof",), ("eof",), ("rst",)]))
            if i % 4 == 0:
                script.append(("burn", rng.choice([254, 255, 255])))      # the probe commands straddle the counter wrap
            script += PROBE
            pid0, out = sockcorr.run_impl(gen, script)
            runs.append((gen, script, out))
            n += 1
            ck.count()
            if any(evs == [("tie",)] for evs in out) or len(out) != len(script):
                continue
            d_ok, w_ok = probe_ok(out)
            bad = [e for evs in out for e in evs if e[0] in ("unhandled", "crash")]
            if not d_ok or not w_ok or bad:
                ck.violation("the client did not heal after the peer went away in the middle of a frame",
                             {"kind": "socket-script-partial-input", "gen": gen, "script": [list(x) for x in script],
                              "impl_trace": [[list(e) for e in evs] for evs in out],
                              "monitor": [f"probe frame delivered: {d_ok}", f"probe command written: {w_ok}", f"errors: {bad}"],
                              "trigger": {"class": "partial-input"},
                              "replay_cmd": f"cd /verif && PYTHONPATH=/repo:/verif /venv/bin/python -m harness.sockrun {gen} '{sockcorr.fmt(script)}'"})
                break
    teardown_acceptor(ck, "partial_input_scripts", runs)
    ck.extra["partial_input_scripts"] = n


TD = 10
OBS_CODE = {"dial": 1, "open": 2, "refused": 3, "close": 4, "deadclose": 4}


def teardown_acceptor(ck, family: str, runs: list) -> None:
    """The network traces of scripts without close() stimuli, judged by the acceptor of coq/sock/Teardown.v (extracted
    case 10): the sequence of connection attempts, their outcomes and the client's closes must be one the model can
    produce (theorems C07_acceptor_*: such a sequence never has two connections open; every run of the model is
    accepted).  runs = [(gen, script, out)]"""
    cases, keep = [], []
    for gen, script, out in runs:
        if any(st[0] in ("close", "sendclose", "cancelclose") for st in script):
            continue
        obs = [(OBS_CODE[e[0]], e) for evs in out for e in evs if e[0] in OBS_CODE]
        cases.append([TD] + [c for c, _ in obs])
        keep.append((gen, script, out, obs))
    if not cases:
        return
    res = common.run_model(cases)
    n_bad = 0
    for (gen, script, out, obs), r in zip(keep, res):
        ck.extra["teardown_acceptor_traces"] = ck.extra.get("teardown_acceptor_traces", 0) + 1
        ck.extra["teardown_acceptor_observables"] = ck.extra.get("teardown_acceptor_observables", 0) + len(obs)
        if r[0] != -1 and n_bad < 2:
            n_bad += 1
            i = r[0]
            what = {1: "a connection attempt while a connection is open or another attempt is in flight",
                    2: "a connection opened with no attempt in flight", 3: "an attempt failed with none in flight",
                    4: "a connection closed that was not the one open"}.get(obs[i][0], "?")
            ck.violation("the sequence of connection attempts, outcomes and closes is not one the tear-down model can produce: " + what,
                         {"kind": "socket-script-teardown-acceptor", "gen": gen, "family": family, "script": [list(x) for x in script],
                          "impl_trace": [[list(e) for e in evs] for evs in out],
                          "observables": [list(e) for _, e in obs], "rejected_at": i, "rejected": list(obs[i][1]),
                          "connections_open_at_once_before": r[1],
                          "trigger": {"class": "teardown-acceptor"},
                          "replay_cmd": f"cd /verif && PYTHONPATH=/repo:/verif /venv/bin/python -m harness.sockrun {gen} '{sockcorr.fmt(script)}'"})


def slow_teardown_scripts(ck, tier: str) -> None:
    """C07 when closing a connection takes time (the peer needs a moment to finish closing, so wait_closed() stays
    suspended and timers fire inside the tear-down): in particular the 2 s retry that an earlier connection attempt left
    armed.  Histories: an optional backlog whose flush fails on the first connection, time up to just before the retry
    instant, a fault that starts a tear-down lasting across it, more faults; then the usual probe.  Outside the socket
    model's alphabet: judged by the healing monitor (connected again, a frame delivered, a command written)."""
    rng = random.Random(ck.seed * 1013 + 7)
    n = 0
    runs = []
    for gen in (4, 5):
        for i in range(70 if tier == "quick" else 1500):
            d = rng.choice([3, 20, 50, 300, 2100])
            script = [("slowclose", d)]
            if rng.random() < 0.6:
                # a command submitted while the first connection attempt is in flight; its write on that connection fails
                script += [("failw",), ("open",), ("send", 0, 3), ("adv", 1)]
            else:
                script += [("open",), ("adv", 1)]
            if rng.random() < 0.7:
                # up to just before the instant (2 s after the first attempt's outcome) at which a retry left armed fires
                script.append(("until", 2049 - rng.randrange(1, min(d, 2000) + 2)))
            else:
                script.append(("adv", rng.choice([1, 500, 2048, 4096])))
            for _k in range(rng.choice([1, 1, 2, 3])):
                script.append(rng.choice([("eof",), ("rst",), ("bad", rng.randrange(3)), ("failw",), ("send", 0, 3),
                                          ("adv", rng.choice([1, d // 2 + 1, d + 5, 2048])), ("net", rng.random() < 0.6, 1)]))
            script += [("adv", d + 5), ("slowclose", 0)] + PROBE
            pid0, out = sockcorr.run_impl(gen, script)
            runs.append((gen, script, out))
            n += 1
            ck.count()
            if any(evs == [("tie",)] for evs in out) or len(out) != len(script):
                continue
            d_ok, w_ok = probe_ok(out)
            bad = [e for evs in out for e in evs if e[0] in ("unhandled", "crash")]
            if not d_ok or not w_ok or bad:
                ck.violation("the client did not heal after faults around a tear-down that takes time",
                             {"kind": "socket-script-slow-teardown", "gen": gen, "script": [list(x) for x in script],
                              "impl_trace": [[list(e) for e in evs] for evs in out],
                              "monitor": [f"probe frame delivered: {d_ok}", f"probe command written: {w_ok}", f"errors: {bad}"],
                              "trigger": {"class": "slow-teardown"},
                              "replay_cmd": f"cd /verif && PYTHONPATH=/repo:/verif /venv/bin/python -m harness.sockrun {gen} '{sockcorr.fmt(script)}'"})
                break
    teardown_acceptor(ck, "slow_teardown_scripts", runs)
    ck.extra["slow_teardown_scripts"] = n


# ---------------------------------------------------------------------------- scripts
def gen_scripts(prop: str, tier: str, rng: random.Random, gen: int):
    scripts = []
    depth = {"quick": 4, "thorough": 5}[tier]
    nrand = {"quick": 4000, "thorough": 80000}[tier]
    prefixes = {
        "C01": [[("open",)], [("open",), ("adv", 5)]],
        "C02": [[("open",), ("adv", 5)]],
        "C07": [[("open",)], [("open",), ("adv", 5)]],
        "C15": [[("open",)], [("open",), ("adv", 5), ("send", 0, 0)]],
        "C16": [[("open",), ("net", False, 1)] + [("send", 1, 0)] * 8, [("open",)]],
    }[prop]
    suffix = PROBE if prop == "C07" else [("adv", 4096), ("adv", 4096)]
    for pre in prefixes:
        for sc in sockcorr.exhaustive_scripts(ALPHABET[prop], depth, pre):
            scripts.append(sc + suffix)
    nexh = len(scripts)
    for _ in range(nrand):
        L = rng.choice([6, 10, 14, 20, 30, 45])
        prof = PROFILE[prop] if rng.random() < 0.75 else "mixed"
        sc = sockcorr.rand_script(rng, gen, L, prof)
        scripts.append(sc + suffix)
    if prop in ("C01", "C16", "C02"):
        for _ in range({"quick": 12, "thorough": 150}[tier]):
            scripts.append(sockcorr.long_script(rng, gen, rng.choice([300, 450, 600])))
    return scripts, nexh


def load_corpus(prop: str):
    out = []
    d = common.VERIF / "corpus" / "sock"
    if d.exists():
        for f in sorted(d.glob("*.json")):
            j = json.loads(f.read_text())
            if prop in j.get("properties", [prop]):
                out.append((j["gen"], [tuple(x) for x in j["script"]], f.name))
    return out


def nontrivial_key(script, iout):
    kinds = Counter(e[0] for evs in iout for e in evs)
    return tuple(sorted((k, min(v, 3)) for k, v in kinds.items()))


def run_check(prop: str, tier: str, replay: str | None) -> int:
    ck = common.Check(prop, tier)
    ck.rule = ("scripts = corpus + bounded-exhaustive (alphabet of %d stimuli, depth %d, %s) + seeded random "
               "(weighted grammar, profile %s) [+ long runs beyond the 256-value packet counter]; each script runs on the "
               "real AirTouchSocket (AT4 and AT5 registries) under the virtual loop and on the extracted model; "
               "non-trivial/distinct = distinct multiset signature of event kinds observed in the implementation trace"
               % (len(ALPHABET[prop]), {"quick": 4, "thorough": 5}[tier], "both prefixes", PROFILE[prop]))
    ck.assumptions = [
        "atomicity: an external stimulus finds the client quiescent (DESIGN §4); send2 exercises two sender tasks in one loop iteration",
        "the simulated transport mimics _SelectorSocketTransport callback order (write failure -> connection_lost via call_soon; both drain() and the reader observe it)",
        "frames written by the client are identified against payloads produced by the package's own encoders (codec correctness is C03/C04's subject)",
    ]
    with common.Lock():
        proved = ck.prove(also=["C02api"] if prop == "C02" else ["C15api"] if prop == "C15" else ["C07td"] if prop == "C07" else None)
        if not proved:
            ck.violation("proof", {"theorem_file": f"coq/props/{prop}.v", "failed_at": getattr(ck, "failed_at", "?"),
                                   "log_tail": getattr(ck, "proof_log", "")[-1500:]}, found_input=False)
        try:
            common.build_driver()
        except RuntimeError as ex:
            ck.violation("model-build", {"error": str(ex)[-1500:]}, found_input=False)
            return ck.finish()

    rng = random.Random(ck.seed * 7919 + hash(prop) % 1000 if False else ck.seed * 7919 + int(prop[1:]))
    dist = Counter()
    total_mismatch = 0
    first_fail = {}
    if replay:
        j = json.loads(open(replay).read())
        work = [(j["gen"], [[tuple(x) for x in j["script"]]], 0)]
    else:
        work = []
        for gen in (4, 5):
            corp = [sc for g, sc, _ in load_corpus(prop) if g == gen]
            scripts, nexh = gen_scripts(prop, tier, rng, gen)
            work.append((gen, corp + scripts, nexh))
            ck.extra.setdefault("exhaustive_scripts", 0)
            ck.extra["exhaustive_scripts"] += nexh
            ck.extra.setdefault("corpus_scripts", 0)
            ck.extra["corpus_scripts"] += len(corp)
    for gen, scripts, nexh in work:
        B = 2000
        for off in range(0, len(scripts), B):
            batch = scripts[off:off + B]
            impl = [sockcorr.run_impl(gen, sc) for sc in batch]
            cases = [sockcorr.to_model(gen, sc, pid0) for sc, (pid0, _) in zip(batch, impl)]
            mouts = common.run_model(cases)
            for sc, im, mo in zip(batch, impl, mouts):
                ck.count()
                ck.note_case(nontrivial_key(sc, im[1]))
                for st in sc:
                    dist[st[0]] += 1
                for evs in im[1]:
                    for e in evs:
                        if e[0] in ("senderr",):
                            dist[f"senderr{e[1]}"] += 1
                        elif e[0] in ("wrote", "wfail", "refused", "open", "deliver"):
                            dist["ev_" + e[0]] += 1
                d = differs(prop, gen, sc, im, mo)
                mon = prop_monitor(prop, gen, sc, im[1], im[0], sockcorr.merge_send2(sc, sockcorr.parse_model(mo)))
                if d is None and not mon:
                    continue
                total_mismatch += 1
                key = "monitor" if mon else "correspondence"
                if key in first_fail and len(first_fail) >= 2:
                    continue
                if key in first_fail:
                    continue
                first_fail[key] = (gen, sc)
    ck.extra["input_distribution"] = dict(dist)
    ck.extra["scripts_disagreeing_or_violating"] = total_mismatch
    # shrink and report
    for key, (gen, sc) in first_fail.items():
        if key == "monitor":
            def fails(cand, gen=gen):
                p0, io = sockcorr.run_impl(gen, cand)
                mo_ = sockcorr.merge_send2(cand, sockcorr.parse_model(common.run_model([sockcorr.to_model(gen, cand, p0)])[0]))
                return bool(prop_monitor(prop, gen, cand, io, p0, mo_))
        else:
            def fails(cand, gen=gen):
                im = sockcorr.run_impl(gen, cand)
                mo = common.run_model([sockcorr.to_model(gen, cand, im[0])])[0]
                return differs(prop, gen, cand, im, mo) is not None
        small = sockcorr.shrink(gen, sc, fails)
        im = sockcorr.run_impl(gen, small)
        mo = common.run_model([sockcorr.to_model(gen, small, im[0])])[0]
        mon = prop_monitor(prop, gen, small, im[1], im[0], sockcorr.merge_send2(small, sockcorr.parse_model(mo)))
        d = differs(prop, gen, small, im, mo)
        if not mon and d is not None:
            # search around the disagreement for a concrete property violation
            for ext in ([], PROBE, [("adv", 40000)], [("close",), ("adv", 5000)]):
                cand = small + ext
                p0, io = sockcorr.run_impl(gen, cand)
                m2 = prop_monitor(prop, gen, cand, io, p0)
                if m2:
                    small, mon = cand, m2
                    im = (im[0], io)
                    break
        replay_doc = {
            "kind": "socket-script", "gen": gen, "script": [list(x) for x in small],
            "impl_trace": [[list(e) for e in evs] for evs in im[1]],
            "model_trace": sockcorr.merge_send2(small, sockcorr.parse_model(
                common.run_model([sockcorr.to_model(gen, small, im[0])])[0])),
            "monitor": mon, "first_difference": d,
            "replay_cmd": f"cd /verif && PYTHONPATH=/repo:/verif /venv/bin/python -m harness.sockrun {gen} '{sockcorr.fmt(small)}'",
            "trigger": {"script": sockcorr.fmt(small), "gen": gen},
        }
        if mon:
            ck.violation("; ".join(mon[:3]), replay_doc, found_input=True)
        else:
            replay_doc["no_longer_checks"] = f"correspondence Sock.v (theorems of coq/props/{prop}.v) vs AirTouchSocket"
            ck.violation("correspondence", replay_doc, found_input=False)
    if prop == "C02":
        from . import check_policy
        check_policy.run(ck, tier)
    if prop in ("C01", "C02", "C16", "C15"):
        from . import check_backpressure
        check_backpressure.run(ck, prop, tier)
    if prop == "C07":
        subscriber_send_scripts(ck, tier)
        partial_input_scripts(ck, tier)
        slow_teardown_scripts(ck, tier)
    if prop == "C15":
        from . import check_lifecycle
        check_lifecycle.run(ck, tier)
    ck.sample({"script": sockcorr.fmt(work[0][1][min(50, len(work[0][1]) - 1)])})
    ck.sample({"script": sockcorr.fmt(work[-1][1][-1])[:600]})
    return ck.finish()


def main() -> int:
    ap = argparse.ArgumentParser()
    ap.add_argument("prop", choices=PROPS)
    ap.add_argument("--tier", default="quick", choices=["quick", "thorough"])
    ap.add_argument("--replay")
    a = ap.parse_args()
    return run_check(a.prop, a.tier, a.replay)


if __name__ == "__main__":
    sys.exit(main())
