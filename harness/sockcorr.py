"""Correspondence between coq/sock/Sock.v (extracted) and the real AirTouchSocket.

Scripts are generated from one PRNG, run on both sides, canonicalised and compared
per stimulus.  Also: bounded-exhaustive script enumeration, shrinking, trace monitors.
"""

from __future__ import annotations

import itertools
import json
import logging
import random
from collections import Counter

from . import common, sockrun

logging.disable(logging.CRITICAL)

ARITY = {1: 0, 2: 0, 3: 1, 4: 1, 5: 1, 6: 4, 7: 1, 8: 1, 9: 0, 10: 1, 11: 1, 12: 5, 13: 1}
NAMES = {1: "dial", 2: "refused", 3: "open", 4: "close", 5: "wfail", 6: "wrote", 7: "notify",
         8: "deliver", 9: "sendok", 10: "senderr", 11: "time", 12: "accept", 13: "lost"}
GHOST = ("accept", "lost")


def cat_classes(gen: int) -> list[int]:
    return [c for _, c in sockrun.catalogue(gen)]


_CLS = {}


def to_model(gen: int, script: list[tuple], pid0: int) -> list[int]:
    """Encode a script for run_case (selector 1). send2 becomes two sends; the
    per-stimulus alignment is restored by merge_send2()."""
    if gen not in _CLS:
        _CLS[gen] = cat_classes(gen)
    cls = _CLS[gen]
    out = [1, pid0]
    for st in script:
        k = st[0]
        if k == "open":
            out += [0]
        elif k == "close":
            out += [1]
        elif k == "send":
            r, life = sockrun.policy_params(st[2])
            out += [2, st[1], cls[st[1]], r, life]
        elif k == "send2":
            r, life = sockrun.policy_params(st[2])
            out += [2, st[1], cls[st[1]], r, life]
            r, life = sockrun.policy_params(st[4])
            out += [2, st[3], cls[st[3]], r, life]
        elif k == "adv":
            out += [3, st[1]]
        elif k == "net":
            out += [4, int(st[1]), st[2]]
        elif k == "eof":
            out += [5]
        elif k == "rst":
            out += [6]
        elif k == "frame":
            out += [7, st[1]]
        elif k == "bad":
            out += [8]
        elif k == "failw":
            out += [9]
        elif k == "reset":
            out += [10]
        elif k == "subraise":
            out += [11]
        else:
            raise ValueError(st)
    return out


def parse_model(ints: list[int]) -> list[list[tuple]]:
    """Model output -> per-op event lists."""
    out, cur, i = [], [], 0
    while i < len(ints):
        t = ints[i]
        if t == 0:
            out.append(cur)
            cur = []
            i += 1
            continue
        n = ARITY[t]
        cur.append((NAMES[t],) + tuple(ints[i + 1:i + 1 + n]))
        i += 1 + n
    return out


def merge_send2(script: list[tuple], per_op: list[list[tuple]]) -> list[list[tuple]]:
    out, i = [], 0
    for st in script:
        if st[0] == "send2":
            out.append(per_op[i] + per_op[i + 1])
            i += 2
        else:
            out.append(per_op[i])
            i += 1
    assert i == len(per_op), (i, len(per_op))
    return out


def canon(evs: list[tuple], model: bool):
    """Canonical form of one stimulus' events: frames per connection in order,
    everything else as a multiset; repeated notify(False) collapsed."""
    wrote: dict[int, list] = {}
    other: Counter = Counter()
    for e in evs:
        if model and e[0] in GHOST:
            continue
        if e[0] == "wfail":
            other[("wfail", e[1])] += 1
            continue
        if e[0] == "wrote":
            if model:
                c, _i, k, pid = e[1:]
            else:
                c, k, pid = e[1:]
            wrote.setdefault(c, []).append((k, pid))
        elif e[0] == "notify":
            b = bool(e[1])
            if b:
                other[("notify", True)] += 1
            else:
                other[("notify", False)] = 1
        else:
            other[tuple(e)] += 1
    return (sorted(wrote.items()), sorted(other.items(), key=repr))


def run_impl(gen: int, script: list[tuple]):
    return sockrun.run_script(gen, script)


def compare_one(gen: int, script: list[tuple], impl=None, model_out=None):
    """Returns None if the traces agree, else dict describing the first difference."""
    pid0, iout = impl if impl is not None else run_impl(gen, script)
    if model_out is None:
        model_out = common.run_model([to_model(gen, script, pid0)])[0]
    mout = merge_send2(script, parse_model(model_out))
    if iout and iout[-1] == [("tie",)]:
        iout = iout[:-1]
        mout = mout[:len(iout)]
    if len(mout) != len(iout):
        return {"index": -1, "why": "length", "model": mout, "impl": iout}
    for i, (m, im) in enumerate(zip(mout, iout)):
        if canon(m, True) != canon(im, False):
            return {"index": i, "stimulus": script[i], "model": m, "impl": im}
    return None


# ---- generators --------------------------------------------------------------------
def rand_script(rng: random.Random, gen: int, length: int, profile: str = "mixed") -> list[tuple]:
    ncat = len(sockrun.catalogue(gen))
    ok_ks = [k for k, c in enumerate(cat_classes(gen)) if c == 0]
    s: list[tuple] = []
    if rng.random() < 0.9:
        s.append(("open",))
    if rng.random() < 0.4:
        s.append(("net", rng.random() < 0.6, rng.choice([1, 1, 2, 3, 1000, 2047])))
    weights = {
        "mixed": dict(send=30, send2=3, adv=25, net=8, eof=3, rst=3, frame=6, bad=3, failw=6,
                      reset=2, subraise=2, open=2, close=2),
        "queue": dict(send=55, send2=3, adv=25, net=6, eof=1, rst=1, frame=1, bad=1, failw=3,
                      reset=1, subraise=0, open=1, close=1),
        "faults": dict(send=20, send2=2, adv=25, net=10, eof=7, rst=7, frame=6, bad=8, failw=10,
                       reset=4, subraise=3, open=1, close=1),
        "shutdown": dict(send=20, send2=1, adv=25, net=8, eof=3, rst=3, frame=3, bad=3, failw=5,
                         reset=2, subraise=1, open=8, close=10),
    }[profile]
    kinds = list(weights)
    ws = [weights[k] for k in kinds]
    while len(s) < length:
        kind = rng.choices(kinds, ws)[0]
        if kind == "send":
            k = rng.choice(ok_ks) if rng.random() < 0.85 else rng.randrange(ncat)
            s.append(("send", k, rng.choice([0, 0, 1, 2, 2, 3, 4])))
        elif kind == "send2":
            s.append(("send2", rng.choice(ok_ks), rng.choice([0, 1, 2, 3]),
                      rng.choice(ok_ks), rng.choice([0, 1, 2, 3])))
        elif kind == "adv":
            s.append(("adv", rng.choice([1, 1, 2, 3, 5, 512, 1023, 1024, 1025, 2047, 2048, 2049,
                                         3071, 3072, 3073, 10240, 30719, 30720, 30721, 40000])))
        elif kind == "net":
            s.append(("net", rng.random() < 0.65, rng.choice([1, 1, 2, 3, 1000, 2047, 5000])))
        elif kind == "frame":
            s.append(("frame", rng.randrange(4)))
        elif kind == "bad":
            s.append(("bad", rng.randrange(3)))
        elif kind == "subraise":
            s.append(("subraise", rng.random() < 0.5))
        else:
            s.append((kind,))
    return s


def long_script(rng: random.Random, gen: int, nsends: int) -> list[tuple]:
    """Many sends across outages — runs longer than the 256-value packet counter."""
    ok_ks = [k for k, c in enumerate(cat_classes(gen)) if c == 0]
    s: list[tuple] = [("open",), ("adv", 5)]
    sent = 0
    while sent < nsends:
        r = rng.random()
        if r < 0.80:
            s.append(("send", rng.choice(ok_ks), rng.choice([0, 1, 2])))
            sent += 1
        elif r < 0.86:
            s.append(("rst",))
        elif r < 0.96:
            s.append(("adv", rng.choice([1, 2, 5, 100, 1024])))
        else:
            s.append(("net", rng.random() < 0.8, rng.choice([1, 2, 50])))
    s.append(("adv", 5000))
    return s


def exhaustive_scripts(alphabet: list[tuple], depth: int, prefix: list[tuple]):
    for d in range(1, depth + 1):
        for combo in itertools.product(alphabet, repeat=d):
            yield prefix + list(combo)


# ---- batch comparison ----------------------------------------------------------------
def compare_batch(gen: int, scripts: list[list[tuple]]):
    """Run all scripts on both sides. Returns (impl_results, mismatches) where
    mismatches is a list of (script_index, diff)."""
    impl = [run_impl(gen, sc) for sc in scripts]
    cases = [to_model(gen, sc, pid0) for sc, (pid0, _) in zip(scripts, impl)]
    mouts = common.run_model(cases) if cases else []
    mism = []
    for i, (sc, im, mo) in enumerate(zip(scripts, impl, mouts)):
        d = compare_one(gen, sc, impl=im, model_out=mo)
        if d is not None:
            mism.append((i, d))
    return impl, mism


def shrink(gen: int, script: list[tuple], still_fails) -> list[tuple]:
    """Greedy delta-debugging: drop stimuli while the predicate still fails."""
    cur = list(script)
    changed = True
    while changed:
        changed = False
        n = len(cur)
        chunk = max(1, n // 2)
        while chunk >= 1:
            i = 0
            while i < len(cur):
                cand = cur[:i] + cur[i + chunk:]
                if cand and still_fails(cand):
                    cur = cand
                    changed = True
                else:
                    i += chunk
            chunk //= 2
    return cur


def fmt(script: list[tuple]) -> str:
    return json.dumps([list(s) for s in script])
