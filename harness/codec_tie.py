"""Correspondence of the codec models (coq/at4/Codec4.v, coq/at5/Codec5.v) with the
package's encoders and decoders, through the extracted model.

  python -m harness.codec_tie <4|5> [n] [seed]      prints mismatch counts (debugging aid)
"""

from __future__ import annotations

import random
import sys

from . import common

ENC_SEL = {4: 20, 5: 30}
DEC_SEL = {4: 21, 5: 31}


def codec(gen: int):
    if gen == 4:
        from . import codec4 as c
    else:
        from . import codec5 as c
    return c


def encode_cases(gen: int, msgs):
    """-> list of (msg, impl_result, flat or None, mismatch or None)"""
    c = codec(gen)
    rows, cases = [], []
    for m in msgs:
        r = c.impl_encode(m)
        try:
            fl = c.flatten(m)
        except c.NotFlat:
            fl = None
        rows.append((m, r, fl))
        cases.append([ENC_SEL[gen]] + (fl if fl is not None else [0]))
    res = common.run_model(cases)
    out = []
    for (m, r, fl), mr in zip(rows, res):
        mis = None
        if fl is not None:
            if r[0] == "ok":
                want = [1, 1, r[1], len(r[2])] + list(r[2])
                if mr != want:
                    mis = {"impl_payload": r[2].hex(), "impl_size": r[1], "model": mr[:80]}
            elif mr != [0]:
                mis = {"impl_exception": r[1], "model": mr[:80]}
        out.append((m, r, fl, mis))
    return out


def decode_cases(gen: int, items):
    """items: list of (type, payload). -> list of (type, payload, impl_result, flat-or-None, mismatch)"""
    c = codec(gen)
    rows, cases = [], []
    for (ty, p) in items:
        d = c.impl_decode(ty, p)
        rows.append((ty, p, d))
        cases.append([DEC_SEL[gen], ty] + list(p))
    res = common.run_model(cases)
    out = []
    for (ty, p, d), mr in zip(rows, res):
        mis = None
        fl = None
        if d[0] == "ok":
            try:
                fl = c.flatten(d[1])
                if mr != [1] + fl:
                    mis = {"impl": repr(d[1])[:300], "impl_flat": fl[:80], "model": mr[:80]}
            except c.NotFlat as ex:
                mis = {"impl": repr(d[1])[:300], "not_flat": str(ex), "model": mr[:80]}
        elif mr != [0]:
            mis = {"impl_exception": d[1], "model": mr[:80]}
        out.append((ty, p, d, fl, mis))
    return out


def main() -> int:
    gen = int(sys.argv[1])
    n = int(sys.argv[2]) if len(sys.argv) > 2 else 1800
    rng = random.Random(int(sys.argv[3]) if len(sys.argv) > 3 else 3)
    c = codec(gen)
    common.build_driver()
    nk = c.NKINDS
    msgs = [c.gen_message(rng, k % nk) for k in range(n)] + [c.gen_message(rng, k % nk, in_domain=False) for k in range(n)]
    enc = encode_cases(gen, msgs)
    bad = [(m, mis) for m, r, fl, mis in enc if mis]
    print("encode mismatches", len(bad), "of", len(enc), "| not flat:", sum(1 for _, _, fl, _ in enc if fl is None),
          "| impl exceptions:", sum(1 for _, r, _, _ in enc if r[0] != "ok"))
    for m, mis in bad[:5]:
        print("  ", repr(m)[:300], mis)
    items = [(m.message_id, r[2]) for m, r, fl, mis in enc if r[0] == "ok"]
    # mutated payloads: bit flips, truncations, extensions
    for (ty, p) in list(items):
        if p and rng.random() < 0.7:
            b = bytearray(p)
            k = rng.randrange(3)
            if k == 0:
                b[rng.randrange(len(b))] ^= 1 << rng.randrange(8)
            elif k == 1:
                b = b[:rng.randrange(len(b))]
            else:
                b += bytes(rng.randrange(256) for _ in range(rng.choice([1, 2, 6])))
            items.append((ty, bytes(b)))
    dec = decode_cases(gen, items)
    bad = [(ty, p, mis) for ty, p, d, fl, mis in dec if mis]
    print("decode mismatches", len(bad), "of", len(dec), "| impl exceptions:", sum(1 for _, _, d, _, _ in dec if d[0] != "ok"))
    for ty, p, mis in bad[:5]:
        print("  ", hex(ty), p.hex()[:120], mis)
    return 0


if __name__ == "__main__":
    sys.exit(main())
