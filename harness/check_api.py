"""Checks C04 (commands mean what the vendor protocol says), C10 (object model shows the
latest report: translation tables and getters part) and C11 (invalid requests refused,
valid ones shaped as documented).

  python -m harness.check_api <C04|C10|C11> --tier quick|thorough

A real client (public constructors, recording socket proxy) is initialised against the
scripted console for a range of ability reports; every public control call is issued over
its argument space and every getter is read after injected status frames.  Compared:
(a) with the extracted API object model (cases 50/51), (b) by monitors that do not use the
model: the frame seen at the console, read by the extracted vendor-document reading
(Spec4/Spec5, case 40), against an intent computed from the call's arguments with exact
rational arithmetic.
"""

from __future__ import annotations

import argparse
import itertools
import json
import random
import sys
from collections import Counter
from fractions import Fraction

import pyairtouch.api as papi

from . import api_tie as T
from . import common, console

SPEC = 40
KEEP, SETTO, TOGGLE, DEC, INC, UNDEF = range(6)


# ------------------------------------------------------------------ exact reference arithmetic
def rhe(q: Fraction) -> int:
    """round half to even of an exact rational"""
    f = q.numerator // q.denominator
    r = q - f
    if r < Fraction(1, 2):
        return f
    if r > Fraction(1, 2):
        return f + 1
    return f if f % 2 == 0 else f + 1


def clip(lo, hi, v):
    return min(max(lo, v), hi)


# ------------------------------------------------------------------ argument spaces
def temperature_grid(rng: random.Random, tier: str) -> list[float]:
    step = 20 if tier == "quick" else 5          # hundredths: 0.2 / 0.05 degC grid
    out = [h / 100.0 for h in range(-1000, 6001, step)]
    out += [x + 0.5 for x in range(10, 36)] + [x + 0.25 for x in range(15, 33)] + [x + 0.05 for x in range(15, 33)]
    out += [x + 0.35 for x in range(15, 33)] + [20.449999999999999, 20.450000000000003, 1e6, -1e6, 0.0, -0.0, 255.4, 255.5, 256.0]
    out += [rng.uniform(-20, 70) for _ in range(200 if tier == "quick" else 3000)]
    return out


def ability_configs(gen: int, rng: random.Random, tier: str):
    nf = 7 if gen == 4 else 8
    cfgs = [([True] * 5, [True] * nf), ([False] * 5, [False] * nf)]
    for i in range(5):
        cfgs.append(([j == i for j in range(5)], [j == i % nf for j in range(nf)]))
    for i in range(nf):
        cfgs.append(([rng.random() < 0.5 for _ in range(5)], [j == i for j in range(nf)]))
    for _ in range(4 if tier == "quick" else 40):
        cfgs.append(([rng.random() < 0.5 for _ in range(5)], [rng.random() < 0.5 for _ in range(nf)]))
    lims4 = [(16, 30), (17, 31), (0, 63), (20, 20)]
    lims5 = [(16, 30, 18, 32), (10, 35, 10, 35), (18, 28, 16, 31), (22, 22, 22, 22)]
    for k, (m, f) in enumerate(cfgs):
        yield m, f, (lims4 if gen == 4 else lims5)[k % 4]


# ------------------------------------------------------------------ intents (independent of the model)
def intent(gen: int, rig, target_kind: str, target, call: int, args: list):
    """What the frame must ask for, or 'refuse', or None when the call is outside what this
    monitor decides.  -> ('refuse',) | ('ac', {...}) | ('zone', {...}) | ('other',)"""
    inst = rig.inst
    if target_kind == "ac":
        spec = inst.acs[0]
        st = inst.ac_status[spec.number]
        keep = {"number": spec.number, "power": (KEEP, 0), "mode": (KEEP, 0), "fan": (KEEP, 0), "setpoint": (KEEP, 0)}
        if call == 1:
            p = T.POWER_CTL[args[0]]
            if gen == 4 and p in (papi.AcPowerControl.SET_TO_AWAY, papi.AcPowerControl.SET_TO_SLEEP):
                return ("refuse",)
            code = {papi.AcPowerControl.TOGGLE: (TOGGLE, 0), papi.AcPowerControl.TURN_OFF: (SETTO, 0),
                    papi.AcPowerControl.TURN_ON: (SETTO, 1), papi.AcPowerControl.SET_TO_AWAY: (SETTO, 2),
                    papi.AcPowerControl.SET_TO_SLEEP: (SETTO, 3)}[p]
            return ("ac", dict(keep, power=code))
        if call == 2:
            if not spec.modes[args[0]]:
                return ("refuse",)
            return ("ac", dict(keep, mode=(SETTO, args[0]), power=(SETTO, 1) if args[1] % 2 else (KEEP, 0)))
        if call == 3:
            if args[0] >= len(spec.fans) or not spec.fans[args[0]]:
                return ("refuse",)
            return ("ac", dict(keep, fan=(SETTO, 8 if args[0] == 7 else args[0])))
        if call == 4:
            x = Fraction(args[0])
            if gen == 4:
                lo, hi = spec.limits
                return ("ac", dict(keep, setpoint=(SETTO, clip(lo, hi, rhe(x)) * 10)))
            mode = st.mode.name
            if mode == "HEAT":
                lo, hi = spec.limits[2], spec.limits[3]
            elif mode == "COOL":
                lo, hi = spec.limits[0], spec.limits[1]
            else:
                lo, hi = min(spec.limits[0], spec.limits[2]), max(spec.limits[1], spec.limits[3])
            return ("ac", dict(keep, setpoint=(SETTO, clip(lo * 10, hi * 10, rhe(x * 10)))))
        return ("other",)
    z = target.zone_id
    zst = inst.zone_status[z]
    keep = {"number": z, "value": (KEEP, 0), "method": (KEEP, 0), "power": (KEEP, 0)}
    if call == 11:
        p = T.ZPOWER[args[0]]
        if gen == 4 and p == papi.ZonePowerState.TURBO and not zst.supports_turbo:
            return ("refuse",)
        return ("zone", dict(keep, power=(SETTO, args[0])))
    if call == 12:
        if not zst.has_sensor:
            return ("refuse",)
        x = Fraction(args[0])
        if gen == 4:
            v = rhe(x)
            if not 0 <= v <= 255:
                return ("unsendable",)
            return ("zone", dict(keep, value=(SETTO, 1000 + v * 10), method=(SETTO, 1)))
        v = rhe(x * 10)
        if not 100 <= v <= 355:
            return ("unsendable",)
        return ("zone", dict(keep, value=(SETTO, 1000 + v)))
    if call == 13:
        if args[0] < 0 or args[0] > 100:
            return ("refuse",)
        return ("zone", dict(keep, value=(SETTO, args[0]), method=(SETTO, 0) if gen == 4 else (KEEP, 0)))
    return ("other",)


def spec_request(gen: int, kind: str, frame):
    """-> (model case, pad byte) for the console's frame (to, frm, pid, type, msg, ok, payload), or None"""
    payload = frame[8]
    if gen == 4:
        if kind == "ac" and frame[5] == 0x2C and len(payload) == 4:
            return [SPEC, 12] + list(payload[:3]), payload[3]
        if kind == "zone" and frame[5] == 0x2A and len(payload) == 4:
            return [SPEC, 11] + list(payload[:3]), payload[3]
        return None
    if frame[5] != 0xC0 or len(payload) != 12:
        return None
    sub, nrl, rl, rc = payload[0], payload[2] * 256 + payload[3], payload[4] * 256 + payload[5], payload[6] * 256 + payload[7]
    if (nrl, rl, rc) != (0, 4, 1):
        return None
    if kind == "ac" and sub == 0x22:
        return [SPEC, 14] + list(payload[8:12]), 0
    if kind == "zone" and sub == 0x20:
        return [SPEC, 13] + list(payload[8:11]), payload[11]
    return None


def spec_parse(kind: str, r: list[int], pad: int) -> dict:
    if kind == "ac":
        return {"number": r[0], "power": tuple(r[1:3]), "mode": tuple(r[3:5]), "fan": tuple(r[5:7]), "setpoint": tuple(r[7:9]), "pad": pad}
    return {"number": r[0], "value": tuple(r[1:3]), "method": tuple(r[3:5]), "power": tuple(r[5:7]), "pad": pad}


def norm(d: dict) -> dict:
    """(KEEP, anything) == (KEEP, 0)"""
    return {k: ((v[0], 0) if isinstance(v, tuple) and v[0] != SETTO else v) for k, v in d.items()}


# ------------------------------------------------------------------ the sweep shared by C04 and C11
def call_space(gen: int, rng: random.Random, tier: str, temps: list[float]):
    ac_calls = [(1, [i]) for i in range(5)] + [(2, [i, on]) for i in range(5) for on in (0, 1, 2, 3)] + [(3, [i]) for i in range(8)]
    ac_calls += [(4, [t]) for t in temps]
    ac_calls += [(5, [t, mins]) for t in (0, 1) for mins in (0, 1, 59, 60, 125, 1439)]
    ac_calls += [(6, [t, h, m]) for t in (0, 1) for (h, m) in ((0, 0), (7, 30), (23, 59))] + [(7, [0]), (7, [1]), (8, [])]
    zone_calls = [(11, [i]) for i in range(3)] + [(12, [t]) for t in temps] + [(13, [p]) for p in range(-5, 106)]
    return ac_calls, zone_calls


def status_in_flight(ck, gen, rig, ac, spec, inst, reported, dist, replay0, ci) -> None:
    """A request made while the client is still busy with a status frame.  The transport is under back-pressure (the
    console is not reading), an AC status with another mode and a new fault code arrives - the client asks for the fault
    text and that write waits - and during the wait the application calls set_target_temperature().  The console's
    latest report is the new one: the request must be shaped (clipped, mode-dependent limits) by it."""
    import dataclasses
    s_ = inst.m["astat"]
    cur = inst.ac_status[spec.number]
    conn = rig.net.current()
    if conn is None:
        return
    proto = conn.transport.get_protocol()
    new_mode = s_.AcMode.HEAT if cur.mode != s_.AcMode.HEAT else s_.AcMode.COOL
    new_err = 7 if cur.error_code != 7 else 9
    st = dataclasses.replace(cur, mode=new_mode, error_code=new_err)
    for t in ([31.0, 17.0] if ci % 2 == 0 else [17.0, 31.0])[:1]:
        ck.count()
        dist[f"at{gen}_request_while_status_in_flight"] += 1
        n_rx = len(rig.console.received)
        proto.pause_writing()
        try:
            T.push_ac_status(rig, st)
            it = intent(gen, rig, "ac", ac, 4, [t])
            task = rig.start(ac.set_target_temperature(t))
        finally:
            proto.resume_writing()
        rig.pump()
        if not task.done():
            rig.advance(2 * 1024)
        replay = dict(replay0, target="ac", call=4, args=[repr(t)],
                      history=f"transport paused; AC status with mode {new_mode.name} and fault code {new_err} received (was {cur.mode.name}, "
                              f"{cur.error_code}); set_target_temperature({t}) called; transport resumed")
        frames = [f for f in rig.console.received[n_rx:] if spec_request(gen, "ac", f) is not None]
        bad = None
        if it[0] == "refuse":
            if frames or not task.done() or not isinstance(task.exception(), ValueError):
                bad = f"must raise ValueError and transmit nothing; got {len(frames)} control frame(s)"
        elif it[0] == "ac":
            if len(frames) != 1:
                bad = f"{len(frames)} control frames transmitted for one accepted call"
            else:
                rq = spec_request(gen, "ac", frames[0])
                rd = spec_parse("ac", common.run_model([rq[0]])[0], rq[1])
                want = dict(it[1], pad=0)
                if norm(rd) != norm(want):
                    bad = f"frame {frames[0][8].hex()} reads {norm(rd)}, the call (by the console's latest report) means {norm(want)}"
        if bad:
            key = (gen, "in-flight")
            reported[key] += 1
            if reported[key] <= 2:
                ck.violation("public call departs from the property",
                             dict(replay, kind="call", trigger={"class": "call4-status-in-flight"}, failure=bad))
        cur = st
        st = dataclasses.replace(cur, mode=s_.AcMode.COOL if cur.mode != s_.AcMode.COOL else s_.AcMode.HEAT, error_code=new_err + 2)


def run_sweep(ck: common.Check, prop: str, tier: str):
    rng = random.Random(ck.seed * 9973 + (4 if prop == "C04" else 11))
    dist = Counter()
    corr_bad = 0
    reported = Counter()
    temps = temperature_grid(rng, tier)
    for gen in (4, 5):
        for ci, (modes, fans, lims) in enumerate(ability_configs(gen, rng, tier)):
            acn = ([0, 3, 1, 2] if gen == 4 else [1, 0, 8, 15, 7, 12])[ci % (4 if gen == 4 else 6)]
            inst = T.tie_installation(gen, modes, fans, lims, ac_number=acn, zone_base=[0, 5, 11, 13, 2][ci % 5] if gen == 4 or ci % 5 != 3 else 11)
            rig = T.make_rig(inst)
            try:
                ac = rig.at.air_conditioners[0]
                spec = inst.acs[0]
                # exercise the mode-dependent limits and a reported timer pair
                s = inst.m["astat"]
                st = inst.ac_status[spec.number]
                import dataclasses
                # the reported mode runs over the five that matter for the limits, independently of the limit set (ci % 4)
                mode = [s.AcMode.COOL, s.AcMode.HEAT, s.AcMode.AUTO, s.AcMode.AUTO_COOL, s.AcMode.AUTO_HEAT][(ci // 2) % 5]
                T.push_ac_status(rig, dataclasses.replace(st, mode=mode))
                t = inst.m["tstat"]
                T.push_timer(rig, t.AcTimerStatusData(spec.number, t.AcTimerState(False, 6 + ci % 5, 15), t.AcTimerState(ci % 2 == 0, 22, 45)))
                # zone reports change over time: the opposite capability flags first (turbo support, sensor), then -
                # for every other configuration - the original report again; what a zone accepts must follow the
                # latest report only
                zst = inst.m["zstat"]
                for z in list(ac.zones):
                    orig = inst.zone_status[z.zone_id]
                    if gen == 4:
                        flipped = dataclasses.replace(orig, supports_turbo=not orig.supports_turbo, has_sensor=not orig.has_sensor,
                                                      temperature=None if orig.has_sensor else 21.0, set_point=None if orig.has_sensor else 22)
                    else:
                        flipped = dataclasses.replace(orig, has_sensor=not orig.has_sensor, temperature=None if orig.has_sensor else 21.0,
                                                      set_point=None if orig.set_point is not None else 22.5)
                    T.push_zone_status(rig, flipped)
                    if (ci + z.zone_id) % 3 == 0:
                        T.push_zone_status(rig, orig)
                    elif (ci + z.zone_id) % 3 == 1:
                        # a sensor that reports no temperature at the moment (the zone still has a sensor)
                        T.push_zone_status(rig, dataclasses.replace(orig, has_sensor=True, temperature=None,
                                                                    set_point=(22 if gen == 4 else 22.0)))
                    dist[f"at{gen}_zone_report_history"] += 1
                ac_calls, zone_calls = call_space(gen, rng, tier, temps if ci < 3 else temps[::7])
                jobs = [("ac", ac, c, a) for c, a in ac_calls]
                for z in ac.zones:
                    jobs += [("zone", z, c, a) for c, a in (zone_calls if ci < 2 else zone_calls[::5])]
                # model outcomes in one batch
                mcases = []
                for kind, tgt, call, args in jobs:
                    obj = T.flat_ac(rig, spec) if kind == "ac" else T.flat_zone(rig, tgt.zone_id)
                    mcases.append([T.CALL, gen, 0 if kind == "ac" else 1] + obj + [call] + T.model_args(call, args))
                mres = common.run_model(mcases)
                deferred = []
                for (kind, tgt, call, args), mo in zip(jobs, mres):
                    ck.count()
                    out, frames, detail = T.invoke(rig, tgt, call, args)
                    ck.note_case((gen, ci, kind, tgt.zone_id if kind == "zone" else 0, call, tuple(args)))
                    dist[f"at{gen}_call{call}_{'sent' if out[:1] == [0] else 'refused' if out == [1] else 'unsendable' if out == [2] else 'other'}"] += 1
                    replay = {"gen": gen, "ability": {"modes": modes, "fans": fans, "limits": lims, "ac_number": acn}, "target": kind,
                              "zone": tgt.zone_id if kind == "zone" else None, "call": call, "args": [repr(a) for a in args]}
                    bad = None
                    it = intent(gen, rig, kind, tgt, call, args)
                    if it[0] == "refuse":
                        if out != [1] or frames:
                            bad = f"must raise ValueError and transmit nothing; got outcome {out[:3]} and {len(frames)} frame(s)"
                    elif it[0] == "unsendable":
                        if frames:
                            bad = f"a value that cannot be carried was transmitted: {frames[0][8].hex()}"
                    elif it[0] in ("ac", "zone"):
                        if out[:1] != [0]:
                            bad = f"accepted request not sent (outcome {out[:3]})"
                        elif len(frames) != 1:
                            bad = f"{len(frames)} frames transmitted for one accepted call"
                        else:
                            fr = frames[0]
                            rq = spec_request(gen, it[0], fr)
                            if rq is None:
                                bad = f"unexpected frame type {fr[5]:#x} payload {fr[8].hex()}"
                            elif (fr[2], fr[3]) != (0x80, 0xB0) or not fr[7]:
                                bad = f"addressing/check: to={fr[2]:#x} from={fr[3]:#x} crc_ok={fr[7]}"
                            else:
                                deferred.append((rq, it, fr, replay))
                    elif out[:1] == [0]:
                        if len(frames) != 1:
                            bad = f"{len(frames)} frames transmitted for one accepted call"
                        else:
                            fr = frames[0]
                            want_to = 0x90 if fr[5] == 0x1F else 0x80
                            if (fr[2], fr[3]) != (want_to, 0xB0) or not fr[7]:
                                bad = f"addressing/check: to={fr[2]:#x} from={fr[3]:#x} crc_ok={fr[7]}"
                            if call in (6, 7) and bad is None:
                                # the other timer must be the one last reported
                                sub = getattr(fr[6], "sub_message", fr[6])
                                recs = sub.ac_timer_status
                                tm = inst.timers[spec.number]
                                rec = recs[-1] if gen == 5 else [r for r in recs if r.ac_number == spec.number][0]
                                other_sent = rec.off_timer if args[0] == 1 else rec.on_timer
                                other_rep = tm.off_timer if args[0] == 1 else tm.on_timer
                                if other_sent != other_rep:
                                    bad = f"other timer sent as {other_sent}, last reported {other_rep}"
                    if bad:
                        key = (gen, kind, call, bad.split(";")[0][:30])
                        reported[key] += 1
                        if reported[key] <= 2:
                            ck.violation("public call departs from the property", dict(replay, kind="call", trigger={"class": f"call{call}"}, failure=bad))
                    if out != mo:
                        corr_bad += 1
                        if not bad and corr_bad <= 4:
                            ck.violation("API object model and implementation disagree",
                                         dict(replay, kind="correspondence", implementation=str(out)[:200], model=str(mo)[:200],
                                              correspondence=f"coq/api/Api{gen}.v (case 50) vs pyairtouch.at{gen}.api"), found_input=False)
                # the frames of the accepted calls, read by the vendor document (one batch)
                if deferred:
                    rds = common.run_model([rq[0] for rq, *_ in deferred])
                    for (rq, it, fr, replay), r in zip(deferred, rds):
                        rd = spec_parse(it[0], r, rq[1])
                        want = dict(it[1], pad=0)
                        if norm(rd) != norm(want):
                            key = (gen, it[0], replay["call"], "reads")
                            reported[key] += 1
                            if reported[key] <= 2:
                                ck.violation("public call departs from the property",
                                             dict(replay, kind="call", trigger={"class": f"call{replay['call']}"},
                                                  failure=f"frame {fr[8].hex()} reads {norm(rd)}, the call means {norm(want)}"))
                if ci < 4:
                    # damper values outside 0..100 that are not integers: refused like any other (no truncation first)
                    import fractions
                    for z in list(ac.zones)[:2]:
                        for x in (-0.5, -0.25, 100.5, 100.9, fractions.Fraction(201, 2), -1e-9):
                            ck.count()
                            dist[f"at{gen}_non_integer_damper"] += 1
                            n_rx = len(rig.console.received)
                            r = rig.run(z.set_damper_percentage(x))
                            rig.pump()
                            if r != ("exc", "ValueError") or len(rig.console.received) != n_rx:
                                reported[(gen, "damper-type")] += 1
                                if reported[(gen, "damper-type")] <= 2:
                                    ck.violation("public call departs from the property",
                                                 {"gen": gen, "kind": "call", "call": 13, "args": [repr(x)], "zone": z.zone_id,
                                                  "trigger": {"class": "call13-non-integer"},
                                                  "failure": f"damper value {x!r} is outside 0..100: must raise ValueError and transmit nothing; "
                                                             f"got {r} and {len(rig.console.received) - n_rx} frame(s)"})
                if ci < 10:
                    status_in_flight(ck, gen, rig, ac, spec, inst, reported, dist,
                                     {"gen": gen, "ability": {"modes": modes, "fans": fans, "limits": lims, "ac_number": acn}}, ci)
                if ci < 6:
                    link_down_calls(ck, gen, rig, ac, reported, dist, {"gen": gen, "ability": {"modes": modes, "fans": fans, "limits": lims, "ac_number": acn}})
            finally:
                rig.close()
    ck.extra["input_distribution"] = dict(sorted(dist.items()))
    ck.extra["correspondence_disagreements"] = corr_bad


def link_down_calls(ck, gen, rig, ac, reported, dist, base_replay) -> None:
    """Accepted calls issued while the link is down leave when it is back - after the client's own refresh requests
    have been prepared - and must still mean what was asked (C04) in exactly one frame each (C11)."""
    cand = [("ac", ac, 1, [1]), ("ac", ac, 1, [2]), ("ac", ac, 4, [22.0]), ("ac", ac, 2, [2, 0])]
    for z in list(ac.zones)[:2]:
        cand += [("zone", z, 11, [1]), ("zone", z, 13, [40]), ("zone", z, 12, [23.0])]
    jobs = []
    for kind, tgt, call, args in cand:
        it = intent(gen, rig, kind, tgt, call, args)
        if it[0] in ("ac", "zone"):
            jobs.append((kind, tgt, call, args, it))
    if not jobs:
        return
    rig.net.accept = False
    cur = rig.net.current()
    if cur is not None:
        cur.transport.peer_reset()
    rig.pump()
    n_rx = len(rig.console.received)
    for kind, tgt, call, args, it in jobs:
        coro = (tgt.set_power(T.POWER_CTL[args[0]]) if call == 1 else tgt.set_mode(T.MODES[args[0]], power_on=bool(args[1])) if call == 2 else
                tgt.set_target_temperature(args[0]) if call in (4, 12) else tgt.set_power(T.ZPOWER[args[0]]) if call == 11 else
                tgt.set_damper_percentage(args[0]))
        rig.start(coro)
    rig.net.accept = True
    rig.advance(3 * 1024)
    ctl = [f for f in rig.console.received[n_rx:]
           if (gen == 4 and f[5] in (0x2A, 0x2C)) or (gen == 5 and f[5] == 0xC0 and f[8][:1] in (b"\x20", b"\x22"))]
    ck.count()
    dist[f"at{gen}_link_down_batches"] += 1
    replay = dict(base_replay, kind="call-link-down", calls=[[k, c, [repr(a) for a in ar]] for k, _, c, ar, _ in jobs])
    if len(ctl) != len(jobs):
        reported[(gen, "link-down", "count")] += 1
        if reported[(gen, "link-down", "count")] <= 2:
            ck.violation("public call departs from the property",
                         dict(replay, trigger={"class": "call-link-down"},
                              failure=f"{len(jobs)} accepted calls made while the link was down, {len(ctl)} control frames arrived after the reconnection: "
                                      f"{[f[8].hex() for f in ctl]}"))
        return
    rqs = [spec_request(gen, it[0], fr) for (_, _, _, _, it), fr in zip(jobs, ctl)]
    rds = common.run_model([rq[0] for rq in rqs if rq is not None]) if any(rq is not None for rq in rqs) else []
    rds = iter(rds)
    for (kind, tgt, call, args, it), fr, rq in zip(jobs, ctl, rqs):
        bad = None
        if rq is None:
            bad = f"frame {fr[8].hex()} (type {fr[5]:#x}) is not a well-formed request for one {it[0]}"
        else:
            rd = spec_parse(it[0], next(rds), rq[1])
            want = dict(it[1], pad=0)
            if (fr[2], fr[3]) != (0x80, 0xB0) or not fr[7]:
                bad = f"addressing/check: to={fr[2]:#x} from={fr[3]:#x} crc_ok={fr[7]}"
            elif norm(rd) != norm(want):
                bad = f"frame {fr[8].hex()} reads {norm(rd)}, the call means {norm(want)}"
        if bad:
            reported[(gen, "link-down", call)] += 1
            if reported[(gen, "link-down", call)] <= 2:
                ck.violation("public call departs from the property",
                             dict(replay, trigger={"class": f"call{call}-link-down"}, call=call, args=[repr(a) for a in args],
                                  failure="issued while the link was down, transmitted after the reconnection: " + bad))


RULE_CALLS = ("per generation 20-60 ability reports (all-on, all-off, each single mode/fan bit, random bitmaps; four limit "
              "sets) x every public control call: all power controls, all modes with and without power_on, all 8 fan speeds, "
              "AC and zone set-points on a 0.2 degC (thorough: 0.05 degC) grid from -10 to 60 degC plus all x.5 / x.25 / x.05 "
              "/ x.35 ties, huge and random values, damper -5..105, quick timers (durations, times of day, clear) on zones with "
              "and without sensor / turbo; outcome (exception, (message, retry policy) handed to the socket, frames at the "
              "console) compared with the extracted API model; monitor: the console's frame read by the extracted vendor "
              "reading against an intent computed with exact rational round-half-even and clamping; non-trivial/distinct = "
              "distinct (ability, target, call, argument)")


def check_calls(prop: str, tier: str) -> int:
    ck = common.Check(prop, tier)
    ck.rule = RULE_CALLS
    ck.assumptions = [
        "a float argument is its exact dyadic value m*2^e; Python's round() rounds that value half to even (CPython, modelled)",
        "the float arithmetic of comms/utils.py on k/10 values (int(t*10.0-100), int(t*10.0+500)) is exact for the values that occur: sampled by the tie, not proved",
        "Spec4.v/Spec5.v control readings are our transcription of the vendor PDFs; quick-timer and timer-control frames are not in the documents",
    ]
    with common.Lock():
        proved = ck.prove()
        if not proved:
            ck.violation("proof", {"theorem_file": f"coq/props/{prop}.v", "failed_at": getattr(ck, "failed_at", "?"),
                                   "log_tail": getattr(ck, "proof_log", "")[-1500:]}, found_input=False)
        try:
            common.build_driver()
        except RuntimeError as ex:
            ck.violation("model-build", {"error": str(ex)[-1500:]}, found_input=False)
            return ck.finish()
    run_sweep(ck, prop, tier)
    ck.sample("AT5 set_target_temperature(20.35) with limits 16..30 -> one 0xC0/0x22 frame, set-point byte 0x68 (20.4 degC)")
    return ck.finish()


def main() -> int:
    ap = argparse.ArgumentParser()
    ap.add_argument("prop", choices=["C04", "C11"])
    ap.add_argument("--tier", default="quick", choices=["quick", "thorough"])
    a = ap.parse_args()
    return check_calls(a.prop, a.tier)


if __name__ == "__main__":
    sys.exit(main())
