"""Shared plumbing of the checks: Coq build, model runner, evidence, violations."""

from __future__ import annotations

import fcntl
import hashlib
import json
import os
import re
import subprocess
import sys
import time
from pathlib import Path

VERIF = Path(__file__).resolve().parent.parent
COQ = VERIF / "coq"
OCAML = VERIF / "ocaml"
EVID = Path(os.environ["VERIF_EVID"]) if os.environ.get("VERIF_EVID") else VERIF / "evidence"
REPO = os.environ.get("VERIF_REPO", "/repo")
REPLAY = EVID / "replay"
PY = "/venv/bin/python"

ENV = dict(os.environ)
ENV["PYTHONPATH"] = f"{REPO}:{VERIF}"
ENV["PYTHONHASHSEED"] = "0"

ASSUMPTION_WHITELIST = (
    # kernel primitives (not declarations of ours) that Print Assumptions lists for
    # the float theorems
    "PrimFloat.", "Uint63.", "PrimInt63.", "FloatOps.", "Sint63.",
)

TRUSTED_BASE = [
    "Coq 8.16.1 kernel incl. vm_compute (no native_compute); full .vo build",
    "hand-written Gallina model of the anchored Python code; tie = behavioural observation tables regenerated each run + seeded correspondence on the virtual loop",
    "extraction with ExtrOcamlBasic only (no Extract Constant / Extract Inductive of our own), OCaml 4.13.1 ocamlopt, ocaml/driver.ml",
    "harness: virtual-time asyncio loop, simulated stream/datagram transports, scripted consoles, generators, canonicalisation",
    "CPython (struct, int/bytes, str codec, round, enum, dict/set, asyncio scheduling) is modelled, not verified",
]


def seed() -> int:
    try:
        return int(os.environ.get("VERIF_SEED", "0"))
    except ValueError:
        return 0


class Lock:
    def __enter__(self):
        COQ.mkdir(exist_ok=True)
        self.f = open(COQ / ".lock", "w")
        fcntl.flock(self.f, fcntl.LOCK_EX)
        return self

    def __exit__(self, *a):
        fcntl.flock(self.f, fcntl.LOCK_UN)
        self.f.close()


def sh(cmd, timeout=900, cwd=None, input=None):
    p = subprocess.run(cmd, shell=isinstance(cmd, str), cwd=cwd, input=input,
                       capture_output=True, text=True, timeout=timeout, env=ENV)
    return p.returncode, p.stdout + p.stderr


def ensure_makefile():
    mk = COQ / "Makefile"
    cp = COQ / "_CoqProject"
    if not mk.exists() or mk.stat().st_mtime < cp.stat().st_mtime:
        rc, out = sh("coq_makefile -f _CoqProject -o Makefile", cwd=COQ)
        if rc:
            raise RuntimeError(out)


def coq_make(targets: list[str], timeout=900) -> tuple[bool, str]:
    """Full .vo build of the given targets (incremental)."""
    ensure_makefile()
    rc, out = sh(["timeout", str(timeout), "make", "-j8"] + targets, cwd=COQ, timeout=timeout + 30)
    return rc == 0, out


def forbidden_tokens() -> list[str]:
    """grep for anything that would weaken the development."""
    pat = re.compile(r"\b(Admitted|admit|Axiom|Parameter|Conjecture|Admit Obligations|bypass_check)\b|Unset Guard|Unset Positivity|Unset Universe|type-in-type|impredicative-set")
    bad = []
    for p in COQ.rglob("*.v"):
        txt = p.read_text()
        # strip comments (non-nested is enough for our files)
        txt = re.sub(r"\(\*.*?\*\)", "", txt, flags=re.S)
        for i, line in enumerate(txt.splitlines(), 1):
            if pat.search(line):
                bad.append(f"{p.relative_to(VERIF)}:{i}: {line.strip()}")
    return bad


def check_props_file(prop: str, extra_targets: list[str] | None = None):
    """Compile coq/props/<prop>.v from scratch (so Print Assumptions output is captured).

    Returns (ok, theorems, assumptions, log): theorems = list of theorem names in the
    file, assumptions = {theorem: [axioms]} ([] = closed under the global context)."""
    vfile = COQ / "props" / f"{prop}.v"
    for ext in (".vo", ".glob", ".vos", ".vok"):
        f = COQ / "props" / f"{prop}{ext}"
        if f.exists():
            f.unlink()
    ok, log = coq_make((extra_targets or []) + [f"props/{prop}.vo"])
    src = vfile.read_text()
    src_nc = re.sub(r"\(\*.*?\*\)", "", src, flags=re.S)
    theorems = re.findall(r"^\s*(?:Theorem|Lemma|Corollary|Example)\s+([A-Za-z0-9_']+)", src_nc, flags=re.M)
    assumptions: dict[str, list[str]] = {}
    if ok:
        # parse Print Assumptions output in order of appearance
        printed = re.findall(r"^\s*Print Assumptions\s+([A-Za-z0-9_'.]+)\s*\.", src_nc, flags=re.M)
        blocks = re.split(r"(?=Closed under the global context|Axioms:)", log)
        blocks = [b for b in blocks if b.startswith("Closed under") or b.startswith("Axioms:")]
        for name, blk in zip(printed, blocks):
            if blk.startswith("Closed under"):
                assumptions[name] = []
            else:
                ax = re.findall(r"^([A-Za-z0-9_'.]+)\s*:", blk, flags=re.M)
                assumptions[name] = ax
        if len(blocks) != len(printed):
            ok = False
            log += f"\n[check] Print Assumptions blocks {len(blocks)} != printed {len(printed)}"
    return ok, theorems, assumptions, log


def bad_assumptions(assumptions: dict[str, list[str]]) -> list[str]:
    bad = []
    for thm, axs in assumptions.items():
        for a in axs:
            if not a.startswith(ASSUMPTION_WHITELIST):
                bad.append(f"{thm}: {a}")
    return bad


def build_driver() -> None:
    """(Re)build the extracted model driver if any source is newer."""
    ok, log = coq_make(["extract/Extract.vo"])
    if not ok:
        raise RuntimeError("model extraction failed:\n" + log[-3000:])
    exe = OCAML / "modelrun"
    srcs = [OCAML / "model.ml", OCAML / "model.mli", OCAML / "driver.ml"]
    if exe.exists() and all(exe.stat().st_mtime >= s.stat().st_mtime for s in srcs):
        return
    rc, out = sh("ocamlfind ocamlopt -O3 -package str model.mli model.ml driver.ml -o modelrun 2>&1 | grep -v 'options -O3' ; test -x modelrun",
                 cwd=OCAML)
    if rc:
        raise RuntimeError("ocamlopt failed:\n" + out)


def run_model(cases: list[list[int]], timeout=1200) -> list[list[int]]:
    """Evaluate cases with the extracted model. One list of ints per case."""
    inp = "\n".join(" ".join(str(x) for x in c) for c in cases) + "\n"
    p = subprocess.run([str(OCAML / "modelrun")], input=inp, capture_output=True, text=True,
                       timeout=timeout)
    if p.returncode != 0:
        raise RuntimeError("modelrun failed: " + p.stderr[-2000:])
    lines = p.stdout.split("\n")
    if lines and lines[-1] == "":
        lines.pop()
    if len(lines) != len(cases):
        raise RuntimeError(f"modelrun returned {len(lines)} lines for {len(cases)} cases")
    return [[int(x) for x in ln.split()] for ln in lines]


# ---- findings ------------------------------------------------------------------------
def known_findings(prop: str) -> list[dict]:
    f = VERIF / "known_findings.jsonl"
    out = []
    if f.exists():
        for line in f.read_text().splitlines():
            line = line.strip()
            if not line or line.startswith("#"):
                continue
            d = json.loads(line)
            if d.get("property") == prop and d.get("status") == "known":
                out.append(d)
    return out


class Check:
    """Collects what one run of one property's check did and writes the evidence."""

    def __init__(self, prop: str, tier: str) -> None:
        self.prop = prop
        self.tier = tier
        self.t0 = time.perf_counter()
        self.seed = seed()
        self.violations: list[tuple[str, dict, bool]] = []
        self.known_hits: list[str] = []
        self.obligations: list[str] = []
        self.discharged: list[str] = []
        self.evaluations = 0
        self.nontrivial: set = set()
        self.samples: list = []
        self.rule = ""
        self.extra: dict = {}
        self.assumptions: list[str] = []
        self.checker_cmd = "cd /verif/coq && make props/%s.vo (coqc 8.16.1, full .vo build; Print Assumptions after every theorem)" % prop
        self.axioms: dict[str, list[str]] = {}
        REPLAY.mkdir(parents=True, exist_ok=True)

    # -- proofs ------------------------------------------------------------------
    def prove(self, extra_targets: list[str] | None = None, also: list[str] | None = None) -> bool:
        """Compile coq/props/<prop>.v (and the further property files named in `also`) from
        scratch; every theorem in them is an obligation."""
        bad = forbidden_tokens()
        if bad:
            self.violation("forbidden-token", {"theorem": "development hygiene", "tokens": bad}, found_input=False)
            return False
        ok, thms, assumptions, log = check_props_file(self.prop, extra_targets)
        for name in also or []:
            ok2, thms2, ass2, log2 = check_props_file(name)
            ok = ok and ok2
            thms = thms + thms2
            assumptions = dict(assumptions, **ass2)
            log += log2
        self.obligations = thms
        self.axioms = assumptions
        if ok:
            badax = bad_assumptions(assumptions)
            if badax:
                ok = False
                log += "\n[check] non-whitelisted assumptions: " + "; ".join(badax)
        if ok:
            self.discharged = list(thms)
        else:
            self.proof_log = log
            m = re.search(r'File "([^"]+)", line (\d+)', log)
            self.failed_at = f"{m.group(1)}:{m.group(2)}" if m else "?"
        return ok

    # -- bookkeeping ---------------------------------------------------------------
    def count(self, n: int = 1) -> None:
        self.evaluations += n

    def note_case(self, key) -> None:
        self.nontrivial.add(key)

    def sample(self, s) -> None:
        if len(self.samples) < 6:
            self.samples.append(s)

    def violation(self, what: str, replay: dict, found_input: bool = True) -> None:
        # known finding?
        for kf in known_findings(self.prop):
            trig = kf.get("trigger", {})
            if trig and all(replay.get("trigger", {}).get(k) == v for k, v in trig.items()):
                msg = f"KNOWN-FINDING: property={self.prop} {kf['what']}"
                if msg not in self.known_hits:
                    self.known_hits.append(msg)
                return
        try:
            from . import vloop
            replay = dict(replay)
            # the rigs alternate the package logger between DEBUG and disabled (VERIF_DEBUGLOG=0/1 forces it on replay)
            replay.setdefault("debug_logging", vloop._LOG_STATE.get("on"))
        except Exception:  # noqa: BLE001
            pass
        self.violations.append((what, replay, found_input))

    def finish(self) -> int:
        # scripted consoles frame their messages with the package's own encoders: cross-check them with the model's
        con = sys.modules.get("harness.console")
        if con is not None and any(con.FRAMED[g] for g in (4, 5)) and not getattr(self, "_framed_done", False):
            self._framed_done = True
            try:
                con.verify_framed(self)
            except RuntimeError as ex:
                self.violation("console frames could not be verified against the protocol model", {"error": str(ex)[-400:]}, found_input=False)
        by = sys.modules.get("harness.bystander")
        if by is not None and not getattr(self, "_bystander_done", False):
            self._bystander_done = True
            by.verify(self)
        wall = time.perf_counter() - self.t0
        for msg in self.known_hits:
            print(msg)
        rc = 0
        seen = set()
        for what, replay, found in self.violations:
            h = hashlib.sha1(json.dumps(replay, sort_keys=True, default=str).encode()).hexdigest()[:10]
            if h in seen:
                continue
            seen.add(h)
            path = REPLAY / f"{self.prop}-{h}.json"
            replay = dict(replay)
            replay.setdefault("property", self.prop)
            replay.setdefault("what", what)
            path.write_text(json.dumps(replay, indent=1, default=str))
            tail = "" if found else " no-failing-input-found"
            print(f"VIOLATION property={self.prop} replay={path}{tail}")
            rc = 1
            if len(seen) >= 5:
                break
        cov = {
            "obligations": len(self.obligations),
            "discharged": len(self.discharged),
            "checker_cmd": self.checker_cmd,
            "trusted_base": TRUSTED_BASE + [
                "axioms per theorem (Print Assumptions): " + (json.dumps(
                    {k: v for k, v in self.axioms.items() if v}) if any(self.axioms.values())
                    else "every theorem closed under the global context")],
            "theorems": self.obligations,
            "evaluations": self.evaluations,
            "distinct_nontrivial": len(self.nontrivial),
            "rule": self.rule,
            "samples": self.samples or ["(none)"],
            "known_findings_hit": self.known_hits,
        }
        cov.update(self.extra)
        ev = {
            "property_id": self.prop,
            "tier": self.tier,
            "seed": self.seed,
            "level": "proof",
            "coverage": cov,
            "assumptions": self.assumptions,
            "wall_s": round(wall, 2),
            "violations": len(seen),
        }
        EVID.mkdir(exist_ok=True)
        (EVID / f"{self.prop}.json").write_text(json.dumps(ev, indent=1, default=str))
        print(f"[{self.prop}] tier={self.tier} seed={self.seed} theorems={len(self.discharged)}/{len(self.obligations)} "
              f"evaluations={self.evaluations} nontrivial={len(self.nontrivial)} violations={len(seen)} "
              f"known={len(self.known_hits)} wall={wall:.1f}s")
        return rc
