"""AT4 codec tie: message generators, flattening of message objects to the integer format
of coq/at4/Flat4.v, and encode/decode through the package's public registry."""

from __future__ import annotations

import datetime
import math
import random

import pyairtouch.at4.comms.hdr as hdr4
import pyairtouch.at4.comms.registry as reg4
import pyairtouch.at4.comms.x1F_ext as ext
import pyairtouch.at4.comms.x1FFF10_err_info as err
import pyairtouch.at4.comms.x1FFF11_ac_ability as abil
import pyairtouch.at4.comms.x1FFF12_group_names as names
import pyairtouch.at4.comms.x1FFF20_quick_timer as qt
import pyairtouch.at4.comms.x1FFF30_console_ver as ver
import pyairtouch.at4.comms.x2A_group_ctrl as gc
import pyairtouch.at4.comms.x2B_group_status as gs
import pyairtouch.at4.comms.x2C_ac_ctrl as ac
import pyairtouch.at4.comms.x2D_ac_status as acs
import pyairtouch.at4.comms.x36_ac_timer_ctrl as tc
import pyairtouch.at4.comms.x37_ac_timer_status as tst
from pyairtouch import comms

REG = reg4.INSTANCE


class NotFlat(Exception):
    """The object is outside the model's value space (e.g. a float off the 0.1 grid)."""


def tenths(t: float) -> int:
    d = round(t * 10)
    if d / 10.0 != t:
        raise NotFlat(f"temperature {t!r} is not k/10")
    return d


def f_bytes(b) -> list[int]:
    b = b.encode() if isinstance(b, str) else bytes(b)
    return [len(b)] + list(b)


def f_opt(o) -> list[int]:
    return [0, 0] if o is None else [1, o]


def f_timer(t) -> list[int]:
    return [t.ac_number, int(t.on_timer.disabled), t.on_timer.hour, t.on_timer.minute,
            int(t.off_timer.disabled), t.off_timer.hour, t.off_timer.minute]


def f_ability(a) -> list[int]:
    M, F = abil.AcModeControl, abil.AcFanSpeedControl
    out = [a.ac_number] + f_bytes(a.ac_name)
    out += [int(a.ac_mode_support[m]) for m in (M.AUTO, M.HEAT, M.DRY, M.FAN, M.COOL)]
    out += [int(a.fan_speed_support[f]) for f in (F.AUTO, F.QUIET, F.LOW, F.MEDIUM, F.HIGH, F.POWERFUL, F.TURBO)]
    out += [a.min_set_point, a.max_set_point]
    if a.groups is None:
        out += [0, 0]
    else:
        g = sorted(a.groups)
        out += [1, len(g)] + g
    out += [a.start_group, a.group_count]
    return out


def f_all_or(x) -> list[int]:
    return [0, 0] if x == "ALL" else [1, x]


def flatten(m) -> list[int]:
    if isinstance(m, gc.GroupControlMessage):
        s = m.setting
        if s is None:
            st = [0, 0]
        elif isinstance(s, gc.GroupIncreaseDecrease):
            st = [1, 0] if s == gc.GroupIncreaseDecrease.DECREASE else [2, 0]
        elif isinstance(s, gc.GroupDamperControl):
            st = [3, s.open_percentage]
        else:
            st = [4, s.set_point]
        return [1, m.group_number, m.power.value, m.control_method.value] + st
    if isinstance(m, gs.GroupStatusMessage):
        out = [2, len(m.groups)]
        for g in m.groups:
            out += [g.group_number, g.power_state.value, g.control_method.value, int(g.spill_active),
                    int(g.supports_turbo), int(g.has_sensor), g.battery_status.value]
            out += f_opt(None if g.temperature is None else tenths(g.temperature))
            out += [g.damper_percentage] + f_opt(g.set_point)
        return out
    if isinstance(m, gs.GroupStatusRequest):
        return [3]
    if isinstance(m, ac.AcControlMessage):
        s = m.set_point_control
        if s is None:
            st = [0, 0]
        elif isinstance(s, ac.AcIncreaseDecrease):
            st = [1, 0] if s == ac.AcIncreaseDecrease.DECREASE else [2, 0]
        else:
            st = [3, s.set_point]
        return [4, m.ac_number, m.power.value, m.mode.value, m.fan_speed.value] + st
    if isinstance(m, acs.AcStatusMessage):
        out = [5, len(m.ac_status)]
        for a in m.ac_status:
            out += [a.ac_number, a.power_state.value, a.mode.value, a.fan_speed.value, int(a.spill_active),
                    int(a.timer_set), a.set_point, tenths(a.temperature), a.error_code]
        return out
    if isinstance(m, acs.AcStatusRequest):
        return [6]
    if isinstance(m, tc.AcTimerControlMessage):
        return [7, len(m.ac_timer_status)] + [x for t in m.ac_timer_status for x in f_timer(t)]
    if isinstance(m, tst.AcTimerStatusMessage):
        return [8, len(m.ac_timer_status)] + [x for t in m.ac_timer_status for x in f_timer(t)]
    if isinstance(m, tst.AcTimerStatusRequest):
        return [9]
    if isinstance(m, ext.ExtendedMessage):
        s = m.sub_message
        if isinstance(s, err.AcErrorInformationMessage):
            return [10, 1, s.ac_number] + ([0, 0] if s.error_info is None else [1] + f_bytes(s.error_info))
        if isinstance(s, err.AcErrorInformationRequest):
            return [10, 2, s.ac_number]
        if isinstance(s, abil.AcAbilityMessage):
            return [10, 3, len(s.ac_abilities)] + [x for a in s.ac_abilities for x in f_ability(a)]
        if isinstance(s, abil.AcAbilityRequest):
            return [10, 4] + f_all_or(s.ac_number)
        if isinstance(s, names.GroupNamesMessage):
            out = [10, 5, len(s.group_names)]
            for k, v in s.group_names.items():
                out += [k] + f_bytes(v)
            return out
        if isinstance(s, names.GroupNamesRequest):
            return [10, 6] + f_all_or(s.group_number)
        if isinstance(s, qt.QuickTimerMessage):
            secs = s.duration.total_seconds()
            if secs < 0 or secs != int(secs) or int(secs) % 60:
                raise NotFlat("duration is not a whole number of minutes")
            mins = int(secs) // 60
            return [10, 7, s.ac_number, s.timer_type.value, mins // 60, mins % 60]
        if isinstance(s, ver.ConsoleVersionMessage):
            out = [10, 8, int(s.update_available), len(s.versions)]
            for v in s.versions:
                out += f_bytes(v)
            return out
        if isinstance(s, ver.ConsoleVersionRequest):
            return [10, 9]
        if isinstance(s, comms.UnsupportedMessage):
            return [10, 10, s.unsupported_id] + f_bytes(s.raw_data)
    if isinstance(m, comms.UnsupportedMessage):
        return [11, m.unsupported_id] + f_bytes(m.raw_data)
    raise NotFlat(type(m).__name__)


# ------------------------------------------------------------------------ generators
NAMES = ["Living", "Bed 1", "Küche", "子供部屋", "Ünïté", "A", "", "Rumpus12", "🏠x"]


LONG_NAMES = ["Küche EG", "子供部屋のへや", "Ünïté häuslé", "🏠🏠🏠", "Wohnzimmer Süd-West", "ÄÖÜäöüß", "Bed 1 €€"]


def rand_name(rng, maxbytes, over=False):
    """over=True: also names that do not fit the field - in bytes, though their character count may (the encoder
    must cut BYTES; where the cut falls inside a character the result no longer round-trips, which is outside dom4/dom5,
    but size() and the bytes written must still agree and equal the model's)"""
    if over and rng.random() < 0.4:
        return rng.choice(LONG_NAMES)
    while True:
        s = rng.choice(NAMES) if rng.random() < 0.7 else "".join(rng.choice("abcXYZ 019-é√") for _ in range(rng.randrange(0, 9)))
        if len(s.encode()) <= maxbytes and "\0" not in s:
            return s


def rand_temp(rng, lo=-500, hi=1539):
    d = rng.choice([lo, hi, 0, 1, -1, 215, 1000, rng.randrange(lo, hi + 1)])
    return d / 10.0


def gen_message(rng: random.Random, kind: int | None = None, in_domain: bool = True):
    """A random message of one of the 18 AT4 classes (kind 0..17)."""
    k = rng.randrange(18) if kind is None else kind
    wild = (not in_domain) and rng.random() < 0.5
    def small(n):
        return rng.choice([0, n - 1, rng.randrange(n)]) if not wild else rng.choice([n, 255, 256, 300, rng.randrange(n)])
    if k == 0:
        setting = rng.choice([None, gc.GroupIncreaseDecrease.INCREASE, gc.GroupIncreaseDecrease.DECREASE,
                              gc.GroupDamperControl(small(101)), gc.GroupSetPointControl(small(64))])
        return gc.GroupControlMessage(small(16), rng.choice(list(gc.GroupPowerControl)),
                                      rng.choice(list(gc.GroupControlMethod)), setting)
    if k == 1:
        groups = []
        for _ in range(rng.choice([1, 1, 2, 5, 16])):
            sensor = rng.random() < 0.6
            groups.append(gs.GroupStatusData(
                small(16), rng.choice(list(gs.GroupPowerState)), rng.choice(list(gs.GroupControlMethod)),
                rng.random() < 0.5, rng.random() < 0.5, sensor, rng.choice(list(gs.SensorBatteryStatus)),
                (rand_temp(rng) if rng.random() < 0.8 else None) if sensor else None,
                small(101), small(64) if sensor else None))
        return gs.GroupStatusMessage(groups)
    if k == 2:
        return gs.GroupStatusRequest()
    if k == 3:
        sp = rng.choice([None, ac.AcIncreaseDecrease.INCREASE, ac.AcIncreaseDecrease.DECREASE, ac.AcSetPointValue(small(64))])
        return ac.AcControlMessage(small(4), rng.choice(list(ac.AcPowerControl)), rng.choice(list(ac.AcModeControl)),
                                   rng.choice(list(ac.AcFanSpeedControl)), sp)
    if k == 4:
        return acs.AcStatusMessage([acs.AcStatusData(
            small(4), rng.choice(list(acs.AcPowerState)), rng.choice(list(acs.AcMode)), rng.choice(list(acs.AcFanSpeed)),
            rng.random() < 0.5, rng.random() < 0.5, small(64), rand_temp(rng, -500, 1547),
            rng.choice([0, 1, 0xFFFE, 0xFFFF, rng.randrange(65536)]) if not wild else 70000)
            for _ in range(rng.choice([1, 1, 2, 4]))])
    if k == 5:
        return acs.AcStatusRequest()
    if k in (6, 7):
        cls = tc.AcTimerControlMessage if k == 6 else tst.AcTimerStatusMessage
        n = 4 if in_domain else rng.choice([1, 2, 4, 5])
        nums = list(range(n)) if in_domain else [small(4) for _ in range(n)]
        return cls([tst.AcTimerStatusData(i, tst.AcTimerState(rng.random() < 0.5, small(24), small(60)),
                                          tst.AcTimerState(rng.random() < 0.5, small(24), small(60))) for i in nums])
    if k == 8:
        return tst.AcTimerStatusRequest()
    if k == 9:
        info = rng.choice([None, "ER: FFFE", rand_name(rng, 40), "x" * 255])
        if not in_domain and rng.random() < 0.3:
            info = rng.choice(["", "y" * 256])
        return ext.ExtendedMessage(err.AcErrorInformationMessage(small(4), info))
    if k == 10:
        return ext.ExtendedMessage(err.AcErrorInformationRequest(small(4)))
    if k == 11:
        M, F = abil.AcModeControl, abil.AcFanSpeedControl
        abs_ = []
        for i in range(rng.choice([1, 1, 2, 4])):
            ms = {m: rng.random() < 0.6 for m in (M.AUTO, M.HEAT, M.DRY, M.FAN, M.COOL)}
            ms[M.UNCHANGED] = True
            fs = {f: rng.random() < 0.6 for f in (F.AUTO, F.QUIET, F.LOW, F.MEDIUM, F.HIGH, F.POWERFUL, F.TURBO)}
            fs[F.UNCHANGED] = True
            groups = None if rng.random() < 0.4 else set(rng.sample(range(16), rng.randrange(0, 17)))
            abs_.append(abil.AcAbility(small(4), rand_name(rng, 16, over=not in_domain), ms, fs, small(33), small(33), groups, small(16), small(17)))
        return ext.ExtendedMessage(abil.AcAbilityMessage(abs_))
    if k == 12:
        return ext.ExtendedMessage(abil.AcAbilityRequest(rng.choice(["ALL", small(4)])))
    if k == 13:
        n = rng.choice([1, 2, 5, 16])
        keys = rng.sample(range(16), n) if in_domain else [small(16) for _ in range(n)]
        return ext.ExtendedMessage(names.GroupNamesMessage({g: rand_name(rng, 8, over=not in_domain) for g in keys}))
    if k == 14:
        return ext.ExtendedMessage(names.GroupNamesRequest(rng.choice(["ALL", small(16)])))
    if k == 15:
        dur = datetime.timedelta(hours=small(24), minutes=small(60))
        if not in_domain and rng.random() < 0.4:
            dur = datetime.timedelta(hours=rng.choice([24, 30]), minutes=3, seconds=rng.choice([0, 30]))
        return ext.ExtendedMessage(qt.QuickTimerMessage(small(4), rng.choice(list(qt.TimerType)), dur))
    if k == 16:
        vs = [rng.choice(["1.2.3", "1.0", "v2", ""]) for _ in range(rng.choice([1, 1, 2, 3]))]
        return ext.ExtendedMessage(ver.ConsoleVersionMessage(rng.random() < 0.5, vs))
    return ext.ExtendedMessage(ver.ConsoleVersionRequest())


# ------------------------------------------------------------------------ the real codec
def impl_encode(m):
    """size() and encode() as the send path calls them. -> (size, payload) or exception name"""
    try:
        enc = REG.get_encoder(m.message_id)
        size = enc.size(m)
        header = REG.header_factory.create_from_message(m, size)
        payload = bytes(enc.encode(header, m))
        return ("ok", size, payload, header)
    except Exception as ex:  # noqa: BLE001
        return ("exc", type(ex).__name__)


def impl_decode(mtype: int, payload: bytes, to=0xB0, frm=0x80, pid=1):
    """The receive path's decode step: get_decoder(type).decode(payload, header) + assert_complete."""
    header = hdr4.At4Header(to, frm, pid, mtype, len(payload))
    try:
        res = REG.get_decoder(mtype).decode(payload, header)
        res.assert_complete()
        return ("ok", res.message)
    except Exception as ex:  # noqa: BLE001
        return ("exc", type(ex).__name__)
NKINDS = 18
