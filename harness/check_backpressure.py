"""C01 / C02 under transport back-pressure (writer.drain() blocks while other tasks send).

The big-step socket model treats every stimulus as running to quiescence, so histories in
which a second send() runs while the first is suspended inside drain() are outside it
(DESIGN: atomicity assumption).  They are covered here by the monitors alone: the trace
predicates that are the conclusions of the C01 / C02 theorems, evaluated on the real
AirTouchSocket with a simulated transport that pauses writing."""

from __future__ import annotations

import random
from collections import Counter

from . import common, sockcorr, sockrun

ENC_OK = sockrun.ENC_OK if hasattr(sockrun, "ENC_OK") else 0


def scripts(rng: random.Random, n: int):
    for _ in range(n):
        s = [("open",), ("adv", 1)]
        mode = rng.randrange(14)
        if mode == 13:
            # a connection subscriber reacts to the disconnected notification that close() itself issues by sending:
            # the client is no longer open - refused, nothing held, nothing written after a re-open
            s.append(("subsenddown", rng.choice([0, 1, 4]), rng.choice([0, 1, 3])))
            s += [("close",), ("adv", 5), ("open",), ("adv", 5), ("send", rng.choice([0, 1, 4]), 0), ("adv", 50)]
        elif mode == 12:
            # the caller of a send() whose write has just failed gives up (time-out / cancellation) while the client is
            # resetting the link: the idempotent message must still be re-sent on the next connection
            s += [("cancelclose",), ("failw",), ("send", rng.choice([0, 1, 4]), rng.choice([0, 0, 3])),
                  ("adv", 5), ("adv", 50), ("send", rng.choice([0, 1, 4]), 0), ("adv", 50)]
        elif mode == 11:
            # the caller of a send() suspended in drain() gives up; the transport resumes; later sends are transmitted
            s.append(("bp", 1))
            s.append(("send", rng.choice([0, 1, 4]), rng.choice([0, 1, 3])))
            if rng.random() < 0.5:
                s.append(("send", rng.choice([0, 1, 4]), 0))
            s += [("cancelsends",), ("bp", 0), ("adv", 5), ("send", rng.choice([0, 1, 4]), 0), ("send", rng.choice([0, 1, 4]), 0), ("adv", 50)]
        elif mode == 10:
            # the connection dies (any OSError class) while a drain loop is suspended in drain(): that is a transient
            # write failure for the suspended message - with a retry left it is sent again on the next connection
            s.append(("bp", 1))
            k, pol = rng.choice([0, 1, 4]), rng.choice([0, 0, 3, 4])
            s.append(("send", k, pol))
            if rng.random() < 0.5:
                s.append(("send", rng.choice([0, 1, 4]), rng.choice([0, 3])))
            s += [("lostparked",), ("rst",), ("bp", 0), ("adv", 5), ("adv", 50), ("send", rng.choice([0, 1, 4]), 0), ("adv", 50)]
        elif mode == 9:
            # a connection subscriber that sends on the connected notification (what the API classes do), with
            # messages pending from an outage: the pending ones go first, in order, then the subscriber's
            s = [("subsend", rng.choice([0, 1, 4]), rng.choice([0, 2, 3])), ("open",), ("adv", 1)]
            s += [("net", 0, 1), ("rst",), ("adv", 10)]
            for _ in range(rng.choice([1, 2, 4])):
                s.append(("send", rng.choice([0, 1, 4]), rng.choice([0, 0, 2, 3])))
            if rng.random() < 0.4:
                s.append(("bp", 1))
            s += [("net", 1, 1), ("adv", 2100), ("adv", rng.choice([50, 1500])), ("bp", 0), ("subsend", -1, 0), ("send", 0, 0), ("adv", 50)]
        elif mode == 8:
            # close() while another task sends (the send lands after the client closed its transport, before close()
            # returned): it must be refused as not-open and nothing of it may ever be written, also after a re-open
            k, pol = rng.choice([0, 1, 4]), rng.choice([0, 1, 3])
            s.append(("sendclose", k, pol))
            s += [("close",), ("adv", 5), ("open",), ("adv", 5), ("send", rng.choice([0, 1, 4]), 0), ("adv", 50)]
        elif mode >= 6:
            # a transient write failure on an idempotent command; while the client tears the link down another task
            # sends: both must be on the wire after the reconnection, the failed one first
            k1, k2 = rng.choice([0, 1, 4]), rng.choice([0, 1, 4])
            s += [("sendclose", k2, rng.choice([0, 3])), ("failw",), ("send", k1, 0), ("adv", 5), ("adv", 50), ("send", rng.choice([0, 1, 4]), 0), ("adv", 50)]
        elif mode >= 4:
            # a send from another task lands in the teardown window (the client has called close() on its
            # transport and is waiting for it); what tears the link down varies
            k, pol = rng.choice([0, 1, 4]), rng.choice([0, 0, 1, 3])
            s.append(("sendclose", k, pol))
            s.append(rng.choice([("reset",), ("reset",), ("eof",), ("rst",), ("bad", rng.randrange(3))]))
            s += [("adv", 5), ("adv", 50), ("send", rng.choice([0, 1, 4]), 0), ("adv", 50)]
        elif mode == 3:
            # an outage; two messages are queued shortly before the link comes back; the link comes back
            # under back-pressure, so the first write stays in drain() until after the second message's
            # lifetime has ended: the second must then be dropped, not written late
            s += [("net", 0, 1), ("rst",), ("adv", 10), ("net", 1, 1)]
            s += [("adv", 1800)]
            s += [("send", rng.choice([0, 4]), 0), ("send", rng.choice([0, 1, 4]), rng.choice([2, 2, 3]))]
            s += [("bp", 1), ("adv", 300), ("adv", 300), ("adv", 1500), ("adv", 1500), ("adv", 1500), ("bp", 0), ("adv", 50)]
        elif mode == 0:
            # several sends while the first is stuck in drain()
            s.append(("bp", 1))
            for _ in range(rng.choice([2, 3, 5])):
                s.append(("send", rng.choice([0, 1, 4]), rng.choice([0, 1, 2, 3])))
            if rng.random() < 0.5:
                s.append(("adv", rng.choice([100, 1500, 4000])))
            s += [("bp", 0), ("adv", 50)]
        elif mode == 1:
            # messages queued during an outage; the link comes back under back-pressure and stays
            # blocked past the lifetime of a later entry
            s += [("net", 0, 1), ("rst",), ("adv", 10)]
            for _ in range(rng.choice([2, 3, 4])):
                s.append(("send", rng.choice([0, 1, 4]), rng.choice([0, 2, 3])))
            s += [("bp", 1), ("net", 1, 1), ("adv", 2100)]
            if rng.random() < 0.5:
                # ... and another task sends while the backlog is still being written (the flush is parked after its
                # first frame): the newcomer's place is behind the whole backlog
                s += [("adv", 5), ("send", rng.choice([0, 1, 4]), rng.choice([2, 3])), ("adv", 30)]
            s += [("adv", rng.choice([500, 1500, 3500])), ("bp", 0), ("adv", 50)]
        else:
            s.append(("bp", 1))
            s.append(("send2", rng.choice([0, 1, 4]), rng.choice([0, 1]), rng.choice([0, 1, 4]), rng.choice([0, 2])))
            s.append(("send", rng.choice([0, 1, 4]), 0))
            s += [("bp", 0), ("adv", 20), ("send", 0, 0), ("adv", 20)]
        yield s


def monitor(gen: int, script, out, pid0: int) -> list[str]:
    cls = sockcorr.cat_classes(gen)
    bad = []
    now = 0
    next_pid = pid0
    acc = {}            # pid -> (k, accepted at, lifetime, order)
    retries_of = {}
    order = 0
    written = {}
    last_order = {}
    pending_close = None
    must_write_from = None
    sub_send = None
    resend, lost_at, after_loss = set(), None, Counter()
    resend_next = False
    down_send = None
    for idx, (st, evs) in enumerate(zip(script, out)):
        sends = []
        if st[0] == "send":
            sends = [(st[1], st[2])]
        elif st[0] == "send2":
            sends = [(st[1], st[2]), (st[3], st[4])]
        elif st[0] == "sendclose":
            pending_close = (st[1], st[2])
            continue
        elif st[0] == "subsend":
            sub_send = (st[1], st[2]) if st[1] >= 0 else None
            continue
        elif st[0] == "subsenddown":
            down_send = (st[1], st[2])
            continue
        elif st[0] == "cancelsends":
            must_write_from = order           # whatever is accepted from now on must reach the wire
            continue
        elif st[0] == "cancelclose":
            resend_next = True
            continue
        elif st[0] == "lostparked":
            # every message handed to the transport so far sits in a suspended drain loop (or behind it in the queue)
            resend = {pid for pid, n in written.items() if n >= 1 and retries_of.get(pid, 0) >= 1}
            resend |= {pid for pid in acc if pid not in written and retries_of.get(pid, 0) >= 1}
            lost_at = idx
            continue
        if down_send is not None and any(e[0] == "downsend" for e in evs):
            if st[0] == "close":
                if ("senderr", 2) not in [tuple(e) for e in evs]:
                    bad.append(f"step {idx}: a send() issued from the disconnected notification of close() was not refused as not-open")
                    sends = [down_send] + sends
                elif cls[down_send[0]] != 1:
                    next_pid = (next_pid + 1) % 256
            else:
                sends = [down_send] + sends
            down_send = None
        if sub_send is not None and any(e[0] == "open" for e in evs):
            sends = sends + [sub_send]          # the subscriber's send inside the connected notification
        if pending_close is not None and any(e[0] == "hooksend" for e in evs):
            # the hooked send ran when the client closed its transport
            if st[0] == "close":
                # ... inside close(): it must have been refused (not-open) and holds nothing
                if ("senderr", 2) not in [tuple(e) for e in evs]:
                    bad.append(f"step {idx}: a send() issued while close() was in progress was not refused as not-open")
                    sends = [pending_close] + sends          # it was accepted: its frame would carry the next packet id
                elif cls[pending_close[0]] != 1:
                    next_pid = (next_pid + 1) % 256          # a refused send has taken a packet id (header built first)
                pending_close = None
            elif st[0] == "send" and any(e[0] == "wfail" for e in evs):
                # ... after this step's own send failed on the wire: this step's send was accepted first
                sends = sends + [pending_close]
                must_write_from = order
                pending_close = None
            else:
                sends = [pending_close] + sends
                must_write_from = order
                pending_close = None
        for k, pol in sends:
            if cls[k] == 1:          # no encoder: NotImplementedError before a packet id is taken
                continue
            _, life = sockrun.policy_params(pol) if hasattr(sockrun, "policy_params") else (None, int(sockrun.POLICIES[pol].max_lifetime * 1024))
            acc[next_pid] = (k, now, life, order)
            retries_of[next_pid] = sockrun.policy_params(pol)[0]
            if resend_next:
                resend_next = False
                if retries_of[next_pid] >= 1:
                    resend.add(next_pid)
                lost_at = idx
            order += 1
            next_pid = (next_pid + 1) % 256
        for e in evs:
            if e[0] == "time":
                now = e[1]
        for e in evs:
            if e[0] == "wrote":
                _, c, k, pid = e
                a = acc.get(pid)
                if a is None or a[0] != k:
                    bad.append(f"step {idx}: a frame (message {k}, packet id {pid}) was written that no accepted send produced")
                    continue
                written[pid] = written.get(pid, 0) + 1
                if lost_at is not None:
                    after_loss[pid] += 1
                if written[pid] > 1 and not (pid in resend and after_loss[pid] == 1):
                    bad.append(f"step {idx}: the message with packet id {pid} was written {written[pid]} times (no write fault occurred)")
                if now >= a[1] + a[2]:
                    bad.append(f"step {idx}: packet id {pid} written at {now} although its lifetime ended at {a[1] + a[2]}")
                if last_order.get(c, -1) > a[3] and lost_at is None:       # (order is claimed for fault-free histories only)
                    bad.append(f"step {idx}: packet id {pid} written after a message accepted later")
                last_order[c] = max(last_order.get(c, -1), a[3])
            elif e[0] in ("garbled", "unhandled", "sendexc", "crash"):
                bad.append(f"step {idx}: {e}")
    if lost_at is not None:
        for pid in sorted(resend):
            k, at, life, o = acc[pid]
            if after_loss[pid] == 0 and now < at + life:
                bad.append(f"packet id {pid} (message {k}) was in a suspended drain loop when the connection died (a single transient "
                           f"write failure) and was never sent again although it had a retry left and {at + life - now} ticks to live")
    if must_write_from is not None:
        # the link came back at once and nothing expired: every message accepted from the teardown window on,
        # sent with a policy that survives one failed write, must have reached the wire (exactly once)
        for pid, (k, at, life, o) in acc.items():
            if o >= must_write_from and written.get(pid, 0) != 1 and retries_of.get(pid, 0) >= 1:
                bad.append(f"packet id {pid} (message {k}) was accepted in or after the teardown window and written "
                           f"{written.get(pid, 0)} times")
    return bad


DRAIN = 9


def drain_model_compare(gen: int, script, out, pid0: int):
    """The queue model under back-pressure (coq/sock/Drain.v, extracted case 9) on the same history: sends, clock,
    pause / resume of the transport from the script; link up / down as the implementation's trace shows them.
    -> 'skipped' (outside the model) | None (agree) | description of the first difference"""
    if any(st[0] in ("sendclose", "failw", "close", "trunc", "bad", "eof", "frame", "reset", "burn") for st in script):
        return "skipped"
    cls = sockcorr.cat_classes(gen)
    ops = [0]
    send_pids = []          # packet id of every send() in order (a refused send takes one too)
    next_pid = pid0
    now = 0
    up = False
    sub = None              # (k, pol) a connection subscriber sends on every connected notification
    bp_on = False
    flush_owed = False
    per_step = []           # number of model ops per stimulus
    for st, evs in zip(script, out):
        n0 = len(ops)
        k = st[0]
        if k in ("send", "send2"):
            for kk, pol in ([(st[1], st[2])] if k == "send" else [(st[1], st[2]), (st[3], st[4])]):
                if cls[kk] != 0:
                    return "skipped"
                r, life = sockrun.policy_params(pol)
                ops += [1, r, life]
                send_pids.append(next_pid)
                next_pid = (next_pid + 1) % 256
        elif k == "adv":
            t = [e[1] for e in evs if e[0] == "time"]
            if not t:
                return "skipped"
            ops += [2, t[0] - now]
            now = t[0]
        elif k == "bp":
            ops += [3, 1 if st[1] else 0]
            bp_on = bool(st[1])
            if not bp_on and flush_owed:
                ops += [7]
                flush_owed = False
        elif k == "subsend":
            sub = (st[1], st[2]) if st[1] >= 0 else None
            if sub is not None and cls[sub[0]] != 0:
                return "skipped"
        elif k == "rst":
            if up:
                ops += [5]
                up = False
        if any(e[0] == "open" for e in evs):
            if sub is None:
                ops += [4]
            else:
                # connected; the subscriber's send runs inside the notification; then the flush of _connect
                r, life = sockrun.policy_params(sub[1])
                ops += [6, 1, r, life]
                send_pids.append(next_pid)
                next_pid = (next_pid + 1) % 256
                if bp_on:
                    flush_owed = True       # the subscriber's send is suspended in drain(): _connect waits for it
                else:
                    ops += [7]
            up = True
        if any(e[0] in ("wfail", "tie", "crash") for e in evs):
            return "skipped"
        per_step.append(len(ops) - n0)
    res = common.run_model([[DRAIN] + ops])[0]
    if -9 in res:
        return "skipped"                     # a loop was suspended when the link went down: outside the model
    # split the model output per op (terminated by 0), then regroup per stimulus
    groups, cur, i = [], [], 0
    while i < len(res):
        tag = res[i]
        if tag == 0:
            groups.append(cur)
            cur = []
            i += 1
        elif tag == 2:
            cur.append(("refused",))
            i += 1
        else:
            cur.append(({1: "accept", 3: "wrote", 4: "drop"}[tag], res[i + 1], res[i + 2]))
            i += 3
    acc_pid = {}
    n_acc = 0
    sends_seen = 0
    # walk ops again to know which model op is a send (to map accept ordinals to packet ids)
    j = 1
    op_kinds = []
    while j < len(ops):
        t = ops[j]
        op_kinds.append(t)
        j += {1: 3, 2: 2, 3: 2, 4: 1, 5: 1, 6: 1, 7: 1}[t]
    if len(op_kinds) != len(groups):
        return f"model returned {len(groups)} op results for {len(op_kinds)} ops"
    gi = 0
    for (st, evs), nops in zip(zip(script, out), per_step):
        # count ops in this step
        want_w, want_ref = [], 0
        consumed = 0
        while consumed < nops:
            t = op_kinds[gi]
            for e in groups[gi]:
                if e[0] == "accept":
                    acc_pid[e[1]] = send_pids[sends_seen]
                elif e[0] == "refused":
                    want_ref += 1
                elif e[0] == "wrote":
                    want_w.append(acc_pid.get(e[1], -1))
            if t == 1:
                sends_seen += 1
            consumed += {1: 3, 2: 2, 3: 2, 4: 1, 5: 1, 6: 1, 7: 1}[t]
            gi += 1
        got_w = [e[3] for e in evs if e[0] == "wrote"]
        got_ref = sum(1 for e in evs if tuple(e) == ("senderr", 3))
        if got_w != want_w or got_ref != want_ref:
            return (f"stimulus {list(st)}: implementation wrote packet ids {got_w} (refused {got_ref}), "
                    f"the queue model {want_w} (refused {want_ref})")
    return None


def teardown_model_compare(gen: int, script, out, pid0: int):
    """A send() that lands in the teardown window (the client has closed its transport, is_connected is still true)
    finds a dead writer: it behaves like a send whose write fails.  So the big-step socket model (Sock.v, whose
    theorems cover write failures) applies to the history in which [sendclose k pol; <what tore the link down>] is
    replaced by [failw; send k pol].  -> 'skipped' | None (same frames in the same order, same send results) |
    description of the difference"""
    kinds = [st[0] for st in script]
    if kinds.count("sendclose") != 1 or any(k in ("bp", "close", "send2", "subsend", "trunc", "burn") for k in kinds):
        return "skipped"
    i = kinds.index("sendclose")
    if i + 1 >= len(script) or script[i + 1][0] not in ("reset", "eof", "rst", "bad"):
        return "skipped"
    hook = [e for e in out[i + 1] if e[0] == "hooksend"]
    if not hook:
        return "skipped"                       # the link was already down: nothing was torn down
    if len(hook[0]) > 1 and hook[0][1]:
        # the connection had already been lost (peer reset) when the client closed it: no window, the client is
        # disconnected by the time the other task runs - the send simply follows the loss
        rewritten = list(script[:i]) + [script[i + 1], ("send", script[i][1], script[i][2])] + list(script[i + 2:])
    else:
        rewritten = list(script[:i]) + [("failw",), ("send", script[i][1], script[i][2])] + list(script[i + 2:])
    res = common.run_model([sockcorr.to_model(gen, rewritten, pid0)])[0]
    per_op = sockcorr.parse_model(res)
    m_w = [(e[3], e[4]) for evs in per_op for e in evs if e[0] == "wrote"]
    m_r = [e for evs in per_op for e in evs if e[0] in ("sendok", "senderr")]
    i_w = [(e[2], e[3]) for evs in out for e in evs if e[0] == "wrote"]
    i_r = [tuple(e) for evs in out for e in evs if e[0] in ("sendok", "senderr")]
    if any(e[0] in ("tie", "crash") for evs in out for e in evs):
        return "skipped"
    if i_w != m_w:
        return f"frames written (message, packet id): implementation {i_w}, socket model on the rewritten history {m_w}"
    if len(i_r) != len(m_r):
        return f"send results: implementation {i_r}, model {m_r}"
    return None


def run(ck: common.Check, prop: str, tier: str) -> None:
    rng = random.Random(ck.seed * 613 + {"C01": 1, "C02": 2, "C15": 4}.get(prop, 3))
    n = 0
    nmodel_bad = 0
    for gen in (4, 5):
        for script in scripts(rng, 150 if tier == "quick" else 3000):
            pid0, out = sockrun.run_script(gen, script)
            n += 1
            ck.count()
            bad = monitor(gen, script, out, pid0)
            mdiff = drain_model_compare(gen, script, out, pid0)
            tdiff = teardown_model_compare(gen, script, out, pid0)
            if tdiff == "skipped":
                tdiff = None
            elif tdiff is None:
                ck.extra["teardown_socket_model_agreements"] = ck.extra.get("teardown_socket_model_agreements", 0) + 1
            elif not bad and nmodel_bad < 2:
                nmodel_bad += 1
                ck.violation("socket model (send in the teardown window = send whose write fails) and implementation disagree",
                             {"kind": "socket-script-teardown-model", "gen": gen, "script": [list(x) for x in script],
                              "impl_trace": [[list(e) for e in evs] for evs in out], "first_difference": tdiff,
                              "no_longer_checks": "coq/sock/Sock.v (theorems of C01/C02) on the history with [failw; send] in place of the window",
                              "trigger": {"class": "teardown-model"}}, found_input=False)
            if mdiff == "skipped":
                mdiff = None
                ck.extra["backpressure_outside_queue_model"] = ck.extra.get("backpressure_outside_queue_model", 0) + 1
            elif mdiff is not None:
                nmodel_bad += 1
            else:
                ck.extra["backpressure_queue_model_agreements"] = ck.extra.get("backpressure_queue_model_agreements", 0) + 1
            if prop == "C15":
                # a send on a client that is being / has been closed is refused and never reaches the wire
                bad = [b for b in bad if "not-open" in b or "no accepted send produced" in b]
            elif prop == "C16":
                # expired entries are never transmitted; a send on a closing client is refused and holds nothing
                bad = [b for b in bad if "lifetime ended" in b or "not-open" in b or "no accepted send produced" in b]
            elif prop == "C01":
                bad = [b for b in bad if "lifetime ended" not in b]
            else:
                bad = [b for b in bad if "lifetime ended" in b or "times (no write fault" in b or "teardown window" in b or "single transient" in b]
            if bad:
                ck.violation("; ".join(bad[:3]),
                             {"kind": "socket-script-backpressure", "gen": gen, "script": [list(x) for x in script],
                              "impl_trace": [[list(e) for e in evs] for evs in out], "monitor": bad[:5],
                              "queue_model_difference": mdiff,
                              "trigger": {"class": "backpressure"},
                              "replay_cmd": f"cd /verif && PYTHONPATH=/repo:/verif /venv/bin/python -m harness.sockrun {gen} '{sockcorr.fmt(script)}'"})
                break
            if mdiff is not None and not bad and nmodel_bad <= 2:
                ck.violation("queue model under back-pressure and implementation disagree",
                             {"kind": "socket-script-backpressure-model", "gen": gen, "script": [list(x) for x in script],
                              "impl_trace": [[list(e) for e in evs] for evs in out], "first_difference": mdiff,
                              "no_longer_checks": "coq/sock/Drain.v (theorems C01/C02/C16 *_backpressure_*) vs AirTouchSocket",
                              "trigger": {"class": "backpressure-model"}}, found_input=False)
    ck.extra["backpressure_scripts"] = n
