"""C01 / C02 under transport back-pressure (writer.drain() blocks while other tasks send).

The big-step socket model treats every stimulus as running to quiescence, so histories in
which a second send() runs while the first is suspended inside drain() are outside it
(DESIGN: atomicity assumption).  They are covered here by the monitors alone: the trace
predicates that are the conclusions of the C01 / C02 theorems, evaluated on the real
AirTouchSocket with a simulated transport that pauses writing."""

from __future__ import annotations

import random

from . import common, sockcorr, sockrun

ENC_OK = sockrun.ENC_OK if hasattr(sockrun, "ENC_OK") else 0


def scripts(rng: random.Random, n: int):
    for _ in range(n):
        s = [("open",), ("adv", 1)]
        mode = rng.randrange(9)
        if mode == 8:
            # close() while another task sends (the send lands after the client closed its transport, before close()
            # returned): it must be refused as not-open and nothing of it may ever be written, also after a re-open
            k, pol = rng.choice([0, 1, 4]), rng.choice([0, 1, 3])
            s.append(("sendclose", k, pol))
            s += [("close",), ("adv", 5), ("open",), ("adv", 5), ("send", rng.choice([0, 1, 4]), 0), ("adv", 50)]
        elif mode >= 6:
            # a transient write failure on an idempotent command; while the client tears the link down another task
            # sends: both must be on the wire after the reconnection, the failed one first
            k1, k2 = rng.choice([0, 1, 4]), rng.choice([0, 1, 4])
            s += [("sendclose", k2, rng.choice([0, 3])), ("failw",), ("send", k1, 0), ("adv", 5), ("adv", 50), ("send", rng.choice([0, 1, 4]), 0), ("adv", 50)]
        elif mode >= 4:
            # a send from another task lands in the teardown window (the client has called close() on its
            # transport and is waiting for it); what tears the link down varies
            k, pol = rng.choice([0, 1, 4]), rng.choice([0, 0, 1, 3])
            s.append(("sendclose", k, pol))
            s.append(rng.choice([("reset",), ("reset",), ("eof",), ("rst",), ("bad", rng.randrange(3))]))
            s += [("adv", 5), ("adv", 50), ("send", rng.choice([0, 1, 4]), 0), ("adv", 50)]
        elif mode == 3:
            # an outage; two messages are queued shortly before the link comes back; the link comes back
            # under back-pressure, so the first write stays in drain() until after the second message's
            # lifetime has ended: the second must then be dropped, not written late
            s += [("net", 0, 1), ("rst",), ("adv", 10), ("net", 1, 1)]
            s += [("adv", 1800)]
            s += [("send", rng.choice([0, 4]), 0), ("send", rng.choice([0, 1, 4]), rng.choice([2, 2, 3]))]
            s += [("bp", 1), ("adv", 300), ("adv", 300), ("adv", 1500), ("adv", 1500), ("adv", 1500), ("bp", 0), ("adv", 50)]
        elif mode == 0:
            # several sends while the first is stuck in drain()
            s.append(("bp", 1))
            for _ in range(rng.choice([2, 3, 5])):
                s.append(("send", rng.choice([0, 1, 4]), rng.choice([0, 1, 2, 3])))
            if rng.random() < 0.5:
                s.append(("adv", rng.choice([100, 1500, 4000])))
            s += [("bp", 0), ("adv", 50)]
        elif mode == 1:
            # messages queued during an outage; the link comes back under back-pressure and stays
            # blocked past the lifetime of a later entry
            s += [("net", 0, 1), ("rst",), ("adv", 10)]
            for _ in range(rng.choice([2, 3, 4])):
                s.append(("send", rng.choice([0, 1, 4]), rng.choice([0, 2, 3])))
            s += [("bp", 1), ("net", 1, 1), ("adv", 2100), ("adv", rng.choice([500, 1500, 3500])), ("bp", 0), ("adv", 50)]
        else:
            s.append(("bp", 1))
            s.append(("send2", rng.choice([0, 1, 4]), rng.choice([0, 1]), rng.choice([0, 1, 4]), rng.choice([0, 2])))
            s.append(("send", rng.choice([0, 1, 4]), 0))
            s += [("bp", 0), ("adv", 20), ("send", 0, 0), ("adv", 20)]
        yield s


def monitor(gen: int, script, out, pid0: int) -> list[str]:
    cls = sockcorr.cat_classes(gen)
    bad = []
    now = 0
    next_pid = pid0
    acc = {}            # pid -> (k, accepted at, lifetime, order)
    retries_of = {}
    order = 0
    written = {}
    last_order = {}
    pending_close = None
    must_write_from = None
    for idx, (st, evs) in enumerate(zip(script, out)):
        sends = []
        if st[0] == "send":
            sends = [(st[1], st[2])]
        elif st[0] == "send2":
            sends = [(st[1], st[2]), (st[3], st[4])]
        elif st[0] == "sendclose":
            pending_close = (st[1], st[2])
            continue
        if pending_close is not None and any(e[0] == "hooksend" for e in evs):
            # the hooked send ran when the client closed its transport
            if st[0] == "close":
                # ... inside close(): it must have been refused (not-open) and holds nothing
                if ("senderr", 2) not in [tuple(e) for e in evs]:
                    bad.append(f"step {idx}: a send() issued while close() was in progress was not refused as not-open")
                    sends = [pending_close] + sends          # it was accepted: its frame would carry the next packet id
                elif cls[pending_close[0]] != 1:
                    next_pid = (next_pid + 1) % 256          # a refused send has taken a packet id (header built first)
                pending_close = None
            elif st[0] == "send" and any(e[0] == "wfail" for e in evs):
                # ... after this step's own send failed on the wire: this step's send was accepted first
                sends = sends + [pending_close]
                must_write_from = order
                pending_close = None
            else:
                sends = [pending_close] + sends
                must_write_from = order
                pending_close = None
        for k, pol in sends:
            if cls[k] == 1:          # no encoder: NotImplementedError before a packet id is taken
                continue
            _, life = sockrun.policy_params(pol) if hasattr(sockrun, "policy_params") else (None, int(sockrun.POLICIES[pol].max_lifetime * 1024))
            acc[next_pid] = (k, now, life, order)
            retries_of[next_pid] = sockrun.policy_params(pol)[0]
            order += 1
            next_pid = (next_pid + 1) % 256
        for e in evs:
            if e[0] == "time":
                now = e[1]
        for e in evs:
            if e[0] == "wrote":
                _, c, k, pid = e
                a = acc.get(pid)
                if a is None or a[0] != k:
                    bad.append(f"step {idx}: a frame (message {k}, packet id {pid}) was written that no accepted send produced")
                    continue
                written[pid] = written.get(pid, 0) + 1
                if written[pid] > 1:
                    bad.append(f"step {idx}: the message with packet id {pid} was written {written[pid]} times (no write fault occurred)")
                if now >= a[1] + a[2]:
                    bad.append(f"step {idx}: packet id {pid} written at {now} although its lifetime ended at {a[1] + a[2]}")
                if last_order.get(c, -1) > a[3]:
                    bad.append(f"step {idx}: packet id {pid} written after a message accepted later")
                last_order[c] = max(last_order.get(c, -1), a[3])
            elif e[0] in ("garbled", "unhandled", "sendexc", "crash"):
                bad.append(f"step {idx}: {e}")
    if must_write_from is not None:
        # the link came back at once and nothing expired: every message accepted from the teardown window on,
        # sent with a policy that survives one failed write, must have reached the wire (exactly once)
        for pid, (k, at, life, o) in acc.items():
            if o >= must_write_from and written.get(pid, 0) != 1 and retries_of.get(pid, 0) >= 1:
                bad.append(f"packet id {pid} (message {k}) was accepted in or after the teardown window and written "
                           f"{written.get(pid, 0)} times")
    return bad


def run(ck: common.Check, prop: str, tier: str) -> None:
    rng = random.Random(ck.seed * 613 + {"C01": 1, "C02": 2}.get(prop, 3))
    n = 0
    for gen in (4, 5):
        for script in scripts(rng, 150 if tier == "quick" else 3000):
            pid0, out = sockrun.run_script(gen, script)
            n += 1
            ck.count()
            bad = monitor(gen, script, out, pid0)
            if prop == "C16":
                # expired entries are never transmitted; a send on a closing client is refused and holds nothing
                bad = [b for b in bad if "lifetime ended" in b or "not-open" in b or "no accepted send produced" in b]
            elif prop == "C01":
                bad = [b for b in bad if "lifetime ended" not in b]
            else:
                bad = [b for b in bad if "lifetime ended" in b or "times (no write fault" in b or "teardown window" in b]
            if bad:
                ck.violation("; ".join(bad[:3]),
                             {"kind": "socket-script-backpressure", "gen": gen, "script": [list(x) for x in script],
                              "impl_trace": [[list(e) for e in evs] for evs in out], "monitor": bad[:5],
                              "trigger": {"class": "backpressure"},
                              "replay_cmd": f"cd /verif && PYTHONPATH=/repo:/verif /venv/bin/python -m harness.sockrun {gen} '{sockcorr.fmt(script)}'"})
                break
    ck.extra["backpressure_scripts"] = n
