"""A scripted AirTouch console on the simulated network, and a rig that drives a real
pyairtouch client (built with the public pyairtouch.connect factory) against it on the
virtual-time loop.

The console answers each request truthfully from an Installation (ACs, zones, names,
abilities, current statuses), like the real unit: with the request's packet id, from
0x80/0x90 to 0xB0.  Scriptable departures: noise frames inserted before an answer, silence
from a given handshake step on, TCP segmentation of everything it sends.
"""

from __future__ import annotations

import asyncio
import copy
import dataclasses
import logging
import random
from typing import Callable, Optional

from . import codec_tie, sockrun, vloop

logging.disable(logging.CRITICAL)

import pyairtouch  # noqa: E402
import pyairtouch.api as papi  # noqa: E402

STEPS = ["version", "names", "ability", "ac_status", "timer_status", "zone_status"]


def mods(gen: int):
    c = codec_tie.codec(gen)
    if gen == 4:
        return dict(c=c, ext=c.ext, err=c.err, abil=c.abil, names=c.names, ver=c.ver, qt=c.qt,
                    zstat=c.gs, zctl=c.gc, astat=c.acs, actl=c.ac, tstat=c.tst, tctl=c.tc)
    return dict(c=c, ext=c.ext, err=c.err, abil=c.abil, names=c.names, ver=c.ver, qt=c.qt, c0=c.c0,
                zstat=c.zs, zctl=c.zc, astat=c.acs, actl=c.ac, tstat=c.tst, tctl=c.tc)


@dataclasses.dataclass
class AcSpec:
    number: int
    name: str
    modes: list[bool]                 # AUTO HEAT DRY FAN COOL
    fans: list[bool]                  # AUTO QUIET LOW MEDIUM HIGH POWERFUL TURBO (+ INTELLIGENT_AUTO on AT5)
    limits: tuple                     # AT4: (min, max); AT5: (min_cool, max_cool, min_heat, max_heat)
    start: int = 0
    count: int = 0
    groups: Optional[set[int]] = None  # AT4 new format only


class Installation:
    def __init__(self, gen: int, acs: list[AcSpec], zones: dict[int, str], version=(False, ["1.2.3"])) -> None:
        self.gen = gen
        self.acs = acs
        self.zones = dict(zones)
        self.version = version
        m = mods(gen)
        self.m = m
        self.ac_status = {}
        self.timers = {}
        self.zone_status = {}
        self.errors: dict[int, Optional[str]] = {}
        for a in acs:
            self.ac_status[a.number] = self.default_ac_status(a.number)
            self.timers[a.number] = m["tstat"].AcTimerStatusData(a.number, m["tstat"].AcTimerState(True, 0, 0),
                                                                m["tstat"].AcTimerState(True, 0, 0))
        for z in zones:
            self.zone_status[z] = self.default_zone_status(z)

    def default_ac_status(self, n):
        s = self.m["astat"]
        if self.gen == 4:
            return s.AcStatusData(n, s.AcPowerState.ON, s.AcMode.COOL, s.AcFanSpeed.LOW, False, False, 24, 22.5, 0)
        return s.AcStatusData(n, s.AcPowerState.ON, s.AcMode.COOL, s.AcFanSpeed.LOW, False, False, False, False, 24.0, 22.5, 0)

    def default_zone_status(self, z):
        s = self.m["zstat"]
        if self.gen == 4:
            return s.GroupStatusData(z, s.GroupPowerState.ON, s.GroupControlMethod.TEMPERATURE, False, True, True,
                                     s.SensorBatteryStatus.NORMAL, 21.5, 80, 23)
        return s.ZoneStatusData(z, s.ZonePowerState.ON, False, s.ZoneControlMethod.TEMPERATURE, True,
                                s.SensorBatteryStatus.NORMAL, 21.5, 80, 23.0)

    # ---- truthful answers as message objects ------------------------------------------
    def ability_message(self):
        ab = self.m["abil"]
        M, F = ab.AcModeControl, ab.AcFanSpeedControl
        out = []
        for a in self.acs:
            ms = dict(zip((M.AUTO, M.HEAT, M.DRY, M.FAN, M.COOL), a.modes))
            ms[M.UNCHANGED] = True
            fl = [F.AUTO, F.QUIET, F.LOW, F.MEDIUM, F.HIGH, F.POWERFUL, F.TURBO]
            if self.gen == 5:
                fl.append(F.INTELLIGENT_AUTO)
            fs = dict(zip(fl, a.fans))
            fs[F.UNCHANGED] = True
            if self.gen == 4:
                out.append(ab.AcAbility(a.number, a.name, ms, fs, a.limits[0], a.limits[1], a.groups, a.start, a.count))
            else:
                out.append(ab.AcAbility(a.number, a.name, a.start, a.count, ms, fs, *a.limits))
        return self.m["ext"].ExtendedMessage(ab.AcAbilityMessage(out))

    def names_message(self):
        n = self.m["names"]
        cls = n.GroupNamesMessage if self.gen == 4 else n.ZoneNamesMessage
        return self.m["ext"].ExtendedMessage(cls(dict(self.zones)))

    def version_message(self):
        return self.m["ext"].ExtendedMessage(self.m["ver"].ConsoleVersionMessage(self.version[0], list(self.version[1])))

    def wrap(self, sub):
        return sub if self.gen == 4 else self.m["c0"].ControlStatusMessage(sub)

    def ac_status_message(self, only=None):
        l = [v for k, v in self.ac_status.items() if only is None or k in only]
        return self.wrap(self.m["astat"].AcStatusMessage(l))

    def zone_status_message(self, only=None):
        l = [v for k, v in self.zone_status.items() if only is None or k in only]
        cls = self.m["zstat"].GroupStatusMessage if self.gen == 4 else self.m["zstat"].ZoneStatusMessage
        return self.wrap(cls(l))

    def timer_message(self, only=None):
        t = self.m["tstat"]
        if self.gen == 4:
            l = [self.timers.get(i, t.AcTimerStatusData(i, t.AcTimerState(True, 0, 0), t.AcTimerState(True, 0, 0))) for i in range(4)]
        else:
            l = [v for k, v in self.timers.items() if only is None or k in only]
        return self.wrap(t.AcTimerStatusMessage(l))

    def error_message(self, ac):
        return self.m["ext"].ExtendedMessage(self.m["err"].AcErrorInformationMessage(ac, self.errors.get(ac)))


def dirty_padding(gen: int, payload: bytes) -> bytes:
    """AC ability (0xFF11) and AT4 group names (0xFF12) carry names in fixed-width fields, terminated by NUL when shorter.
    What follows the NUL is not part of the name (a console may leave the tail of an older, longer name there):
    fill it with bytes that are not even valid UTF-8."""
    if len(payload) < 2 or payload[0] != 0xFF:
        return payload
    b = bytearray(payload)

    def soil(start: int, width: int) -> None:
        field = b[start:start + width]
        if len(field) == width and 0 in field:
            i = field.index(0)
            for j in range(i + 1, width):
                b[start + j] = (0xFF, 0xC3, 0xE2, 0x80)[j % 4]
    if payload[1] == 0x11:
        pos = 2
        while pos + 2 <= len(b):
            ln = b[pos + 1]
            soil(pos + 2, 16)
            pos += 2 + ln
    elif payload[1] == 0x12 and gen == 4:
        pos = 2
        while pos + 9 <= len(b):
            soil(pos + 1, 8)
            pos += 9
    return bytes(b)


def restride(payload: bytes, pad: int) -> bytes:
    """AT5 0xC0 payload with every repeated record lengthened by `pad` bytes (announced in the sub-header)"""
    if len(payload) < 8:
        return payload
    sub, nrl, rl, rc = payload[0], payload[2] * 256 + payload[3], payload[4] * 256 + payload[5], payload[6] * 256 + payload[7]
    if sub not in (0x21, 0x23) or rc == 0 or rl == 0 or len(payload) != 8 + nrl + rl * rc:
        return payload
    body = payload[8 + nrl:]
    recs = [body[i * rl:(i + 1) * rl] + bytes([0xA5] * pad) for i in range(rc)]
    nl = rl + pad
    return bytes([sub, payload[1], payload[2], payload[3], nl >> 8, nl & 255, payload[6], payload[7]]) + payload[8:8 + nrl] + b"".join(recs)


# every message a scripted console has framed in this process, with the payload the package's encoder produced
FRAMED: dict = {4: {}, 5: {}}


def verify_framed(ck) -> int:
    """The scripted consoles build their frames with the package's own encoders; a change that alters encoder and
    decoder alike would be invisible to a client talking to such a console.  So every message framed during this
    check is encoded by the protocol model too (Codec4.v / Codec5.v, proved to conform to the vendor documents):
    the payloads must be byte-identical, otherwise the client was not talking to the protocol."""
    from . import codec_tie
    n = 0
    for gen in (4, 5):
        items = list(FRAMED[gen].values())
        FRAMED[gen].clear()
        if not items:
            continue
        for (m, payload), (_, r, fl, mis) in zip(items, codec_tie.encode_cases(gen, [m for m, _ in items])):
            n += 1
            if fl is None:
                continue
            if mis is None and r[0] == "ok" and bytes(r[2]) != payload:
                mis = {"console_payload": payload.hex(), "now": bytes(r[2]).hex()}
            if mis is not None:
                ck.violation("a frame the scripted console sent (built by the package's encoder) is not the protocol's encoding of that message",
                             {"kind": "console-frame", "gen": gen, "message": repr(m)[:300], "disagreement": mis,
                              "trigger": {"class": "console-frame", "gen": gen, "message_type": type(getattr(m, "sub_message", m)).__name__},
                              "failure": "the package's encoder and the protocol model (coq/at%d/Codec%d.v) produce different bytes for this message; "
                                         "a console following the documents would be misread" % (gen, gen)})
                break
    ck.extra["console_frames_verified"] = ck.extra.get("console_frames_verified", 0) + n
    return n


class Console:
    """Reads what the client wrote on the current connection and answers."""

    def __init__(self, inst: Installation, net: vloop.SimNet, rng: Optional[random.Random] = None) -> None:
        self.inst = inst
        self.gen = inst.gen
        self.net = net
        self.m = inst.m
        self.c = inst.m["c"]
        self.rng = rng or random.Random(0)
        self.consumed: dict[int, int] = {}
        self.requests: list[tuple] = []        # (time, conn id, step name or message repr, pid)
        self.received: list[tuple] = []        # (time, conn id, to, from, pid, type, decoded message or None)
        self.silent_from: Optional[int] = None  # handshake step index from which the console stops answering
        self.noise: dict[int, list[bytes]] = {}  # step index -> raw frames sent before the answer
        self.segment: Optional[Callable[[bytes], list[bytes]]] = None
        self.turns = 0          # event-loop iterations the client gets between two segments
        self.mute: set = set()  # request kinds this console does not answer (e.g. {"error_info"})
        self.dirty_names = False  # fixed-width name fields carry stale bytes after the terminating NUL
        self.stride_pad = 0     # AT5: extra bytes appended to every status record (a console with a newer layout)
        self.answer_controls = False
        self.manual = False                     # True: never answer, only record
        self.pid = 100

    # ---- building frames ---------------------------------------------------------------
    def frame_of(self, msg, pid: int, to: int = 0xB0) -> bytes:
        r = self.c.impl_encode(msg)
        if r[0] != "ok":
            raise RuntimeError(f"console cannot encode {msg!r}: {r}")
        if repr(msg) not in FRAMED[self.gen]:
            FRAMED[self.gen][repr(msg)] = (copy.deepcopy(msg), bytes(r[2]))
        if self.dirty_names and msg.message_id == 0x1F:
            r = (r[0], r[1], dirty_padding(self.gen, bytes(r[2])))
        if self.stride_pad and self.gen == 5 and msg.message_id == 0xC0:
            r = (r[0], r[1], restride(bytes(r[2]), self.stride_pad))
        frm = 0x90 if msg.message_id == 0x1F else 0x80
        return sockrun.build_frame(self.gen, to, frm, pid, msg.message_id, r[2])

    def send(self, conn, data: bytes) -> None:
        chunks = self.segment(data) if self.segment else [data]
        for ch in chunks:
            if ch and not conn.lost and not conn.client_closed:
                conn.transport.peer_bytes(ch)
                for _ in range(self.turns):
                    loop = self.net.loop
                    loop.call_soon(loop.stop)
                    loop.run_forever()

    def push(self, msg, to: int = 0xB0) -> None:
        """An unsolicited frame on the current connection."""
        conn = self.net.current()
        if conn is not None:
            self.pid = (self.pid + 1) % 256
            self.send(conn, self.frame_of(msg, self.pid, to))

    # ---- classification of requests ----------------------------------------------------
    def classify(self, msg) -> Optional[str]:
        m = self.m
        sub = getattr(msg, "sub_message", msg)
        if isinstance(sub, m["ver"].ConsoleVersionRequest):
            return "version"
        nreq = m["names"].GroupNamesRequest if self.gen == 4 else m["names"].ZoneNamesRequest
        if isinstance(sub, nreq):
            return "names"
        if isinstance(sub, m["abil"].AcAbilityRequest):
            return "ability"
        if isinstance(sub, m["astat"].AcStatusRequest):
            return "ac_status"
        if isinstance(sub, m["tstat"].AcTimerStatusRequest):
            return "timer_status"
        zreq = m["zstat"].GroupStatusRequest if self.gen == 4 else m["zstat"].ZoneStatusRequest
        if isinstance(sub, zreq):
            return "zone_status"
        if isinstance(sub, m["err"].AcErrorInformationRequest):
            return "error_info"
        return None

    def answer(self, kind: str, msg, pid: int):
        inst = self.inst
        sub = getattr(msg, "sub_message", msg)
        if kind == "version":
            return [self.frame_of(inst.version_message(), pid)]
        if kind == "names":
            if self.gen == 5 and not inst.zones:
                return [self.frame_of(msg, pid)]               # the request echoed back to the client
            return [self.frame_of(inst.names_message(), pid)]
        if kind == "ability":
            return [self.frame_of(inst.ability_message(), pid)]
        if kind == "ac_status":
            return [self.frame_of(inst.ac_status_message(), pid)]
        if kind == "timer_status":
            return [self.frame_of(inst.timer_message(), pid)]
        if kind == "zone_status":
            if self.gen == 5 and not inst.zones:
                return [self.frame_of(msg, pid)]
            return [self.frame_of(inst.zone_status_message(), pid)]
        if kind == "error_info":
            return [self.frame_of(inst.error_message(sub.ac_number), pid)]
        return []

    def process(self, now: float) -> bool:
        """Handle everything newly written by the client. -> True if anything was read."""
        any_read = False
        for conn in list(self.net.conns):
            done = self.consumed.get(conn.cid, 0)
            data = bytes(conn.out[done:])
            if not data:
                continue
            frames, left = sockrun.split_frames(self.gen, data)
            self.consumed[conn.cid] = len(conn.out) - len(left)
            for (to, frm, pid, mtype, payload, ok) in frames:
                any_read = True
                d = self.c.impl_decode(mtype, payload, to, frm, pid) if ok else ("exc", "bad-crc")
                msg = d[1] if d[0] == "ok" else None
                self.received.append((now, conn.cid, to, frm, pid, mtype, msg, ok, payload))
                if msg is None:
                    continue
                kind = self.classify(msg)
                self.requests.append((now, conn.cid, kind or type(getattr(msg, "sub_message", msg)).__name__, pid))
                if kind is None or self.manual or kind in self.mute:
                    continue
                step = STEPS.index(kind) if kind in STEPS else None
                if step is not None and self.silent_from is not None and step >= self.silent_from:
                    continue
                if conn is not self.net.current():
                    continue
                out = []
                if step is not None:
                    out += self.noise.get(step, [])
                out += self.answer(kind, msg, pid)
                self.send(conn, b"".join(out))
        return any_read


MODEL = {4: papi.AirTouchModel.AIRTOUCH_4, 5: papi.AirTouchModel.AIRTOUCH_5}


class RecordingSocket:
    """A real AirTouchSocket behind a thin proxy that notes every send(message, policy).
    The API classes receive it through their public constructors (as the factory does)."""

    def __init__(self, real) -> None:
        self._real = real
        self.sends: list[tuple] = []

    async def send(self, message, retry_policy):
        self.sends.append((message, retry_policy))
        return await self._real.send(message, retry_policy)

    def __getattr__(self, name):
        return getattr(self._real, name)


class ApiRig:
    """A real client (pyairtouch.connect) against a Console on the virtual loop."""
    N_INIT = 0

    def __init__(self, inst: Installation, rng: Optional[random.Random] = None, latency_ticks: int = 1,
                 record_sends: bool = False) -> None:
        self.inst = inst
        self.gen = inst.gen
        from . import bystander
        bystander.ensure_api(inst.gen)          # a second client of this generation is alive in the process
        self.loop, self.net = vloop.new_loop()
        asyncio.set_event_loop(self.loop)
        self.net.latency_ticks = latency_ticks
        self.console = Console(inst, self.net, rng)
        self.at = None

        self.sock = None
        if record_sends:
            import pyairtouch.comms.socket as psock
            real = psock.AirTouchSocket(self.loop, "10.0.0.1", 9000 + self.gen, sockrun.registry(self.gen))
            self.sock = RecordingSocket(real)
            if self.gen == 4:
                import pyairtouch.at4.api as api
                self.at = api.AirTouch4(self.loop, "<airtouch-1>", "10.0.0.1-9004", "AirTouch 4", self.sock)
            else:
                import pyairtouch.at5.api as api
                self.at = api.AirTouch5(self.loop, "<airtouch-1>", "10.0.0.1-9005", "AirTouch 5", self.sock)
        else:
            async def mk():
                return pyairtouch.connect(MODEL[self.gen], "10.0.0.1", 9000 + self.gen)
            t = self.loop.create_task(mk())
            self.loop.settle()
            self.at = t.result()

    def burn_packet_ids(self, next_id: int) -> None:
        """consume packet ids through the public header factory until the next message gets `next_id`"""
        reg = sockrun.registry(self.gen)
        probe = self.inst.version_message() if hasattr(self.inst, "version_message") else None
        for _ in range(600):
            h = reg.header_factory.create_from_message(probe, 0)
            if (h.packet_id + 1) % 256 == next_id % 256:
                return

    def sock_connected(self) -> bool:
        return self.net.current() is not None

    def now_ticks(self) -> int:
        return int(round(self.loop.time() * 1024))

    def pump(self) -> None:
        """Let client and console exchange frames until both are quiet (no time passes)."""
        for _ in range(200):
            self.loop.settle()
            if not self.console.process(self.loop.time()):
                self.loop.settle()
                return
        raise RuntimeError("client and console do not settle")

    def advance(self, ticks: int) -> None:
        """Advance virtual time, pumping at every timer."""
        self.pump()
        target = self.loop.time() + ticks * vloop.TICK
        while True:
            nt = self.loop.next_timer()
            if nt is None or nt > target:
                break
            self.loop.advance_to(nt)
            self.pump()
        self.loop.advance_to(target)
        self.pump()

    def start(self, coro):
        t = self.loop.create_task(coro)
        self.pump()
        return t

    def run(self, coro, max_ticks: int = 60 * 1024):
        """Run an API coroutine to completion. -> ('ok', value) | ('exc', class name); time may pass."""
        t = self.start(coro)
        end = self.loop.time() + max_ticks * vloop.TICK
        while not t.done():
            nt = self.loop.next_timer()
            if nt is None or nt > end:
                break
            self.loop.advance_to(nt)
            self.pump()
        if not t.done():
            t.cancel()
            self.loop.settle()
            return ("hang", None)
        if t.cancelled():
            return ("exc", "CancelledError")
        if t.exception() is not None:
            return ("exc", type(t.exception()).__name__)
        return ("ok", t.result())

    def init(self):
        """-> (result tuple, virtual ticks elapsed)"""
        t0 = self.now_ticks()
        # an application may look at the object before initialising it (a settings page listing "no air conditioners
        # yet"); what it saw then must not stick.  Every other initialisation in the process does so.
        ApiRig.N_INIT += 1
        if ApiRig.N_INIT % 2 == 0:
            for name in ("air_conditioners", "initialised", "console_versions", "update_available", "model", "host",
                         "name", "airtouch_id", "serial"):
                try:
                    v = getattr(self.at, name)
                    if name == "air_conditioners":
                        list(v)
                except Exception:  # noqa: BLE001
                    pass
        r = self.run(self.at.init())
        return r, self.now_ticks() - t0

    def close(self) -> None:
        # the scenario is over: the client is shut down the way an application would (bounded; whatever it does is the
        # subject of C15 - here it matters because other client objects in the process must not notice)
        try:
            if self.at is not None and not self.loop.is_closed():
                asyncio.set_event_loop(self.loop)
                self.run(self.at.shutdown(), max_ticks=10 * 1024)
        except Exception:  # noqa: BLE001
            pass
        for t in asyncio.all_tasks(self.loop):
            t.cancel()
        try:
            self.loop.settle()
        except Exception:  # noqa: BLE001
            pass
        self.loop.close()


def simple_installation(gen: int, n_acs: int = 1, n_zones: int = 4) -> Installation:
    fans = [True, False, True, True, True, False, False] + ([True] if gen == 5 else [])
    acs = []
    per = n_zones // max(n_acs, 1)
    for i in range(n_acs):
        cnt = per if i < n_acs - 1 else n_zones - per * (n_acs - 1)
        acs.append(AcSpec(i, f"AC{i}", [True, True, True, True, True], fans,
                          (16, 30) if gen == 4 else (16, 30, 18, 32), start=i * per, count=cnt,
                          groups=(set(range(i * per, i * per + cnt)) if gen == 4 else None)))
    return Installation(gen, acs, {z: f"Zone {z}" for z in range(n_zones)})


if __name__ == "__main__":
    import sys
    gen = int(sys.argv[1])
    rig = ApiRig(simple_installation(gen, 2, 5))
    print("init:", rig.init())
    print("requests:", [(r[2], r[3]) for r in rig.console.requests])
    at = rig.at
    for ac in at.air_conditioners:
        print("AC", ac.ac_id, ac.name, ac.power_state, ac.selected_mode, ac.target_temperature, [z.zone_id for z in ac.zones])
        for z in ac.zones:
            print("   zone", z.zone_id, z.name, z.power_state, z.current_temperature, z.target_temperature)
    rig.advance(700 * 1024)
    print("after 700 s:", [(round(r[0], 1), r[2]) for r in rig.console.requests[6:]])
    rig.close()
