"""C15 at the level of whole clients: shutdown() at any moment is final and leak-free, and a later
init() works as on a fresh object.

The socket-level half of C15 is decided on the socket model (coq/props/C15.v, check_sock).  The API
classes add their own tasks and timers (handshake wait, heartbeat, AirTouch 4 group poll) and their own
state; this module observes real clients (pyairtouch.connect) against scripted consoles on the virtual
loop and evaluates the statement's conclusions directly:

  after shutdown() returned - no dial, no byte written, no connected notification, every connection
  closed, and (once the caller's own init() has returned) no timer and no task left on the loop;
  a later init() - returns True, exposes what a fresh client exposes for the console's state at that
  time, and from then on issues the same requests at the same relative instants as a fresh client
  (handshake, heartbeats every 300 s, AirTouch 4 group poll, refresh after a reconnection)."""

from __future__ import annotations

import asyncio
import random
from collections import Counter

from . import api_tie as T
from . import common, console
from .check_client import answer_stimulus, correspond, expected_zones, rand_ac_status, rand_installation, rand_zone_status

TICK = 1024
MOMENTS = ["mid-handshake", "mid-handshake", "connect-backoff", "connecting", "after-init", "after-init", "after-init-idle",
           "link-down-with-pending", "after-heartbeat-reset", "already-shut-down",
           "during-heartbeat-reset", "during-fault-reset", "across-heartbeat-tick", "across-heartbeat-timeout"]


def request_log(rig, since_ticks: int, horizon: int):
    """(relative tick, kind) of every request the console saw in (since, since + horizon]"""
    out = []
    for q in rig.console.requests:
        t = int(round(q[0] * 1024))
        if since_ticks <= t <= since_ticks + horizon:
            out.append((t - since_ticks, q[2]))
    return out


def snapshot(rig) -> dict:
    at = rig.at
    snap = {"initialised": bool(at.initialised), "acs": {}}
    for ac in at.air_conditioners:
        snap["acs"][ac.ac_id] = (ac.name, sorted(z.zone_id for z in ac.zones), T.safe(T.getters_ac, ac),
                                 {z.zone_id: (z.name, T.safe(T.getters_zone, z)) for z in ac.zones})
    snap["version"] = (bool(at.update_available), list(at.console_versions))
    return snap


def observe_after_init(rig, t_init: int):
    """what a client does in the 700 s after an init() that started at t_init, with one forced reconnection"""
    rig.advance(310 * TICK)
    cur = rig.net.current()
    if cur is not None:
        cur.transport.peer_reset()
    rig.advance(390 * TICK)
    return request_log(rig, t_init, 700 * TICK)


def run(ck: common.Check, tier: str) -> None:
    rng = random.Random(ck.seed * 15485863 + 15)
    dist = Counter()
    n = 60 if tier == "quick" else 1200
    for i in range(n):
        gen = 4 + (i % 2)
        inst = rand_installation(gen, rng)
        moment = MOMENTS[i % len(MOMENTS)] if i < 2 * len(MOMENTS) else rng.choice(MOMENTS)
        part1 = [("init",), ("connected",)] + [answer_stimulus(inst, k) for k in range(rng.choice([6, 6, 3, 1]))]
        rig = console.ApiRig(inst, rng)
        replay = {"kind": "lifecycle", "gen": gen, "shutdown_at": moment, "trigger": {"class": "lifecycle", "gen": gen, "moment": moment},
                  "installation": {"acs": [a.number for a in inst.acs], "zones": sorted(inst.zones)}}
        try:
            init_task = None
            if moment == "mid-handshake":
                rig.console.silent_from = rng.randrange(6)
                replay["silent_from_step"] = rig.console.silent_from
                init_task = rig.start(rig.at.init())
                rig.advance(rng.choice([1, 100, 2 * TICK, 4 * TICK + 1000]))
            elif moment == "connect-backoff":
                rig.net.accept = False
                init_task = rig.start(rig.at.init())
                rig.advance(rng.choice([10, TICK, 2 * TICK + 5, 3 * TICK]))
            elif moment == "connecting":
                rig.net.latency_ticks = 3 * TICK
                init_task = rig.start(rig.at.init())
                rig.advance(rng.choice([1, TICK, 2 * TICK]))
            else:
                r, _ = rig.init()
                if r != ("ok", True):
                    ck.violation("the client does not initialise against an answering console", dict(replay, failure=f"init() -> {r}"))
                    continue
                if moment == "after-init-idle":
                    rig.advance(rng.choice([10 * TICK, 299 * TICK, 301 * TICK, 650 * TICK]))
                elif moment == "link-down-with-pending":
                    rig.net.accept = False
                    rig.net.current().transport.peer_reset()
                    rig.pump()
                    rig.advance(rng.choice([1, TICK, 3 * TICK]))
                    ac = rig.at.air_conditioners[0]
                    rig.start(ac.set_power(T.POWER_CTL[1]))
                    rig.start(ac.set_power(T.POWER_CTL[2]))
                elif moment in ("during-heartbeat-reset", "during-fault-reset"):
                    # shutdown() is called at the moment the client itself closes its transport to reset the link
                    # (another task of the client is in the middle of the reset)
                    started = []
                    rig.net.on_client_close = lambda conn: started.append(rig.loop.create_task(rig.at.shutdown()))
                    if moment == "during-heartbeat-reset":
                        rig.console.silent_from = 0
                        rig.advance(331 * TICK)
                    else:
                        cur = rig.net.current()
                        if cur is not None:
                            cur.transport.peer_bytes(bytes([0x13, 0x37] * 12))
                        rig.pump()
                        rig.advance(rng.choice([0, 1, TICK]))
                    rig.net.on_client_close = None
                    replay["shutdown_started_in_reset_window"] = bool(started)
                    dist[f"at{gen}_{moment}_hit"] += int(bool(started))
                elif moment in ("across-heartbeat-tick", "across-heartbeat-timeout"):
                    # closing the connection takes 0.6 s (the peer needs a moment); shutdown() is called 0.2 s before a
                    # heartbeat instant (the periodic request at 300 s / the response time-out at 330 s of silence), so the
                    # instant falls inside the tear-down
                    if moment == "across-heartbeat-timeout":
                        rig.console.silent_from = 0
                        rig.advance(330 * TICK - 200)
                    else:
                        rig.advance(300 * TICK - 200)
                    rig.net.close_delay_ticks = 600
                elif moment == "already-shut-down":
                    rig.run(rig.at.shutdown(), max_ticks=20 * TICK)
                    rig.advance(rng.choice([0, TICK]))
                elif moment == "after-heartbeat-reset":
                    rig.console.silent_from = 0
                    rig.advance(331 * TICK)
                    rig.console.silent_from = None
                    rig.advance(rng.choice([0, 1, TICK]))
            ck.count()
            dist[f"at{gen}_{moment}"] += 1
            ck.note_case((gen, moment, i))
            # ---- shutdown -------------------------------------------------------------------------
            rig.net.accept = True
            rig.net.latency_ticks = 1
            rig.console.silent_from = None
            res = rig.run(rig.at.shutdown(), max_ticks=20 * TICK)
            rig.net.close_delay_ticks = 0
            if res[0] != "ok":
                ck.violation("shutdown() did not return normally", dict(replay, failure=str(res)))
                continue
            t_down = rig.now_ticks()
            rig.net.take_events()
            written = {c.cid: len(c.out) for c in rig.net.conns}
            idle = rng.choice([6 * TICK, 40 * TICK, 700 * TICK])
            rig.advance(idle)
            evs = rig.net.take_events()
            bad = []
            if any(e[0] == "dial" for e in evs):
                bad.append("a connection was attempted after shutdown() returned")
            if any(len(c.out) != written.get(c.cid, 0) for c in rig.net.conns):
                bad.append("bytes were written after shutdown() returned")
            if any(not (c.client_closed or c.lost) for c in rig.net.conns):
                bad.append("a connection the client opened was never closed")
            if init_task is not None and not init_task.done():
                bad.append("the init() call that was in progress never returned")
            elif init_task is not None and (init_task.exception() is not None or init_task.result() is not False):
                bad.append(f"the init() call that was in progress ended with {init_task.exception() or init_task.result()!r}")
            live = rig.loop.live_timers()
            tasks = [t for t in asyncio.all_tasks(rig.loop) if not t.done()]
            if live or tasks:
                bad.append(f"{live} timers and {len(tasks)} tasks of the client are still scheduled {idle // TICK} s after shutdown() "
                           f"({[t.get_coro().__qualname__ for t in tasks][:3]})")
            if rig.at.initialised:
                bad.append("initialised is still true after shutdown()")
            if bad:
                ck.violation("; ".join(bad[:3]), dict(replay, failure=bad, idle_ticks=idle))
                continue
            # ---- the console's state moves on; then init() again vs. a fresh client ---------------------
            for a in inst.acs:
                inst.ac_status[a.number] = rand_ac_status(inst, rng, a.number, error=0)
            for z in inst.zones:
                inst.zone_status[z] = rand_zone_status(inst, rng, z)
            if inst.zones and rng.random() < 0.5:
                z = rng.choice(sorted(inst.zones))
                inst.zones[z] = rng.choice(["Renamed", "R2"])
            if len(inst.zones) > 1 and rng.random() < 0.4:
                # the installation has shrunk: the highest zone is gone (from the names, the statuses and the bitmaps)
                z = max(inst.zones)
                del inst.zones[z]
                inst.zone_status.pop(z, None)
                for a in inst.acs:
                    if getattr(a, "groups", None) is not None:
                        a.groups = set(a.groups) - {z}
                    elif a.start + a.count > z >= a.start and a.count > 0 and a.start + a.count - 1 == z:
                        a.count -= 1
                dist["zone_removed_before_reinit"] += 1
            t_re = rig.now_ticks()
            r2 = rig.run(rig.at.init())
            if r2 != ("ok", True):
                ck.violation("init() after shutdown() did not succeed", dict(replay, failure=str(r2)))
                continue
            snap_re = snapshot(rig)
            # "rebuilds the model from scratch": exactly what the console describes NOW, whatever was known before
            want_struct = {a.number: sorted(z for z in expected_zones(inst, a) if z in inst.zones) for a in inst.acs}
            got_struct = {n: d[1] for n, d in snap_re["acs"].items()}
            want_names = {z: nm for z, nm in inst.zones.items() if any(z in v for v in want_struct.values())}
            got_names = {z: zd[0] for d in snap_re["acs"].values() for z, zd in d[3].items()}
            if got_struct != want_struct or got_names != want_names:
                ck.violation("after shutdown() and init() the client exposes something other than what the console describes now",
                             dict(replay, failure=f"ACs -> zones {got_struct} (console: {want_struct}); names {got_names} (console: {want_names})"))
                continue
            log_re = observe_after_init(rig, t_re)
        finally:
            rig.close()
        fresh = console.ApiRig(inst, rng)
        try:
            t_f = fresh.now_ticks()
            rf = fresh.run(fresh.at.init())
            snap_f = snapshot(fresh)
            log_f = observe_after_init(fresh, t_f)
        finally:
            fresh.close()
        dist["reinit_compared"] += 1
        # the same on the client core model (C15_api_* theorems): handshake (possibly cut short), shutdown, the
        # console's state has moved on, init again, frames
        part2 = [("init",), ("connected",)] + [answer_stimulus(inst, k) for k in range(6)]
        part2 += [("frame", 0xB0, inst.ac_status_message()), ("frame", 0xB0, inst.version_message())]
        correspond(ck, gen, inst, part1 + [("shutdown",)] + part2, "shutdown and re-init")
        if rf != ("ok", True):
            continue
        if snap_re != snap_f:
            keys = [k for k in snap_f if snap_f[k] != snap_re.get(k)]
            ck.violation("after shutdown() and init() the client does not expose what a fresh client exposes",
                         dict(replay, failure=f"differs in {keys}: re-initialised {str(snap_re)[:300]} / fresh {str(snap_f)[:300]}"))
        elif log_re != log_f:
            k = next((j for j, (a, b) in enumerate(zip(log_re, log_f)) if a != b), min(len(log_re), len(log_f)))
            ck.violation("after shutdown() and init() the client does not behave like a fresh client",
                         dict(replay, failure=f"requests over 700 s (relative tick, kind) differ from entry {k}: "
                                              f"re-initialised {log_re[k:k + 4]} / fresh {log_f[k:k + 4]} "
                                              f"(lengths {len(log_re)} / {len(log_f)})"))
    ck.extra["lifecycle"] = dict(sorted(dist.items()))
