"""Checks C09 (initialisation), C10 (latest report wins), C12 (notifications) and C14 (refresh
after reconnection, AT4 group-status poll) on a real AirTouch4 / AirTouch5 client driven by
the scripted console on the virtual loop.

  python -m harness.check_client <C09|C10|C12|C14> --tier quick|thorough
"""

from __future__ import annotations

import argparse
import dataclasses
import json
import random
import sys
from collections import Counter

import pyairtouch.api as papi

from . import api_tie as T
from . import client_tie as CT
from . import codec_tie, common, console, sockrun

POLL = 61
TICK = 1024


# ------------------------------------------------------------------ random installations
def raw_version_payload(gen: int, version, update_byte: int) -> bytes:
    """0x1F/0xFF30 payload for a console that flags the update with any non-zero byte (the documents say: 0 = no)"""
    text = ("|" if gen == 4 else ",").join(version[1]).encode()
    return b"\xff\x30" + bytes([update_byte if version[0] else 0, len(text)]) + text


def init_failed(ck, rig, r, where: str) -> None:
    """A scenario that starts with init() against an answering console must not be skipped silently when init() fails"""
    if getattr(ck, "_init_failures", 0) < 3:
        ck._init_failures = getattr(ck, "_init_failures", 0) + 1
        c = rig.console
        ck.violation("the client does not initialise against an answering console",
                     {"kind": "init", "gen": rig.gen, "scenario": where, "trigger": {"class": "init-failed", "gen": rig.gen},
                      "failure": f"init() -> {r}",
                      "console": {"stride_pad": c.stride_pad, "dirty_names": c.dirty_names, "zones": dict(rig.inst.zones),
                                  "acs": [(a.number, a.name) for a in rig.inst.acs], "version": list(rig.inst.version[1])}})


def rand_bits(rng, n):
    b = [rng.random() < 0.7 for _ in range(n)]
    return b


def rand_installation(gen: int, rng: random.Random):
    nf = 7 if gen == 4 else 8
    lims = (16, 30) if gen == 4 else (16, 30, 18, 32)
    n_acs = rng.choice([1, 1, 2, 3, 4])
    if gen == 4:
        fmt = rng.choice(["bitmap", "bitmap", "old"])
        n_z = rng.choice([1, 2, 3, 5, 8, 16])
        # AC numbers need not be 0..n-1 (a console with ACs 0 and 2): the fixed four-entry timer frame and status
        # frames then carry entries about ACs that do not exist between those that do
        nums4 = sorted(rng.sample(range(4), n_acs)) if rng.random() < 0.35 else list(range(n_acs))
        if fmt == "bitmap":
            ids = sorted(rng.sample(range(16), n_z))
            owner = {z: rng.randrange(n_acs) for z in ids}
            acs = [console.AcSpec(nums4[i], f"AC {nums4[i]}", rand_bits(rng, 5), rand_bits(rng, nf), lims, start=rng.randrange(4), count=rng.randrange(4),
                                  groups={z for z in ids if owner[z] == i}) for i in range(n_acs)]
        else:
            ids = list(range(n_z))
            cuts = sorted(rng.sample(range(n_z + 1), min(n_acs - 1, n_z + 1))) if n_acs > 1 else []
            bounds = [0] + cuts + [n_z]
            while len(bounds) < n_acs + 1:
                bounds.append(n_z)
            acs = [console.AcSpec(nums4[i], f"AC {nums4[i]}", rand_bits(rng, 5), rand_bits(rng, nf), lims, start=bounds[i], count=bounds[i + 1] - bounds[i],
                                  groups=None) for i in range(n_acs)]
            if n_acs == 1:
                # "If one AC only, ignore these two bytes. All groups belong to this AC."
                acs[0].start, acs[0].count = rng.randrange(0, 4), rng.randrange(0, n_z + 1)
        numbers = nums4
    else:
        n_z = rng.choice([0, 0, 1, 2, 3, 5, 8, 16])
        ids = list(range(n_z))
        numbers = sorted(rng.sample(range(16), n_acs)) if rng.random() < 0.3 else list(range(n_acs))
        cuts = sorted(rng.choice(range(n_z + 1)) for _ in range(n_acs - 1))
        bounds = [0] + cuts + [n_z]
        acs = [console.AcSpec(numbers[i], f"AC {numbers[i]}", rand_bits(rng, 5), rand_bits(rng, nf), lims, start=bounds[i],
                              count=bounds[i + 1] - bounds[i]) for i in range(n_acs)]
    order = list(ids)
    if rng.random() < 0.4:
        rng.shuffle(order)          # the names message need not list the zones in ascending order
    names = {z: rng.choice(["Living", "Bed", "Küche", "A", "", "Zone%d" % z])[:8] for z in order}
    inst = console.Installation(gen, acs, names, version=(rng.random() < 0.3, rng.choice([["1.2.3"], ["1.0", "2.0"], ["9"]])))
    for a in acs:
        inst.ac_status[a.number] = rand_ac_status(inst, rng, a.number)
        if inst.ac_status[a.number].error_code and rng.random() < 0.7:
            inst.errors[a.number] = rng.choice(["ER: 05", "Fault Ü", "E"])       # an AC already in fault when the client connects
        if rng.random() < 0.5:
            t = inst.m["tstat"]
            inst.timers[a.number] = t.AcTimerStatusData(a.number, t.AcTimerState(rng.random() < 0.5, rng.randrange(24), rng.randrange(60)),
                                                        t.AcTimerState(rng.random() < 0.5, rng.randrange(24), rng.randrange(60)))
    for z in ids:
        inst.zone_status[z] = rand_zone_status(inst, rng, z)
    return inst


EDGE_TEMPS = [-50.0, -0.1, 0.0, 0.1, 149.9, 150.0]      # ends of the encodable range and zero (values both generations carry)


def rand_temp(rng, lo=-100, hi=600):
    return rng.choice(EDGE_TEMPS) if rng.random() < 0.15 else rng.randrange(lo, hi) / 10.0


def rand_ac_status(inst, rng, n, error=None):
    s = inst.m["astat"]
    err = rng.choice([0, 0, 0, 5, 0xFFFE]) if error is None else error
    temp = rand_temp(rng)
    if inst.gen == 4:
        return s.AcStatusData(n, rng.choice(list(s.AcPowerState)), rng.choice(list(s.AcMode)), rng.choice(list(s.AcFanSpeed)),
                              rng.random() < 0.5, rng.random() < 0.5, rng.randrange(64), temp, err)
    return s.AcStatusData(n, rng.choice(list(s.AcPowerState)), rng.choice(list(s.AcMode)), rng.choice(list(s.AcFanSpeed)),
                          rng.random() < 0.5, rng.random() < 0.5, rng.random() < 0.5, rng.random() < 0.5,
                          rng.randrange(100, 351) / 10.0, temp, err)


def rand_zone_status(inst, rng, z):
    s = inst.m["zstat"]
    sensor = rng.random() < 0.6
    if inst.gen == 4:
        return s.GroupStatusData(z, rng.choice(list(s.GroupPowerState)), rng.choice(list(s.GroupControlMethod)), rng.random() < 0.5,
                                 rng.random() < 0.5, sensor, rng.choice(list(s.SensorBatteryStatus)),
                                 (rand_temp(rng, -100, 500) if rng.random() < 0.8 else None) if sensor else None,
                                 rng.randrange(101), rng.randrange(64) if sensor else None)
    return s.ZoneStatusData(z, rng.choice(list(s.ZonePowerState)), rng.random() < 0.5, rng.choice(list(s.ZoneControlMethod)), sensor,
                            rng.choice(list(s.SensorBatteryStatus)),
                            (rand_temp(rng, -100, 500) if rng.random() < 0.8 else None) if sensor else None,
                            rng.randrange(101), rng.choice([None, rng.randrange(100, 355) / 10.0, 10.0, 35.4]))


def expected_zones(inst, spec) -> list[int]:
    """zone-to-AC association as the API documents it"""
    if inst.gen == 4:
        if spec.groups is not None:
            return sorted(spec.groups)
        if len(inst.acs) == 1:
            return sorted(inst.zones)
        return list(range(spec.start, spec.start + spec.count))
    return list(range(spec.start, spec.start + spec.count))


def handshake_messages(inst):
    return [inst.version_message(), inst.names_message(), inst.ability_message(), inst.ac_status_message(),
            inst.timer_message(), inst.zone_status_message()]


def noise_messages(inst, rng, step: int):
    """message objects a console may interleave before the answer of handshake step `step`"""
    ms = handshake_messages(inst)
    out = []
    c = inst.m["c"]
    for _ in range(rng.choice([0, 1, 1, 2, 3])):
        k = rng.randrange(5)
        if k == 4:
            if inst.gen == 5:
                # the console's echo of ANOTHER client's request (not addressed to us): not an answer
                req = rng.choice([c.ext.ExtendedMessage(c.names.ZoneNamesRequest("ALL")), c.c0.ControlStatusMessage(c.zs.ZoneStatusRequest()),
                                  c.c0.ControlStatusMessage(c.acs.AcStatusRequest())])
                out.append(("msg", rng.choice([0xB1, 0x80, 0x00]), req))
            continue
        if k == 0 and step > 0:
            out.append(("msg", 0xB0, ms[rng.randrange(step)]))                    # duplicate of an earlier answer
        elif k == 1:
            j = rng.choice([x for x in range(6) if x != step])
            if inst.gen == 5 and not inst.zones and j in (1, 5):
                continue
            if j < step or j > step:
                out.append(("msg", 0xB0, ms[j]))                                  # unsolicited frame of another kind
        elif k == 2:
            out.append(("raw", 0xB0, rng.choice([0x99, 0x00, 0x2E, 0xC1]), bytes(rng.randrange(256) for _ in range(rng.randrange(0, 9)))))
        else:
            out.append(("raw", 0x80, 0x1F, b"\xff\x77" + bytes(rng.randrange(256) for _ in range(3))))   # unknown sub-type
    return out


def answer_stimulus(inst, step: int):
    """the truthful answer of handshake step `step` as a script stimulus"""
    c = inst.m["c"]
    if inst.gen == 5 and not inst.zones and step in (1, 5):
        # a console without zones echoes the request back to the client
        if step == 1:
            req = c.ext.ExtendedMessage(c.names.ZoneNamesRequest("ALL"))
        else:
            req = c.c0.ControlStatusMessage(c.zs.ZoneStatusRequest())
        return ("frame", 0xB0, req)
    return ("frame", 0xB0, handshake_messages(inst)[step])


def to_stimuli(inst, items):
    """noise items -> script stimuli (raw frames become the messages the decoder delivers)"""
    c = inst.m["c"]
    out = []
    for it in items:
        if it[0] == "msg":
            out.append(("frame", it[1], it[2]))
        else:
            d = c.impl_decode(it[2], it[3])
            if d[0] == "ok":
                out.append(("rawframe", it[1], it[2], it[3], d[1]))
    return out


class ScriptRig(CT.ClientRig):
    """ClientRig that also understands raw frames"""

    def step(self, st):
        if st[0] == "rawframe":
            conn = self.net.current()
            self.calls = []
            if conn is not None:
                self.console.pid = (self.console.pid + 1) % 256
                self.console.send(conn, sockrun.build_frame(self.gen, st[1], 0x90 if st[2] == 0x1F else 0x80, self.console.pid, st[2], st[3]))
            self.pump()
            reqs, self.seen = [], len(self.console.requests)
            return [], sorted(self.calls)
        return super().step(st)


def run_both(gen, inst, script, raising=frozenset()):
    rig = ScriptRig(inst, raising)
    try:
        iper = [rig.step(st) for st in script]
        isnap = rig.snapshot()
        unhandled = len(rig.loop.unhandled)
    finally:
        rig.close()
    mscript = [("frame", st[1], st[4]) if st[0] == "rawframe" else st for st in script]
    mper, msnap = CT.parse_model(common.run_model([CT.model_script(gen, mscript)])[0], mscript)
    return iper, isnap, mper, msnap, unhandled


def fmt_script(script) -> list:
    out = []
    for st in script:
        if st[0] == "frame":
            out.append(["frame", hex(st[1]), repr(st[2])[:160]])
        elif st[0] == "rawframe":
            out.append(["rawframe", hex(st[1]), hex(st[2]), st[3].hex()])
        else:
            out.append(list(st))
    return out


def start_check(prop: str, tier: str, rule: str, assumptions: list[str]):
    ck = common.Check(prop, tier)
    ck.rule = rule
    ck.assumptions = assumptions
    with common.Lock():
        proved = ck.prove()
        if not proved:
            ck.violation("proof", {"theorem_file": f"coq/props/{prop}.v", "failed_at": getattr(ck, "failed_at", "?"),
                                   "log_tail": getattr(ck, "proof_log", "")[-1500:]}, found_input=False)
        try:
            common.build_driver()
        except RuntimeError as ex:
            ck.violation("model-build", {"error": str(ex)[-1500:]}, found_input=False)
            return ck, False
    return ck, True


def correspond(ck, gen, inst, script, what: str, raising=frozenset()) -> str | None:
    iper, isnap, mper, msnap, unh = run_both(gen, inst, script, raising)
    d = CT.first_difference(iper, isnap, mper, msnap, script)
    if unh:
        ck.violation("an exception reached the loop's handler", {"kind": "unhandled", "gen": gen, "script": fmt_script(script),
                                                                 "trigger": {"class": "unhandled"}})
    if d:
        ck.violation("client core model and implementation disagree",
                     {"kind": "correspondence", "gen": gen, "what": what, "first_difference": d, "script": fmt_script(script),
                      "correspondence": f"coq/api/Core.v + Client{gen}.v (model case 60) vs pyairtouch.at{gen}.api"},
                     found_input=False)
    return d


# ================================================================================ C09
def check_c09(tier: str) -> int:
    ck, ok = start_check("C09", tier,
        "random installations of both generations (1-4 ACs, AT5 AC numbers up to 15, 0-16 zones, AT4 bitmap / old single-AC / old "
        "range formats, AT5 zero zones) x noise before each of the six answers (duplicates of earlier answers, unsolicited status, "
        "unknown types and sub-types, foreign-addressed echoes) x random TCP segmentation x connect latency; silence from each step "
        "0..5; connect delays around 5 s; (a) auto-answering console: init() result and virtual time, order of requests at the "
        "console, public object model against the installation by the documented association rules; (b) the same histories as "
        "explicit scripts on the client core model (case 60); non-trivial/distinct = distinct (installation, scenario)",
        ["the 5 s wait of init() is asyncio.wait_for on the virtual clock: sampled, the model covers the message-driven part",
         "tie-breaking at exactly coinciding instants (answer arriving at exactly 5 s) follows CPython and is avoided by the scripts"])
    if not ok:
        return ck.finish()
    rng = random.Random(ck.seed * 7907 + 9)
    dist = Counter()
    n = 300 if tier == "quick" else 4000
    for i in range(n):
        gen = 4 + (i % 2)
        inst = rand_installation(gen, rng)
        scen = rng.choice(["plain", "noise", "noise", "segment", "silent", "slow-connect", "late-connect"])
        ck.count()
        ck.note_case((gen, i, scen))
        dist[f"at{gen}_{scen}"] += 1
        dist[f"at{gen}_acs{len(inst.acs)}_zones{min(len(inst.zones), 9)}"] += 1
        rig = console.ApiRig(inst, rng)
        replay = {"gen": gen, "scenario": scen, "installation": {"acs": [dataclasses.asdict(a) | {"groups": sorted(a.groups) if a.groups is not None else None} for a in inst.acs],
                                                                   "zones": inst.zones}, "trigger": {"class": "init-" + scen}}
        try:
            silent = None
            if scen in ("noise", "segment"):
                for k in range(6):
                    raws = []
                    for it in noise_messages(inst, rng, k):
                        if it[0] == "msg":
                            raws.append(rig.console.frame_of(it[2], rng.randrange(256), it[1]))
                        else:
                            raws.append(sockrun.build_frame(gen, it[1], 0x90 if it[2] == 0x1F else 0x80, rng.randrange(256), it[2], it[3]))
                    rig.console.noise[k] = raws
            if scen == "segment":
                bytewise = rng.random() < 0.4

                def seg(data, _r=rng, _bw=bytewise):
                    if _bw:
                        return [data[i:i + 1] for i in range(len(data))]
                    cuts = sorted(_r.randrange(len(data) + 1) for _ in range(_r.choice([1, 2, 5])))
                    return [data[a:b] for a, b in zip([0] + cuts, cuts + [len(data)])]
                rig.console.segment = seg
                rig.console.turns = rng.choice([0, 1, 1, 2])      # the client runs between two segments
            if scen == "silent":
                silent = rng.randrange(6)
                rig.console.silent_from = silent
            if scen == "slow-connect":
                rig.net.latency_ticks = rng.choice([1, 512, 4 * TICK, 5 * TICK - 8])
            if scen == "late-connect":
                rig.net.latency_ticks = rng.choice([5 * TICK + 8, 6 * TICK, 20 * TICK])
            replay["detail"] = {"silent_from": silent, "latency_ticks": rig.net.latency_ticks}
            r, elapsed = rig.init()
            kinds = [q[2] for q in rig.console.requests if q[2] != "error_info"]
            if scen in ("silent", "late-connect"):
                if r != ("ok", False) or elapsed != 5 * TICK or rig.at.initialised:
                    ck.violation("init() against a console that stops answering must return False after exactly 5 s",
                                 dict(replay, failure=f"result {r}, after {elapsed / TICK} s, initialised={rig.at.initialised}"))
                if scen == "silent" and kinds != console.STEPS[: silent + 1]:
                    ck.violation("requests issued although the previous answer never came",
                                 dict(replay, failure=f"requests {kinds}, silent from step {silent}"))
            else:
                if r != ("ok", True) or not rig.at.initialised:
                    ck.violation("init() against an answering console must return True",
                                 dict(replay, failure=f"result {r} after {elapsed / TICK} s; requests seen {kinds}"))
                else:
                    if kinds[:6] != console.STEPS or kinds[6:7] not in ([], ["version"]):
                        ck.violation("handshake requests out of order", dict(replay, failure=f"requests {kinds}"))
                    got = {ac.ac_id: (ac.name, sorted(z.zone_id for z in ac.zones)) for ac in rig.at.air_conditioners}
                    want = {a.number: (a.name, expected_zones(inst, a)) for a in inst.acs}
                    if got != want:
                        ck.violation("the object model is not the installation the console described",
                                     dict(replay, failure=f"ACs {got}, console described {want}"))
                    names = {z.zone_id: z.name for ac in rig.at.air_conditioners for z in ac.zones}
                    if any(inst.zones[z] != nm for z, nm in names.items()):
                        ck.violation("zone names differ", dict(replay, failure=f"{names} vs {inst.zones}"))
            if rig.loop.unhandled:
                ck.violation("an exception reached the loop's handler during init", dict(replay, failure=str(rig.loop.unhandled[0])[:300]))
        finally:
            rig.close()
        # (b) the same kind of history as an explicit script on the model
        script = [("init",), ("connected",)]
        stop = rng.randrange(6) if scen == "silent" else 6
        for k in range(stop):
            if scen in ("noise", "segment"):
                script += to_stimuli(inst, noise_messages(inst, rng, k))
            script.append(answer_stimulus(inst, k))
        if scen == "silent":
            script += to_stimuli(inst, noise_messages(inst, rng, stop))
        correspond(ck, gen, inst, script, "handshake")
    deadline_race(ck, dist, tier)
    sessions(ck, dist, tier)
    ck.extra["input_distribution"] = dict(sorted(dist.items()))
    ck.sample("AT5, 2 ACs (numbers 3, 9), 0 zones: names and zone-status requests echoed back to 0xB0; init() True")
    return ck.finish()


def sessions(ck, dist, tier: str) -> None:
    """init() is stated for any client against any answering console - also for a client object that has a past: an
    earlier session that was shut down while connected, while the connection attempt was still pending (SYN unanswered),
    during the retry delay after a refusal, or in the middle of the handshake.  The next init() against an answering
    console must complete like the first init() of a fresh object: True, within the time limit, model as described."""
    pasts = ["completed", "attempt-pending", "retry-delay", "mid-handshake", "completed-twice"]
    for gen in (4, 5):
        for past in pasts:
            for n_acs, n_zones in ((1, 2), (2, 5)):
                inst = console.simple_installation(gen, n_acs, n_zones)
                rig = console.ApiRig(inst)
                try:
                    ck.count()
                    dist[f"session_after_{past}"] += 1
                    replay = {"kind": "session", "gen": gen, "past": past, "acs": n_acs, "zones": n_zones,
                              "trigger": {"class": "session", "gen": gen, "past": past}}
                    if past in ("completed", "completed-twice"):
                        for _ in range(2 if past == "completed-twice" else 1):
                            r, _t = rig.init()
                            rig.advance(3 * TICK)
                            rig.run(rig.at.shutdown())
                    elif past == "attempt-pending":
                        rig.net.latency_ticks = 3 * TICK          # the console takes 3 s to accept
                        t = rig.start(rig.at.init())
                        rig.advance(TICK)
                        rig.run(rig.at.shutdown())
                        rig.advance(10 * TICK)
                        rig.net.latency_ticks = 1
                        if not t.done():
                            t.cancel()
                            rig.pump()
                    elif past == "retry-delay":
                        rig.net.accept = False
                        t = rig.start(rig.at.init())
                        rig.advance(TICK // 2)
                        rig.run(rig.at.shutdown())
                        rig.advance(10 * TICK)
                        rig.net.accept = True
                    else:
                        rig.console.silent_from = 3
                        t = rig.start(rig.at.init())
                        rig.advance(TICK)
                        rig.run(rig.at.shutdown())
                        rig.advance(10 * TICK)
                        rig.console.silent_from = None
                    m0 = len(rig.console.requests)
                    r, took = rig.init()
                    if r != ("ok", True):
                        ck.violation("init() on a client with an earlier session does not complete against an answering console",
                                     dict(replay, failure=f"init() -> {r} after {took / TICK:.2f} s; requests seen by the console in this "
                                                          f"session: {[q[2] for q in rig.console.requests[m0:]][:8]}"))
                        continue
                    expect_init_errors(rig)
                    got, want = all_getters(rig), expected_getters(rig)
                    bad = [k for k in got if got[k] != want.get(k)]
                    if bad or set(got) != set(want):
                        ck.violation("the object model after a second session differs from the installation",
                                     dict(replay, failure=f"{bad[:1] or sorted(set(got) ^ set(want))[:3]}"))
                finally:
                    rig.close()


def deadline_race(ck, dist, tier: str) -> None:
    """The last answer arrives within a few event-loop iterations of the 5 s limit.  On the ordinary virtual clock time
    stands still while callbacks run, so "the answer is processed while the timer fires" cannot happen; here the clock
    creeps a few nanoseconds per loop iteration and the arrival instant is swept across the limit.  Whatever wins:
    what init() returns must be what `initialised` says at that moment, and it must return."""
    creep = 2.0 ** -26
    for gen in (4, 5):
        for j in range(0, 48 if tier == "quick" else 200):
            inst = console.simple_installation(gen, 2, 4)
            rig = console.ApiRig(inst)
            try:
                rig.console.silent_from = 5                      # the zone status answer is held back
                t_start = rig.loop.time()
                seen = []

                async def wrapped():
                    r = await rig.at.init()
                    seen.append((r, bool(rig.at.initialised)))
                    return r
                task = rig.start(wrapped())
                rig.advance(4 * TICK)
                rig.loop.settle()
                rig.loop.creep = creep
                rig.loop._vnow = t_start + 5.0 - j * creep
                rig.console.silent_from = None
                conn = rig.net.current()
                if conn is None:
                    continue
                rig.console.pid = (rig.console.pid + 1) % 256
                rig.console.send(conn, rig.console.frame_of(answer_stimulus(inst, 5)[2], rig.console.pid))
                for _ in range(400):
                    if task.done():
                        break
                    rig.loop.call_soon(rig.loop.stop)
                    rig.loop.run_forever()
                rig.loop.creep = 0.0
                if not task.done():
                    rig.advance(6 * TICK)
                ck.count()
                dist["deadline_race"] += 1
                replay = {"kind": "deadline-race", "gen": gen, "iterations_before_limit": j, "trigger": {"class": "deadline-race", "gen": gen}}
                if not task.done() or task.exception() is not None or not seen:
                    ck.violation("init() hung or raised when the last answer arrived at the 5 s limit", dict(replay, failure=str(task)))
                elif seen[0][0] != seen[0][1]:
                    dist["deadline_race_disagreement"] += 1
                    ck.violation("init() returned a result that contradicts `initialised` at that moment",
                                 dict(replay, failure=f"init() returned {seen[0][0]} while initialised was {seen[0][1]} (last answer "
                                                      f"delivered {j} loop iterations before the 5 s limit, clock creeping {creep:.2e} s per iteration)"))
                    return
                else:
                    dist[f"deadline_race_{seen[0][0]}"] += 1
            finally:
                rig.close()


# ================================================================================ C10
def expect_init_errors(rig) -> None:
    """ACs in fault when the client connects: the client asked for their error text during the handshake and the
    console answered with what it holds"""
    rig.client_err = {}
    for a in rig.inst.acs:
        if rig.inst.ac_status[a.number].error_code:
            text = rig.inst.errors.get(a.number)
            rig.client_err[a.number] = text.encode() if text else None


def all_getters(rig) -> dict:
    out = {}
    for ac in rig.at.air_conditioners:
        out[("ac", ac.ac_id)] = T.safe(T.getters_ac, ac)
        for z in ac.zones:
            out[("zone", z.zone_id)] = T.safe(T.getters_zone, z)
    return out


def expected_getters(rig) -> dict:
    """the extracted getter model (case 51) applied to the latest record the console sent for each entity"""
    inst = rig.inst
    keys, cases = [], []
    for ac in rig.at.air_conditioners:
        spec = [a for a in inst.acs if a.number == ac.ac_id][0]
        keys.append(("ac", ac.ac_id))
        cases.append([T.GET, inst.gen, 0] + T.flat_ac(rig, spec))
        for z in ac.zones:
            keys.append(("zone", z.zone_id))
            cases.append([T.GET, inst.gen, 1] + T.flat_zone(rig, z.zone_id))
    return dict(zip(keys, common.run_model(cases))) if cases else {}


def check_c10(tier: str) -> int:
    ck, ok = start_check("C10", tier,
        "after initialisation: (a) the full cross product of defined power x mode x fan-speed codes (AT4 98, AT5 455) with flag and "
        "temperature variations, all timer hours 0..31 / minutes 0..63 boundary values, error codes with and without text, for one "
        "AC; (b) random histories of AC status / zone status / timer / error / version frames over random installations (any entity "
        "order, repeats, subsets, unknown ids); after every frame every public getter of every entity is compared with the extracted "
        "getter model applied to the latest record the console sent for that entity; (c) the same histories as scripts on the client "
        "core model; non-trivial/distinct = distinct frames injected",
        ["'reading of the most recent frame' is the extracted getter model (tables proved in C10_*_tables) on the console's latest record",
         "floats in status frames are k/10 values"])
    if not ok:
        return ck.finish()
    rng = random.Random(ck.seed * 104723 + 10)
    dist = Counter()
    reported = Counter()

    def compare(rig, replay):
        got, want = all_getters(rig), expected_getters(rig)
        for k in got:
            if got[k] != want.get(k):
                key = (rig.gen, k[0], str(got[k])[:12])
                reported[k[0]] += 1
                if reported[k[0]] <= 3:
                    ck.violation("a getter does not show the latest report",
                                 dict(replay, kind="getter", trigger={"class": f"getter-{k[0]}"}, entity=list(k),
                                      getters=str(got[k])[:400], latest_report_means=str(want.get(k))[:400]))
                return False
        return True

    # (a) cross product on one AC
    for gen in (4, 5):
        nf = 7 if gen == 4 else 8
        inst = T.tie_installation(gen, [True] * 5, [True] * nf, (16, 30) if gen == 4 else (16, 30, 18, 32))
        rig = T.make_rig(inst)
        try:
            s = inst.m["astat"]
            spec = inst.acs[0]
            for pw in s.AcPowerState:
                for mo in s.AcMode:
                    for fa in s.AcFanSpeed:
                        ck.count()
                        ck.note_case((gen, pw.value, mo.value, fa.value))
                        dist[f"at{gen}_cross_product"] += 1
                        st = rand_ac_status(inst, rng, spec.number)
                        st = dataclasses.replace(st, power_state=pw, mode=mo, fan_speed=fa)
                        T.push_ac_status(rig, st)
                        compare(rig, {"gen": gen, "frame": repr(st)})
            t = inst.m["tstat"]
            for (h, m) in [(0, 0), (23, 59), (24, 0), (31, 63), (7, 60), (12, 30)]:
                for dis in (False, True):
                    ck.count()
                    dist[f"at{gen}_timers"] += 1
                    tm = t.AcTimerStatusData(spec.number, t.AcTimerState(dis, h, m), t.AcTimerState(not dis, m % 32, h))
                    T.push_timer(rig, tm)
                    compare(rig, {"gen": gen, "frame": repr(tm)})
            for code, text in [(5, "ER: 05"), (5, None), (0, "stale"), (0xFFFE, "Ünïcode"), (7, "")]:
                ck.count()
                dist[f"at{gen}_errors"] += 1
                T.push_ac_status(rig, dataclasses.replace(inst.ac_status[spec.number], error_code=code))
                T.push_error(rig, spec.number, text)
                compare(rig, {"gen": gen, "frame": f"error code {code} text {text!r}"})
            # a status frame with a new fault code arrives while the transport is under back-pressure: the client's request
            # for the fault text waits, the report itself is already the console's latest - the getters show it during the
            # wait (with no text yet), and the text once the request could be written and was answered
            conn_ = rig.net.current()
            if conn_ is not None:
                proto_ = conn_.transport.get_protocol()
                for step in range(3):
                    ck.count()
                    dist[f"at{gen}_status_while_writes_wait"] += 1
                    cur_ = inst.ac_status[spec.number]
                    nxt_ = dataclasses.replace(rand_ac_status(inst, rng, spec.number), error_code=11 + step)
                    inst.errors[spec.number] = f"E{11 + step}"
                    # (the text of the previous fault, if one was present, stays until the new one is answered)
                    before_ = rig.client_err.get(spec.number) if cur_.error_code else None
                    proto_.pause_writing()
                    try:
                        T.push_ac_status(rig, nxt_)
                        held = rig.client_err.get(spec.number)
                        rig.client_err[spec.number] = before_
                        compare(rig, {"gen": gen, "frame": f"{nxt_!r} received while the transport is paused (the request for the fault text waits)"})
                    finally:
                        proto_.resume_writing()
                    rig.pump()
                    rig.client_err[spec.number] = held
                    compare(rig, {"gen": gen, "frame": f"{nxt_!r}, after the transport resumed and the fault text was answered"})
                T.push_ac_status(rig, dataclasses.replace(inst.ac_status[spec.number], error_code=0))
                inst.errors[spec.number] = None
            # error text against a console that leaves the client's error-text requests unanswered: a text is shown only
            # while an error code is present, and a text received earlier never comes back with a later error
            rig.console.mute = {"error_info"}
            base = dataclasses.replace(inst.ac_status[spec.number], error_code=0)
            # (the sequences below add up to 5 steps to the set-point: stay inside what the wire format carries)
            base = dataclasses.replace(base, set_point=min(base.set_point, 58) if gen == 4 else min(base.set_point, 34.0))
            seqs = [[("status", 0, 1), ("text", "stale"), ("status", 0, 2), ("status", 7, 3)],
                    [("status", 5, 1), ("text", "E5"), ("status", 0, 2), ("status", 0, 3), ("status", 6, 4)],
                    [("status", 0, 1), ("text", "early"), ("status", 9, 2)],
                    [("status", 5, 1), ("text", "E5"), ("status", 6, 2), ("status", 0, 3), ("text", "late"), ("status", 0, 4), ("status", 5, 5)]]
            for seq in seqs:
                for ev in seq:
                    ck.count()
                    dist[f"at{gen}_error_text_sequences"] += 1
                    if ev[0] == "status":
                        T.push_ac_status(rig, dataclasses.replace(base, error_code=ev[1], set_point=(base.set_point + ev[2]) if gen == 4 else round(base.set_point * 10 + ev[2]) / 10.0))
                    else:
                        T.push_error(rig, spec.number, ev[1])
                    compare(rig, {"gen": gen, "frame": f"error-text sequence {seq} at {ev} (console does not answer error-text requests)"})
            rig.console.mute = set()
            for z in list(inst.zones):
                for _ in range(40 if tier == "quick" else 400):
                    ck.count()
                    dist[f"at{gen}_zone_status"] += 1
                    st = rand_zone_status(inst, rng, z)
                    T.push_zone_status(rig, st)
                    compare(rig, {"gen": gen, "frame": repr(st)})
        finally:
            rig.close()
    # (b) random histories on random installations, (c) the same on the model
    for i in range(120 if tier == "quick" else 2000):
        gen = 4 + (i % 2)
        inst = rand_installation(gen, rng)
        rig = console.ApiRig(inst, rng, record_sends=True)
        rig.console.stride_pad = rng.choice([0, 0, 2, 4, 12]) if gen == 5 else 0      # consoles with longer status records
        rig.console.dirty_names = rng.random() < 0.4                                   # stale bytes after the NUL of a name
        rig.client_err = {}
        script = [("init",), ("connected",)] + [answer_stimulus(inst, k) for k in range(4)]
        for a in inst.acs:       # the console answers the error-text requests the AC status answer provokes
            if inst.ac_status[a.number].error_code:
                script.append(("frame", 0xB0, inst.error_message(a.number)))
        script += [answer_stimulus(inst, k) for k in (4, 5)]
        try:
            r, _ = rig.init()
            if r != ("ok", True):
                init_failed(ck, rig, r, "status histories (C10)")
                continue
            ids = [a.number for a in inst.acs]
            for a in inst.acs:
                if inst.ac_status[a.number].error_code:
                    text = inst.errors.get(a.number)
                    rig.client_err[a.number] = text.encode() if text else None
            if rng.random() < 0.4:
                rig.console.mute = {"error_info"}          # from now on the console leaves error-text requests unanswered
                dist[f"at{gen}_histories_without_error_text_answers"] += 1
            ck.count()
            dist[f"at{gen}_state_after_init"] += 1
            if not compare(rig, {"gen": gen, "frame": "(none: state right after init; ACs in fault at connect: %s)"
                                 % sorted(n for n in ids if inst.ac_status[n].error_code)}):
                continue
            for _ in range(rng.choice([3, 8, 15])):
                ck.count()
                k = rng.randrange(5)
                dist[f"at{gen}_history_frame{k}"] += 1
                if k == 0:
                    sub = rng.sample(ids, rng.randrange(1, len(ids) + 1))
                    sts = [rand_ac_status(inst, rng, n) for n in sub]
                    unknown = [rand_ac_status(inst, rng, rng.choice([x for x in range(16) if x not in ids]))] if rng.random() < 0.3 else []
                    for st in sts:
                        if inst.ac_status.get(st.ac_number) != st:
                            if st.error_code == 0:
                                rig.client_err[st.ac_number] = None
                            elif "error_info" not in rig.console.mute:
                                # the client asks for the error text; the console answers with what it holds
                                text = inst.errors.get(st.ac_number)
                                rig.client_err[st.ac_number] = text.encode() if text else None
                            # (unanswered: the client keeps whatever text it holds)
                        inst.ac_status[st.ac_number] = st
                    msg = inst.wrap(inst.m["astat"].AcStatusMessage(unknown + sts + unknown))
                elif k == 1 and inst.zones:
                    sub = rng.sample(sorted(inst.zones), rng.randrange(1, len(inst.zones) + 1))
                    sts = [rand_zone_status(inst, rng, z) for z in sub] + ([rand_zone_status(inst, rng, sub[0])] if rng.random() < 0.3 else [])
                    for st in sts:
                        inst.zone_status[st.group_number if gen == 4 else st.zone_number] = st
                    cls = inst.m["zstat"].GroupStatusMessage if gen == 4 else inst.m["zstat"].ZoneStatusMessage
                    free = [x for x in range(16) if x not in inst.zones]
                    if free and rng.random() < 0.5:      # records about zones the console never named, anywhere in the frame
                        for _u in range(rng.choice([1, 2])):
                            sts.insert(rng.randrange(len(sts) + 1), rand_zone_status(inst, rng, rng.choice(free)))
                    msg = inst.wrap(cls(sts))
                elif k == 2:
                    t = inst.m["tstat"]
                    n = rng.choice(ids)
                    inst.timers[n] = t.AcTimerStatusData(n, t.AcTimerState(rng.random() < 0.5, rng.randrange(24), rng.randrange(60)),
                                                         t.AcTimerState(rng.random() < 0.5, rng.randrange(24), rng.randrange(60)))
                    msg = inst.timer_message(only={n})
                elif k == 3:
                    n = rng.choice(ids)
                    text = rng.choice([None, "ER: 1", "E2"])
                    inst.errors[n] = text
                    rig.client_err[n] = text.encode() if text else None
                    msg = inst.error_message(n)
                else:
                    inst.version = (rng.random() < 0.5, rng.choice([["1.2.3"], ["2.0", "2.1"]]))
                    msg = inst.version_message()
                if k == 4 and inst.version[0] and rng.random() < 0.5 and rig.net.current() is not None:
                    rig.console.pid = (rig.console.pid + 1) % 256
                    rig.console.send(rig.net.current(), sockrun.build_frame(gen, 0xB0, 0x90, rig.console.pid, 0x1F,
                                                                            raw_version_payload(gen, inst.version, rng.choice([2, 0x80, 0xFF]))))
                else:
                    rig.console.push(msg)
                rig.pump()
                script.append(("frame", 0xB0, msg))
                ck.note_case((gen, i, repr(msg)[:80]))
                if not compare(rig, {"gen": gen, "frame": repr(msg)[:300]}):
                    break
            if (bool(rig.at.update_available), list(rig.at.console_versions)) != (inst.version[0], list(inst.version[1])):
                ck.violation("console version getters do not show the latest report",
                             {"gen": gen, "kind": "getter", "trigger": {"class": "getter-version"}, "got": str(rig.at.console_versions)})
        finally:
            rig.close()
        correspond(ck, gen, inst, script, "status history")
    ck.extra["input_distribution"] = dict(sorted(dist.items()))
    ck.sample("AT5 AC status fan speed INTELLIGENT_AUTO_TURBO -> selected INTELLIGENT_AUTO, active TURBO")
    return ck.finish()


# ================================================================================ C12
class RefSubs:
    """the property, written down directly: who must be called after each frame"""

    def __init__(self, rig_snapshot_acs: dict) -> None:
        self.zone: dict[int, set] = {}
        self.ac: dict[int, set] = {}
        self.ac_state: dict[int, set] = {}
        self.at: set = set()
        self.owner = {z: a for a, d in rig_snapshot_acs.items() for z in d["zones"]}
        self.owners = {}
        for a, d in rig_snapshot_acs.items():
            for z in d["zones"]:
                self.owners.setdefault(z, []).append(a)

    def sub(self, kind, ent, n):
        tgt = {0: self.zone, 1: self.zone, 2: self.ac, 3: self.ac, 4: self.ac_state, 5: self.ac_state}.get(kind)
        if kind in (6, 7):
            (self.at.add if kind == 6 else self.at.discard)(n)
            return
        if kind in (0, 1) and ent not in self.owners:
            return
        if kind in (2, 3, 4, 5) and ent not in {a for l in self.owners.values() for a in l} | set(self.known_acs):
            return
        s = tgt.setdefault(ent, set())
        (s.add if kind % 2 == 0 else s.discard)(n)

    known_acs: set = set()

    def zone_changed(self, z) -> list:
        out = [(n, z) for n in self.zone.get(z, ())]
        for a in self.owners.get(z, []):
            out += [(n, a) for n in self.ac.get(a, ())]
        return out

    def ac_changed(self, a) -> list:
        return [(n, a) for n in self.ac.get(a, set()) | self.ac_state.get(a, set())]


def check_c12(tier: str) -> int:
    ck, ok = start_check("C12", tier,
        "random installations; after the handshake: random placements of subscribe / unsubscribe (zone, AC general, AC-state-only, "
        "AirTouch; the same callback subscribed twice, in both AC sets, unsubscribed and re-subscribed; any subset of subscribers "
        "raising) between changed and unchanged status / timer / error / version frames (repeats, subsets, unknown ids); the "
        "invocations recorded after every frame are compared as multisets (a) with the client core model, (b) with a reference "
        "written directly from the property; unhandled-exception handler must stay silent and later frames must still be received; "
        "non-trivial/distinct = distinct frames with at least one subscriber registered",
        ["that an exception raised by one subscriber does not stop asyncio.as_completed from delivering the others, nor the read loop, "
         "is CPython behaviour: asserted by the model (outputs do not depend on who raises), sampled by the tie"])
    if not ok:
        return ck.finish()
    rng = random.Random(ck.seed * 15485863 + 12)
    dist = Counter()
    for i in range(300 if tier == "quick" else 5000):
        gen = 4 + (i % 2)
        inst = rand_installation(gen, rng)
        if not inst.acs:
            continue
        raising = frozenset(n for n in range(40) if rng.random() < 0.25)
        script = [("init",), ("connected",)] + [answer_stimulus(inst, k) for k in range(6)]
        ids = [a.number for a in inst.acs]
        zids = sorted(z for a in inst.acs for z in expected_zones(inst, a) if z in inst.zones)
        expect = []          # per appended stimulus: expected invocations or None (not decided by the reference)
        ref = RefSubs({a.number: {"zones": [z for z in expected_zones(inst, a) if z in inst.zones]} for a in inst.acs})
        ref.known_acs = set(ids)
        last_ac = {n: None for n in ids}
        last_zone = {z: None for z in zids}
        # the handshake delivered these:
        for n in ids:
            last_ac[n] = inst.ac_status[n]
        for z in zids:
            last_zone[z] = inst.zone_status[z]
        last_timer = {n: (inst.timers[n] if gen == 5 or n < 4 else None) for n in ids}
        last_err = {n: None for n in ids}
        last_ver = inst.version
        for _ in range(rng.choice([8, 16, 30])):
            k = rng.randrange(10)
            if k == 9:
                # directed: the same callback in both AC sets (in either order, possibly registered twice), taken out of
                # one of them, then a change of that AC - membership of the two sets is independent, each is a set
                n = rng.choice(ids)
                sid = rng.randrange(10, 13)
                first, second = rng.choice([(2, 4), (4, 2), (2, 2), (4, 4)])
                out = rng.choice([3, 5])
                for kind in (first, second, out):
                    script.append(("sub", kind, n, sid))
                    ref.sub(kind, n, sid)
                    expect.append([])
                st = rand_ac_status(inst, rng, n)
                script.append(("frame", 0xB0, inst.wrap(inst.m["astat"].AcStatusMessage([st]))))
                changed = st != last_ac[n]
                expect.append(ref.ac_changed(n) if changed else [])
                if changed and st.error_code == 0:
                    last_err[n] = None
                last_ac[n] = st
                dist["directed-both-sets"] += 1
                continue
            if k < 3:
                kind = rng.randrange(8)
                ent = rng.choice(zids) if kind in (0, 1) and zids else (rng.choice(ids) if kind in (2, 3, 4, 5) else 0)
                if kind in (0, 1) and not zids:
                    continue
                n = {0: rng.randrange(0, 3), 1: rng.randrange(0, 3), 2: rng.randrange(10, 13), 3: rng.randrange(10, 13),
                     4: rng.randrange(10, 14), 5: rng.randrange(10, 14), 6: rng.randrange(30, 32), 7: rng.randrange(30, 32)}[kind]
                script.append(("sub", kind, ent, n))
                ref.sub(kind, ent, n)
                expect.append([])
                dist["subscribe-ops"] += 1
            elif k < 5 and zids:
                z = rng.choice(zids)
                st = rand_zone_status(inst, rng, z) if rng.random() < 0.6 else last_zone[z]
                script.append(("frame", 0xB0, inst.wrap((inst.m["zstat"].GroupStatusMessage if gen == 4 else inst.m["zstat"].ZoneStatusMessage)([st]))))
                expect.append(ref.zone_changed(z) if st != last_zone[z] else [])
                dist["zone-frame-" + ("changed" if st != last_zone[z] else "repeat")] += 1
                last_zone[z] = st
            elif k < 7:
                n = rng.choice(ids)
                st = rand_ac_status(inst, rng, n) if rng.random() < 0.6 else last_ac[n]
                script.append(("frame", 0xB0, inst.wrap(inst.m["astat"].AcStatusMessage([st]))))
                changed = st != last_ac[n]
                expect.append(ref.ac_changed(n) if changed else [])
                if changed and st.error_code == 0:
                    last_err[n] = None
                dist["ac-frame-" + ("changed" if changed else "repeat")] += 1
                last_ac[n] = st
            elif k == 7 and rng.random() < 0.5:
                n = rng.choice(ids)
                if gen == 4 and n > 3:
                    continue
                t = inst.m["tstat"]
                tm = (t.AcTimerStatusData(n, t.AcTimerState(rng.random() < 0.5, rng.randrange(24), rng.randrange(60)),
                                          t.AcTimerState(rng.random() < 0.5, rng.randrange(24), rng.randrange(60)))
                      if rng.random() < 0.6 else last_timer[n])
                inst.timers[n] = tm
                script.append(("frame", 0xB0, inst.timer_message(only={n})))
                if gen == 4:
                    # the AirTouch 4 frame always carries all four timers: the others are repeats
                    expect.append(ref.ac_changed(n) if tm != last_timer[n] else [])
                else:
                    expect.append(ref.ac_changed(n) if tm != last_timer[n] else [])
                dist["timer-frame-" + ("changed" if tm != last_timer[n] else "repeat")] += 1
                last_timer[n] = tm
            elif k == 7:
                n = rng.choice(ids)
                text = rng.choice([None, "E1", "E2"])
                inst.errors[n] = text
                script.append(("frame", 0xB0, inst.error_message(n)))
                expect.append(ref.ac_changed(n) if text != last_err[n] else [])
                last_err[n] = text
                dist["error-frame"] += 1
            else:
                ver = (rng.random() < 0.5, rng.choice([["1.2.3"], ["2.0"]]))
                inst.version = ver
                if ver[0] and rng.random() < 0.5:
                    script.append(("rawframe", 0xB0, 0x1F, raw_version_payload(gen, ver, rng.choice([2, 0x80, 0xFF])), inst.version_message()))
                else:
                    script.append(("frame", 0xB0, inst.version_message()))
                expect.append([(s, 0) for s in ref.at] if (ver[0], list(ver[1])) != (last_ver[0], list(last_ver[1])) else [])
                last_ver = ver
                dist["version-frame"] += 1
        # a final probe frame: reception still works after raising subscribers
        iper, isnap, mper, msnap, unh = run_both(gen, inst, script, raising)
        ck.count(len(script) - 8)
        ck.note_case((gen, i))
        base = 8
        replay = {"gen": gen, "script": fmt_script(script), "raising_subscribers": sorted(raising)}
        for j, exp in enumerate(expect):
            got = iper[base + j][1]
            if exp is not None and sorted(exp) != got:
                ck.violation("subscriber invocations differ from what the property requires",
                             dict(replay, kind="notifications", trigger={"class": "notify"}, stimulus_index=base + j,
                                  stimulus=fmt_script([script[base + j]])[0], invoked=got, required=sorted(exp)))
                break
        if unh:
            ck.violation("an exception from a subscriber reached the loop's handler", dict(replay, kind="unhandled", trigger={"class": "unhandled"}))
        d = CT.first_difference(iper, isnap, mper, msnap, script)
        if d:
            dist["correspondence_disagreements"] += 1
            if dist["correspondence_disagreements"] <= 2:      # (leave room among the reported violations for failing inputs)
                ck.violation("client core model and implementation disagree",
                             dict(replay, kind="correspondence", first_difference=d,
                                  correspondence=f"coq/api/Core.v + Client{gen}.v (model case 60) vs pyairtouch.at{gen}.api"), found_input=False)
    in_flight_subscriptions(ck, dist)
    ck.extra["input_distribution"] = dict(sorted(dist.items()))
    ck.sample("zone 2 of AC 0 changes: zone subscriber and AC general subscribers invoked, AC-state-only subscriber not")
    return ck.finish()


def in_flight_subscriptions(ck, dist) -> None:
    """unsubscribe() while a change is being processed.  The transport is under back-pressure; an AC status with a new
    fault code arrives, the client's request for the fault text waits; meanwhile the application unsubscribes one callback.
    'Unsubscribing stops further calls': that callback is not invoked once the transport resumes; a callback that stays
    subscribed is invoked exactly once for the change."""
    import dataclasses
    for gen in (4, 5):
        for which in ("general", "ac-state"):
            inst = console.simple_installation(gen, 1, 2)
            rig = console.ApiRig(inst)
            try:
                r, _ = rig.init()
                if r != ("ok", True):
                    init_failed(ck, rig, r, "unsubscribe while a change is in flight (C12)")
                    continue
                ck.count()
                dist["unsubscribe_while_change_in_flight"] += 1
                ac = rig.at.air_conditioners[0]
                n = inst.acs[0].number
                calls = {"leaver": 0, "stayer": 0}

                async def leaver(_id):
                    calls["leaver"] += 1

                async def stayer(_id):
                    calls["stayer"] += 1
                sub, unsub = (ac.subscribe, ac.unsubscribe) if which == "general" else (ac.subscribe_ac_state, ac.unsubscribe_ac_state)
                sub(leaver)
                sub(stayer)
                proto = rig.net.current().transport.get_protocol()
                st = inst.ac_status[n]
                new = dataclasses.replace(st, error_code=21, set_point=(st.set_point + 1) if gen == 4 else round(st.set_point * 10 + 10) / 10.0)
                proto.pause_writing()
                try:
                    inst.ac_status[n] = new
                    rig.console.push(inst.ac_status_message(only={n}))
                    rig.pump()
                    early = dict(calls)
                    unsub(leaver)
                finally:
                    proto.resume_writing()
                rig.pump()
                rig.advance(2 * TICK)
                late = calls["leaver"] - early["leaver"]
                replay = {"kind": "notifications-in-flight", "gen": gen, "subscriber_set": which,
                          "trigger": {"class": "notify-in-flight", "gen": gen},
                          "history": "two callbacks subscribed; transport paused; AC status with a new fault code and set-point received; "
                                     "first callback unsubscribed; transport resumed",
                          "invocations_before_unsubscribe": early, "invocations_in_total": dict(calls)}
                if late:
                    ck.violation("a callback was invoked after its unsubscribe() had returned",
                                 dict(replay, failure=f"{late} invocation(s) of the unsubscribed callback after unsubscribe() returned"))
                if calls["stayer"] != 1:
                    ck.violation("subscriber invocations differ from what the property requires",
                                 dict(replay, failure=f"the callback that stayed subscribed was invoked {calls['stayer']} times for one change"))
            finally:
                rig.close()


# ================================================================================ C14
def check_c14(tier: str) -> int:
    ck, ok = start_check("C14", tier,
        "random installations, initialised clients with subscribers on every entity: (a) connection loss at random instants, console "
        "state mutated (or not) during the outage, outage lengths 1 tick .. 90 s (refused dials in between), then reconnection: the "
        "first requests on the new connection, the getters after the answers, the notifications (none when nothing changed); "
        "(b) AirTouch 4 poll: random histories of group status arrivals, time advances around 300 s, outages; instants of group status "
        "requests at the console against the extracted poll model (case 61) and against 'last group status or poll + 300 s'; "
        "(c) reconnect scripts on the client core model; non-trivial/distinct = distinct (installation, outage/gap pattern)",
        ["timer-vs-data ordering at exactly coinciding instants follows CPython (timer first) and is avoided by the scripts",
         "heartbeat requests (version requests every 300 s) are ignored when counting refresh requests"])
    if not ok:
        return ck.finish()
    rng = random.Random(ck.seed * 32452843 + 14)
    dist = Counter()
    # (a) refresh after reconnection
    for i in range(120 if tier == "quick" else 2000):
        gen = 4 + (i % 2)
        inst = rand_installation(gen, rng)
        rig = console.ApiRig(inst, rng, record_sends=True)
        rig.console.stride_pad = rng.choice([0, 0, 2, 4, 12]) if gen == 5 else 0
        rig.client_err = {}
        calls = []
        try:
            r, _ = rig.init()
            if r != ("ok", True):
                init_failed(ck, rig, r, "refresh after reconnection (C14)")
                continue
            expect_init_errors(rig)

            async def cb(ident):
                calls.append(ident)
            for ac in rig.at.air_conditioners:
                ac.subscribe(cb)
                ac.subscribe_ac_state(cb)
                for z in ac.zones:
                    z.subscribe(cb)
            rig.advance(rng.choice([0, 1, 1000, 100 * TICK]))
            mutate = rng.random() < 0.6
            outage = rng.choice([1, 5, 2 * TICK, 10 * TICK, 31 * TICK, 90 * TICK])
            ck.count()
            ck.note_case((gen, i, mutate, outage))
            dist[f"at{gen}_{'mutated' if mutate else 'unchanged'}_outage{outage // TICK}s"] += 1
            if rng.random() < 0.3:
                rig.burn_packet_ids(rng.choice([254, 255]))      # the refresh requests straddle the wrap of the packet counter
                dist[f"at{gen}_refresh_at_counter_wrap"] += 1
            n_before = len(rig.console.requests)
            rig.net.accept = outage <= 1
            cur = rig.net.current()
            cur.transport.peer_reset()
            rig.pump()
            if mutate:
                for a in inst.acs:
                    inst.ac_status[a.number] = rand_ac_status(inst, rng, a.number, error=inst.ac_status[a.number].error_code)
                for z in inst.zones:
                    inst.zone_status[z] = rand_zone_status(inst, rng, z)
            unencodable = False
            if outage > 1 and outage <= 10 * TICK and rng.random() < 0.4:
                # a command that cannot be encoded (value outside the wire format) is pending when the link comes back:
                # it is dropped at the flush; the refresh must still take place
                zs = [z for ac in rig.at.air_conditioners for z in ac.zones if z.has_temp_sensor]
                if zs:
                    rig.start(zs[0].set_target_temperature(300.0))
                    unencodable = True
                    dist[f"at{gen}_unencodable_command_pending"] += 1
            calls.clear()
            rig.advance(outage)
            rig.net.accept = True
            rig.advance(3 * TICK)
            replay = {"gen": gen, "mutated": mutate, "outage_ticks": outage, "unencodable_command_pending": unencodable,
                      "trigger": {"class": "refresh"}}
            new_conn = rig.net.current()
            reqs = [q for q in rig.console.requests[n_before:] if new_conn is not None and q[1] == new_conn.cid]
            kinds = [q[2] for q in reqs if q[2] != "error_info"]
            if not rig.sock.is_connected or kinds[:2] != ["ac_status", "zone_status"]:
                ck.violation("no immediate status refresh after the reconnection",
                             dict(replay, failure=f"connected={rig.sock.is_connected}; first requests on the new connection: {kinds[:4]}"))
            else:
                got, want = all_getters(rig), expected_getters(rig)
                bad = [k for k in got if got[k] != want.get(k)]
                if bad:
                    ck.violation("the model did not converge to the console's state after the refresh",
                                 dict(replay, failure=f"{bad[0]}: {got[bad[0]]} vs {want.get(bad[0])}"))
                if not mutate and calls:
                    ck.violation("a refresh that returned unchanged data caused notifications", dict(replay, failure=f"invoked with {calls[:6]}"))
        finally:
            rig.close()
        # (a') ten commands pending at the reconnection (the send queue is full), then an ordinary outage
        if i % 6 in (0, 3):
            rig = console.ApiRig(inst, rng, record_sends=True)
            try:
                r, _ = rig.init()
                if r == ("ok", True):
                    ck.count()
                    dist[f"at{gen}_queue_full_then_second_outage"] += 1
                    ac = rig.at.air_conditioners[0]
                    rig.net.accept = False
                    rig.net.current().transport.peer_reset()
                    rig.pump()
                    for j in range(10):
                        rig.run(ac.set_target_temperature(20 + j % 5))
                    mark = len(rig.console.requests)
                    rig.net.accept = True
                    rig.advance(3 * TICK)
                    conn = rig.net.current()
                    kinds = [q[2] for q in rig.console.requests[mark:] if conn is not None and q[1] == conn.cid and q[2] in ("ac_status", "zone_status")]
                    if kinds[:2] != ["ac_status", "zone_status"]:
                        ck.violation("no status refresh after a reconnection with a full send queue",
                                     {"gen": gen, "kind": "refresh", "trigger": {"class": "refresh-queue-full"},
                                      "failure": f"ten accepted commands were pending when the link came back; refresh requests on the new connection: {kinds}"})
                    rig.advance(40 * TICK)
                    mark = len(rig.console.requests)
                    rig.net.current().transport.peer_reset()
                    rig.pump()
                    rig.advance(3 * TICK)
                    conn = rig.net.current()
                    kinds = [q[2] for q in rig.console.requests[mark:] if conn is not None and q[1] == conn.cid and q[2] in ("ac_status", "zone_status")]
                    if kinds[:2] != ["ac_status", "zone_status"]:
                        ck.violation("no status refresh after an ordinary reconnection that followed a full-queue reconnection",
                                     {"gen": gen, "kind": "refresh", "trigger": {"class": "refresh-after-queue-full"}, "failure": f"refresh requests: {kinds}"})
            finally:
                rig.close()
        # (c) reconnect on the model
        script = [("init",), ("connected",)] + [answer_stimulus(inst, k) for k in range(6)]
        script += [("sub", 2, inst.acs[0].number, 11), ("drop",), ("connected",), ("frame", 0xB0, inst.ac_status_message()),
                   ("frame", 0xB0, answer_stimulus(inst, 5)[2])]
        correspond(ck, gen, inst, script, "reconnect")
    # (b) AirTouch 4 poll
    for i in range(120 if tier == "quick" else 2000):
        inst = rand_installation(4, rng)
        rig = console.ApiRig(inst, rng)
        try:
            r, _ = rig.init()
            if r != ("ok", True):
                init_failed(ck, rig, r, "AT4 poll histories (C14)")
                continue
            if rng.random() < 0.3:
                # a client that was shut down and initialised again polls like a fresh one
                rig.run(rig.at.shutdown())
                rig.advance(rng.choice([0, 5 * TICK]))
                r, _ = rig.init()
                dist["poll_after_reinit"] += 1
                if r != ("ok", True):
                    ck.violation("init() after shutdown() did not succeed", {"kind": "reinit", "trigger": {"class": "reinit"}, "failure": str(r)})
                    continue
            t0 = rig.now_ticks()
            ops = [0]
            mark = len(rig.console.requests)
            rig.console.silent_from = 99
            auto_answer = rng.random() < 0.5
            # the console bug the poll works around: for the rest of this history the console publishes no group status
            # on its own AND leaves group status requests unanswered (a poll re-arms the deadline by itself; a refresh
            # after a reconnection then brings no group status, so the model is not told of one)
            stuck = rng.random() < 0.3
            if stuck:
                rig.console.mute = set(rig.console.mute) | {"zone_status"}
                dist["poll_console_stuck"] += 1
            hist = []
            refresh_at = set()

            seen_cids = {q[1] for q in rig.console.requests}

            def tracked_step(step, connected):
                """advance `step` ticks (no deadline strictly inside); a reconnection inside it (after an outage, or
                forced by the heartbeat) brings a refresh whose answer is a group status: tell the model when"""
                m0 = len(rig.console.requests)
                begin = rig.now_ticks()
                rig.advance(step)
                cursor = begin
                for q in rig.console.requests[m0:]:
                    if q[2] == "zone_status" and q[1] not in seen_cids:
                        seen_cids.add(q[1])
                        r = int(round(q[0] * 1024))
                        refresh_at.add(r - t0)
                        ops.extend([3, r - cursor, 0] + ([] if stuck else [2]))
                        cursor = r
                        dist["poll_refreshes_seen"] += 1
                if begin + step - cursor > 0 or cursor == begin:
                    ops.extend([3, begin + step - cursor, 1 if connected else 0])

            def advance_tracked(dt):
                """advance deadline by deadline so that connectivity is sampled where the model needs it"""
                end = rig.now_ticks() + dt
                while True:
                    res = common.run_model([[POLL] + ops])[0]
                    dead = res[-2]
                    now = rig.now_ticks() - t0
                    if dead > end - t0:
                        break
                    tracked_step(dead - now, rig.sock_connected())
                rest = end - rig.now_ticks()
                if rest > 0:
                    tracked_step(rest, rig.sock_connected())

            def next_deadline():
                return common.run_model([[POLL] + ops])[0][-2] + t0

            for _ in range(rng.choice([3, 6, 10])):
                k = rng.randrange(11)
                if stuck and k < 3:
                    k = 10 if rng.random() < 0.5 else 5
                if k < 3:
                    # unsolicited group status (never exactly on the deadline)
                    rig.console.push(inst.zone_status_message())
                    rig.pump()
                    ops.append(2)
                    hist.append(("gs", rig.now_ticks() - t0))
                elif k == 10:
                    # an outage (possibly across one or more deadlines: nothing is requested then), the reconnection
                    # with its refresh (whose answer is a group status), then whatever follows
                    dur = rng.choice([20 * TICK + 7, 250 * TICK + 13, 310 * TICK + 5, 700 * TICK + 11])
                    rig.net.accept = False
                    cur = rig.net.current()
                    if cur is not None:
                        cur.transport.peer_reset()
                    rig.pump()
                    dl = next_deadline() - rig.now_ticks()
                    if 25 * TICK < dl < dur - 15 * TICK and rng.random() < 0.6:
                        # ten commands are issued during the outage, 20 s before a poll deadline: at the deadline the send
                        # queue is full of unexpired messages (nothing may be requested then, and nothing may break)
                        advance_tracked(dl - 20 * TICK)
                        ac0 = rig.at.air_conditioners[0]
                        for _c in range(10):
                            rig.start(ac0.set_power(T.POWER_CTL[1 + _c % 2]))
                        dist["poll_deadline_with_full_queue"] += 1
                        advance_tracked(dur - (dl - 20 * TICK))
                    else:
                        advance_tracked(dur)
                    while next_deadline() - rig.now_ticks() <= 3 * TICK + 8:
                        advance_tracked(5 * TICK)          # keep the reconnection clear of a deadline
                    rig.net.accept = True
                    advance_tracked(3 * TICK)
                    hist.append(("outage", dur))
                    dist["poll_outages"] += 1
                else:
                    dt = rng.choice([10 * TICK, 100 * TICK, 299 * TICK, 299 * TICK + 1023, 300 * TICK + 1, 301 * TICK, 650 * TICK, 1000 * TICK])
                    advance_tracked(dt)
                    hist.append(("adv", dt))
                # the console answered polls automatically: each answer is a group status (re-arms the deadline)
            got = [int(round(q[0] * 1024)) - t0 for q in rig.console.requests[mark:] if q[2] == "zone_status"]
            got = [t for t in got if t not in refresh_at]
            # answers to the poll re-arm the deadline at the same instant: tell the model
            res = common.run_model([[POLL] + ops])[0]
            want = res[:-3]
            ck.count()
            ck.note_case((4, "poll", i))
            dist["poll_histories"] += 1
            dist["poll_requests"] += len(got)
            if got != want:
                ck.violation("group status poll instants differ from the model",
                             {"kind": "poll", "history": hist, "console_answers_group_status_requests": not stuck, "requests_at_ticks": got, "model": want, "trigger": {"class": "poll"},
                              "failure": "a group status request is due exactly 300 s after the last group status / poll while connected"})
        finally:
            rig.close()
    ck.extra["input_distribution"] = dict(sorted(dist.items()))
    ck.sample("AT4: no group status for 300 s after init -> request at 300 s, answered; next at 600 s")
    return ck.finish()


def main() -> int:
    ap = argparse.ArgumentParser()
    ap.add_argument("prop", choices=["C09", "C10", "C12", "C14"])
    ap.add_argument("--tier", default="quick", choices=["quick", "thorough"])
    a = ap.parse_args()
    return {"C09": check_c09, "C10": check_c10, "C12": check_c12, "C14": check_c14}[a.prop](a.tier)


if __name__ == "__main__":
    sys.exit(main())
