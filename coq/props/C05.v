(* C05 — Status frames are interpreted as the vendor protocol defines. *)
From Coq Require Import NArith ZArith List Bool Lia.
From PV Require Import base.Res base.Utf8 at4.Msg4 at4.Codec4 at5.Msg5 at5.Codec5
  spec.Spec4 spec.Spec5 spec.Conform4 spec.Conform5.
Import ListNotations.
Open Scope N_scope.

(* Spec4.v / Spec5.v transcribe the two vendor documents (bit tables, bytes from 1, bits
   8..1, division/remainder); Codec4.v / Codec5.v model the Python decoders.  Each theorem
   quantifies over EVERY value of every byte of a record. *)

(* ---- AirTouch 4 group status: every field equals the document's reading; the only
   rejected records are those with the undefined power code 10 *)
Theorem C05_at4_group_status : forall b1 b2 b3 b4 b5 b6,
  b1 < 256 -> b2 < 256 -> b3 < 256 -> b4 < 256 -> b5 < 256 -> b6 < 256 ->
  let s := read_group_status b1 b2 b3 b4 b5 b6 in
  match dec_group_status1 [b1; b2; b3; b4; b5; b6] with
  | Some g => group_status_agrees g s
  | None => sg_power s = Undefined
  end.
Proof. exact conf_group_status. Qed.
Print Assumptions C05_at4_group_status.

(* ---- AirTouch 4 AC status.  PARTIAL: the temperature clause holds unless byte 5 is the
   not-available sentinel ... *)
Theorem C05_at4_ac_status_partial : forall b1 b2 b3 b4 b5 b6 b7 b8,
  b1 < 256 -> b2 < 256 -> b3 < 256 -> b4 < 256 -> b5 < 256 -> b6 < 256 -> b7 < 256 -> b8 < 256 ->
  let s := read_ac_status b1 b2 b3 b4 b5 b6 b7 b8 in
  match dec_ac_status1 [b1; b2; b3; b4; b5; b6; b7; b8] with
  | Some a => ac_status_agrees a s b5
  | None => sa_power s = NotAvailable \/ sa_mode s = NotAvailable \/ sa_fan s = NotAvailable
  end.
Proof. exact conf_ac_status_partial. Qed.
Print Assumptions C05_at4_ac_status_partial.

(* ... and the full statement is false of the code (known finding, trigger "at4-ac-temp-ff") *)
Theorem C05_at4_ac_status_temp_refuted :
  exists a, dec_ac_status1 [0x40; 0x42; 0x1A; 0; 0xFF; 0; 0; 0] = Some a /\
            sa_temp (read_ac_status 0x40 0x42 0x1A 0 0xFF 0 0 0) = NotAvailable /\ as_temp a = 1540%Z.
Proof. exact conf_ac_status_temp_refuted. Qed.
Print Assumptions C05_at4_ac_status_temp_refuted.

(* ---- AirTouch 4 AC ability records, old format (24 bytes) and new format (26 bytes with
   the group display bitmap, little-endian, bit g <-> group g) *)
Theorem C05_at4_ability : forall r,
  Forall (fun b => b < 256) r ->
  (length r = 24%nat /\ byte r 1 <> 24) \/ (length r = 26%nat /\ byte r 1 = 24) ->
  match dec_abilities 2 r with
  | Some [a] => ability_agrees a (read_ability r)
  | Some _ => False
  | None => utf8_valid (sb_name (read_ability r)) = false
  end.
Proof. exact conf_ability. Qed.
Print Assumptions C05_at4_ability.

Theorem C05_at4_group_name : forall r, length r = 9%nat ->
  match dec_name1 r with
  | Some e => e = read_group_name r
  | None => utf8_valid (snd (read_group_name r)) = false
  end.
Proof. exact conf_group_name. Qed.
Print Assumptions C05_at4_group_name.

Theorem C05_at4_error_info : forall b, (2 <= length b)%nat -> (2 + N.to_nat (byte b 1) <= length b)%nat ->
  match dec_sub 0xFF10 (length b) b with
  | Some (S_ErrMsg ac info, rest) => (ac, info) = read_error_info b /\ rest = skipn (2 + N.to_nat (byte b 1)) b
  | Some _ => False
  | None => exists e, snd (read_error_info b) = Some e /\ utf8_valid e = false
  end.
Proof. exact conf_error_info. Qed.
Print Assumptions C05_at4_error_info.

Theorem C05_at4_version : forall b, (2 <= length b)%nat ->
  match dec_sub 0xFF30 (length b) b with
  | Some (S_Version up vs, rest) => (up, vs) = read_version VERSION_SEP b
  | Some _ => False
  | None => utf8_valid (firstn (N.to_nat (byte b 1)) (skipn 2 b)) = false
  end.
Proof. exact conf_version. Qed.
Print Assumptions C05_at4_version.

(* repeated AirTouch 4 records: record i is bytes [i*n, (i+1)*n) *)
Theorem C05_at4_repeat : forall (A : Type) (f : list N -> option A) n (rs : list (list N)) l,
  (0 < n)%nat -> Forall (fun r => length r = n) rs ->
  dec_list n f (concat rs) = Some l -> sequence (map f rs) = Some l.
Proof. exact @conf_repeat. Qed.
Print Assumptions C05_at4_repeat.

(* ---- AirTouch 5 zone status *)
Theorem C05_at5_zone_status : forall b1 b2 b3 b4 b5 b6 b7 b8,
  b1 < 256 -> b2 < 256 -> b3 < 256 -> b4 < 256 -> b5 < 256 -> b6 < 256 -> b7 < 256 ->
  let s := read_zone_status b1 b2 b3 b4 b5 b6 b7 in
  match dec_zone_status1 [b1; b2; b3; b4; b5; b6; b7; b8] with
  | Some z => zone_status_agrees z s
  | None => sz_power s = Undefined
  end.
Proof. exact conf_zone_status. Qed.
Print Assumptions C05_at5_zone_status.

(* ---- AirTouch 5 AC status, for any record tail (stride 8, 10 or longer).  PARTIAL: the
   set-point / temperature clauses hold for raw values 0..250 / 0..2000 ... *)
Theorem C05_at5_ac_status_partial : forall b1 b2 b3 b4 b5 b6 b7 b8 tail,
  b1 < 256 -> b2 < 256 -> b3 < 256 -> b4 < 256 -> b5 < 256 -> b6 < 256 -> b7 < 256 -> b8 < 256 ->
  let s := read_ac5_status b1 b2 b3 b4 b5 b6 b7 b8 in
  match dec_ac5_status1 ([b1; b2; b3; b4; b5; b6; b7; b8] ++ tail) with
  | Some a => ac5_status_agrees a s b3 b5 b6
  | None => s5_power s = NotAvailable \/ s5_mode s = NotAvailable \/ s5_fan s = NotAvailable
  end.
Proof. exact conf_ac5_status_partial. Qed.
Print Assumptions C05_at5_ac_status_partial.

(* ... and the full statement is false of the code (known findings, triggers
   "at5-ac-setpoint-na", "at5-ac-temp-na") *)
Theorem C05_at5_ac_status_refuted :
  exists a, dec_ac5_status1 [0x10; 0x12; 0xFF; 0xC0; 0x07; 0xFF; 0; 0] = Some a /\
            s5_setpoint (read_ac5_status 0x10 0x12 0xFF 0xC0 0x07 0xFF 0 0) = NotAvailable /\ a5s_setpoint a = 355%Z /\
            s5_temp (read_ac5_status 0x10 0x12 0xFF 0xC0 0x07 0xFF 0 0) = NotAvailable /\ a5s_temp a = 1547%Z.
Proof. exact conf_ac5_status_refuted. Qed.
Print Assumptions C05_at5_ac_status_refuted.

(* ---- announced strides are honoured: record i at offset i * stride, known prefix only,
   shorter strides rejected *)
Theorem C05_at5_stride : forall (A : Type) (f : list N -> option A) stride count b l rest,
  dec_repeat count stride f b = Some (l, rest) ->
  length l = count /\ rest = skipn (count * stride) b /\
  forall i, (i < count)%nat -> option_map Some (nth_error l i) = option_map f (Some (skipn (i * stride) b)).
Proof. exact @conf_stride. Qed.
Print Assumptions C05_at5_stride.

Theorem C05_at5_zone_prefix : forall r tail, length r = 8%nat -> dec_zone_status1 (r ++ tail) = dec_zone_status1 r.
Proof. exact conf_zone_status_prefix. Qed.
Print Assumptions C05_at5_zone_prefix.

Theorem C05_at5_short_stride : forall id nrl rl rc b,
  (id = 0x21 \/ id = 0x23) -> (0 < rl < 8)%nat -> dec_c0_body id nrl rl rc b = None.
Proof. exact conf_short_stride. Qed.
Print Assumptions C05_at5_short_stride.

(* ---- AirTouch 5 ability, zone names, error information, version *)
Theorem C05_at5_ability : forall r, Forall (fun b => b < 256) r -> length r = 26%nat ->
  match dec_ability5 r with
  | Some a => ability5_agrees a (read_ability5 r)
  | None => utf8_valid (s5b_name (read_ability5 r)) = false
  end.
Proof. exact conf_ability5. Qed.
Print Assumptions C05_at5_ability.

Theorem C05_at5_zone_names : forall fuel b l, dec_names5 fuel b = Some l -> read_zone_names fuel b = Some l.
Proof. exact conf_zone_names. Qed.
Print Assumptions C05_at5_zone_names.

Theorem C05_at5_zone_names_reject : forall fuel b, (length b <= fuel)%nat -> dec_names5 fuel b = None ->
  read_zone_names fuel b = None \/
  exists l, read_zone_names fuel b = Some l /\ existsb (fun e => negb (utf8_valid (snd e))) l = true.
Proof. exact conf_zone_names_reject. Qed.
Print Assumptions C05_at5_zone_names_reject.

Theorem C05_at5_error_info : forall b, (2 <= length b)%nat -> (2 + N.to_nat (byte b 1) <= length b)%nat ->
  match dec_sub5 0xFF10 (length b) b with
  | Some (S5_ErrMsg ac info, rest) => (ac, info) = read_error_info b /\ rest = skipn (2 + N.to_nat (byte b 1)) b
  | Some _ => False
  | None => exists e, snd (read_error_info b) = Some e /\ utf8_valid e = false
  end.
Proof. exact conf_error_info5. Qed.
Print Assumptions C05_at5_error_info.

Theorem C05_at5_version : forall b, (2 <= length b)%nat ->
  match dec_sub5 0xFF30 (length b) b with
  | Some (S5_Version up vs, rest) => (up, vs) = read_version VERSION_SEP5 b
  | Some _ => False
  | None => utf8_valid (firstn (N.to_nat (byte b 1)) (skipn 2 b)) = false
  end.
Proof. exact conf_version5. Qed.
Print Assumptions C05_at5_version.

(* non-vacuity: the vendor documents' own example records *)
Example C05_doc_examples :
  (* AT4 group 2 of the example response: on, 100 %, set-point 26, sensor, 28.0 degC *)
  dec_group_status1 [0x41; 0xE4; 0x1A; 0x80; 0x61; 0x80] =
    Some (mkGS 1 GPS_On GMS_Temperature false false true Bat_Normal (Some 280%Z) 100 (Some 26)) /\
  (* AT5 zone 1 of the example response: on, temperature control, set-point 25.0, 24.3 degC *)
  dec_zone_status1 [0x40; 0x80; 0x96; 0x80; 0x02; 0xE7; 0x00; 0x00] =
    Some (mkZS 0 ZPS_On false ZMS_Temperature true Bat_Normal (Some 243%Z) 0 (Some 250%Z)) /\
  (* AT5 AC 0 of the example response: on, heat, low, 22.0, 23.0 degC *)
  dec_ac5_status1 [0x10; 0x12; 0x78; 0xC0; 0x02; 0xDA; 0; 0; 0x80; 0] =
    Some (mkA5S 0 A5S_On AMS_Heat A5FS_Low false false false false 220%Z 230%Z 0).
Proof. vm_compute. repeat split; reflexivity. Qed.
