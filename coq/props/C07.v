(* C07 — The connection heals itself, never wedges, and stays single. *)
From Coq Require Import ZArith List Bool Lia.
From PV Require Import sock.Sock sock.SockProofs.
Import ListNotations.
Open Scope Z_scope.

(* single + every abandoned connection closed: walking the trace of ANY stimulus list
   (refusals, EOF, resets, garbage, bad CRC, write errors, unencodable messages, sends,
   clock advances, close/open) never finds a second connection opened or dialled while
   one is held, nor a close/write/delivery on a connection other than the held one; the
   connections held at the end are exactly the model's current link *)
Theorem C07_single : forall pid0 ops,
  walk [] (trace (init pid0) ops) = Some (held (fst (run (init pid0) ops))).
Proof. exact trace_walk. Qed.
Print Assumptions C07_single.

(* ... hence the same for every prefix of the trace, with at most one held connection *)
Theorem C07_single_prefix : forall pid0 ops a b,
  trace (init pid0) ops = a ++ b ->
  exists m, walk [] a = Some m /\ (length m <= 1)%nat.
Proof.
  intros pid0 ops a b E. pose proof (trace_walk pid0 ops) as H. rewrite E in H.
  destruct (walk_prefix _ _ _ _ H) as [m Hm]. exists m. split; [exact Hm|].
  exact (walk_le1 a [] m (Nat.le_0_l _) Hm).
Qed.
Print Assumptions C07_single_prefix.

(* never wedged: in every reachable state an open client is either connected with no
   dial in flight, or disconnected with at least one connect task (dialling or sleeping
   out the retry delay) that will act; a closed client has neither *)
Theorem C07_alive : forall pid0 ops, life_ok (fst (run (init pid0) ops)).
Proof. intros pid0 ops. exact (si_life _ (reachable_SInv pid0 ops)). Qed.
Print Assumptions C07_alive.

(* heals in bounded time: from ANY state satisfying the invariants (in particular any
   reachable one) in which the client is open, dials are accepted and no write fault is
   armed: if dt covers the dial in flight — or, when none is in flight, every pending
   wake-up plus one dial latency — then after at most (#sleeping connect tasks + 1) timer
   firings the client is connected, no later than dt after *)
Theorem C07_heals : forall s dt,
  SInv s -> TInv s -> s_open s = true -> s_accept s = true -> s_failw s = false ->
  0 <= dt -> covers s dt ->
  exists m, (m <= length (s_sleeps s) + 1)%nat /\ s_link (advs m dt s) <> None /\
            s_open (advs m dt s) = true /\ s_now (advs m dt s) <= s_now s + dt.
Proof. exact heals. Qed.
Print Assumptions C07_heals.

(* ... with the explicit bound of the design document: during back-off (no dial in
   flight) the retry delay of 2 s plus one connect latency always suffices *)
Theorem C07_heals_backoff : forall s,
  SInv s -> TInv s -> s_open s = true -> s_accept s = true -> s_failw s = false ->
  s_dial s = None ->
  exists m, (m <= length (s_sleeps s) + 1)%nat /\
            s_link (advs m (2048 + s_lat s) s) <> None /\
            s_now (advs m (2048 + s_lat s) s) <= s_now s + 2048 + s_lat s.
Proof. exact heals_backoff. Qed.
Print Assumptions C07_heals_backoff.

(* the invariants used above hold in every reachable state (well-formed stimuli:
   non-negative advances and latencies) *)
Theorem C07_reachable_invariants : forall pid0 ops,
  forallb valid_op ops = true ->
  SInv (fst (run (init pid0) ops)) /\ TInv (fst (run (init pid0) ops)).
Proof. intros pid0 ops Hv. split; [exact (reachable_SInv pid0 ops)|exact (reachable_TInv pid0 ops Hv)]. Qed.
Print Assumptions C07_reachable_invariants.

(* ... still receiving: a frame sent afterwards is delivered *)
Theorem C07_receives : forall s c j, s_link s = Some c -> step s (OPeerFrame j) = (s, [EDeliver j]).
Proof. intros s c j H. cbn. rewrite H. reflexivity. Qed.
Print Assumptions C07_receives.

(* ... still transmitting: a command submitted afterwards is written at once *)
Theorem C07_transmits : forall s c k r life,
  SInv s -> s_open s = true -> s_link s = Some c -> s_failw s = false -> 0 < life ->
  snd (step s (OSend k EncOk r life)) =
  [EAccept (s_nsend s) k (s_pid s) r (s_now s + life);
   EWrote c (s_nsend s) k (s_pid s) (s_now s); ESendOk]
  /\ s_queue (fst (step s (OSend k EncOk r life))) = []
  /\ s_link (fst (step s (OSend k EncOk r life))) = Some c.
Proof. exact send_connected. Qed.
Print Assumptions C07_transmits.

(* an unencodable message queued during an outage neither blocks the messages behind it
   nor costs the connection *)
Theorem C07_unencodable_skipped : forall now c e q,
  e_cls e <> EncOk -> drain_q now c false (e :: q) = drain_q now c false q.
Proof.
  intros now c e q H. cbn. destruct (e_expiry e <=? now); [reflexivity|].
  destruct (e_cls e); [contradiction|reflexivity|reflexivity].
Qed.
Print Assumptions C07_unencodable_skipped.

(* non-vacuity of the multi-task states: a write failure while flushing the queue on a
   fresh connection leaves BOTH an immediate dial and a delayed connect task behind *)
Example C07_witness_two_tasks :
  let s := fst (run (init 0) [OOpen; OFailNextWrite; OSend 0 EncOk 2 30720; OAdv 5]) in
  s_link s = None /\ s_dial s = Some 2 /\ s_sleeps s = [2049] /\ length (s_queue s) = 1%nat.
Proof. vm_compute. repeat split; reflexivity. Qed.
Print Assumptions C07_witness_two_tasks.

(* non-vacuity: one script through every fault kind; at the end connected, receiving,
   transmitting, with 8 connections opened and 7 of them closed or lost *)
Definition c07_script : list op :=
  [OOpen; ONet false 3; OAdv 5; OAdv 3000; OAdv 5; ONet true 2; OAdv 3000; OAdv 5;
   OPeerEof; OAdv 5; OPeerRst; OAdv 5; OPeerBad; OAdv 5; OFailNextWrite; OSend 0 EncOk 2 30720; OAdv 5;
   OSend 9 EncBadWrite 2 30720; OSend 10 EncNoEncoder 2 30720; OReset; OSend 9 EncBadWrite 0 30720;
   OSend 1 EncOk 0 30720; OAdv 5; OPeerFrame 0; OSend 2 EncOk 0 1024].
Example C07_witness :
  let s := fst (run (init 0) c07_script) in
  s_link s = Some 5%nat /\ s_queue s = [] /\
  widx (trace (init 0) c07_script) = [0; 3; 4]%nat /\
  forallb valid_op c07_script = true.
Proof. vm_compute. repeat split; reflexivity. Qed.
Print Assumptions C07_witness.
