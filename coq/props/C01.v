(* C01 — Accepted commands reach the wire once each, in order, unsubstituted. *)
From Coq Require Import ZArith List Bool Lia Sorted.
From PV Require Import sock.Sock sock.SockProofs sock.Drain sock.DrainProofs.
Import ListNotations.
Open Scope Z_scope.

(* nothing is transmitted that was not submitted: every frame written in any run is the
   frame (message k, packet id) of an earlier accepted send with the same ordinal *)
Theorem C01_no_invention : forall pid0 ops c i k pid t,
  In (EWrote c i k pid t) (trace (init pid0) ops) ->
  exists r exp, In (EAccept i k pid r exp) (trace (init pid0) ops) /\ t < exp.
Proof. intros pid0 ops. exact (j_wrote _ _ _ (trace_J pid0 ops)). Qed.
Print Assumptions C01_no_invention.

(* at most once and in acceptance order, for every stimulus list (faults included):
   the ordinals of the written frames are strictly increasing along the whole trace *)
Theorem C01_once_in_order : forall pid0 ops,
  StronglySorted lt (widx (trace (init pid0) ops)).
Proof.
  intros pid0 ops.
  exact (proj1 (sorted_app_inv _ _ (j_sorted _ _ _ (trace_J pid0 ops)))).
Qed.
Print Assumptions C01_once_in_order.

(* promptness, connection coming up: when a dial succeeds, exactly the pending messages
   that are unexpired and encodable are written at that instant, in acceptance order,
   once each, and nothing stays behind *)
Theorem C01_flush_on_connect : forall s,
  s_accept s = true -> s_failw s = false ->
  dial_done s =
  (mkS (s_open s) (Some (s_ncid s)) [] None (s_sleeps s) (s_now s) (s_pid s) (S (s_ncid s)) (s_nsend s)
       (s_accept s) (s_lat s) false,
   EOpen (s_ncid s) :: ENotify true ::
   map (wrote_of (s_ncid s) (s_now s)) (filter (sendable (s_now s)) (s_queue s))).
Proof. exact dial_done_flush. Qed.
Print Assumptions C01_flush_on_connect.

(* promptness, already connected: the message is written within the send call *)
Theorem C01_send_connected : forall s c k r life,
  SInv s -> s_open s = true -> s_link s = Some c -> s_failw s = false -> 0 < life ->
  snd (step s (OSend k EncOk r life)) =
  [EAccept (s_nsend s) k (s_pid s) r (s_now s + life);
   EWrote c (s_nsend s) k (s_pid s) (s_now s); ESendOk]
  /\ s_queue (fst (step s (OSend k EncOk r life))) = []
  /\ s_link (fst (step s (OSend k EncOk r life))) = Some c.
Proof. exact send_connected. Qed.
Print Assumptions C01_send_connected.

(* in every reachable quiescent state, being connected means nothing is pending *)
Theorem C01_nothing_pending_while_connected : forall pid0 ops c,
  s_link (fst (run (init pid0) ops)) = Some c -> s_queue (fst (run (init pid0) ops)) = [].
Proof. intros pid0 ops. exact (si_idle _ (reachable_SInv pid0 ops)). Qed.
Print Assumptions C01_nothing_pending_while_connected.

(* packet ids: after any run the counter equals pid0 + (number of sends that reached the
   header factory) modulo 256 — unbounded in the length of the run *)
Theorem C01_pid_wrap : forall pid0 ops,
  s_pid (fst (run (init pid0) ops)) mod 256 = (pid0 + Z.of_nat (consuming ops)) mod 256.
Proof.
  intros pid0 ops. destruct (run (init pid0) ops) as [s' evss] eqn:Hr.
  exact (run_pid ops _ _ _ Hr).
Qed.
Print Assumptions C01_pid_wrap.

(* frames are written only on the connection that is currently open (never on an
   abandoned one), see also C07_single *)
Theorem C01_on_open_link : forall pid0 ops,
  walk [] (trace (init pid0) ops) = Some (held (fst (run (init pid0) ops))).
Proof. exact trace_walk. Qed.
Print Assumptions C01_on_open_link.

(* non-vacuity: 300 sends across two outages — all hypotheses hold, ids wrap *)
Definition c01_long : list op :=
  OOpen :: OAdv 5 :: repeat (OSend 0 EncOk 2 30720) 120 ++ OPeerRst :: repeat (OSend 1 EncOk 0 30720) 5 ++
  OAdv 5 :: repeat (OSend 2 EncOk 2 30720) 170 ++ OPeerEof :: repeat (OSend 3 EncOk 2 30720) 5 ++ [OAdv 5].
Example C01_witness :
  length (widx (trace (init 250) c01_long)) = 300%nat /\
  s_pid (fst (run (init 250) c01_long)) = (250 + 300) mod 256.
Proof. vm_compute. split; reflexivity. Qed.
Print Assumptions C01_witness.

(* ---- under transport back-pressure (coq/sock/Drain.v): writer.drain() blocks, other tasks keep calling
   send(), the link may go down and come up (fault-free), for every such history: frames are handed to the
   transport in acceptance order, hence each at most once, ... *)
Theorem C01_backpressure_order : forall c ops s tr,
  drun (dinit c) ops = Some (s, tr) -> StronglySorted lt (written tr) /\ NoDup (written tr).
Proof. intros c ops s tr H. split; [exact (drain_order c ops s tr H)|exact (drain_once c ops s tr H)]. Qed.
Print Assumptions C01_backpressure_order.

(* ... nothing is transmitted that was not submitted, ... *)
Theorem C01_backpressure_submitted : forall c ops s tr i t,
  drun (dinit c) ops = Some (s, tr) -> In (DWrote i t) tr -> exists x, In (DAccept i x) tr.
Proof. intros c ops s tr i t H W. destruct (drain_expiry c ops s tr i t H W) as [x [Hx _]]. now exists x. Qed.
Print Assumptions C01_backpressure_submitted.

(* ... and as soon as the client is connected with no drain loop suspended (and the flush that follows the connected
   notification done), every accepted message has been
   transmitted, unless its lifetime had ended (the DDrop ghost event carries the instant: x <= t) *)
Theorem C01_backpressure_complete : forall c ops s tr,
  drun (dinit c) ops = Some (s, tr) -> d_conn s = true -> d_parked s = 0%nat -> d_owed s = false ->
  forall i x, In (DAccept i x) tr -> (exists t, In (DWrote i t) tr) \/ (exists t, In (DDrop i t) tr /\ x <= t).
Proof. exact drain_complete. Qed.
Print Assumptions C01_backpressure_complete.

(* non-vacuity: the flush after a reconnection is suspended on the first frame; two more sends arrive (each
   writes the oldest pending frame and suspends); one entry expires before the transport resumes *)
Example C01_backpressure_witness :
  let ops := [DSend 2 30720; DSend 0 1024; DSend 2 30720; DBp true; DUp; DSend 2 30720; DAdv 2000; DSend 2 30720; DBp false] in
  match drun (dinit false) ops with
  | Some (s, tr) => written tr = [0; 1; 2; 3; 4]%nat /\ d_parked s = 0%nat /\ d_queue s = []
  | None => False
  end /\
  match drun (dinit false) [DSend 2 30720; DSend 0 1024; DBp true; DUp; DAdv 2000; DBp false] with
  | Some (s, tr) => written tr = [0%nat] /\ In (DDrop 1 2000) tr
  | None => False
  end /\
  (* a connection subscriber sends during the connected notification: the pending messages go first *)
  match drun (dinit false) [DSend 2 30720; DSend 2 30720; DConn; DSend 0 1024; DFlush] with
  | Some (s, tr) => written tr = [0; 1; 2]%nat /\ d_queue s = [] /\ d_owed s = false
  | None => False
  end.
Proof. vm_compute. repeat split; try reflexivity. do 3 right. left. reflexivity. Qed.
Print Assumptions C01_backpressure_witness.
