(* C16 — Pending-message buffer is bounded and overflow is explicit.
   Only theorem statements, each closed by [exact], each followed by Print Assumptions. *)
From Coq Require Import ZArith List Bool Lia.
From PV Require Import sock.Sock sock.SockProofs sock.Drain sock.DrainProofs.
Import ListNotations.
Open Scope Z_scope.

(* at most ten messages are held in every reachable state (any stimulus list) *)
Theorem C16_bound : forall pid0 ops,
  (length (s_queue (fst (run (init pid0) ops))) <= 10)%nat.
Proof. intros pid0 ops. exact (si_bound _ (reachable_SInv pid0 ops)). Qed.
Print Assumptions C16_bound.

(* the eleventh unexpired message is refused and the held ones are untouched
   (the queue afterwards is exactly the unexpired part of the queue before) *)
Theorem C16_overflow : forall s k cls r life,
  s_open s = true -> cls <> EncNoEncoder ->
  (10 <= length (filter (unexpired (s_now s)) (s_queue s)))%nat ->
  snd (step s (OSend k cls r life)) = [ESendErr 3] /\
  s_queue (fst (step s (OSend k cls r life))) = filter (unexpired (s_now s)) (s_queue s).
Proof. exact send_overflow. Qed.
Print Assumptions C16_overflow.

(* expired entries are discarded before the capacity check: with fewer than ten
   unexpired entries the message is accepted whatever the raw queue length *)
Theorem C16_expired_first : forall s k cls r life,
  s_open s = true -> s_link s = None -> cls <> EncNoEncoder ->
  (length (filter (unexpired (s_now s)) (s_queue s)) < 10)%nat ->
  snd (step s (OSend k cls r life)) = [EAccept (s_nsend s) k (s_pid s) r (s_now s + life); ESendOk] /\
  s_queue (fst (step s (OSend k cls r life))) =
    filter (unexpired (s_now s)) (s_queue s) ++ [mkEntry (s_nsend s) k cls (s_pid s) r (s_now s + life)].
Proof. exact send_queued. Qed.
Print Assumptions C16_expired_first.

(* ... and an expired message is never transmitted: every write in every run happens
   strictly before the expiry announced when that very message was accepted *)
Theorem C16_expired_never_written : forall pid0 ops c i k pid t,
  In (EWrote c i k pid t) (trace (init pid0) ops) ->
  exists r exp, In (EAccept i k pid r exp) (trace (init pid0) ops) /\ t < exp.
Proof. intros pid0 ops. exact (j_wrote _ _ _ (trace_J pid0 ops)). Qed.
Print Assumptions C16_expired_never_written.

(* sending on a client that is not open raises NotOpen and holds nothing *)
Theorem C16_not_open : forall s k cls r life,
  s_open s = false -> cls <> EncNoEncoder ->
  snd (step s (OSend k cls r life)) = [ESendErr 2] /\
  s_queue (fst (step s (OSend k cls r life))) = s_queue s /\
  s_link (fst (step s (OSend k cls r life))) = s_link s /\
  s_dial (fst (step s (OSend k cls r life))) = s_dial s /\
  s_sleeps (fst (step s (OSend k cls r life))) = s_sleeps s.
Proof. exact send_not_open. Qed.
Print Assumptions C16_not_open.

(* non-vacuity: a concrete run reaches a state holding ten messages in which the
   eleventh is refused, and after the first one expired the next is accepted *)
Definition c16_fill : list op :=
  OOpen :: ONet false 1 :: OSend 0 EncOk 0 1024 :: repeat (OSend 1 EncOk 2 30720) 9.
Example C16_witness :
  let s := fst (run (init 7) c16_fill) in
  s_open s = true /\ length (s_queue s) = 10%nat /\
  snd (step s (OSend 2 EncOk 2 30720)) = [ESendErr 3] /\
  snd (step (fst (step (fst (step s (OAdv 1024))) (OAdv 1024))) (OSend 2 EncOk 2 30720))
    = [EAccept 10 2 17 2 (1025 + 30720); ESendOk].
Proof. vm_compute. repeat split; reflexivity. Qed.
Print Assumptions C16_witness.

(* ---- under transport back-pressure (coq/sock/Drain.v): never more than ten entries are held, whatever is sent
   while drain() is blocked or the link is down; expired entries are discarded and never transmitted *)
Theorem C16_backpressure_bound : forall c ops s tr, drun (dinit c) ops = Some (s, tr) -> (length (d_queue s) <= 10)%nat.
Proof. exact drain_bound. Qed.
Print Assumptions C16_backpressure_bound.

Theorem C16_backpressure_expired_never_sent : forall c ops s tr i t,
  drun (dinit c) ops = Some (s, tr) -> In (DWrote i t) tr -> exists x, In (DAccept i x) tr /\ t < x.
Proof. exact drain_expiry. Qed.
Print Assumptions C16_backpressure_expired_never_sent.
