(* C08 — Heartbeat detects a dead link, and only a dead link. *)
From Coq Require Import ZArith List Bool Lia.
From PV Require Import hb.Heartbeat hb.HeartbeatProofs.
From PV Require Import observed.Obs_C08.
Import ListNotations.
Open Scope Z_scope.

(* the defaults observed from /repo on this run (HeartbeatConfig of the package):
   300 s and 330 s in ticks of 2^-10 s *)
Theorem C08_observed_defaults : obs_interval = 300 * 1024 /\ obs_timeout = 330 * 1024.
Proof. vm_compute. split; reflexivity. Qed.
Print Assumptions C08_observed_defaults.

(* period: for all interval, timeout > 0 — a heartbeat is handed to the socket only at an
   instant start + k * interval ... *)
Theorem C08_period_only : forall interval timeout, 0 < interval -> 0 < timeout ->
  forall t0 s o t, HInv interval timeout t0 s -> h_run s = true ->
  In (HSend t) (snd (hstep interval timeout s o)) -> exists k, 0 <= k /\ t = t0 + k * interval.
Proof. intros interval timeout _ _. exact (step_sends interval timeout). Qed.
Print Assumptions C08_period_only.

(* ... and at every such instant reached while connected one is sent *)
Theorem C08_period_every : forall interval timeout s dt, h_run s = true ->
  h_next s <= h_dead s -> h_next s <= h_now s + dt ->
  hstep interval timeout s (HAdv dt true) =
  (mkH true (h_next s + interval) (h_dead s) (h_next s), [HSend (h_next s); HTime (h_next s)]).
Proof. exact adv_sends. Qed.
Print Assumptions C08_period_every.

(* the invariant (next heartbeat = start + k*interval, k >= 1; timers not in the past;
   deadline at most one timeout away) holds from start() on, for all stimuli *)
Theorem C08_invariant_start : forall interval timeout, 0 < interval -> 0 < timeout ->
  forall s c, h_run s = false -> HInv interval timeout (h_now s) (fst (hstep interval timeout s (HStart c))).
Proof. intros; eapply start_inv; eassumption. Qed.
Print Assumptions C08_invariant_start.

Theorem C08_invariant_step : forall interval timeout, 0 < interval -> 0 < timeout ->
  forall t0 s o, HInv interval timeout t0 s -> h_run s = true -> valid_hop o = true ->
  HInv interval timeout t0 (fst (hstep interval timeout s o)).
Proof. intros; eapply step_inv; eassumption. Qed.
Print Assumptions C08_invariant_step.

(* detection.  The deadline is armed by start(), by every response, and again by every
   timeout, always one full timeout ahead: *)
Theorem C08_armed_by_start : forall interval timeout s c, h_run s = false ->
  h_dead (fst (hstep interval timeout s (HStart c))) = h_now s + timeout /\
  snd (hstep interval timeout s (HStart c)) = (if c then [HSend (h_now s)] else []).
Proof. exact start_arms. Qed.
Print Assumptions C08_armed_by_start.

Theorem C08_armed_by_response : forall interval timeout s, h_run s = true ->
  h_dead (fst (hstep interval timeout s HResp)) = h_now s + timeout /\
  snd (hstep interval timeout s HResp) = [].
Proof. exact resp_arms. Qed.
Print Assumptions C08_armed_by_response.

Theorem C08_armed_by_timeout : forall interval timeout s dt c, h_run s = true ->
  h_dead s < h_next s -> h_dead s <= h_now s + dt ->
  hstep interval timeout s (HAdv dt c) =
  (mkH true (h_next s) (h_dead s + timeout) (h_dead s),
   (if c then [HReset (h_dead s)] else []) ++ [HTime (h_dead s)]).
Proof. exact adv_deadline. Qed.
Print Assumptions C08_armed_by_timeout.

(* ... and with no response and no stop, on a connected client, time cannot pass the
   deadline D without a reset at exactly D — for every sequence of clock advances *)
Theorem C08_detects : forall interval timeout, 0 < interval -> forall s ops,
  h_run s = true -> h_now s <= h_dead s -> h_now s <= h_next s ->
  forallb silent_connected ops = true ->
  h_dead s < h_now (fst (hrun interval timeout s ops)) ->
  In (HReset (h_dead s)) (snd (hrun interval timeout s ops)).
Proof. exact detects. Qed.
Print Assumptions C08_detects.

(* quietness: while every heartbeat is answered after a delay d with
   0 <= d < timeout - interval (and d < interval), for any number of rounds, the
   heartbeat never resets the connection *)
Theorem C08_quiet : forall interval timeout, 0 < interval -> 0 < timeout ->
  forall ds s, after_send interval timeout s -> interval < timeout ->
  Forall (fun d => 0 <= d /\ d < timeout - interval /\ d < interval) ds ->
  no_reset (snd (hrun interval timeout s (concat (map (round interval) ds)))).
Proof. intros; eapply quiet; eassumption. Qed.
Print Assumptions C08_quiet.

Theorem C08_quiet_from_start : forall interval timeout, 0 < interval -> forall s, h_run s = false -> interval < timeout ->
  after_send interval timeout (fst (hstep interval timeout s (HStart true))).
Proof. exact start_after_send. Qed.
Print Assumptions C08_quiet_from_start.

(* the statement with the package's numbers: answered within 30 s => never reset *)
Corollary C08_quiet_defaults : forall ds s,
  after_send 307200 337920 s ->
  Forall (fun d => 0 <= d /\ d < 30720) ds ->
  no_reset (snd (hrun 307200 337920 s (concat (map (round 307200) ds)))).
Proof.
  intros ds s Ha Hf. apply C08_quiet; try lia; [exact Ha|].
  eapply Forall_impl; [|exact Hf]. cbn. intros d [A B]. lia.
Qed.
Print Assumptions C08_quiet_defaults.

(* non-vacuity: silence from the first heartbeat => resets at 330 s, 660 s, ...;
   three answered rounds then silence => reset 330 s after the last answer *)
Example C08_witness :
  snd (hrun 307200 337920 hinit [HStart true; HAdv 999999 true; HAdv 999999 true; HAdv 999999 true; HAdv 999999 true])
  = [HSend 0; HSend 307200; HTime 307200; HReset 337920; HTime 337920; HSend 614400; HTime 614400;
     HReset 675840; HTime 675840] /\
  forallb silent_connected [HAdv 999999 true; HAdv 999999 true] = true.
Proof. vm_compute. split; reflexivity. Qed.
Print Assumptions C08_witness.
