(* C13 — Reception is independent of TCP segmentation. *)
From Coq Require Import NArith List Bool Lia.
From PV Require Import crc.Crc stream.Stream stream.StreamProofs.
Import ListNotations.

(* For every generation, every message decoder, every receiver state reached between
   segments, and EVERY way of cutting a byte stream into chunks (including empty chunks,
   single bytes, cuts inside prefixes, length fields and check bytes, many frames per
   chunk): the deliveries (header and message, in order, once each) and the final state
   (bytes still buffered, or dead after a reset) are those of the unsegmented stream. *)
Theorem C13_segmentation : forall (msg : Type) (dec : hdr -> list N -> option msg) g chunks st,
  settled msg dec g st ->
  feed_all msg dec g st chunks = feed msg dec g st (concat chunks).
Proof. exact segmentation_independent. Qed.
Print Assumptions C13_segmentation.

(* the hypothesis holds initially and after every feed *)
Theorem C13_settled_initial : forall msg dec g, settled msg dec g (Some []).
Proof. intros msg dec g b H. inversion H; subst. destruct g; reflexivity. Qed.
Print Assumptions C13_settled_initial.

Theorem C13_settled_preserved : forall msg dec g st c, settled msg dec g (snd (feed msg dec g st c)).
Proof. exact feed_settled. Qed.
Print Assumptions C13_settled_preserved.

(* a decision once taken never depends on bytes that arrive later *)
Theorem C13_deliver_stable : forall msg dec g buf more h m rest,
  rx_one msg dec g buf = RxDeliver h m rest -> rx_one msg dec g (buf ++ more) = RxDeliver h m (rest ++ more).
Proof. exact rx_one_deliver_ext. Qed.
Print Assumptions C13_deliver_stable.

(* each frame the send path can produce is delivered exactly once with nothing left *)
Theorem C13_frame_delivered : forall msg dec g h payload rest m,
  hdr_encodable g h = true -> length payload = N.to_nat (h_len h) -> dec h payload = Some m ->
  rx_one msg dec g (frame g h payload ++ rest) = RxDeliver h m rest.
Proof. exact rx_one_frame. Qed.
Print Assumptions C13_frame_delivered.

(* non-vacuity: two AT4 frames and one AT5 frame cut byte by byte and at odd places *)
Definition raw (h : hdr) (p : list N) : option (N * list N) := Some (h_type h, p).
Definition f1 := frame AT4 (mkHdr 0xB0 0x80 1 0x2B 6) [0x40; 0x80; 0x96; 0x80; 0x02; 0xE7]%N.
Definition f2 := frame AT4 (mkHdr 0xB0 0x90 2 0x1F 2) [0xFF; 0x30]%N.
Example C13_witness :
  let s := f1 ++ f2 in
  fst (feed_all _ raw AT4 (Some []) (map (fun b => [b]) s)) =
    [(mkHdr 0xB0 0x80 1 0x2B 6, (0x2B, [0x40; 0x80; 0x96; 0x80; 0x02; 0xE7]));
     (mkHdr 0xB0 0x90 2 0x1F 2, (0x1F, [0xFF; 0x30]))]%N /\
  feed_all _ raw AT4 (Some []) [firstn 3 s; []; firstn 9 (skipn 3 s); skipn 12 s] =
  feed _ raw AT4 (Some []) s.
Proof. vm_compute. split; reflexivity. Qed.
Print Assumptions C13_witness.
