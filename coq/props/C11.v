(* C11 — Invalid requests are refused locally; valid ones are shaped as documented. *)
From Coq Require Import NArith ZArith List Bool Lia.
From PV Require Import base.Res at4.Msg4 at5.Msg5 spec.Spec4 spec.Spec5 api.ApiTypes api.Api4 api.Api5 api.ApiProofs.
Import ListNotations.
Open Scope N_scope.

(* An outcome is [Sent m p] (exactly one socket.send of one message), [Refused] (ValueError,
   nothing sent) or [Unsendable]; with C01 a Sent outcome is exactly one frame.  The
   theorems quantify over EVERY ability bitmap (any 5 / 7 / 8 booleans), every enum
   argument, every float argument m * 2^e, every reported timer pair. *)

(* ---- AirTouch 4 AC: power control, mode, fan speed *)
Theorem C11_at4_set_power : forall a p, wf_ac4 a ->
  match p with
  | PC_Away | PC_Sleep => set_power4 a p = Refused
  | _ => exists m, set_power4 a p = Sent m (match p with PC_Toggle => P_NonIdempotent | _ => P_Idempotent end) /\
                   reads_ac4 m (mkSAC (a4_id a) (power_reading p) Keep Keep Keep)
  end.
Proof. exact set_power4_spec. Qed.
Print Assumptions C11_at4_set_power.

Theorem C11_at4_set_mode : forall a m on, wf_ac4 a ->
  if mode_bit (ab_modes (a4_ability a)) m
  then exists msg, set_mode4 a m on = Sent msg P_Idempotent /\
                   reads_ac4 msg (mkSAC (a4_id a) (if on then SetTo POn else Keep) (SetTo (mode_reading m)) Keep Keep)
  else set_mode4 a m on = Refused.
Proof. exact set_mode4_spec. Qed.
Print Assumptions C11_at4_set_mode.

Theorem C11_at4_set_fan : forall a f, wf_ac4 a ->
  if fan_bit (ab_fans (a4_ability a)) f
  then exists msg fr, fan_reading f = Some fr /\ set_fan4 a f = Sent msg P_Idempotent /\
                      reads_ac4 msg (mkSAC (a4_id a) Keep Keep (SetTo fr) Keep)
  else set_fan4 a f = Refused.
Proof. exact set_fan4_spec. Qed.
Print Assumptions C11_at4_set_fan.

(* ---- rounding: round0 / round1 give a nearest integer / tenth to the exact value of the
   float m * 2^e, the even one on a tie (Python's round) *)
Theorem C11_round_degrees : forall m e, (e < 0)%Z ->
  let d := (2 ^ (- e))%Z in let q := round0 m e in
  (2 * Z.abs (m - q * d) <= d)%Z /\ ((2 * Z.abs (m - q * d) = d)%Z -> Z.even q = true).
Proof. exact round0_spec. Qed.
Print Assumptions C11_round_degrees.

Theorem C11_round_tenths : forall m e, (e < 0)%Z ->
  let d := (2 ^ (- e))%Z in let q := round1 m e in
  (2 * Z.abs (m * 10 - q * d) <= d)%Z /\ ((2 * Z.abs (m * 10 - q * d) = d)%Z -> Z.even q = true).
Proof. exact round1_spec. Qed.
Print Assumptions C11_round_tenths.

(* ---- AC set-point: rounded, then clamped into the current [min, max]; one frame that
   changes the set-point only *)
Theorem C11_at4_set_target : forall a m e, wf_ac4 a ->
  let v := clip (Z.of_N (g4_min_target a)) (Z.of_N (g4_max_target a)) (round0 m e) in
  (Z.of_N (g4_min_target a) <= v <= Z.of_N (g4_max_target a))%Z /\
  exists msg, set_target4 a m e = Sent msg P_Idempotent /\
              reads_ac4 msg (mkSAC (a4_id a) Keep Keep Keep (SetTo (v * 10)%Z)).
Proof. exact set_target4_spec. Qed.
Print Assumptions C11_at4_set_target.

Theorem C11_at5_set_target : forall a m e, wf_ac5 a ->
  (10 <= g5_min_target a)%N -> (g5_min_target a <= g5_max_target a)%N -> (g5_max_target a <= 35)%N ->
  let v := clip (Z.of_N (g5_min_target a) * 10) (Z.of_N (g5_max_target a) * 10) (round1 m e) in
  (Z.of_N (g5_min_target a) * 10 <= v <= Z.of_N (g5_max_target a) * 10)%Z /\
  exists msg, set_target5 a m e = Sent msg P_Idempotent /\
              reads_ac5 msg (mkSAC5 (a5_id a) Keep Keep Keep (SetTo v)).
Proof. exact set_target5_spec. Qed.
Print Assumptions C11_at5_set_target.

(* ---- AirTouch 5 AC *)
Theorem C11_at5_set_power : forall a p, wf_ac5 a ->
  exists m, set_power5 a p = Sent m (match p with PC_Toggle => P_NonIdempotent | _ => P_Idempotent end) /\
            reads_ac5 m (mkSAC5 (a5_id a) (power_reading p) Keep Keep Keep).
Proof. exact set_power5_spec. Qed.
Print Assumptions C11_at5_set_power.

Theorem C11_at5_set_mode : forall a m on, wf_ac5 a ->
  if mode_bit (ab5_modes (a5_ability a)) m
  then exists msg, set_mode5 a m on = Sent msg P_Idempotent /\
                   reads_ac5 msg (mkSAC5 (a5_id a) (if on then SetTo POn else Keep) (SetTo (mode_reading m)) Keep Keep)
  else set_mode5 a m on = Refused.
Proof. exact set_mode5_spec. Qed.
Print Assumptions C11_at5_set_mode.

Theorem C11_at5_set_fan : forall a f, wf_ac5 a ->
  if fan_bit (ab5_fans (a5_ability a)) f
  then exists msg, set_fan5 a f = Sent msg P_Idempotent /\
                   reads_ac5 msg (mkSAC5 (a5_id a) Keep Keep (SetTo (fan_reading5 f)) Keep)
  else set_fan5 a f = Refused.
Proof. exact set_fan5_spec. Qed.
Print Assumptions C11_at5_set_fan.

(* ---- zones: unsupported power state, damper outside 0..100, set-point without sensor *)
Theorem C11_at4_zone_power : forall z p, z4_id z < 256 ->
  if match p with PZ_Turbo => gs_turbo (z4_status z) | _ => true end
  then exists msg, zone_set_power4 z p = Sent msg P_Idempotent /\
                   reads_group4 msg (mkSGC (z4_id z) Keep Keep (SetTo (zpower_reading p)))
  else zone_set_power4 z p = Refused.
Proof. exact zone_set_power4_spec. Qed.
Print Assumptions C11_at4_zone_power.

Theorem C11_at4_zone_damper : forall z p, z4_id z < 256 ->
  if ((p <? 0) || (100 <? p))%Z then zone_set_damper4 z p = Refused
  else exists msg, zone_set_damper4 z p = Sent msg P_Idempotent /\
                   reads_group4 msg (mkSGC (z4_id z) (SetTo (Percent (Z.to_N p))) (SetTo ByPercentage) Keep).
Proof. exact zone_set_damper4_spec. Qed.
Print Assumptions C11_at4_zone_damper.

Theorem C11_at4_zone_target : forall z m e, z4_id z < 256 ->
  if gs_sensor (z4_status z)
  then (0 <= round0 m e < 256)%Z ->
       exists msg, zone_set_target4 z m e = Sent msg P_Idempotent /\
                   reads_group4 msg (mkSGC (z4_id z) (SetTo (SetPointDeg (round0 m e * 10))) (SetTo ByTemperature) Keep)
  else zone_set_target4 z m e = Refused.
Proof. exact zone_set_target4_spec. Qed.
Print Assumptions C11_at4_zone_target.

Theorem C11_at5_zone_power : forall z p, z5_id z < 64 ->
  exists msg, zone_set_power5 z p = Sent msg P_Idempotent /\
              reads_zone5 msg (mkSZC (z5_id z) Keep Keep (SetTo (zpower_reading p))).
Proof. exact zone_set_power5_spec. Qed.
Print Assumptions C11_at5_zone_power.

Theorem C11_at5_zone_damper : forall z p, z5_id z < 64 ->
  if ((p <? 0) || (100 <? p))%Z then zone_set_damper5 z p = Refused
  else exists msg, zone_set_damper5 z p = Sent msg P_Idempotent /\
                   reads_zone5 msg (mkSZC (z5_id z) (SetTo (Percent (Z.to_N p))) Keep Keep).
Proof. exact zone_set_damper5_spec. Qed.
Print Assumptions C11_at5_zone_damper.

Theorem C11_at5_zone_target : forall z m e, z5_id z < 64 ->
  if zs_sensor (z5_status z)
  then (100 <= round1 m e <= 355)%Z ->
       exists msg, zone_set_target5 z m e = Sent msg P_Idempotent /\
                   reads_zone5 msg (mkSZC (z5_id z) (SetTo (SetPointDeg (round1 m e))) Keep Keep)
  else zone_set_target5 z m e = Refused.
Proof. exact zone_set_target5_spec. Qed.
Print Assumptions C11_at5_zone_target.

(* ---- quick timers: the other timer is exactly the one last reported *)
Theorem C11_at4_timer_pair : forall a t s,
  exists on_ off_, timer_ctrl4 a t s = Sent (M_TimerCtrl [mkTD (a4_id a) on_ off_]) P_Idempotent /\
    match t with
    | PT_On => on_ = s /\ off_ = td_off (a4_timer a)
    | PT_Off => off_ = s /\ on_ = td_on (a4_timer a)
    end.
Proof. exact timer_pair4. Qed.
Print Assumptions C11_at4_timer_pair.

Theorem C11_at5_timer_pair : forall a t s,
  exists on_ off_, timer_ctrl5 a t s = Sent (M5_Ctl (C_TimerCtrl [mkTD (a5_id a) on_ off_])) P_Idempotent /\
    match t with
    | PT_On => on_ = s /\ off_ = td_off (a5_timer a)
    | PT_Off => off_ = s /\ on_ = td_on (a5_timer a)
    end.
Proof. exact timer_pair5. Qed.
Print Assumptions C11_at5_timer_pair.

(* non-vacuity: a well-formed AC and the ties 20.5 -> 20, 21.5 -> 22, 20.25 -> 20.2 *)
Example C11_witness :
  round0 41 (-1) = 20%Z /\ round0 43 (-1) = 22%Z /\ round1 81 (-2) = 202%Z /\ round1 (-5) (-1) = (-25)%Z /\
  wf_ac4 (mkAc4 (mkAb 0 [] [true; true; false; true; true] [true; false; true; true; true; false; false] 16 30 None 0 4)
                (mkAS 0 APS_On AMS_Cool AFS_Low false false 24 225 0) (mkTD 0 (mkTS true 0 0) (mkTS true 0 0)) None).
Proof. repeat split; try reflexivity; vm_compute; congruence || lia || reflexivity. Qed.
