(* C17 — Unknown and malformed input is tolerated, never misread. *)
From Coq Require Import NArith ZArith List Bool Lia.
From PV Require Import base.Res crc.Crc stream.Stream stream.StreamProofs stream.Wire stream.Tolerant
  at4.Msg4 at4.Codec4 at5.Msg5 at5.Codec5 spec.Conform5 sock.Sock sock.SockProofs.
Import ListNotations.
Open Scope N_scope.

(* ---- every unregistered message type byte, every payload: delivered as an unsupported
   message carrying the payload unchanged; the reader stays alive (RxDeliver, not RxReset)
   and the bytes after the frame are untouched *)
Theorem C17_unknown_type_4 : forall h p rest, hdr_encodable AT4 h = true -> length p = N.to_nat (h_len h) ->
  registered4 (h_type h) = false ->
  rx_one msg4 rdec4 AT4 (frame AT4 h p ++ rest) = RxDeliver h (M_Unsupported (h_type h) p) rest.
Proof. exact unknown_frame4. Qed.
Print Assumptions C17_unknown_type_4.

Theorem C17_unknown_type_5 : forall h p rest, hdr_encodable AT5 h = true -> length p = N.to_nat (h_len h) ->
  registered5 (h_type h) = false ->
  rx_one msg5 rdec5 AT5 (frame AT5 h p ++ rest) = RxDeliver h (M5_Unsupported (h_type h) p) rest.
Proof. exact unknown_frame5. Qed.
Print Assumptions C17_unknown_type_5.

(* ---- every unregistered sub-type of the 0x1F wrapper (both generations) and of the 0xC0
   wrapper (any pad byte, lengths consistent with the body) *)
Theorem C17_unknown_sub_4 : forall i1 i0 b, i1 < 256 -> i0 < 256 -> registered_sub4 (i1 * 256 + i0) = false ->
  dec4 0x1F (i1 :: i0 :: b) = Some (M_Ext (S_Unsupported (i1 * 256 + i0) b)).
Proof. exact unknown_sub4. Qed.
Print Assumptions C17_unknown_sub_4.

Theorem C17_unknown_sub_5 : forall i1 i0 b, i1 < 256 -> i0 < 256 -> registered_sub5 (i1 * 256 + i0) = false ->
  dec5 0x1F (i1 :: i0 :: b) = Some (M5_Ext (S5_Unsupported (i1 * 256 + i0) b)).
Proof. exact unknown_sub5. Qed.
Print Assumptions C17_unknown_sub_5.

Theorem C17_unknown_c0 : forall id pad n1 n0 l1 l0 c1 c0 body,
  registered_c0 id = false ->
  length body = (N.to_nat (n1 * 256 + n0) + N.to_nat (c1 * 256 + c0) * N.to_nat (l1 * 256 + l0))%nat ->
  dec5 0xC0 (id :: pad :: n1 :: n0 :: l1 :: l0 :: c1 :: c0 :: body) = Some (M5_Ctl (C_Unsupported id body)).
Proof. exact unknown_c0. Qed.
Print Assumptions C17_unknown_c0.

(* ---- status records longer than the known layout are decoded from their known prefix
   (with C05_at5_stride: record i at offset i * stride) *)
Theorem C17_long_stride_zone : forall r tail, length r = 8%nat -> dec_zone_status1 (r ++ tail) = dec_zone_status1 r.
Proof. exact conf_zone_status_prefix. Qed.
Print Assumptions C17_long_stride_zone.

Theorem C17_long_stride_timer : forall r tail, length r = 9%nat -> dec_timer5 (r ++ tail) = dec_timer5 r.
Proof. exact conf_timer_prefix. Qed.
Print Assumptions C17_long_stride_timer.

(* ---- arbitrary bytes: whatever the reader delivers is the decoding (C05: the documented
   reading) of the payload of a frame whose header parsed and whose check bytes validated *)
Theorem C17_never_misread : forall (msg : Type) (dec : hdr -> list N -> option msg) g buf h m rest,
  rx_one msg dec g buf = RxDeliver h m rest ->
  exists cd payload chk,
    dec_hdr g (firstn (hdr_len g) buf) = Some (h, cd) /\
    payload = firstn (N.to_nat (h_len h)) (skipn (hdr_len g) buf) /\
    chk = firstn 2 (skipn (N.to_nat (h_len h)) (skipn (hdr_len g) buf)) /\
    validate (cd ++ payload) chk = true /\
    dec h payload = Some m /\
    rest = skipn (N.to_nat (h_len h) + 2) (skipn (hdr_len g) buf).
Proof. exact @deliver_inv. Qed.
Print Assumptions C17_never_misread.

(* ---- a well-framed payload the decoder rejects (whatever the exception class) resets
   the connection: never delivered, never a third outcome ... *)
Theorem C17_reject_is_reset : forall (msg : Type) (dec : hdr -> list N -> option msg) g h p rest,
  hdr_encodable g h = true -> length p = N.to_nat (h_len h) -> dec h p = None ->
  rx_one msg dec g (frame g h p ++ rest) = RxReset.
Proof. exact @reject_is_reset. Qed.
Print Assumptions C17_reject_is_reset.

(* ... and the client recovers: the reset closes the link and dials again at once
   (C07_heals gives the reconnection, C13/C03 the delivery of later intact frames) *)
Theorem C17_recovers : forall s c,
  SInv s -> s_link s = Some c ->
  snd (step s OPeerBad) = [EClose c; ENotify false; EDial] /\
  s_link (fst (step s OPeerBad)) = None /\ s_dial (fst (step s OPeerBad)) <> None.
Proof.
  intros s c HI Hl. pose proof (si_life _ HI) as L. unfold life_ok in L. rewrite Hl in L.
  destruct (s_open s); [|destruct L; discriminate].
  cbn. rewrite Hl. unfold go_down, start_dial. rewrite L. cbn. repeat split. discriminate.
Qed.
Print Assumptions C17_recovers.

(* non-vacuity: an unknown type, an unknown 0x1F sub-type and an unknown 0xC0 sub-type *)
Example C17_witness :
  registered4 0x99 = false /\ registered5 0x2B = false /\
  dec4 0x1F [0xFF; 0x77; 1; 2; 3] = Some (M_Ext (S_Unsupported 0xFF77 [1; 2; 3])) /\
  dec5 0xC0 [0x41; 0; 0; 1; 0; 2; 0; 3; 9; 1; 2; 3; 4; 5; 6] = Some (M5_Ctl (C_Unsupported 0x41 [9; 1; 2; 3; 4; 5; 6])).
Proof. vm_compute. repeat split; reflexivity. Qed.
