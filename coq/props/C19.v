(* C19 — The unified API behaves the same over AirTouch 4 and AirTouch 5. *)
From Coq Require Import NArith ZArith List Bool Lia.
From PV Require Import base.Res at4.Msg4 at5.Msg5 spec.Spec4 spec.Spec5 api.ApiTypes api.Api4 api.Api5 api.ApiProofs
  api.Common api.CommonProofs.
Import ListNotations.
Open Scope N_scope.

(* kac / kzone (Common.v): an AC / zone state expressible in both protocols (common modes and
   fan speeds, whole-degree set-point, one [min, max] for every mode, turbo-capable zones);
   ac4_of / ac5_of, zone4_of / zone5_of: the records each generation's console reports for it.
   By C10 the stored records are the latest reported ones, so equal views of the records are
   equal views after any history of equivalent reports. *)

(* ---- every attribute both generations support reads the same through the unified API *)
Theorem C19_ac_views_equal : forall k, kac_ok k -> view4 (ac4_of k) = view5 (ac5_of k).
Proof. exact views_equal. Qed.
Print Assumptions C19_ac_views_equal.

Theorem C19_zone_views_equal : forall k, zview4 (zone4_of k) = zview5 (zone5_of k).
Proof. exact zone_views_equal. Qed.
Print Assumptions C19_zone_views_equal.

(* ---- the same requests are accepted and refused; accepted ones carry the same retry policy
   and, each read by its own vendor document, mean the same (AC addressed, power / mode / fan /
   set-point change) *)
Theorem C19_same_power : forall k p, wf_k k -> (p = PC_Toggle \/ p = PC_Off \/ p = PC_On) ->
  same_meaning (set_power4 (ac4_of k) p) (set_power5 (ac5_of k) p).
Proof. exact same_power. Qed.
Print Assumptions C19_same_power.

Theorem C19_same_mode : forall k m on, wf_k k -> same_meaning (set_mode4 (ac4_of k) m on) (set_mode5 (ac5_of k) m on).
Proof. exact same_mode. Qed.
Print Assumptions C19_same_mode.

Theorem C19_same_fan : forall k f, wf_k k -> f <> PF_IntelligentAuto -> same_meaning (set_fan4 (ac4_of k) f) (set_fan5 (ac5_of k) f).
Proof. exact same_fan. Qed.
Print Assumptions C19_same_fan.

Theorem C19_same_target : forall k m e, wf_k k -> (0 <= e)%Z ->
  same_meaning (set_target4 (ac4_of k) m e) (set_target5 (ac5_of k) m e).
Proof. exact same_target. Qed.
Print Assumptions C19_same_target.

Theorem C19_same_zone_power : forall k p, kz_num k < 64 ->
  same_zone_meaning (zone_set_power4 (zone4_of k) p) (zone_set_power5 (zone5_of k) p).
Proof. exact same_zone_power. Qed.
Print Assumptions C19_same_zone_power.

(* PARTIAL (zone damper and set-point): the zone addressed, the value and the power part mean
   the same; the control-method part does not (next theorem) *)
Theorem C19_same_zone_damper_partial : forall k p, kz_num k < 64 ->
  same_zone_meaning (zone_set_damper4 (zone4_of k) p) (zone_set_damper5 (zone5_of k) p).
Proof. exact same_zone_damper. Qed.
Print Assumptions C19_same_zone_damper_partial.

Theorem C19_same_zone_target_partial : forall k m e, kz_num k < 64 -> (0 <= e)%Z -> (10 <= m * 2 ^ e <= 35)%Z ->
  same_zone_meaning (zone_set_target4 (zone4_of k) m e) (zone_set_target5 (zone5_of k) m e).
Proof. exact same_zone_target. Qed.
Print Assumptions C19_same_zone_target_partial.

(* the full statement is false of the code (known finding "zone-control-method"): an
   AirTouch 4 zone damper / set-point request also switches the zone to the control method
   the setting implies, the AirTouch 5 request keeps the control method *)
Theorem C19_zone_method_refuted :
  let k := mkKZone 1 [] ZPS_On ZMS_Damper true Bat_Normal (Some 215%Z) 50 22 false in
  exists m4 m5 s4 s5 p, zone_set_damper4 (zone4_of k) 40 = Sent m4 p /\ zone_set_damper5 (zone5_of k) 40 = Sent m5 p /\
    reads_group4 m4 s4 /\ reads_zone5 m5 s5 /\ sgc_method s4 = SetTo ByPercentage /\ szc_method s5 = Keep.
Proof. exact zone_method_differs. Qed.
Print Assumptions C19_zone_method_refuted.

(* the differences are the documented ones: away / sleep and intelligent auto exist on
   AirTouch 5 only (refused on AirTouch 4) *)
Theorem C19_documented_differences : forall a4 a5, wf_ac4 a4 -> wf_ac5 a5 ->
  set_power4 a4 PC_Away = Refused /\ set_power4 a4 PC_Sleep = Refused /\ set_fan4 a4 PF_IntelligentAuto = Refused /\
  (exists m p, set_power5 a5 PC_Away = Sent m p) /\ (exists m p, set_power5 a5 PC_Sleep = Sent m p).
Proof.
  intros a4 a5 W4 W5. split; [exact (set_power4_spec a4 PC_Away W4)|]. split; [exact (set_power4_spec a4 PC_Sleep W4)|].
  split.
  - pose proof (set_fan4_spec a4 PF_IntelligentAuto W4) as S. destruct W4 as [_ [Hf _]]. now rewrite (fan_bit_ia4 _ Hf) in S.
  - split; [destruct (set_power5_spec a5 PC_Away W5) as [m [E _]]|destruct (set_power5_spec a5 PC_Sleep W5) as [m [E _]]];
      eexists; eexists; exact E.
Qed.
Print Assumptions C19_documented_differences.

(* non-vacuity: a common AC state *)
Example C19_witness :
  wf_k (mkKAc 1 [85] [true; true; false; true; true] [true; false; true; true; true; false; true] 16 30
              true AMS_AutoCool AFS_Turbo true false 24 225 0 (mkTD 1 (mkTS true 0 0) (mkTS false 7 30)) None).
Proof. unfold wf_k, kac_ok. cbn. repeat split; lia || reflexivity. Qed.
