(* C14 — State is refreshed after every reconnection and after AT4 group silence. *)
From Coq Require Import NArith ZArith List Bool Lia.
From PV Require Import base.Res at4.Msg4 at5.Msg5 api.Core api.CoreProofs api.Client4 api.Client5 api.ClientProofs
  api.Poll api.PollProofs.
Import ListNotations.

(* ---- every connected notification outside the initial CONNECTING state - in particular
   every reconnection of an initialised client - requests AC status and zone / group status,
   in that order (sent with the connected-only policy; with C01 they are the first frames of
   the new link after any retried commands; with C10 the answers then overwrite the model) *)
Theorem C14_reconnect_refreshes : forall ZS AS AB TD (c : client ZS AS AB TD), c_state _ _ _ _ c <> Connecting ->
  on_connected ZS AS AB TD c = (c, [OSendReq RAcStatus; OSendReq RZoneStatus]).
Proof. intros. now apply reconnect_refreshes. Qed.
Print Assumptions C14_reconnect_refreshes.

(* ---- a refresh that returns unchanged data calls no subscriber (zone status; the AC status
   case is C12_no_echo_ac) *)
Theorem C14_quiet_refresh_4 : forall l (c : client4),
  (forall s, In s l -> exists z, find_zone _ (c_zones _ _ _ _ c) (gs_group s) = Some z /\ z_status _ z = s) ->
  NoDup (map gs_group l) ->
  snd (proc_zone_status _ _ _ _ gs_group group_status_eqb c l) = [].
Proof. intros. apply proc_zone_status_unchanged; [exact group_status_eqb_refl|assumption|assumption]. Qed.
Print Assumptions C14_quiet_refresh_4.

Theorem C14_quiet_refresh_5 : forall l (c : client5),
  (forall s, In s l -> exists z, find_zone _ (c_zones _ _ _ _ c) (zs_zone s) = Some z /\ z_status _ z = s) ->
  NoDup (map zs_zone l) ->
  snd (proc_zone_status _ _ _ _ zs_zone zone_status_eqb c l) = [].
Proof. intros. apply proc_zone_status_unchanged; [exact zone_status_eqb_refl|assumption|assumption]. Qed.
Print Assumptions C14_quiet_refresh_5.

Open Scope Z_scope.
(* ---- the AirTouch 4 group-status poll (ticks of 1/1024 s; period = 300 s) *)
Definition PERIOD : Z := 300 * 1024.

(* the deadline passes while connected: a group status request exactly at the deadline, and
   the deadline is armed again one period later *)
Theorem C14_poll_fires : forall s dt, p_run s = true -> p_dead s <= p_now s + dt ->
  pstep PERIOD s (PAdv dt true) = (mkP true (p_dead s + PERIOD) (p_dead s), [PRequest (p_dead s); PTime (p_dead s)]).
Proof. intros. now apply poll_fires. Qed.
Print Assumptions C14_poll_fires.

(* for as long as the silence lasts: k passages of the deadline give requests at
   d, d + 300 s, ..., d + (k-1) * 300 s, for every k *)
Theorem C14_poll_repeats : forall k s big, p_run s = true -> p_now s <= p_dead s -> PERIOD <= big ->
  p_dead s <= p_now s + big ->
  requests (snd (prun PERIOD s (silent_advances k big))) = arith k (p_dead s) PERIOD.
Proof. intros. apply poll_repeats; [reflexivity|assumption..]. Qed.
Print Assumptions C14_poll_repeats.

(* a group status re-arms the deadline 300 s from its arrival *)
Theorem C14_poll_rearmed : forall s, p_run s = true -> pstep PERIOD s PSeen = (mkP true (p_now s + PERIOD) (p_now s), []).
Proof. intros. now apply poll_seen. Qed.
Print Assumptions C14_poll_rearmed.

(* while group statuses keep arriving before the deadline, nothing is requested *)
Theorem C14_poll_quiet : forall ops s, early PERIOD s ops -> requests (snd (prun PERIOD s ops)) = [].
Proof. intros. now apply poll_quiet. Qed.
Print Assumptions C14_poll_quiet.

(* non-vacuity: initialised at t = 0, a group status at 100 s, then silence: requests at 400,
   700 and 1000 s *)
Example C14_witness :
  requests (snd (prun PERIOD pinit [PStart; PAdv (100 * 1024) true; PSeen; PAdv (400 * 1024) true; PAdv (400 * 1024) true;
                                     PAdv (400 * 1024) true; PAdv (50 * 1024) true]))
  = [400 * 1024; 700 * 1024; 1000 * 1024].
Proof. vm_compute. reflexivity. Qed.
