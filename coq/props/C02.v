(* C02 — Retry discipline: bounded attempts, none after expiry, non-idempotent once. *)
From Coq Require Import ZArith List Bool Lia.
From PV Require Import sock.Sock sock.SockProofs sock.Drain sock.DrainProofs.
Import ListNotations.
Open Scope Z_scope.

(* under any pattern of failures: attempts (successful or failed writes) on a message
   accepted with r retries never exceed 1 + r *)
Theorem C02_attempt_bound : forall pid0 ops i k pid r exp,
  In (EAccept i k pid r exp) (trace (init pid0) ops) ->
  (att i (trace (init pid0) ops) <= 1 + r)%nat.
Proof.
  intros pid0 ops i k pid r exp H.
  pose proof (j_att _ _ _ (trace_J pid0 ops) _ _ _ _ _ H). lia.
Qed.
Print Assumptions C02_attempt_bound.

(* ... in particular a message sent with a zero-retry policy (power toggle, +/-1 step,
   control-method flip: see the observed policy table) is attempted at most once *)
Theorem C02_non_idempotent_once : forall pid0 ops i k pid exp,
  In (EAccept i k pid 0%nat exp) (trace (init pid0) ops) ->
  (att i (trace (init pid0) ops) <= 1)%nat.
Proof.
  intros pid0 ops i k pid exp H.
  pose proof (j_att _ _ _ (trace_J pid0 ops) _ _ _ _ _ H). lia.
Qed.
Print Assumptions C02_non_idempotent_once.

(* never at or after its lifetime has elapsed *)
Theorem C02_never_late : forall pid0 ops c i k pid t,
  In (EWrote c i k pid t) (trace (init pid0) ops) ->
  exists r exp, In (EAccept i k pid r exp) (trace (init pid0) ops) /\ t < exp.
Proof. intros pid0 ops. exact (j_wrote _ _ _ (trace_J pid0 ops)). Qed.
Print Assumptions C02_never_late.

(* the expiry recorded at acceptance is accept time + lifetime of the policy used *)
Theorem C02_expiry_is_lifetime : forall s k cls r life,
  s_open s = true -> s_link s = None -> cls <> EncNoEncoder ->
  (length (filter (unexpired (s_now s)) (s_queue s)) < 10)%nat ->
  snd (step s (OSend k cls r life)) = [EAccept (s_nsend s) k (s_pid s) r (s_now s + life); ESendOk] /\
  s_queue (fst (step s (OSend k cls r life))) =
    filter (unexpired (s_now s)) (s_queue s) ++ [mkEntry (s_nsend s) k cls (s_pid s) r (s_now s + life)].
Proof. exact send_queued. Qed.
Print Assumptions C02_expiry_is_lifetime.

(* a single transient write failure does not lose an idempotent command: it returns
   to the head of the queue with one retry less ... *)
Theorem C02_transient_fault_requeues : forall s c k n life,
  SInv s -> s_open s = true -> s_link s = Some c -> s_failw s = true -> 0 < life ->
  snd (step s (OSend k EncOk (S n) life)) =
  [EAccept (s_nsend s) k (s_pid s) (S n) (s_now s + life);
   EWFail c (s_nsend s); ENotify false; EDial; ESendOk]
  /\ s_queue (fst (step s (OSend k EncOk (S n) life))) =
     [mkEntry (s_nsend s) k EncOk (s_pid s) n (s_now s + life)]
  /\ s_link (fst (step s (OSend k EncOk (S n) life))) = None.
Proof. exact send_write_fault. Qed.
Print Assumptions C02_transient_fault_requeues.

(* ... and the head of the queue is what is written first on the next connection
   (if it has not expired by then) *)
Theorem C02_resent_first : forall s e q,
  s_accept s = true -> s_failw s = false -> s_queue s = e :: q -> sendable (s_now s) e = true ->
  exists rest, snd (dial_done s) =
    EOpen (s_ncid s) :: ENotify true :: EWrote (s_ncid s) (e_idx e) (e_k e) (e_pid e) (s_now s) :: rest.
Proof.
  intros s e q Ha Hf Hq Hs. rewrite (dial_done_flush s Ha Hf), Hq. cbn. rewrite Hs. cbn.
  eexists. reflexivity.
Qed.
Print Assumptions C02_resent_first.

(* failed head with no retry left is dropped, never re-sent *)
Theorem C02_no_retry_left_dropped : forall now c e q,
  sendable now e = true -> e_retries e = 0%nat ->
  drain_q now c true (e :: q) = ([EWFail c (e_idx e)], q, true).
Proof.
  intros now c e q Hs Hr. rewrite (drain_q_fault_head now c e q Hs), Hr. reflexivity.
Qed.
Print Assumptions C02_no_retry_left_dropped.

(* non-vacuity: idempotent command survives two failures and is dropped at the third;
   connected-only request (1 s) queued during an outage of exactly 1 s is not sent *)
Example C02_witness :
  let tr := trace (init 0)
    [OOpen; OAdv 1; OFailNextWrite; OSend 0 EncOk 2 30720; OFailNextWrite; OAdv 1;
     OFailNextWrite; OAdv 1; OAdv 1; OAdv 1] in
  att 0 tr = 3%nat /\ widx tr = [] /\
  widx (trace (init 0) [OOpen; OAdv 1; ONet true 1024; OPeerRst; OSend 1 EncOk 0 1024; OAdv 1024; OAdv 5]) = [] /\
  widx (trace (init 0) [OOpen; OAdv 1; ONet true 1023; OPeerRst; OSend 1 EncOk 0 1024; OAdv 1024; OAdv 5]) = [0%nat].
Proof. vm_compute. repeat split; reflexivity. Qed.
Print Assumptions C02_witness.

(* ---- under transport back-pressure (coq/sock/Drain.v): however long drain() stays blocked and whatever is sent
   meanwhile, a frame is handed to the transport only before its lifetime has ended (the clock is read per entry,
   after the suspension), and at most once *)
Theorem C02_backpressure_expiry : forall c ops s tr i t,
  drun (dinit c) ops = Some (s, tr) -> In (DWrote i t) tr -> exists x, In (DAccept i x) tr /\ t < x.
Proof. exact drain_expiry. Qed.
Print Assumptions C02_backpressure_expiry.

Theorem C02_backpressure_once : forall c ops s tr, drun (dinit c) ops = Some (s, tr) -> NoDup (written tr).
Proof. exact drain_once. Qed.
Print Assumptions C02_backpressure_once.
