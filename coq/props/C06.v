(* C06 — Checksum is CRC-16/MODBUS; damaged frames are never delivered. *)
From Coq Require Import NArith List Bool Lia.
From PV Require Import crc.Crc crc.CrcProofs stream.Stream stream.StreamProofs sock.Sock sock.SockProofs.
From PV Require Import observed.Obs_C06.
Import ListNotations.
Open Scope N_scope.

(* the table observed from /repo on this run (Crc16Modbus().calculate on every single
   byte) is the model's literal table *)
Theorem C06_observed_table : obs_table = table.
Proof. vm_compute. reflexivity. Qed.
Print Assumptions C06_observed_table.

(* every table entry is eight reference bit steps of its index *)
Theorem C06_table : forall i, i < 256 -> nth (N.to_nat i) table 0 = L8 i.
Proof. exact table_correct. Qed.
Print Assumptions C06_table.

(* the two check bytes are CRC-16/MODBUS (reflected 0xA001, initial 0xFFFF), high byte
   first, for EVERY byte string — induction on the length from the step lemma that holds
   for every (register, byte) pair *)
Theorem C06_step : forall r b, r < 65536 -> b < 256 -> tbl_step r b = byte_step r b.
Proof.
  intros r b Hr Hb. apply tbl_step_is_byte_step; apply fits_lt; assumption.
Qed.
Print Assumptions C06_step.

Theorem C06_crc_is_modbus : forall bs, bytes_ok bs ->
  check_bytes bs = [crc_ref bs / 256; crc_ref bs mod 256].
Proof.
  intros bs H. unfold check_bytes. rewrite (crc_tbl_is_ref bs H).
  rewrite N.shiftr_div_pow2. change 255 with (N.ones 8). rewrite N.land_ones. reflexivity.
Qed.
Print Assumptions C06_crc_is_modbus.

(* span: the check bytes of a frame are computed over address .. payload, on the send
   path by definition of [frame] and on the receive path by [rx_one] *)
Theorem C06_span_send : forall g h payload,
  frame g h payload = (pre g h ++ cov h) ++ payload ++ check_bytes (cov h ++ payload).
Proof. reflexivity. Qed.
Print Assumptions C06_span_send.

Theorem C06_span_receive : forall msg dec g hb h' cd pl c1 c2 rest,
  length hb = hdr_len g -> dec_hdr g hb = Some (h', cd) -> N.to_nat (h_len h') = length pl ->
  rx_one msg dec g (hb ++ pl ++ [c1; c2] ++ rest) =
  if validate (cd ++ pl) [c1; c2]
  then match dec h' pl with Some m => RxDeliver h' m rest | None => RxReset end
  else RxReset.
Proof. exact rx_one_shape. Qed.
Print Assumptions C06_span_receive.

(* detection, checksum level.  [detectable n em eh el]: em alters the n covered bytes,
   (eh, el) the check bytes; the classes are
     - any alteration of the check bytes only (all 1..16-bit patterns there),
     - any non-zero alteration confined to one or two adjacent covered bytes,
     - any burst of <= 16 bits across three covered bytes (bit order of the CRC: LSB first),
     - any two bits of the covered bytes (n <= 4095),
     - one bit of the covered bytes and one bit of the check bytes (n <= 4093). *)
Theorem C06_detect : forall n em eh el, detectable n em eh el ->
  forall m, bytes_ok m -> length m = n ->
  validate (xor_list m em)
           [N.lxor (N.shiftr (crc_tbl m) 8) eh; N.lxor (N.land (crc_tbl m) 255) el] = false.
Proof. exact detect. Qed.
Print Assumptions C06_detect.

(* detection, frame level, both generations, any message decoder, any bytes following:
   the altered frame is rejected (the connection is reset), never delivered.  AT4: the
   pattern must not touch the length field (see C06_at4_length_flip_refuted); AT5: the
   length field is included — it no longer matches the duplicated outer length *)
Theorem C06_frame_detect : forall msg dec g h payload e0 e1 e2 e3 e4 e5 emp eh el rest,
  hdr_encodable g h = true -> bytes_ok payload -> length payload = N.to_nat (h_len h) ->
  length emp = length payload ->
  detectable (6 + length payload) ([e0; e1; e2; e3; e4; e5] ++ emp) eh el ->
  (g = AT4 -> e4 = 0 /\ e5 = 0) ->
  rx_one msg dec g (corrupt g h payload e0 e1 e2 e3 e4 e5 emp eh el ++ rest) = RxReset.
Proof. exact frame_detect. Qed.
Print Assumptions C06_frame_detect.

(* the rejection resets the connection and a new one is dialled at once; C07_heals then
   gives the reconnection and C07_receives the delivery of later intact frames *)
Theorem C06_reconnect_after_reject : forall s c,
  SInv s -> s_link s = Some c ->
  snd (step s OPeerBad) = [EClose c; ENotify false; EDial] /\
  s_link (fst (step s OPeerBad)) = None /\ s_dial (fst (step s OPeerBad)) <> None.
Proof.
  intros s c HI Hl. pose proof (si_life _ HI) as L. unfold life_ok in L. rewrite Hl in L.
  destruct (s_open s); [|destruct L; discriminate].
  cbn. rewrite Hl. unfold go_down, start_dial. rewrite L. cbn. repeat split. discriminate.
Qed.
Print Assumptions C06_reconnect_after_reject.

(* ---- limits inherent in the vendor wire format (recorded as known findings) ---- *)
Definition rawdec (h : hdr) (p : list N) : option (N * list N) := Some (h_type h, p).

(* The check value travels high byte first, which is not the order in which a reflected
   CRC is a cyclic code: a 9-bit burst (LSB-first bit order) across the last covered byte
   and the first check byte of the vendor document's example frame is accepted. *)
Example C06_straddle_refuted :
  let good := [0x55;0x55;0x80;0xb0;0x01;0x2a;0x00;0x04;0x01;0x02;0x00;0x00;0xda;0x59] in
  let bad  := [0x55;0x55;0x80;0xb0;0x01;0x2a;0x00;0x04;0x01;0x02;0x00;0x0c;0xdf;0x59] in
  rx_one _ rawdec AT4 good = RxDeliver (mkHdr 0x80 0xb0 1 0x2a 4) (0x2a, [1; 2; 0; 0]) [] /\
  rx_one _ rawdec AT4 bad = RxDeliver (mkHdr 0x80 0xb0 1 0x2a 4) (0x2a, [1; 2; 0; 0x0c]) [].
Proof. vm_compute. split; reflexivity. Qed.
Print Assumptions C06_straddle_refuted.

(* AT4 has no redundancy for the length field: a frame whose payload embeds a shorter
   valid frame is delivered as that shorter frame after ONE bit of the length flips. *)
Example C06_at4_length_flip_refuted :
  let inner := frame AT4 (mkHdr 0xB0 0x80 7 0x2C 4) [0x40; 0x12; 0x58; 0x00] in
  let outer := frame AT4 (mkHdr 0xB0 0x80 7 0x2C 6) (skipn 8 inner) in
  let flipped := firstn 7 outer ++ [N.lxor (nth 7 outer 0) 2] ++ skipn 8 outer in
  rx_one _ rawdec AT4 outer = RxDeliver (mkHdr 0xB0 0x80 7 0x2C 6) (0x2C, skipn 8 inner) [] /\
  exists rest, rx_one _ rawdec AT4 flipped = RxDeliver (mkHdr 0xB0 0x80 7 0x2C 4) (0x2C, [0x40; 0x12; 0x58; 0x00]) rest.
Proof. vm_compute. split; [reflexivity|eexists; reflexivity]. Qed.
Print Assumptions C06_at4_length_flip_refuted.

(* non-vacuity of the detection theorem: one instance of each class on a real frame *)
Example C06_witness :
  let h := mkHdr 0x80 0xb0 1 0x2a 4 in let p := [1; 2; 0; 0] in
  detectable 10 (zeros 10) 0x05 0 /\
  detectable 10 (zeros 9 ++ [0x0c] ++ zeros 0) 0 0 /\
  detectable 10 (zeros 3 ++ [0x80; 0xff; 0x7f] ++ zeros 4) 0 0 /\
  detectable 10 (xor_list (bit_at 10 0 0) (bit_at 10 9 7)) 0 0 /\
  detectable 10 (bit_at 10 9 7) (N.shiftr (2 ^ 15) 8) (N.land (2 ^ 15) 255) /\
  rx_one _ rawdec AT4 (corrupt AT4 h p 0 0 0 0 0 0 [0; 0; 0; 0x0c] 0 0) = RxReset.
Proof.
  repeat split.
  - apply DetCheckOnly; [reflexivity|reflexivity|left; discriminate].
  - apply (DetWindow1 10 9 0 0x0c); [reflexivity|split; reflexivity].
  - apply (DetBurst3 10 3 4 7 1 0xff 0x7f); [reflexivity|split; discriminate|reflexivity|reflexivity|reflexivity|left; discriminate].
  - apply DetTwoBits; try reflexivity; try lia.
  - apply DetBitAndCheckBit; try reflexivity; lia.
Qed.
Print Assumptions C06_witness.
