(* C09 — Initialisation completes against any answering console, else fails cleanly. *)
From Coq Require Import NArith ZArith List Bool Lia.
From PV Require Import base.Res stream.Stream at4.Msg4 at5.Msg5 api.Core api.CoreProofs api.Client4 api.Client5 api.ClientProofs.
Import ListNotations.
Open Scope N_scope.

(* The handshake is a function of the sequence of delivered messages (C13: segmentation
   does not change that sequence; C17: unknown types are delivered as unsupported messages,
   which classify as EvOther).  noise_for st e: e is not the answer awaited in state st -
   unknown type, unsolicited status, duplicate of an earlier answer, an echo not addressed
   to the client (error texts excluded: they are accepted at any time). *)

(* ---- whatever noise precedes each answer, the client issues the next request exactly
   when the awaited answer arrives, in the fixed order names, abilities, AC status, timer
   status, zone status (the version request is sent on the connected notification), and ends
   where the six answers alone put it *)
Theorem C09_at4_handshake : forall (c0 : client4) n0 u vs n1 names n2 abl n3 sl n4 tl n5 zl acs,
  c_state _ _ _ _ c0 = InitVersion ->
  forallb (noise_for _ _ _ _ InitVersion) n0 = true -> forallb (noise_for _ _ _ _ InitNames) n1 = true ->
  forallb (noise_for _ _ _ _ InitAbility) n2 = true -> forallb (noise_for _ _ _ _ InitAcStatus) n3 = true ->
  forallb (noise_for _ _ _ _ InitTimer) n4 = true -> forallb (noise_for _ _ _ _ InitZoneStatus) n5 = true ->
  let c1 := hs_version _ _ _ _ c0 u vs in
  let c2 := set_state _ _ _ _ (proc_names _ _ _ _ group_status_init c1 names) InitAbility in
  proc_ability_from _ _ _ ab_number ac_status_init timer_init assign4 abl (map (z_id _) (c_zones _ _ _ _ c2)) (c_acs _ _ _ _ c2) abl = (acs, true) ->
  let c3 := set_state _ _ _ _ (with_acs _ _ _ _ c2 acs) InitAcStatus in
  let '(c4, o4) := proc_ac_status _ _ _ _ as_number ac_status_eqb (fun s => negb (as_error s =? 0)) c3 sl in
  let '(c5, o5) := proc_timer _ _ _ _ td_number timer_data_eqb (set_state _ _ _ _ c4 InitTimer) tl in
  let '(c6, o6) := proc_zone_status _ _ _ _ gs_group group_status_eqb (set_state _ _ _ _ c5 InitZoneStatus) zl in
  let '(c7, o7) := finish_init _ _ _ _ c6 in
  run_events _ _ _ _ gs_group as_number ab_number td_number group_status_eqb ac_status_eqb timer_data_eqb
             (fun s => negb (as_error s =? 0)) group_status_init ac_status_init timer_init assign4 c0
    (n0 ++ [EvVersion _ _ _ _ u vs] ++ n1 ++ [EvNames _ _ _ _ names] ++ n2 ++ [EvAbility _ _ _ _ abl] ++
     n3 ++ [EvAcStatus _ _ _ _ sl] ++ n4 ++ [EvTimer _ _ _ _ tl] ++ n5 ++ [EvZoneStatus _ _ _ _ zl])
  = (c7, [OSendReq RNames] ++ [OSendReq RAbility] ++ [OSendReq RAcStatus] ++ (o4 ++ [OSendReq RTimer]) ++
         (o5 ++ [OSendReq RZoneStatus]) ++ (o6 ++ o7)).
Proof. intros. now apply handshake_steps. Qed.
Print Assumptions C09_at4_handshake.

Theorem C09_at5_handshake : forall (c0 : client5) n0 u vs n1 names n2 abl n3 sl n4 tl n5 zl acs,
  c_state _ _ _ _ c0 = InitVersion ->
  forallb (noise_for _ _ _ _ InitVersion) n0 = true -> forallb (noise_for _ _ _ _ InitNames) n1 = true ->
  forallb (noise_for _ _ _ _ InitAbility) n2 = true -> forallb (noise_for _ _ _ _ InitAcStatus) n3 = true ->
  forallb (noise_for _ _ _ _ InitTimer) n4 = true -> forallb (noise_for _ _ _ _ InitZoneStatus) n5 = true ->
  let c1 := hs_version _ _ _ _ c0 u vs in
  let c2 := set_state _ _ _ _ (proc_names _ _ _ _ zone_status_init c1 names) InitAbility in
  proc_ability_from _ _ _ ab5_number ac5_status_init timer_init assign5 abl (map (z_id _) (c_zones _ _ _ _ c2)) (c_acs _ _ _ _ c2) abl = (acs, true) ->
  let c3 := set_state _ _ _ _ (with_acs _ _ _ _ c2 acs) InitAcStatus in
  let '(c4, o4) := proc_ac_status _ _ _ _ a5s_number ac5_status_eqb (fun s => negb (a5s_error s =? 0)) c3 sl in
  let '(c5, o5) := proc_timer _ _ _ _ td_number timer_data_eqb (set_state _ _ _ _ c4 InitTimer) tl in
  let '(c6, o6) := proc_zone_status _ _ _ _ zs_zone zone_status_eqb (set_state _ _ _ _ c5 InitZoneStatus) zl in
  let '(c7, o7) := finish_init _ _ _ _ c6 in
  run_events _ _ _ _ zs_zone a5s_number ab5_number td_number zone_status_eqb ac5_status_eqb timer_data_eqb
             (fun s => negb (a5s_error s =? 0)) zone_status_init ac5_status_init timer_init assign5 c0
    (n0 ++ [EvVersion _ _ _ _ u vs] ++ n1 ++ [EvNames _ _ _ _ names] ++ n2 ++ [EvAbility _ _ _ _ abl] ++
     n3 ++ [EvAcStatus _ _ _ _ sl] ++ n4 ++ [EvTimer _ _ _ _ tl] ++ n5 ++ [EvZoneStatus _ _ _ _ zl])
  = (c7, [OSendReq RNames] ++ [OSendReq RAbility] ++ [OSendReq RAcStatus] ++ (o4 ++ [OSendReq RTimer]) ++
         (o5 ++ [OSendReq RZoneStatus]) ++ (o6 ++ o7)).
Proof. intros. now apply handshake_steps. Qed.
Print Assumptions C09_at5_handshake.

(* ---- the first connected notification starts the handshake with the version request *)
Theorem C09_first_request : forall ZS AS AB TD (c : client ZS AS AB TD), c_state _ _ _ _ c = Connecting ->
  on_connected ZS AS AB TD c = (set_state _ _ _ _ c InitVersion, [OSendReq RVersion]).
Proof. intros. now apply first_connect_starts_handshake. Qed.
Print Assumptions C09_first_request.

(* ---- the end of the handshake: CONNECTED, initialised, heartbeat started, object model
   as processed *)
Theorem C09_finish : forall ZS AS AB TD (c : client ZS AS AB TD),
  c_state _ _ _ _ (fst (finish_init _ _ _ _ c)) = Connected /\ c_initialised _ _ _ _ (fst (finish_init _ _ _ _ c)) = true /\
  c_zones _ _ _ _ (fst (finish_init _ _ _ _ c)) = c_zones _ _ _ _ c /\ c_acs _ _ _ _ (fst (finish_init _ _ _ _ c)) = c_acs _ _ _ _ c /\
  In OStartHeartbeat (snd (finish_init _ _ _ _ c)) /\ In OInitialised (snd (finish_init _ _ _ _ c)).
Proof. intros. apply finish_init_state. Qed.
Print Assumptions C09_finish.

(* ---- AirTouch 5 without zones: the console echoes the names / zone status request back to
   the client (to-address 0xB0); the handshake moves on *)
Theorem C09_at5_zero_zone_echo : forall (c : client5) h a,
  h_to h = 0xB0 ->
  (c_state _ _ _ _ c = InitNames ->
   on_message5 c h (M5_Ext (S5_NamesReq a)) = (set_state _ _ _ _ c InitAbility, [OSendReq RAbility])) /\
  (c_state _ _ _ _ c = InitZoneStatus ->
   on_message5 c h (M5_Ctl C_ZoneStatusReq) = finish_init _ _ _ _ c).
Proof.
  intros c h a Hto. unfold on_message5, event_of5, ADDRESS_CLIENT. rewrite Hto. cbn [N.eqb Pos.eqb].
  split; intros Hs; unfold on_event5, on_event; rewrite Hs; reflexivity.
Qed.
Print Assumptions C09_at5_zero_zone_echo.

(* ---- zone-to-AC association *)
Theorem C09_at4_assign_bitmap : forall all ids ab gs,
  ab_groups ab = Some gs -> forallb (known ids) gs = true -> assign4 all ids ab = Some gs.
Proof. exact assign4_bitmap. Qed.
Print Assumptions C09_at4_assign_bitmap.
Theorem C09_at4_assign_single : forall ids ab, ab_groups ab = None -> assign4 [ab] ids ab = Some ids.
Proof. exact assign4_single. Qed.
Print Assumptions C09_at4_assign_single.
Theorem C09_at4_assign_range : forall all ids ab, ab_groups ab = None -> length all <> 1%nat ->
  forallb (known ids) (range_from (ab_start ab) (ab_count ab)) = true ->
  assign4 all ids ab = Some (range_from (ab_start ab) (ab_count ab)).
Proof. exact assign4_range. Qed.
Print Assumptions C09_at4_assign_range.
Theorem C09_at5_assign_range : forall all ids ab,
  forallb (known ids) (range_from (ab5_start ab) (ab5_count ab)) = true ->
  assign5 all ids ab = Some (range_from (ab5_start ab) (ab5_count ab)).
Proof. exact assign5_range. Qed.
Print Assumptions C09_at5_assign_range.

(* ---- a console that stops answering: frames that are not the awaited answer leave the
   client where it is - never initialised, nothing more sent; init() then returns False when
   its 5 s wait ends (the wait itself is asyncio.wait_for: tie) *)
Theorem C09_silent : forall ZS AS AB TD zs_id as_id ab_id td_id zs_eqb as_eqb td_eqb has_error zs_init as_init td_init assign
    (c : client ZS AS AB TD) es,
  c_initialised _ _ _ _ c = false -> forallb (noise_for _ _ _ _ (c_state _ _ _ _ c)) es = true ->
  c_initialised _ _ _ _ (fst (run_events ZS AS AB TD zs_id as_id ab_id td_id zs_eqb as_eqb td_eqb has_error zs_init as_init td_init assign c es)) = false /\
  snd (run_events ZS AS AB TD zs_id as_id ab_id td_id zs_eqb as_eqb td_eqb has_error zs_init as_init td_init assign c es) = [].
Proof. intros. now apply silent_console. Qed.
Print Assumptions C09_silent.

(* non-vacuity: an AirTouch 4 with two ACs (bitmap format), three zones, noise before every
   answer: the model ends initialised with the zones attached as the bitmaps say *)
Example C09_witness :
  let ab0 := mkAb 0 [65] [true; true; true; true; true] [true; true; true; true; true; true; true] 16 30 (Some [0; 2]) 0 0 in
  let ab1 := mkAb 1 [66] [true; true; true; true; true] [true; true; true; true; true; true; true] 16 30 (Some [1]) 0 0 in
  let noise := [EvOther _ _ _ _; EvTimer _ _ _ _ []] in
  let es := noise ++ [EvVersion _ _ _ _ false [[49]]] ++ noise ++ [EvNames _ _ _ _ [(0, [97]); (1, [98]); (2, [99])]] ++
            [EvOther _ _ _ _] ++ [EvAbility _ _ _ _ [ab0; ab1]] ++ [EvVersion _ _ _ _ true []] ++
            [EvAcStatus _ _ _ _ [ac_status_init 0; ac_status_init 1]] ++ [] ++ [EvTimer _ _ _ _ [timer_init 0]] ++
            [EvOther _ _ _ _] ++ [EvZoneStatus _ _ _ _ [group_status_init 0]] in
  let c := fst (run_events _ _ _ _ gs_group as_number ab_number td_number group_status_eqb ac_status_eqb timer_data_eqb
                  (fun s => negb (as_error s =? 0)) group_status_init ac_status_init timer_init assign4
                  (set_state _ _ _ _ empty4 InitVersion) es) in
  c_state _ _ _ _ c = Connected /\ c_initialised _ _ _ _ c = true /\
  map (fun a => (a_id _ _ _ a, a_zones _ _ _ a)) (c_acs _ _ _ _ c) = [(0, [0; 2]); (1, [1])].
Proof. vm_compute. repeat split; reflexivity. Qed.
