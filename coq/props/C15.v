(* C15 — Shutdown is final, leak-free and reversible (socket level). *)
From Coq Require Import ZArith List Bool Lia.
From PV Require Import sock.Sock sock.SockProofs.
Import ListNotations.
Open Scope Z_scope.

(* leak-free: closing from ANY invariant state (mid-dial, during back-off, connected,
   with messages pending) leaves no connect task, no link (reader), no pending message *)
Theorem C15_no_leak : forall s, SInv s -> closed_state (fst (step s OClose)).
Proof.
  intros s HI. destruct (step s OClose) as [s' evs] eqn:H. exact (close_closed _ _ _ H HI).
Qed.
Print Assumptions C15_no_leak.

(* final: after close, for every continuation that does not re-open — arbitrary clock
   advances, network events, peer events, sends — the only events are send errors and
   the passing of time: no dial, no open, no write, no notification *)
Theorem C15_final : forall s ops,
  SInv s -> forallb not_open_op ops = true ->
  let s0 := fst (step s OClose) in
  closed_state (fst (run s0 ops)) /\ forallb silent_ev (concat (snd (run s0 ops))) = true.
Proof.
  intros s ops HI Hno s0.
  destruct (run s0 ops) as [s' evss] eqn:Hr. cbn.
  exact (run_closed ops _ _ _ (C15_no_leak s HI) Hno Hr).
Qed.
Print Assumptions C15_final.

(* sending on the closed client raises the not-open error (or NotImplemented for a
   message without encoder, which is raised first) and holds nothing *)
Theorem C15_send_refused : forall s k cls r l s' evs,
  closed_state s -> step s (OSend k cls r l) = (s', evs) ->
  closed_state s' /\ evs = [ESendErr (match cls with EncNoEncoder => 1 | _ => 2 end)].
Proof.
  intros s k cls r l s' evs HC H.
  destruct (step_closed s (OSend k cls r l) s' evs HC eq_refl H) as [A [_ B]]. split; [exact A|]. exact (B _ _ _ _ eq_refl).
Qed.
Print Assumptions C15_send_refused.

(* every connection that was opened has been closed once close() returns: the walk of
   the whole trace ends holding nothing *)
Theorem C15_all_closed : forall pid0 ops,
  walk [] (trace (init pid0) (ops ++ [OClose])) = Some [].
Proof. exact trace_close_holds_nothing. Qed.
Print Assumptions C15_all_closed.

(* reversible: the state after close equals a fresh client's state up to the packet
   counter, the connection counter, the send ordinal, the clock and the environment *)
Theorem C15_reversible_state : forall s, SInv s -> s_open s = true ->
  fst (step s OClose) =
  mkS false None [] None [] (s_now s) (s_pid s) (s_ncid s) (s_nsend s) (s_accept s) (s_lat s) (s_failw s).
Proof. intros s HI Ho. cbn. rewrite Ho. reflexivity. Qed.
Print Assumptions C15_reversible_state.

(* ... and the model's behaviour does not depend on those counters except through the
   identifiers it prints: re-opening dials exactly like a fresh client *)
Theorem C15_reopen_like_fresh : forall s, closed_state s ->
  step s OOpen =
  (mkS true None [] (Some (s_now s + s_lat s)) [] (s_now s) (s_pid s) (s_ncid s) (s_nsend s)
       (s_accept s) (s_lat s) (s_failw s), [EDial]).
Proof. intros s [C1 [C2 [C3 [C4 C5]]]]. cbn. rewrite C1, C2, C4, C5. reflexivity. Qed.
Print Assumptions C15_reopen_like_fresh.

(* non-vacuity: close during back-off with a message pending, long idle, re-open *)
Example C15_witness :
  let ops := [OOpen; ONet false 1; OAdv 5; OSend 0 EncOk 2 30720; OClose; OAdv 5000; OAdv 50000;
              OSend 0 EncOk 2 30720; ONet true 1; OAdv 5000; OOpen; OAdv 5] in
  concat (snd (run (init 0) ops)) =
  [EDial; ERefused; ETime 1; EAccept 0 0 0 2 30721; ESendOk; ENotify false; ETime 5001; ETime 55001;
   ESendErr 2; ETime 60001; EDial; EOpen 0; ENotify true; ETime 60002].
Proof. vm_compute. reflexivity. Qed.
Print Assumptions C15_witness.
