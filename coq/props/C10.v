(* C10 — The object model always shows the console's latest report. *)
From Coq Require Import NArith ZArith List Bool Lia.
From PV Require Import base.Res at4.Msg4 at5.Msg5 api.ApiTypes api.Api4 api.Api5 api.ApiProofs
  api.Core api.CoreProofs api.Client4 api.Client5 api.ClientProofs.
Import ListNotations.
Open Scope N_scope.

(* latest d id l: the most recent record about entity id in l, d if there is none.  The
   getters of Api4.v / Api5.v (g4_..., g5_..., gz4_..., gz5_...) are functions of the stored records. *)

(* ---- AirTouch 4, for EVERY list of AC status records (any order, repeats, subsets,
   unknown AC numbers): each known AC ends up holding the latest record addressed to it, no
   AC is created, and ability / zone list / timer report / subscribers are untouched *)
Theorem C10_at4_ac_status_latest : forall l (c : client4) id,
  (forall a, find_ac _ _ _ (c_acs _ _ _ _ c) id = Some a -> a_id _ _ _ a = as_number (a_status _ _ _ a)) ->
  match find_ac _ _ _ (c_acs _ _ _ _ c) id with
  | None => find_ac _ _ _ (c_acs _ _ _ _ (fst (proc_ac_status _ _ _ _ as_number ac_status_eqb (fun s => negb (as_error s =? 0)) c l))) id = None
  | Some a => exists a', find_ac _ _ _ (c_acs _ _ _ _ (fst (proc_ac_status _ _ _ _ as_number ac_status_eqb (fun s => negb (as_error s =? 0)) c l))) id = Some a' /\
                         a_status _ _ _ a' = latest as_number (a_status _ _ _ a) id l /\ same_but_status _ _ _ a a'
  end.
Proof. intros. now apply proc_ac_status_latest. Qed.
Print Assumptions C10_at4_ac_status_latest.

Theorem C10_at5_ac_status_latest : forall l (c : client5) id,
  (forall a, find_ac _ _ _ (c_acs _ _ _ _ c) id = Some a -> a_id _ _ _ a = a5s_number (a_status _ _ _ a)) ->
  match find_ac _ _ _ (c_acs _ _ _ _ c) id with
  | None => find_ac _ _ _ (c_acs _ _ _ _ (fst (proc_ac_status _ _ _ _ a5s_number ac5_status_eqb (fun s => negb (a5s_error s =? 0)) c l))) id = None
  | Some a => exists a', find_ac _ _ _ (c_acs _ _ _ _ (fst (proc_ac_status _ _ _ _ a5s_number ac5_status_eqb (fun s => negb (a5s_error s =? 0)) c l))) id = Some a' /\
                         a_status _ _ _ a' = latest a5s_number (a_status _ _ _ a) id l /\ same_but_status _ _ _ a a'
  end.
Proof. intros. now apply proc_ac_status_latest. Qed.
Print Assumptions C10_at5_ac_status_latest.

(* ---- zones / groups likewise *)
Theorem C10_at4_zone_status_latest : forall l (c : client4) id,
  (forall z, find_zone _ (c_zones _ _ _ _ c) id = Some z -> z_id _ z = gs_group (z_status _ z)) ->
  match find_zone _ (c_zones _ _ _ _ c) id with
  | None => find_zone _ (c_zones _ _ _ _ (fst (proc_zone_status _ _ _ _ gs_group group_status_eqb c l))) id = None
  | Some z => exists z', find_zone _ (c_zones _ _ _ _ (fst (proc_zone_status _ _ _ _ gs_group group_status_eqb c l))) id = Some z' /\
                         z_status _ z' = latest gs_group (z_status _ z) id l /\
                         z_id _ z' = z_id _ z /\ z_name _ z' = z_name _ z /\ z_subs _ z' = z_subs _ z
  end.
Proof. intros. now apply proc_zone_status_latest. Qed.
Print Assumptions C10_at4_zone_status_latest.

Theorem C10_at5_zone_status_latest : forall l (c : client5) id,
  (forall z, find_zone _ (c_zones _ _ _ _ c) id = Some z -> z_id _ z = zs_zone (z_status _ z)) ->
  match find_zone _ (c_zones _ _ _ _ c) id with
  | None => find_zone _ (c_zones _ _ _ _ (fst (proc_zone_status _ _ _ _ zs_zone zone_status_eqb c l))) id = None
  | Some z => exists z', find_zone _ (c_zones _ _ _ _ (fst (proc_zone_status _ _ _ _ zs_zone zone_status_eqb c l))) id = Some z' /\
                         z_status _ z' = latest zs_zone (z_status _ z) id l /\
                         z_id _ z' = z_id _ z /\ z_name _ z' = z_name _ z /\ z_subs _ z' = z_subs _ z
  end.
Proof. intros. now apply proc_zone_status_latest. Qed.
Print Assumptions C10_at5_zone_status_latest.

(* ---- translation tables: every defined protocol value has an entry (the getters are
   total functions of the decoded enums), and they say what the API promises *)
Theorem C10_mode_tables : forall m,
  selected_mode4 m = (if auto_variant m then PM_Auto else mode_in_effect m) /\ active_mode4 m = mode_in_effect m.
Proof. exact mode_tables. Qed.
Print Assumptions C10_mode_tables.

Theorem C10_at5_fan_tables : forall f,
  selected_fan5 f = (if ia_variant f then PF_IntelligentAuto else speed_in_effect f) /\ active_fan5 f = speed_in_effect f.
Proof. exact fan_tables5. Qed.
Print Assumptions C10_at5_fan_tables.

Theorem C10_at5_limits_follow_mode : forall a,
  match a5s_mode (a5_status a) with
  | AMS_Heat => g5_min_target a = ab5_min_heat (a5_ability a) /\ g5_max_target a = ab5_max_heat (a5_ability a)
  | AMS_Cool => g5_min_target a = ab5_min_cool (a5_ability a) /\ g5_max_target a = ab5_max_cool (a5_ability a)
  | _ => g5_min_target a = N.min (ab5_min_heat (a5_ability a)) (ab5_min_cool (a5_ability a)) /\
         g5_max_target a = N.max (ab5_max_heat (a5_ability a)) (ab5_max_cool (a5_ability a))
  end.
Proof. exact limits5. Qed.
Print Assumptions C10_at5_limits_follow_mode.

Theorem C10_at4_error_only_with_code : forall a, g4_error_info a = None <-> as_error (a4_status a) = 0.
Proof. exact error_info4. Qed.
Print Assumptions C10_at4_error_only_with_code.

Theorem C10_at5_error_only_with_code : forall a, g5_error_info a = None <-> a5s_error (a5_status a) = 0.
Proof. exact error_info5. Qed.
Print Assumptions C10_at5_error_only_with_code.

(* non-vacuity: three reports about AC 1 among reports about others; the last one wins *)
Example C10_witness :
  latest as_number (ac_status_init 1) 1
    [mkAS 1 APS_On AMS_Heat AFS_Low false false 21 200 0; mkAS 0 APS_On AMS_Cool AFS_High false false 24 250 0;
     mkAS 1 APS_Off AMS_AutoCool AFS_Turbo true false 23 215 7; mkAS 3 APS_On AMS_Dry AFS_Auto false false 20 190 0]
  = mkAS 1 APS_Off AMS_AutoCool AFS_Turbo true false 23 215 7.
Proof. reflexivity. Qed.
