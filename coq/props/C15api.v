(* C15, API half — shutdown() empties the object model, and a later init() works as on a fresh object,
   on the generic client core (coq/api/Core.v, instantiated for both generations in Client4.v / Client5.v). *)
From Coq Require Import NArith List Bool.
From PV Require Import base.Res at4.Msg4 at5.Msg5 api.Core api.LifeProofs api.Client4 api.Client5.
Import ListNotations.
Open Scope N_scope.

(* shutdown(): closed, not initialised, no zones, no air-conditioners, heartbeat stopped - from any state *)
Theorem C15_api_shutdown_empties : forall ZS AS AB TD (c : client ZS AS AB TD),
  c_state _ _ _ _ (on_shutdown _ _ _ _ c) = Closed /\ c_zones _ _ _ _ (on_shutdown _ _ _ _ c) = [] /\
  c_acs _ _ _ _ (on_shutdown _ _ _ _ c) = [] /\ c_initialised _ _ _ _ (on_shutdown _ _ _ _ c) = false /\
  c_hb_started _ _ _ _ (on_shutdown _ _ _ _ c) = false.
Proof. exact shutdown_empties. Qed.
Print Assumptions C15_api_shutdown_empties.

(* a later init(): for ANY client state before the shutdown and ANY sequence of frames after the new
   connection, the re-initialised client sends the same first request, goes through the same handshake
   states, builds the same zones and air-conditioners with the same contents, and issues the same requests,
   zone / AC notifications and heartbeat / poll starts as a fresh object on which init() was called.
   (strip forgets exactly what survives a shutdown by design: the remembered console version and the
   AirTouch-level subscriber set, which only decide AirTouch-level notifications - model_outs drops those.) *)
Theorem C15_api_reinit_like_fresh :
  forall ZS AS AB TD zs_id as_id ab_id td_id zs_eqb as_eqb td_eqb has_error zs_init as_init td_init assign
         (c : client ZS AS AB TD) es,
  let run := run_events ZS AS AB TD zs_id as_id ab_id td_id zs_eqb as_eqb td_eqb has_error zs_init as_init td_init assign in
  let old := on_connected _ _ _ _ (on_init _ _ _ _ (on_shutdown _ _ _ _ c)) in
  let new := on_connected _ _ _ _ (on_init _ _ _ _ (empty _ _ _ _ (c_uses_poll _ _ _ _ c))) in
  snd old = snd new /\
  strip _ _ _ _ (fst (run (fst old) es)) = strip _ _ _ _ (fst (run (fst new) es)) /\
  model_outs (snd (run (fst old) es)) = model_outs (snd (run (fst new) es)).
Proof. intros. apply reinit_like_fresh. Qed.
Print Assumptions C15_api_reinit_like_fresh.

(* the state right after shutdown() + init() is the fresh one *)
Theorem C15_api_reinit_state : forall ZS AS AB TD (c : client ZS AS AB TD),
  strip _ _ _ _ (on_init _ _ _ _ (on_shutdown _ _ _ _ c)) = strip _ _ _ _ (on_init _ _ _ _ (empty _ _ _ _ (c_uses_poll _ _ _ _ c))).
Proof. exact reinit_is_fresh. Qed.
Print Assumptions C15_api_reinit_state.

(* non-vacuity: an initialised AirTouch 4 client with two ACs and three zones is shut down and initialised
   again against a console that now reports one AC and two zones: it ends exactly where a fresh client ends *)
Example C15_api_witness :
  let ab0 := mkAb 0 [65] [true; true; true; true; true] [true; true; true; true; true; true; true] 16 30 (Some [0; 2]) 0 0 in
  let ab1 := mkAb 1 [66] [true; true; true; true; true] [true; true; true; true; true; true; true] 16 30 (Some [1]) 0 0 in
  let run := run_events _ _ _ _ gs_group as_number ab_number td_number group_status_eqb ac_status_eqb timer_data_eqb
                  (fun s => negb (as_error s =? 0)) group_status_init ac_status_init timer_init assign4 in
  let es1 := [EvVersion _ _ _ _ false [[49]]; EvNames _ _ _ _ [(0, [97]); (1, [98]); (2, [99])]; EvAbility _ _ _ _ [ab0; ab1];
              EvAcStatus _ _ _ _ [ac_status_init 0; ac_status_init 1]; EvTimer _ _ _ _ []; EvZoneStatus _ _ _ _ [group_status_init 0]] in
  let c := fst (run (set_state _ _ _ _ empty4 InitVersion) es1) in
  let ab0' := mkAb 0 [67] [true; true; true; true; true] [true; true; true; true; true; true; true] 16 30 (Some [0; 1]) 0 0 in
  let es2 := [EvVersion _ _ _ _ true [[50]]; EvNames _ _ _ _ [(0, [97]); (1, [100])]; EvAbility _ _ _ _ [ab0'];
              EvAcStatus _ _ _ _ [ac_status_init 0]; EvTimer _ _ _ _ []; EvZoneStatus _ _ _ _ [group_status_init 1]] in
  let old := fst (run (fst (on_connected _ _ _ _ (on_init _ _ _ _ (on_shutdown _ _ _ _ c)))) es2) in
  let new := fst (run (fst (on_connected _ _ _ _ (on_init _ _ _ _ empty4))) es2) in
  c_initialised _ _ _ _ c = true /\ length (c_acs _ _ _ _ c) = 2%nat /\
  c_state _ _ _ _ old = Connected /\ c_initialised _ _ _ _ old = true /\
  map (fun a => (a_id _ _ _ a, a_zones _ _ _ a)) (c_acs _ _ _ _ old) = [(0, [0; 1])] /\
  map (z_id _) (c_zones _ _ _ _ old) = [0; 1] /\
  strip _ _ _ _ old = strip _ _ _ _ new.
Proof. vm_compute. repeat split; reflexivity. Qed.
Print Assumptions C15_api_witness.
