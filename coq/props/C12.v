(* C12 — Subscribers hear about every change, and only about changes. *)
From Coq Require Import NArith ZArith List Bool Lia.
From PV Require Import base.Res at4.Msg4 at5.Msg5 api.Core api.CoreProofs api.Client4 api.Client5 api.ClientProofs.
Import ListNotations.
Open Scope N_scope.

(* Subscribers are numbers; an output ONotifyZone s z / ONotifyAc s a / ONotifyAirTouch s is
   one invocation of subscriber s with that identifier.  Stated for any record types with a
   reflexive equality, then instantiated for both generations. *)

(* ---- an identical report: nobody is called (zone, AC status, AC timer) *)
Theorem C12_no_echo_zone_4 : forall (acs : list (aircon ac_status ability timer_data)) (z : zone group_status),
  snd (update_zone _ _ _ _ group_status_eqb acs z (z_status _ z)) = [].
Proof. intros. apply zone_no_echo. exact group_status_eqb_refl. Qed.
Print Assumptions C12_no_echo_zone_4.
Theorem C12_no_echo_zone_5 : forall (acs : list (aircon ac5_status ability5 timer_data)) (z : zone zone_status),
  snd (update_zone _ _ _ _ zone_status_eqb acs z (z_status _ z)) = [].
Proof. intros. apply zone_no_echo. exact zone_status_eqb_refl. Qed.
Print Assumptions C12_no_echo_zone_5.
Theorem C12_no_echo_ac_4 : forall (a : aircon ac_status ability timer_data),
  snd (update_ac_status _ _ _ ac_status_eqb (fun s => negb (as_error s =? 0)) a (a_status _ _ _ a)) = [].
Proof. intros. apply ac_status_no_echo. exact ac_status_eqb_refl. Qed.
Print Assumptions C12_no_echo_ac_4.
Theorem C12_no_echo_ac_5 : forall (a : aircon ac5_status ability5 timer_data),
  snd (update_ac_status _ _ _ ac5_status_eqb (fun s => negb (a5s_error s =? 0)) a (a_status _ _ _ a)) = [].
Proof. intros. apply ac_status_no_echo. exact ac5_status_eqb_refl. Qed.
Print Assumptions C12_no_echo_ac_5.
Theorem C12_no_echo_timer : forall AS AB (a : aircon AS AB timer_data),
  snd (update_ac_timer _ _ _ timer_data_eqb a (a_timer _ _ _ a)) = [].
Proof. intros. apply ac_timer_no_echo. exact timer_data_eqb_refl. Qed.
Print Assumptions C12_no_echo_timer.

(* ---- a changed zone report calls every subscriber of the zone once with the zone id and
   every GENERAL subscriber of each AC listing the zone once with the AC id - nobody else,
   in particular no AC-state-only subscriber *)
Theorem C12_zone_change : forall ZS AS AB TD (zs_eqb : ZS -> ZS -> bool) acs (z : zone ZS) s,
  zs_eqb (z_status _ z) s = false ->
  snd (update_zone ZS AS AB TD zs_eqb acs z s) =
    map (fun sub => ONotifyZone sub (z_id _ z)) (z_subs _ z) ++
    concat (map (fun a => map (fun sub => ONotifyAc sub (a_id _ _ _ a)) (a_subs _ _ _ a)) (owners AS AB TD acs (z_id _ z))).
Proof. intros. now apply zone_change_notifies. Qed.
Print Assumptions C12_zone_change.

(* ---- a changed AC status calls general and AC-state-only subscribers, each once *)
Theorem C12_ac_change : forall AS AB TD (as_eqb : AS -> AS -> bool) has_error (a : aircon AS AB TD) s,
  as_eqb (a_status _ _ _ a) s = false ->
  snd (update_ac_status AS AB TD as_eqb has_error a s) =
    (if has_error s then [OSendReq (RErrInfo (a_id _ _ _ a))] else []) ++
    map (fun sub => ONotifyAc sub (a_id _ _ _ a)) (ac_all_subs AS AB TD a) /\
  NoDup (ac_all_subs AS AB TD a).
Proof. intros. split; [now apply ac_change_notifies|apply nodup_nat_once]. Qed.
Print Assumptions C12_ac_change.

(* ---- subscriber sets: subscribing twice has no extra effect; after unsubscribing the
   subscriber is in no set any more *)
Theorem C12_subscribe_idempotent : forall l s, add_sub (add_sub l s) s = add_sub l s /\ In s (add_sub l s).
Proof. intros. split; [apply add_sub_idem|apply add_sub_in]. Qed.
Print Assumptions C12_subscribe_idempotent.
Theorem C12_unsubscribe : forall l s, ~ In s (del_sub l s).
Proof. exact del_sub_out. Qed.
Print Assumptions C12_unsubscribe.

(* non-vacuity: zone 2 of AC 0 changes; zone subscriber 1, AC general subscribers 11 and 12
   are called, AC-state-only subscriber 21 is not *)
Example C12_witness :
  let a := mkAc ac_status ability timer_data 0 (mkAb 0 [] [] [] 16 30 None 0 4) (ac_status_init 0) (timer_init 0) None [1; 2] [11; 12]%nat [21]%nat in
  let z := mkZone group_status 2 [] (group_status_init 2) [1]%nat in
  snd (update_zone _ _ _ _ group_status_eqb [a] z (mkGS 2 GPS_On GMS_Damper false false false Bat_Normal (Some 0%Z) 50 None))
  = [ONotifyZone 1%nat 2; ONotifyAc 11%nat 0; ONotifyAc 12%nat 0].
Proof. reflexivity. Qed.
