(* C07, the tear-down half - "stays single, never wedges" when closing a connection takes time and timers fire inside
   the tear-down (coq/sock/Teardown.v: the model; the acceptor at its end judges the implementation's network traces). *)
From Coq Require Import List Bool Arith.
From PV Require Import sock.Teardown sock.TeardownProofs.
Import ListNotations.

(* every reachable state of the model - any interleaving of openings, attempt outcomes, link losses (also inside the
   flush of a connection attempt, which leaves a retry armed), completions of tear-downs and retry timers, in any
   order and number: at most one connection is open *)
Theorem C07_teardown_single : forall evs, t_live (trun evs) <= 1.
Proof. exact teardown_single. Qed.
Print Assumptions C07_teardown_single.

(* ... and once opened the client is never left with nothing pending: it is connected (possibly tearing the connection
   down, after which it attempts again), or an attempt is in flight, or a retry is armed *)
Theorem C07_teardown_never_wedged : forall evs, t_open (trun evs) = true ->
  t_conn (trun evs) = true \/ t_cing (trun evs) = true \/ 0 < t_retry (trun evs).
Proof. exact teardown_never_wedged. Qed.
Print Assumptions C07_teardown_never_wedged.

(* a connection attempt starts only with no connection open, none being made, and is_connected cleared *)
Theorem C07_teardown_dial_state : forall evs e,
  t_dials (trun (evs ++ [e])) <> t_dials (trun evs) ->
  t_conn (trun (evs ++ [e])) = false /\ t_live (trun (evs ++ [e])) = 0 /\ t_cing (trun (evs ++ [e])) = true.
Proof. exact teardown_after_dial_state. Qed.
Print Assumptions C07_teardown_dial_state.

(* a retry timer that fires while connected - in particular inside a tear-down - starts nothing *)
Theorem C07_teardown_dial_only_when_down : forall evs e,
  t_dials (trun (evs ++ [e])) <> t_dials (trun evs) ->
  t_conn (trun evs) = false \/ (t_tear (trun evs) = true /\ e = TTearDone).
Proof. exact teardown_dial_only_when_down. Qed.
Print Assumptions C07_teardown_dial_only_when_down.

(* the acceptor used on the implementation's traces: what it accepts never has two connections open, and it accepts
   every run of the model (so a rejected trace is one the model cannot produce) *)
Theorem C07_acceptor_single : forall os a', arun ainit os = Some a' -> a_live a' <= 1.
Proof. exact acceptor_single. Qed.
Print Assumptions C07_acceptor_single.

Theorem C07_acceptor_accepts_model_runs : forall evs, arun ainit (project tinit evs) = Some (abs (trun evs)).
Proof. exact acceptor_accepts_model_runs. Qed.
Print Assumptions C07_acceptor_accepts_model_runs.

(* the statement is about this order of operations: with is_connected cleared before the wait instead of after it, the
   same history ends with two connections open *)
Theorem C07_teardown_order_matters :
  t_live (trun_early [TOpen; TDialOk; TLost true; TTearDone; TDialOk; TLost false; TRetryFire; TDialOk; TTearDone; TDialOk]) = 2
  /\ t_live (trun [TOpen; TDialOk; TLost true; TTearDone; TDialOk; TLost false; TRetryFire; TDialOk; TTearDone; TDialOk]) = 1.
Proof. exact teardown_order_matters. Qed.
Print Assumptions C07_teardown_order_matters.

(* non-vacuity: a reachable state with a retry armed while connected *)
Theorem C07_teardown_witness :
  let s := trun [TOpen; TDialOk; TLost true; TTearDone; TDialOk] in t_conn s = true /\ t_retry s = 1 /\ t_live s = 1.
Proof. exact teardown_armed_while_connected. Qed.
Print Assumptions C07_teardown_witness.
