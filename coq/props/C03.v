(* C03 — Every message frames and parses back identically, lengths agree. *)
From Coq Require Import NArith ZArith List Bool Lia.
From PV Require Import base.Res base.Utf8 crc.Crc stream.Stream stream.StreamProofs stream.Wire
  at4.Msg4 at4.Codec4 at4.Codec4Proofs at5.Msg5 at5.Codec5 at5.Codec5Proofs stream.WireProofs base.Flt base.FltProofs at5.FltLink.
Import ListNotations.
Open Scope N_scope.

(* The domains dom4 / dom5 (Codec4Proofs.v, Codec5Proofs.v) are decidable predicates, one
   clause per message class: field values within their bit widths, set-points and
   temperatures within the encodable range, strings valid UTF-8 / NUL-free / fitting their
   field, status lists non-empty (the empty body is the request), dictionary keys
   distinct, AT4 timer messages in their 4-record form. *)

(* payload level: announced size = bytes produced, and decode inverts encode, for all 18
   AirTouch 4 classes ... *)
Theorem C03_payload_roundtrip_4 : forall m, dom4 m = true ->
  exists p, enc4 m = Some p /\ size4 m = Some (length p) /\ dec4 (type_of m) p = Some m.
Proof. exact msg4_roundtrip. Qed.
Print Assumptions C03_payload_roundtrip_4.

(* ... and all 18 AirTouch 5 classes, including the nested 0xC0 sub-header (non-repeat
   length, repeat length, repeat count) and the 0x1F sub-id *)
Theorem C03_payload_roundtrip_5 : forall m, dom5 m = true ->
  exists p, enc5 m = Some p /\ size5 m = Some (length p) /\ dec5 (type_of5 m) p = Some m.
Proof. exact msg5_roundtrip. Qed.
Print Assumptions C03_payload_roundtrip_5.

(* frame level (fits4/fits5: the payload fits the 16-bit length field, i.e. is shorter
   than 65 524 bytes): what send() writes for m with any packet id is accepted by the receive
   path, which delivers an equal header and an equal message and leaves exactly the
   bytes that followed the frame *)
Theorem C03_frame_roundtrip_4 : forall m pid rest, dom4 m = true -> fits4 m = true -> pid < 256 ->
  exists h f, send4 m pid = Some (h, f) /\
              h_to h = to_address (type_of m) /\ h_from h = 0xB0 /\ h_pid h = pid /\ h_type h = type_of m /\
              rx_one msg4 rdec4 AT4 (f ++ rest) = RxDeliver h m rest.
Proof. exact frame4_roundtrip. Qed.
Print Assumptions C03_frame_roundtrip_4.

Theorem C03_frame_roundtrip_5 : forall m pid rest, dom5 m = true -> fits5 m = true -> pid < 256 ->
  exists h f, send5 m pid = Some (h, f) /\
              h_to h = to_address (type_of5 m) /\ h_from h = 0xB0 /\ h_pid h = pid /\ h_type h = type_of5 m /\
              rx_one msg5 rdec5 AT5 (f ++ rest) = RxDeliver h m rest.
Proof. exact frame5_roundtrip. Qed.
Print Assumptions C03_frame_roundtrip_5.

(* the announced length in the header is the number of payload bytes in the frame *)
Theorem C03_header_length_4 : forall m pid h f, send4 m pid = Some (h, f) ->
  exists p, enc4 m = Some p /\ size4 m = Some (N.to_nat (h_len h)) /\ f = frame AT4 h p.
Proof. exact send4_length. Qed.
Print Assumptions C03_header_length_4.

Theorem C03_header_length_5 : forall m pid h f, send5 m pid = Some (h, f) ->
  exists p, enc5 m = Some p /\ size5 m = Some (N.to_nat (h_len h)) /\ f = frame AT5 h p.
Proof. exact send5_length. Qed.
Print Assumptions C03_header_length_5.

(* floating point.  Temperatures are tenths (Z) in Codec4 / Codec5; the library computes them with
   binary64 arithmetic ((raw - 500) / 10.0, int(t * 10.0 + 500), ...).  base/Flt.v states those lines on
   Coq.Floats.SpecFloat (IEEE-754 binary64, round to nearest even, pure Gallina): every value the fields can
   carry survives decode-then-encode in floating point, ... *)
Theorem C03_float_temperature_4 : forall v, (0 <= v < 2048)%Z ->
  f_enc_temp4 (f_dec_temp4 (Z.shiftl v 5)) = Some (Z.shiftl v 5).
Proof. exact temp4_float_roundtrip. Qed.
Print Assumptions C03_float_temperature_4.

Theorem C03_float_set_point_5 : forall r, (0 <= r < 256)%Z -> f_enc_sp5 (f_dec_sp5 r) = Some r.
Proof. exact sp5_float_roundtrip. Qed.
Print Assumptions C03_float_set_point_5.

Theorem C03_float_temperature_5 : forall r, (0 <= r < 2048)%Z -> f_enc_temp5 (f_dec_temp5 r) = Some r.
Proof. exact temp5_float_roundtrip. Qed.
Print Assumptions C03_float_temperature_5.

(* ... and the integer arithmetic of the codec model is exactly what the floating-point code computes:
   a decoder returns the binary64 nearest to (model tenths)/10, and on the binary64 nearest to k/10 an
   encoder yields the model's integer *)
Theorem C03_float_decoders : forall raw,
  ((raw < 65536)%N -> f_dec_temp4 (Z.of_N raw) = f_tenths (dec_temp raw)) /\
  (f_dec_sp5 (Z.of_N raw) = f_tenths (dec_set_point raw)) /\
  (f_dec_temp5 (Z.of_N raw) = f_tenths (dec_temp5 raw)).
Proof. intros raw. split; [exact (dec_temp4_float raw)|]. split; [exact (dec_set_point5_float raw)|exact (dec_temp5_float raw)]. Qed.
Print Assumptions C03_float_decoders.

Theorem C03_float_encoder_temperature_4 : forall k, (-500 <= k < 1548)%Z ->
  exists b, f_enc_temp4 (f_tenths k) = Some b /\ (0 <= b)%Z /\ enc_temp k = Some (Z.to_N b).
Proof. exact enc_temp4_float. Qed.
Print Assumptions C03_float_encoder_temperature_4.

Theorem C03_float_encoder_set_point_5 : forall k, (100 <= k < 356)%Z ->
  exists b, f_enc_sp5 (f_tenths k) = Some b /\ (0 <= b)%Z /\ enc_set_point k = Some (Z.to_N b).
Proof. exact enc_set_point5_float. Qed.
Print Assumptions C03_float_encoder_set_point_5.

Theorem C03_float_encoder_temperature_5 : forall k, (-1500 <= k < 1548)%Z ->
  exists b, f_enc_temp5 (f_tenths k) = Some b /\ Z.of_N (enc_temp11 k) = Z.land b 2047.
Proof. exact enc_temp5_float. Qed.
Print Assumptions C03_float_encoder_temperature_5.

(* non-vacuity: multi-record messages with multi-byte UTF-8 names are in the domain *)
Example C03_witness_4 :
  dom4 (M_GroupStatus [mkGS 3 GPS_On GMS_Temperature true false true Bat_Low (Some 0%Z) 100 (Some 24);
                       mkGS 15 GPS_Turbo GMS_Damper false true false Bat_Normal None 0 None]) = true /\
  dom4 (M_Ext (S_Names [(0, [75; 195; 188; 99; 104; 101]); (7, [])])) = true /\
  dom4 (M_Ext (S_Ability [mkAb 0 [85; 110; 105; 116] [true; true; false; true; true]
                               [true; false; true; true; true; false; false] 16 30 (Some [0; 1; 5; 15]) 0 4])) = true.
Proof. vm_compute. repeat split; reflexivity. Qed.

Example C03_witness_5 :
  dom5 (M5_Ctl (C_ZoneStatus [mkZS 1 ZPS_On false ZMS_Temperature true Bat_Normal (Some 0%Z) 100 (Some 215%Z);
                              mkZS 2 ZPS_Off true ZMS_Damper false Bat_Low None 0 None])) = true /\
  dom5 (M5_Ext (S5_Names [(1, [76; 105; 118; 105; 110; 103]); (2, [229; 173; 144])])) = true /\
  dom5 (M5_Ctl (C_AcStatus [mkA5S 15 A5S_Sleep AMS_AutoCool A5FS_IATurbo true false true false 354%Z (-500)%Z 65535])) = true.
Proof. vm_compute. repeat split; reflexivity. Qed.
