(* C04 — Commands on the wire mean what the vendor protocol says. *)
From Coq Require Import NArith ZArith List Bool Lia.
From PV Require Import base.Res crc.Crc stream.Stream stream.Wire stream.WireProofs
  at4.Msg4 at4.Codec4 at4.Codec4Proofs at5.Msg5 at5.Codec5 at5.Codec5Proofs
  spec.Spec4 spec.Spec5 spec.Command4 spec.Command5 api.ApiTypes api.Api4 api.Api5 api.ApiProofs.
Import ListNotations.
Open Scope N_scope.

(* Spec4.read_group_ctrl / read_ac_ctrl and Spec5.read_zone_ctrl / read_ac5_ctrl transcribe
   sections 4.a / 4.c (AirTouch 4) and 4.a.i / 4.a.iii (AirTouch 5) of the vendor documents:
   every "other" code reads Keep.  mean_* says what a control record asks for. *)

(* ---- codec level: EVERY control record in the protocol domain (all AC numbers 0..63 /
   0..15, zone numbers, set-points, percentages, every enum member) reads back, from its
   bytes, as exactly what it holds - requested attribute set, everything else Keep *)
Theorem C04_at4_ac_ctrl_bytes : forall c, dom_ac_ctrl c = true ->
  exists b1 b2 b3, enc_ac_ctrl c = Some [b1; b2; b3; 0] /\ read_ac_ctrl b1 b2 b3 = mean_ac_ctrl c.
Proof. exact ac_ctrl_means. Qed.
Print Assumptions C04_at4_ac_ctrl_bytes.

Theorem C04_at4_group_ctrl_bytes : forall c, dom_group_ctrl c = true ->
  exists b1 b2 b3, enc_group_ctrl c = Some [b1; b2; b3; 0] /\ read_group_ctrl b1 b2 b3 = mean_group_ctrl c.
Proof. exact group_ctrl_means. Qed.
Print Assumptions C04_at4_group_ctrl_bytes.

Theorem C04_at5_zone_ctrl_bytes : forall z, dom_zone_ctrl64 z = true ->
  exists b1 b2 b3, enc_zone_ctrl1 z = Some [b1; b2; b3; 0] /\ read_zone_ctrl b1 b2 b3 = mean_zone_ctrl z.
Proof. exact zone_ctrl_means. Qed.
Print Assumptions C04_at5_zone_ctrl_bytes.

Theorem C04_at5_ac_ctrl_bytes : forall c, dom_ac5_ctrl c = true ->
  exists b1 b2 b3 b4, enc_ac5_ctrl1 c = Some [b1; b2; b3; b4] /\ read_ac5_ctrl b1 b2 b3 b4 = mean_ac5_ctrl c.
Proof. exact ac5_ctrl_means. Qed.
Print Assumptions C04_at5_ac_ctrl_bytes.

(* ---- API level: the frame of each public call addresses the intended AC / zone, changes
   exactly the requested attribute to exactly the requested value and keeps the rest
   (reads_* = the payload bytes of the emitted message under the document's reading).
   Mode / fan / power / zone power / damper calls: C11_at4_set_mode ... C11_at5_zone_damper
   (props/C11.v) state the same readings together with the validation; the set-point calls: *)
Theorem C04_at4_set_target : forall a m e, wf_ac4 a ->
  let v := clip (Z.of_N (g4_min_target a)) (Z.of_N (g4_max_target a)) (round0 m e) in
  (Z.of_N (g4_min_target a) <= v <= Z.of_N (g4_max_target a))%Z /\
  exists msg, set_target4 a m e = Sent msg P_Idempotent /\
              reads_ac4 msg (mkSAC (a4_id a) Keep Keep Keep (SetTo (v * 10)%Z)).
Proof. exact set_target4_spec. Qed.
Print Assumptions C04_at4_set_target.

Theorem C04_at5_set_target : forall a m e, wf_ac5 a ->
  (10 <= g5_min_target a)%N -> (g5_min_target a <= g5_max_target a)%N -> (g5_max_target a <= 35)%N ->
  let v := clip (Z.of_N (g5_min_target a) * 10) (Z.of_N (g5_max_target a) * 10) (round1 m e) in
  (Z.of_N (g5_min_target a) * 10 <= v <= Z.of_N (g5_max_target a) * 10)%Z /\
  exists msg, set_target5 a m e = Sent msg P_Idempotent /\
              reads_ac5 msg (mkSAC5 (a5_id a) Keep Keep Keep (SetTo v)).
Proof. exact set_target5_spec. Qed.
Print Assumptions C04_at5_set_target.

Theorem C04_at4_zone_target : forall z m e, z4_id z < 256 ->
  if gs_sensor (z4_status z)
  then (0 <= round0 m e < 256)%Z ->
       exists msg, zone_set_target4 z m e = Sent msg P_Idempotent /\
                   reads_group4 msg (mkSGC (z4_id z) (SetTo (SetPointDeg (round0 m e * 10))) (SetTo ByTemperature) Keep)
  else zone_set_target4 z m e = Refused.
Proof. exact zone_set_target4_spec. Qed.
Print Assumptions C04_at4_zone_target.

Theorem C04_at5_zone_target : forall z m e, z5_id z < 64 ->
  if zs_sensor (z5_status z)
  then (100 <= round1 m e <= 355)%Z ->
       exists msg, zone_set_target5 z m e = Sent msg P_Idempotent /\
                   reads_zone5 msg (mkSZC (z5_id z) (SetTo (SetPointDeg (round1 m e))) Keep Keep)
  else zone_set_target5 z m e = Refused.
Proof. exact zone_set_target5_spec. Qed.
Print Assumptions C04_at5_zone_target.

Theorem C04_at4_set_mode : forall a m on, wf_ac4 a ->
  if mode_bit (ab_modes (a4_ability a)) m
  then exists msg, set_mode4 a m on = Sent msg P_Idempotent /\
                   reads_ac4 msg (mkSAC (a4_id a) (if on then SetTo POn else Keep) (SetTo (mode_reading m)) Keep Keep)
  else set_mode4 a m on = Refused.
Proof. exact set_mode4_spec. Qed.
Print Assumptions C04_at4_set_mode.

Theorem C04_at5_set_fan : forall a f, wf_ac5 a ->
  if fan_bit (ab5_fans (a5_ability a)) f
  then exists msg, set_fan5 a f = Sent msg P_Idempotent /\
                   reads_ac5 msg (mkSAC5 (a5_id a) Keep Keep (SetTo (fan_reading5 f)) Keep)
  else set_fan5 a f = Refused.
Proof. exact set_fan5_spec. Qed.
Print Assumptions C04_at5_set_fan.

(* ---- every frame send() writes: to 0x80 (0x90 for the extended type 0x1F) from 0xB0,
   with the packet id and type of the message, and check bytes that validate over
   address .. payload *)
Theorem C04_addressing_4 : forall m pid h f, send4 m pid = Some (h, f) ->
  h_to h = (if type_of m =? 0x1F then 0x90 else 0x80) /\ h_from h = 0xB0 /\ h_pid h = pid /\ h_type h = type_of m /\
  exists p, enc4 m = Some p /\ f = enc_hdr AT4 h ++ p ++ check_bytes (cov h ++ p) /\
            validate (cov h ++ p) (check_bytes (cov h ++ p)) = true.
Proof. exact send4_addressing. Qed.
Print Assumptions C04_addressing_4.

Theorem C04_addressing_5 : forall m pid h f, send5 m pid = Some (h, f) ->
  h_to h = (if type_of5 m =? 0x1F then 0x90 else 0x80) /\ h_from h = 0xB0 /\ h_pid h = pid /\ h_type h = type_of5 m /\
  exists p, enc5 m = Some p /\ f = enc_hdr AT5 h ++ p ++ check_bytes (cov h ++ p) /\
            validate (cov h ++ p) (check_bytes (cov h ++ p)) = true.
Proof. exact send5_addressing. Qed.
Print Assumptions C04_addressing_5.

(* non-vacuity: the vendor documents' own examples, "turn off the second AC" (AT4) and
   "second AC to 26 degrees" (AT5) *)
Example C04_doc_examples :
  enc_ac_ctrl (mkAC 1 AP_Off AM_Unchanged AF_Unchanged AS_None) = Some [0x81; 0xFF; 0x3F; 0x00] /\
  enc_ac5_ctrl1 (mkA5C 1 A5P_Unchanged AM_Unchanged A5F_Unchanged (Some 260%Z)) = Some [0x01; 0xFF; 0x40; 0xA0] /\
  enc_group_ctrl (mkGC 1 GP_Off GM_Unchanged GS_None) = Some [0x01; 0x02; 0x00; 0x00].
Proof. vm_compute. repeat split; reflexivity. Qed.
