(* C18 — Discovery reports each answering console once, correctly, and terminates. *)
From Coq Require Import NArith ZArith List Bool Lia.
From PV Require Import base.Utf8 disc.Discovery disc.DiscoveryProofs.
From PV Require Import observed.Obs_C18.
Import ListNotations.

(* observed on this run from /repo (discover() against a silent network, and init() of
   the returned clients): the two request datagrams, the UDP ports they are sent to, the
   three request instants, and the TCP ports of the clients *)
Theorem C18_observed :
  obs_req4 = REQ4 /\ obs_req5 = REQ5 /\ obs_udp4 = 49004%N /\ obs_udp5 = 49005%N /\
  obs_instants4 = [0; 512; 1024]%Z /\ obs_instants5 = [0; 512; 1024]%Z /\
  obs_return = 1536%Z /\ obs_tcp4 = 9004%N /\ obs_tcp5 = 9005%N.
Proof. vm_compute. repeat split; reflexivity. Qed.
Print Assumptions C18_observed.

(* the schedule for EVERY arrival pattern: at most three requests, at 0, 0.5 s, 1 s;
   stops after the first interval in which any console answered; always returns (the
   function is total), half a second after its last request *)
Theorem C18_requests : forall arr,
  search arr =
  match collect 0 arr [] with
  | [] => match collect 512 arr [] with
          | [] => ([0; 512; 1024]%Z, collect 1024 arr [], 1536%Z)
          | a => ([0; 512]%Z, a, 1024%Z)
          end
  | a => ([0]%Z, a, 512%Z)
  end.
Proof. exact search_schedule. Qed.
Print Assumptions C18_requests.

(* every datagram in the vendor response format yields exactly its address, serial, id
   (and name), commas inside the id (AT4) / the name (AT5) preserved *)
Theorem C18_decode_exact_4 : forall host serial aid,
  comma_free host -> comma_free serial ->
  utf8_valid host = true -> utf8_valid serial = true -> utf8_valid aid = true ->
  decode4 (dgram4 host serial aid) = DResp4 host serial aid.
Proof. exact decode4_exact. Qed.
Print Assumptions C18_decode_exact_4.

Theorem C18_decode_exact_5 : forall host serial aid name,
  comma_free host -> comma_free serial -> comma_free aid ->
  utf8_valid host = true -> utf8_valid serial = true -> utf8_valid aid = true -> utf8_valid name = true ->
  decode5 (dgram5 host serial aid name) = DResp5 host serial aid name.
Proof. exact decode5_exact. Qed.
Print Assumptions C18_decode_exact_5.

(* datagrams of any other form add nothing: an entry exists only for a datagram of
   exactly that form with valid text *)
Theorem C18_decode_only_4 : forall d host serial aid,
  decode4 d = DResp4 host serial aid ->
  d = dgram4 host serial aid /\ comma_free host /\ comma_free serial /\
  utf8_valid host = true /\ utf8_valid serial = true /\ utf8_valid aid = true.
Proof. exact decode4_only. Qed.
Print Assumptions C18_decode_only_4.

Theorem C18_decode_only_5 : forall d host serial aid name,
  decode5 d = DResp5 host serial aid name ->
  d = dgram5 host serial aid name /\ comma_free host /\ comma_free serial /\ comma_free aid /\
  utf8_valid host = true /\ utf8_valid serial = true /\ utf8_valid aid = true /\ utf8_valid name = true.
Proof. exact decode5_only. Qed.
Print Assumptions C18_decode_only_5.

Theorem C18_request_echo_ignored : decode4 REQ4 = DRequest /\ decode5 REQ5 = DRequest.
Proof. exact decode_request. Qed.
Print Assumptions C18_request_echo_ignored.

Theorem C18_other_datagrams_add_nothing : forall acc r, is_resp r = false -> add_resp acc r = acc.
Proof. exact add_non_resp. Qed.
Print Assumptions C18_other_datagrams_add_nothing.

(* duplicates collapse: the result never holds two entries equal in all fields, and
   holds nothing but decoded responses *)
Theorem C18_dedup : forall arr,
  let '(_, res, _) := search arr in distinct res /\ Forall (fun x => is_resp x = true) res.
Proof. exact search_distinct. Qed.
Print Assumptions C18_dedup.

Theorem C18_entry_equality : forall a b, is_resp a = true -> (dres_eqb a b = true <-> a = b).
Proof. exact dres_eqb_eq. Qed.
Print Assumptions C18_entry_equality.

(* non-vacuity: "192.168.1.4,E8F2E2,AirTouch4,20,01" (id with a comma) arriving twice
   in the second interval, after an echo of the request and garbage in the first *)
Open Scope N_scope.
Definition ex_dgram : list N :=
  [49;57;50;46;49;54;56;46;49;46;52; 44; 69;56;70;50;69;50; 44; 65;105;114;84;111;117;99;104;52; 44; 50;48;44;48;49].
Example C18_witness :
  decode4 ex_dgram = DResp4 [49;57;50;46;49;54;56;46;49;46;52] [69;56;70;50;69;50] [50;48;44;48;49] /\
  search [(100%Z, decode4 REQ4); (200%Z, decode4 [1;2;3]); (600%Z, decode4 ex_dgram); (700%Z, decode4 ex_dgram)]
  = ([0; 512]%Z, [decode4 ex_dgram], 1024%Z) /\
  decode4 [44;65;105;114;84;111;117;99;104;52;44;255] = DDecodeError /\
  decode4 [255;44;69;44;65;105;114;84;111;117;99;104;52;44;50] = DUnicodeError.
Proof. vm_compute. repeat split; reflexivity. Qed.
Print Assumptions C18_witness.
