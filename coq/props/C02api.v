(* C02 (API part) — which retry policy each public command is sent with. *)
From Coq Require Import NArith ZArith List Bool Lia.
From PV Require Import at4.Msg4 at5.Msg5 api.ApiTypes api.Api4 api.Api5 api.ApiProofs spec.Spec4 spec.Spec5.
Import ListNotations.

(* The retry policy is chosen from the control record alone.  Exactly the records that are
   not idempotent - power toggles, +-1 steps, control-method flips - get the policy without
   retries (max_retries = 0, so by C02_attempt_bound at most one attempt); every other
   command may be retried twice within 30 s. *)
Theorem C02_policy_ac4 : forall c,
  ac_ctrl_policy4 c = P_NonIdempotent <-> (ac_power c = AP_Toggle \/ ac_sp c = AS_Dec \/ ac_sp c = AS_Inc).
Proof.
  intros [n pw mo fa sp]. unfold ac_ctrl_policy4. cbn [ac_power ac_sp].
  destruct sp, pw; split; intros H; try reflexivity; try discriminate; auto;
    destruct H as [H|[H|H]]; discriminate.
Qed.
Print Assumptions C02_policy_ac4.

Theorem C02_policy_group4 : forall c,
  group_ctrl_policy4 c = P_NonIdempotent <-> (gc_method c = GM_Change \/ gc_setting c = GS_Dec \/ gc_setting c = GS_Inc).
Proof.
  intros [g pw me st]. unfold group_ctrl_policy4. cbn [gc_method gc_setting].
  destruct st, me; split; intros H; try reflexivity; try discriminate; auto;
    destruct H as [H|[H|H]]; discriminate.
Qed.
Print Assumptions C02_policy_group4.

Theorem C02_policy_ac5 : forall c, ac_ctrl_policy5 c = P_NonIdempotent <-> a5c_power c = A5P_Toggle.
Proof. intros [n pw mo fa sp]. unfold ac_ctrl_policy5. cbn [a5c_power]. destruct pw; split; intros H; try reflexivity; discriminate. Qed.
Print Assumptions C02_policy_ac5.

Theorem C02_policy_zone5 : forall c,
  zone_ctrl_policy5 c = P_NonIdempotent <-> (zc_power c = ZP_Toggle \/ zc_setting c = ZS_Dec \/ zc_setting c = ZS_Inc).
Proof.
  intros [z pw st]. unfold zone_ctrl_policy5. cbn [zc_power zc_setting].
  destruct st, pw; split; intros H; try reflexivity; try discriminate; auto;
    destruct H as [H|[H|H]]; discriminate.
Qed.
Print Assumptions C02_policy_zone5.

(* the only non-idempotent request the public API can make is the AC power toggle: it is
   sent without retries on both generations; every other accepted public call is idempotent *)
Theorem C02_toggle_once_4 : forall a, wf_ac4 a ->
  exists m, set_power4 a PC_Toggle = Sent m P_NonIdempotent /\ max_retries P_NonIdempotent = 0%nat.
Proof. intros a W. destruct (set_power4_spec a PC_Toggle W) as [m [E _]]. exists m. split; [exact E|reflexivity]. Qed.
Print Assumptions C02_toggle_once_4.

Theorem C02_toggle_once_5 : forall a, wf_ac5 a ->
  exists m, set_power5 a PC_Toggle = Sent m P_NonIdempotent /\ max_retries P_NonIdempotent = 0%nat.
Proof. intros a W. destruct (set_power5_spec a PC_Toggle W) as [m [E _]]. exists m. split; [exact E|reflexivity]. Qed.
Print Assumptions C02_toggle_once_5.
