(* StreamProofs.v — the receive path: prefix stability, independence of segmentation
   (C13), acceptance of the frames the send path produces (C03), and rejection of
   corrupted frames (C06). *)
From Coq Require Import NArith List Bool Lia Arith.
From PV Require Import crc.Crc crc.CrcProofs stream.Stream.
Import ListNotations.

Section ReaderProofs.
  Variable msg : Type.
  Variable dec : hdr -> list N -> option msg.
  Notation rx_one := (rx_one msg dec).
  Notation pump := (pump msg dec).
  Notation feed := (feed msg dec).
  Notation feed_all := (feed_all msg dec).

  (* ------------------------------------------------------------ list helpers *)
  Lemma firstn_app_le {A} n (a b : list A) : (n <= length a)%nat -> firstn n (a ++ b) = firstn n a.
  Proof.
    intros H. rewrite firstn_app. replace (n - length a)%nat with 0%nat by lia.
    cbn. apply app_nil_r.
  Qed.

  Lemma skipn_app_le {A} n (a b : list A) : (n <= length a)%nat -> skipn n (a ++ b) = skipn n a ++ b.
  Proof.
    intros H. rewrite skipn_app. replace (n - length a)%nat with 0%nat by lia. reflexivity.
  Qed.

  (* ------------------------------------------------------- prefix stability *)
  (* a decision taken by _read_one_message does not depend on bytes that arrive later *)
  Lemma rx_one_deliver_ext g buf more h m rest :
    rx_one g buf = RxDeliver h m rest -> rx_one g (buf ++ more) = RxDeliver h m (rest ++ more).
  Proof.
    unfold Stream.rx_one. intros H.
    destruct (Nat.ltb (length buf) (hdr_len g)) eqn:E1; [discriminate|].
    apply Nat.ltb_ge in E1.
    assert (Nat.ltb (length (buf ++ more)) (hdr_len g) = false) as ->
      by (apply Nat.ltb_ge; rewrite app_length; lia).
    rewrite (firstn_app_le _ _ _ E1), (skipn_app_le _ _ _ E1).
    destruct (dec_hdr g (firstn (hdr_len g) buf)) as [[h0 cd]|]; [|discriminate].
    set (r1 := skipn (hdr_len g) buf) in *. set (n := N.to_nat (h_len h0)) in *.
    destruct (Nat.ltb (length r1) (n + 2)) eqn:E2; [discriminate|].
    apply Nat.ltb_ge in E2.
    assert (Nat.ltb (length (r1 ++ more)) (n + 2) = false) as ->
      by (apply Nat.ltb_ge; rewrite app_length; lia).
    rewrite (firstn_app_le n r1 more) by lia.
    rewrite (skipn_app_le n r1 more) by lia.
    rewrite (firstn_app_le 2 (skipn n r1) more) by (rewrite skipn_length; lia).
    rewrite (skipn_app_le (n + 2) r1 more) by lia.
    destruct (validate _ _); [|discriminate].
    destruct (dec h0 (firstn n r1)); [|discriminate].
    inversion H; subst. reflexivity.
  Qed.

  Lemma rx_one_reset_ext g buf more :
    rx_one g buf = RxReset -> rx_one g (buf ++ more) = RxReset.
  Proof.
    unfold Stream.rx_one. intros H.
    destruct (Nat.ltb (length buf) (hdr_len g)) eqn:E1; [discriminate|].
    apply Nat.ltb_ge in E1.
    assert (Nat.ltb (length (buf ++ more)) (hdr_len g) = false) as ->
      by (apply Nat.ltb_ge; rewrite app_length; lia).
    rewrite (firstn_app_le _ _ _ E1), (skipn_app_le _ _ _ E1).
    destruct (dec_hdr g (firstn (hdr_len g) buf)) as [[h0 cd]|]; [|reflexivity].
    set (r1 := skipn (hdr_len g) buf) in *. set (n := N.to_nat (h_len h0)) in *.
    destruct (Nat.ltb (length r1) (n + 2)) eqn:E2; [discriminate|].
    apply Nat.ltb_ge in E2.
    assert (Nat.ltb (length (r1 ++ more)) (n + 2) = false) as ->
      by (apply Nat.ltb_ge; rewrite app_length; lia).
    rewrite (firstn_app_le n r1 more) by lia.
    rewrite (skipn_app_le n r1 more) by lia.
    rewrite (firstn_app_le 2 (skipn n r1) more) by (rewrite skipn_length; lia).
    destruct (validate _ _); [|reflexivity].
    destruct (dec h0 (firstn n r1)); [discriminate|reflexivity].
  Qed.

  (* a delivery consumes at least the header and the check bytes *)
  Lemma rx_one_deliver_shorter g buf h m rest :
    rx_one g buf = RxDeliver h m rest -> (length rest < length buf)%nat.
  Proof.
    unfold Stream.rx_one. intros H.
    destruct (Nat.ltb (length buf) (hdr_len g)) eqn:E1; [discriminate|].
    apply Nat.ltb_ge in E1.
    destruct (dec_hdr g (firstn (hdr_len g) buf)) as [[h0 cd]|]; [|discriminate].
    destruct (Nat.ltb _ _) eqn:E2; [discriminate|]. apply Nat.ltb_ge in E2.
    destruct (validate _ _); [|discriminate].
    destruct (dec h0 _); [|discriminate]. inversion H; subst.
    rewrite !skipn_length in *. destruct g; cbn in *; lia.
  Qed.

  (* ------------------------------------------------------------------ pump *)
  (* enough fuel: the result no longer depends on it *)
  Lemma pump_fuel g : forall f1 f2 buf, (length buf < f1)%nat -> (length buf < f2)%nat ->
    pump g f1 buf = pump g f2 buf.
  Proof.
    induction f1 as [|f1 IH]; intros f2 buf H1 H2; [lia|].
    destruct f2 as [|f2]; [lia|]. cbn.
    destruct (rx_one g buf) as [| |h m rest] eqn:E; try reflexivity.
    pose proof (rx_one_deliver_shorter _ _ _ _ _ E).
    rewrite (IH f2 rest); [reflexivity|lia|lia].
  Qed.

  Definition run_buf (g : gen) (buf : list N) := pump g (S (length buf)) buf.

  (* the central compositional fact: pumping buf ++ more = pumping buf, then pumping what
     was left with more appended (or staying dead) *)
  Lemma pump_app g : forall f buf more, (length buf < f)%nat ->
    run_buf g (buf ++ more) =
    let '(ds, st) := pump g f buf in
    match st with
    | None => (ds, None)
    | Some b' => let '(ds', st') := run_buf g (b' ++ more) in (ds ++ ds', st')
    end.
  Proof.
    induction f as [|f IH]; intros buf more Hf; [lia|].
    cbn [Stream.pump]. destruct (rx_one g buf) as [| |h m rest] eqn:E.
    - destruct (run_buf g (buf ++ more)) as [a b]. reflexivity.
    - unfold run_buf. cbn [Stream.pump]. rewrite (rx_one_reset_ext _ _ more E). reflexivity.
    - pose proof (rx_one_deliver_shorter _ _ _ _ _ E) as Hs.
      unfold run_buf at 1. cbn [Stream.pump]. rewrite (rx_one_deliver_ext _ _ more _ _ _ E).
      assert (Hp : pump g (length (buf ++ more)) (rest ++ more) = run_buf g (rest ++ more)).
      { apply pump_fuel; rewrite !app_length in *; lia. }
      rewrite Hp, (IH rest more) by lia.
      destruct (pump g f rest) as [ds st]. destruct st as [b'|]; [|reflexivity].
      destruct (run_buf g (b' ++ more)) as [ds' st']. reflexivity.
  Qed.

  (* leftover of a pump that stayed alive: pumping it again delivers nothing more *)
  Lemma pump_leftover g : forall f buf ds b', (length buf < f)%nat ->
    pump g f buf = (ds, Some b') -> rx_one g b' = RxMore.
  Proof.
    induction f as [|f IH]; intros buf ds b' Hf H; [lia|]. cbn in H.
    destruct (rx_one g buf) as [| |h m rest] eqn:E.
    - inversion H; subst. exact E.
    - discriminate.
    - pose proof (rx_one_deliver_shorter _ _ _ _ _ E).
      destruct (pump g f rest) as [ds0 st0] eqn:Ep. inversion H; subst.
      eapply IH; [|exact Ep]. lia.
  Qed.

  (* ------------------------------------------------------------------ C13 *)
  Lemma feed_app g buf c1 c2 :
    feed g (Some buf) (c1 ++ c2) =
    let '(d1, st1) := feed g (Some buf) c1 in
    let '(d2, st2) := feed g st1 c2 in (d1 ++ d2, st2).
  Proof.
    unfold Stream.feed. rewrite app_assoc.
    change (Stream.pump msg dec g (S (length ((buf ++ c1) ++ c2))) ((buf ++ c1) ++ c2))
      with (run_buf g ((buf ++ c1) ++ c2)).
    rewrite (pump_app g (S (length (buf ++ c1))) (buf ++ c1) c2) by lia.
    destruct (pump g (S (length (buf ++ c1))) (buf ++ c1)) as [ds st].
    destruct st as [b'|]; [|now rewrite app_nil_r]. reflexivity.
  Qed.

  Lemma feed_dead g c : feed g None c = ([], None). Proof. reflexivity. Qed.

  Lemma feed_all_dead g cs : feed_all g None cs = ([], None).
  Proof. induction cs as [|c cs IH]; cbn; [reflexivity|]. now rewrite IH. Qed.

  Lemma feed_nil g st : (forall b, st = Some b -> rx_one g b = RxMore) -> feed g st [] = ([], st).
  Proof.
    intros H. destruct st as [b|]; [|reflexivity]. unfold Stream.feed. rewrite app_nil_r. cbn.
    now rewrite (H b eq_refl).
  Qed.

  Definition settled (g : gen) (st : rstate) : Prop := forall b, st = Some b -> rx_one g b = RxMore.

  Lemma feed_settled g st c : settled g (snd (feed g st c)).
  Proof.
    destruct st as [buf|]; [|intros b H; discriminate]. unfold Stream.feed.
    destruct (pump g _ _) as [ds st'] eqn:E. cbn. intros b ->.
    eapply pump_leftover; [|exact E]. lia.
  Qed.

  (* C13: for every segmentation of the stream the deliveries and the final state are
     those of the unsegmented stream *)
  Theorem segmentation_independent g : forall chunks st,
    settled g st ->
    feed_all g st chunks = feed g st (concat chunks).
  Proof.
    induction chunks as [|c cs IH]; intros st Hst.
    - cbn. symmetry. now apply feed_nil.
    - cbn [Stream.feed_all concat]. destruct st as [buf|].
      + rewrite feed_app. destruct (feed g (Some buf) c) as [d1 st1] eqn:E1.
        assert (Hs1 : settled g st1) by (pose proof (feed_settled g (Some buf) c) as S1; now rewrite E1 in S1).
        rewrite (IH st1 Hs1). reflexivity.
      + rewrite !feed_dead. cbn. rewrite feed_all_dead. reflexivity.
  Qed.
End ReaderProofs.

(* ------------------------------------------------------------- header codec *)
Open Scope N_scope.

Lemma be16_hi_lo v : be16 (hi8 v) (lo8 v) = v.
Proof. unfold be16, hi8, lo8. rewrite N.mul_comm. symmetry. apply N.div_mod. discriminate. Qed.

Lemma hi8_lt v : v < 65536 -> hi8 v < 256.
Proof. intros H. unfold hi8. apply N.div_lt_upper_bound; [discriminate|exact H]. Qed.

Lemma lo8_lt v : lo8 v < 256.
Proof. unfold lo8. apply N.mod_lt. discriminate. Qed.

Lemma dec_enc_hdr g h : hdr_encodable g h = true -> dec_hdr g (enc_hdr g h) = Some (h, cov h).
Proof.
  intros H. unfold enc_hdr, pre, cov. destruct g; cbn [app dec_hdr].
  - cbn. rewrite be16_hi_lo. destruct h; reflexivity.
  - rewrite !N.eqb_refl, !be16_hi_lo, N.eqb_refl. cbn. destruct h; reflexivity.
Qed.

Lemma validate_self bs : validate bs (check_bytes bs) = true.
Proof. unfold validate, check_bytes. now rewrite !N.eqb_refl. Qed.

Lemma length_enc_hdr g h : length (enc_hdr g h) = hdr_len g.
Proof. destruct g; reflexivity. Qed.

Lemma firstn_exact {A} n (a b : list A) : length a = n -> firstn n (a ++ b) = a.
Proof. intros <-. rewrite firstn_app, Nat.sub_diag, firstn_all. cbn. apply app_nil_r. Qed.

Lemma skipn_exact {A} n (a b : list A) : length a = n -> skipn n (a ++ b) = b.
Proof. intros <-. rewrite skipn_app, Nat.sub_diag, skipn_all. reflexivity. Qed.

Section FrameProofs.
  Variable msg : Type.
  Variable dec : hdr -> list N -> option msg.

  (* the shape of one pass over header bytes, payload, two check bytes, rest *)
  Lemma rx_one_shape g hb h' cd pl c1 c2 rest :
    length hb = hdr_len g -> dec_hdr g hb = Some (h', cd) -> N.to_nat (h_len h') = length pl ->
    rx_one msg dec g (hb ++ pl ++ [c1; c2] ++ rest) =
    if validate (cd ++ pl) [c1; c2]
    then match dec h' pl with Some m => RxDeliver h' m rest | None => RxReset end
    else RxReset.
  Proof.
    intros Hh Hd Hn. unfold rx_one.
    assert (Nat.ltb (length (hb ++ pl ++ [c1; c2] ++ rest)) (hdr_len g) = false) as ->
      by (apply Nat.ltb_ge; rewrite app_length; lia).
    rewrite (firstn_exact _ hb _ Hh), (skipn_exact _ hb _ Hh), Hd, Hn.
    assert (Nat.ltb (length (pl ++ [c1; c2] ++ rest)) (length pl + 2) = false) as ->
      by (apply Nat.ltb_ge; rewrite !app_length; cbn; lia).
    rewrite (firstn_exact _ pl _ eq_refl), (skipn_exact _ pl _ eq_refl).
    change (firstn 2 ([c1; c2] ++ rest)) with [c1; c2].
    destruct (validate _ _); [|reflexivity]. destruct (dec h' pl); [|reflexivity].
    f_equal. rewrite app_assoc. apply skipn_exact. rewrite app_length. reflexivity.
  Qed.

  Lemma rx_one_bad_header g hb tail :
    length hb = hdr_len g -> dec_hdr g hb = None -> rx_one msg dec g (hb ++ tail) = RxReset.
  Proof.
    intros Hh Hd. unfold rx_one.
    assert (Nat.ltb (length (hb ++ tail)) (hdr_len g) = false) as ->
      by (apply Nat.ltb_ge; rewrite app_length; lia).
    now rewrite (firstn_exact _ hb _ Hh), Hd.
  Qed.

  (* C03 at the framing level: a frame produced by the send path is accepted by the
     receive path with an equal header, the same payload, and nothing left over *)
  Theorem rx_one_frame g h payload rest m :
    hdr_encodable g h = true -> length payload = N.to_nat (h_len h) ->
    dec h payload = Some m ->
    rx_one msg dec g (frame g h payload ++ rest) = RxDeliver h m rest.
  Proof.
    intros He Hl Hd. unfold frame. rewrite <- !app_assoc.
    change (check_bytes (cov h ++ payload)) with
      [N.shiftr (crc_tbl (cov h ++ payload)) 8; N.land (crc_tbl (cov h ++ payload)) 255].
    rewrite (rx_one_shape g (enc_hdr g h) h (cov h) payload _ _ rest (length_enc_hdr g h) (dec_enc_hdr g h He) (eq_sym Hl)).
    change [N.shiftr (crc_tbl (cov h ++ payload)) 8; N.land (crc_tbl (cov h ++ payload)) 255]
      with (check_bytes (cov h ++ payload)).
    now rewrite validate_self, Hd.
  Qed.

  (* ------------------------------------------------------------------ C06 *)
  (* The frame with its covered bytes (address..length, payload) altered by
     [e0..e5] ++ emp and its check bytes altered by (eh, el). *)
  Definition corrupt (g : gen) (h : hdr) (payload : list N)
             (e0 e1 e2 e3 e4 e5 : N) (emp : list N) (eh el : N) : list N :=
    let c := crc_tbl (cov h ++ payload) in
    (pre g h ++
     [N.lxor (h_to h) e0; N.lxor (h_from h) e1; N.lxor (h_pid h) e2; N.lxor (h_type h) e3;
      N.lxor (hi8 (h_len h)) e4; N.lxor (lo8 (h_len h)) e5]) ++
    xor_list payload emp ++ [N.lxor (N.shiftr c 8) eh; N.lxor (N.land c 255) el].

  Lemma length_xor_list a : forall b, length a = length b -> length (xor_list a b) = length a.
  Proof. induction a as [|x a IH]; intros [|y b] H; cbn in *; try lia. f_equal. apply IH. lia. Qed.

  Lemma be16_xor_neq lh ll e4 e5 :
    lh < 256 -> ll < 256 -> e4 < 256 -> e5 < 256 -> (e4 <> 0 \/ e5 <> 0) ->
    be16 (N.lxor lh e4) (N.lxor ll e5) <> be16 lh ll.
  Proof.
    intros H1 H2 H3 H4 Hne E. unfold be16 in E.
    assert (A : N.lxor lh e4 < 256) by (change 256 with (2 ^ 8); apply fits_lt, fits_lxor; now apply fits_lt).
    assert (B : N.lxor ll e5 < 256) by (change 256 with (2 ^ 8); apply fits_lt, fits_lxor; now apply fits_lt).
    assert (N.lxor lh e4 = lh /\ N.lxor ll e5 = ll) as [E1 E2] by lia.
    destruct Hne as [Hne|Hne]; apply Hne.
    - apply (lxor_cancel_l lh). now rewrite E1, N.lxor_0_r.
    - apply (lxor_cancel_l ll). now rewrite E2, N.lxor_0_r.
  Qed.

  (* header decoding of the altered header bytes *)
  Lemma dec_hdr_corrupt g h e0 e1 e2 e3 e4 e5 :
    h_len h < 65536 -> e4 < 256 -> e5 < 256 ->
    dec_hdr g (pre g h ++
               [N.lxor (h_to h) e0; N.lxor (h_from h) e1; N.lxor (h_pid h) e2; N.lxor (h_type h) e3;
                N.lxor (hi8 (h_len h)) e4; N.lxor (lo8 (h_len h)) e5]) =
    if (match g with AT4 => true | AT5 => (e4 =? 0) && (e5 =? 0) end)
    then Some (mkHdr (N.lxor (h_to h) e0) (N.lxor (h_from h) e1) (N.lxor (h_pid h) e2) (N.lxor (h_type h) e3)
                     (be16 (N.lxor (hi8 (h_len h)) e4) (N.lxor (lo8 (h_len h)) e5)),
               [N.lxor (h_to h) e0; N.lxor (h_from h) e1; N.lxor (h_pid h) e2; N.lxor (h_type h) e3;
                N.lxor (hi8 (h_len h)) e4; N.lxor (lo8 (h_len h)) e5])
    else None.
  Proof.
    intros Hlen B4 B5. destruct g; [reflexivity|].
    cbn [pre app dec_hdr]. rewrite !N.eqb_refl, !be16_hi_lo. cbn [andb].
    destruct (N.eq_dec e4 0) as [->|N4]; [destruct (N.eq_dec e5 0) as [->|N5]|].
    - rewrite !N.lxor_0_r, be16_hi_lo, N.eqb_refl. reflexivity.
    - pose proof (be16_xor_neq (hi8 (h_len h)) (lo8 (h_len h)) 0 e5 (hi8_lt _ Hlen) (lo8_lt _) ltac:(lia) B5 (or_intror N5)) as Hne.
      rewrite be16_hi_lo in Hne.
      assert ((10 + h_len h + 2 =? 10 + be16 (N.lxor (hi8 (h_len h)) 0) (N.lxor (lo8 (h_len h)) e5) + 2) = false) as ->
        by (apply N.eqb_neq; lia).
      apply N.eqb_neq in N5. rewrite N5. reflexivity.
    - pose proof (be16_xor_neq (hi8 (h_len h)) (lo8 (h_len h)) e4 e5 (hi8_lt _ Hlen) (lo8_lt _) B4 B5 (or_introl N4)) as Hne.
      rewrite be16_hi_lo in Hne.
      assert ((10 + h_len h + 2 =? 10 + be16 (N.lxor (hi8 (h_len h)) e4) (N.lxor (lo8 (h_len h)) e5) + 2) = false) as ->
        by (apply N.eqb_neq; lia).
      apply N.eqb_neq in N4. rewrite N4. reflexivity.
  Qed.

  Theorem frame_detect g h payload e0 e1 e2 e3 e4 e5 emp eh el rest :
    hdr_encodable g h = true -> bytes_ok payload -> length payload = N.to_nat (h_len h) ->
    length emp = length payload ->
    detectable (6 + length payload) ([e0; e1; e2; e3; e4; e5] ++ emp) eh el ->
    (g = AT4 -> e4 = 0 /\ e5 = 0) ->
    rx_one msg dec g (corrupt g h payload e0 e1 e2 e3 e4 e5 emp eh el ++ rest) = RxReset.
  Proof.
    intros He Hp Hl Hle Hd H4.
    destruct (detectable_wf _ _ _ _ Hd) as [Hem _].
    apply Forall_app in Hem as [Hem6 Hemp].
    assert (B0 : e0 < 256 /\ e1 < 256 /\ e2 < 256 /\ e3 < 256 /\ e4 < 256 /\ e5 < 256).
    { repeat match goal with H : Forall _ (_ :: _) |- _ => inversion H; clear H; subst end. auto 10. }
    destruct B0 as [B0 [B1 [B2 [B3 [B4 B5]]]]].
    unfold hdr_encodable in He. apply andb_prop in He as [He Hg].
    assert (Hlen16 : h_len h < 65536) by (destruct g; apply N.ltb_lt in Hg; lia).
    repeat (apply andb_prop in He as [He ?]).
    repeat match goal with H : (_ <? _) = true |- _ => apply N.ltb_lt in H end.
    assert (Hcovok : bytes_ok (cov h ++ payload)).
    { apply bytes_ok_app; [|exact Hp]. unfold cov. repeat constructor; auto using hi8_lt, lo8_lt. }
    assert (Hval : validate (xor_list (cov h ++ payload) ([e0; e1; e2; e3; e4; e5] ++ emp))
                     [N.lxor (N.shiftr (crc_tbl (cov h ++ payload)) 8) eh;
                      N.lxor (N.land (crc_tbl (cov h ++ payload)) 255) el] = false).
    { apply (detect _ _ _ _ Hd); [exact Hcovok|]. rewrite app_length. reflexivity. }
    unfold corrupt. rewrite <- (app_assoc (pre g h ++ _)), <- (app_assoc (xor_list payload emp)).
    set (hb := pre g h ++ _).
    assert (Lhb : length hb = hdr_len g) by (subst hb; destruct g; reflexivity).
    pose proof (dec_hdr_corrupt g h e0 e1 e2 e3 e4 e5 Hlen16 B4 B5) as Hdec. fold hb in Hdec.
    destruct (match g with AT4 => true | AT5 => (e4 =? 0) && (e5 =? 0) end) eqn:Eg.
    - assert (e4 = 0 /\ e5 = 0) as [-> ->].
      { destruct g; [now apply H4|]. apply andb_prop in Eg as [A B]. apply N.eqb_eq in A, B. auto. }
      rewrite (rx_one_shape g hb _ _ (xor_list payload emp) _ _ rest Lhb Hdec).
      + set (v := validate _ _). assert (Ev : v = false) by (subst v; exact Hval). rewrite Ev. reflexivity.
      + cbn [h_len]. rewrite !N.lxor_0_r, be16_hi_lo, <- Hl. symmetry. apply length_xor_list. lia.
    - apply rx_one_bad_header; assumption.
  Qed.
End FrameProofs.
