(* Tolerant.v — C17: unknown message types and sub-types are delivered as unsupported
   messages with their payload unchanged; whatever is delivered is the decoding of a
   checksum-valid frame; everything else resets the connection. *)
From Coq Require Import NArith ZArith List Bool Lia Arith.
From PV Require Import base.Res base.ListX crc.Crc stream.Stream stream.StreamProofs stream.Wire
  at4.Msg4 at4.Codec4 at4.Codec4Proofs at5.Msg5 at5.Codec5 at5.Codec5Proofs.
Import ListNotations.
Open Scope N_scope.

(* the ids the registries know (registry.py of each generation) *)
Definition registered4 (ty : N) : bool := existsb (N.eqb ty) [0x1F; 0x2A; 0x2B; 0x2C; 0x2D; 0x36; 0x37].
Definition registered5 (ty : N) : bool := existsb (N.eqb ty) [0x1F; 0xC0].
Definition registered_sub4 (id : N) : bool := existsb (N.eqb id) [0xFF10; 0xFF11; 0xFF12; 0xFF20; 0xFF30].
Definition registered_sub5 (id : N) : bool := existsb (N.eqb id) [0xFF10; 0xFF11; 0xFF13; 0xFF30; 0xFF49].
Definition registered_c0 (id : N) : bool := existsb (N.eqb id) [0x20; 0x21; 0x22; 0x23; 0x32; 0x33].

Ltac unreg H := cbn [existsb] in H; repeat (apply orb_false_iff in H as [?E H]); clear H.

Lemma unknown_type4 ty p : registered4 ty = false -> dec4 ty p = Some (M_Unsupported ty p).
Proof. unfold registered4. intros H. unreg H. unfold dec4. now rewrite E, E0, E1, E2, E3, E4, E5. Qed.

Lemma unknown_type5 ty p : registered5 ty = false -> dec5 ty p = Some (M5_Unsupported ty p).
Proof. unfold registered5. intros H. unreg H. unfold dec5. now rewrite E, E0. Qed.

Lemma unknown_sub4 i1 i0 b : i1 < 256 -> i0 < 256 -> registered_sub4 (i1 * 256 + i0) = false ->
  dec4 0x1F (i1 :: i0 :: b) = Some (M_Ext (S_Unsupported (i1 * 256 + i0) b)).
Proof.
  intros _ _ H. unfold registered_sub4 in H. unreg H. unfold dec4. cbn [N.eqb Pos.eqb].
  unfold dec_sub. rewrite E, E0, E1, E2, E3. now rewrite firstn_all, skipn_all.
Qed.

Lemma unknown_sub5 i1 i0 b : i1 < 256 -> i0 < 256 -> registered_sub5 (i1 * 256 + i0) = false ->
  dec5 0x1F (i1 :: i0 :: b) = Some (M5_Ext (S5_Unsupported (i1 * 256 + i0) b)).
Proof.
  intros _ _ H. unfold registered_sub5 in H. unreg H. unfold dec5. cbn [N.eqb Pos.eqb].
  unfold dec_sub5. rewrite E, E0, E1, E3, E2. now rewrite firstn_all, skipn_all.
Qed.

(* 0xC0 with an unknown sub-type: any pad byte, lengths consistent with the body *)
Lemma unknown_c0 id pad n1 n0 l1 l0 c1 c0 body :
  registered_c0 id = false ->
  length body = (N.to_nat (n1 * 256 + n0) + N.to_nat (c1 * 256 + c0) * N.to_nat (l1 * 256 + l0))%nat ->
  dec5 0xC0 (id :: pad :: n1 :: n0 :: l1 :: l0 :: c1 :: c0 :: body) = Some (M5_Ctl (C_Unsupported id body)).
Proof.
  intros H L. unfold registered_c0 in H. unreg H. unfold dec5. cbn [N.eqb Pos.eqb dec_c0].
  unfold dec_c0_body. rewrite E, E0, E1, E2, E3, E4. cbn zeta. rewrite <- L, firstn_all, skipn_all. reflexivity.
Qed.

(* frame level, any header the console may send *)
Lemma unknown_frame4 h p rest : hdr_encodable AT4 h = true -> length p = N.to_nat (h_len h) ->
  registered4 (h_type h) = false ->
  rx_one msg4 rdec4 AT4 (frame AT4 h p ++ rest) = RxDeliver h (M_Unsupported (h_type h) p) rest.
Proof. intros He Hl Hr. apply rx_one_frame; [exact He|exact Hl|]. unfold rdec4. now apply unknown_type4. Qed.

Lemma unknown_frame5 h p rest : hdr_encodable AT5 h = true -> length p = N.to_nat (h_len h) ->
  registered5 (h_type h) = false ->
  rx_one msg5 rdec5 AT5 (frame AT5 h p ++ rest) = RxDeliver h (M5_Unsupported (h_type h) p) rest.
Proof. intros He Hl Hr. apply rx_one_frame; [exact He|exact Hl|]. unfold rdec5. now apply unknown_type5. Qed.

(* whatever is delivered is the decoding of the payload of a frame whose header parsed
   and whose check bytes validated; nothing else is ever delivered *)
Lemma deliver_inv {msg} (dec : hdr -> list N -> option msg) g buf h m rest :
  rx_one msg dec g buf = RxDeliver h m rest ->
  exists cd payload chk,
    dec_hdr g (firstn (hdr_len g) buf) = Some (h, cd) /\
    payload = firstn (N.to_nat (h_len h)) (skipn (hdr_len g) buf) /\
    chk = firstn 2 (skipn (N.to_nat (h_len h)) (skipn (hdr_len g) buf)) /\
    validate (cd ++ payload) chk = true /\
    dec h payload = Some m /\
    rest = skipn (N.to_nat (h_len h) + 2) (skipn (hdr_len g) buf).
Proof.
  unfold rx_one. destruct (Nat.ltb (length buf) (hdr_len g)); [discriminate|].
  destruct (dec_hdr g (firstn (hdr_len g) buf)) as [[h' cd]|]; [|discriminate].
  destruct (Nat.ltb _ _); [discriminate|].
  destruct (validate _ _) eqn:V; [|discriminate].
  destruct (dec h' _) as [m'|] eqn:D; [|discriminate].
  intros H. injection H as <- <- <-. exists cd. eexists. eexists. repeat split; try reflexivity; assumption.
Qed.

(* a frame the decoder rejects (any exception class) resets the connection: never a
   third outcome, never a delivery *)
Lemma reject_is_reset {msg} (dec : hdr -> list N -> option msg) g h p rest :
  hdr_encodable g h = true -> length p = N.to_nat (h_len h) -> dec h p = None ->
  rx_one msg dec g (frame g h p ++ rest) = RxReset.
Proof.
  intros He Hl Hd. unfold rx_one, frame.
  assert (Nat.ltb (length ((enc_hdr g h ++ p ++ check_bytes (cov h ++ p)) ++ rest)) (hdr_len g) = false) as ->.
  { apply Nat.ltb_ge. rewrite !app_length, length_enc_hdr. lia. }
  rewrite <- !app_assoc. rewrite (firstn_exact _ _ _ (length_enc_hdr g h)), (skipn_exact _ _ _ (length_enc_hdr g h)).
  rewrite (dec_enc_hdr g h He).
  assert (length (check_bytes (cov h ++ p)) = 2%nat) as Lc by reflexivity.
  assert (Nat.ltb (length (p ++ check_bytes (cov h ++ p) ++ rest)) (N.to_nat (h_len h) + 2) = false) as ->.
  { apply Nat.ltb_ge. rewrite !app_length, Lc. lia. }
  rewrite (firstn_exact _ _ _ Hl), (skipn_exact _ _ _ Hl), (firstn_exact _ _ _ Lc).
  now rewrite validate_self, Hd.
Qed.
