(* Wire.v — the whole send path (socket.send: get_encoder, size(), header factory, header
   encoder, message encoder, check bytes) and the whole receive path (Stream.rx_one with
   the registry's decoders) of both generations, composed from the framing and codec
   models.  No proofs here. *)
From Coq Require Import NArith List Bool.
From PV Require Import base.Res crc.Crc stream.Stream at4.Msg4 at4.Codec4 at5.Msg5 at5.Codec5.
Import ListNotations.
Open Scope N_scope.

(* HeaderFactory.create_from_message: extended messages go to 0x90, everything else to
   0x80, from 0xB0 *)
Definition ADDRESS_AIRTOUCH : N := 0x80.
Definition ADDRESS_EXTENDED : N := 0x90.
Definition ADDRESS_CLIENT : N := 0xB0.
Definition to_address (ty : N) : N := if ty =? 0x1F then ADDRESS_EXTENDED else ADDRESS_AIRTOUCH.
Definition header_for (ty pid : N) (len : nat) : hdr := mkHdr (to_address ty) ADDRESS_CLIENT pid ty (N.of_nat len).

(* the bytes one send() puts on the wire (None: an encoder raised) *)
Definition send4 (m : msg4) (pid : N) : option (hdr * list N) :=
  n <- size4 m ;; p <- enc4 m ;;
  let h := header_for (type_of m) pid n in
  if hdr_encodable AT4 h then Some (h, frame AT4 h p) else None.

Definition send5 (m : msg5) (pid : N) : option (hdr * list N) :=
  n <- size5 m ;; p <- enc5 m ;;
  let h := header_for (type_of5 m) pid n in
  if hdr_encodable AT5 h then Some (h, frame AT5 h p) else None.

(* the registry's decoder as the receive path calls it *)
Definition rdec4 (h : hdr) (p : list N) : option msg4 := dec4 (h_type h) p.
Definition rdec5 (h : hdr) (p : list N) : option msg5 := dec5 (h_type h) p.
