(* WireProofs.v — send path followed by receive path is the identity on messages. *)
From Coq Require Import NArith ZArith List Bool Lia.
From PV Require Import base.Res crc.Crc stream.Stream stream.StreamProofs stream.Wire
  at4.Msg4 at4.Codec4 at4.Codec4Proofs at5.Msg5 at5.Codec5 at5.Codec5Proofs.
Import ListNotations.
Open Scope N_scope.

Lemma to_address_lt ty : to_address ty < 256.
Proof. unfold to_address. destruct (ty =? 0x1F); reflexivity. Qed.

(* the payload fits the 16-bit length field of the header (AT5: with the 12 bytes the
   outer length adds) *)
Definition fits4 (m : msg4) : bool := match size4 m with Some n => N.of_nat n <? 65524 | None => false end.
Definition fits5 (m : msg5) : bool := match size5 m with Some n => N.of_nat n <? 65524 | None => false end.

Lemma type_of_lt m : dom4 m = true -> type_of m < 256.
Proof. destruct m; cbn; intros H; try reflexivity; discriminate H. Qed.
Lemma type_of5_lt m : dom5 m = true -> type_of5 m < 256.
Proof. destruct m; cbn; intros H; try reflexivity; discriminate H. Qed.

Lemma encodable g ty pid n : ty < 256 -> pid < 256 -> N.of_nat n < 65524 ->
  hdr_encodable g (header_for ty pid n) = true.
Proof.
  intros Ht Hp Hn. unfold hdr_encodable, header_for. cbn [h_to h_from h_pid h_type h_len].
  pose proof (to_address_lt ty).
  repeat (apply andb_true_intro; split); try (apply N.ltb_lt; assumption || reflexivity).
  destruct g; apply N.ltb_lt; lia.
Qed.

Lemma frame4_roundtrip m pid rest : dom4 m = true -> fits4 m = true -> pid < 256 ->
  exists h f, send4 m pid = Some (h, f) /\
              h_to h = to_address (type_of m) /\ h_from h = 0xB0 /\ h_pid h = pid /\ h_type h = type_of m /\
              rx_one msg4 rdec4 AT4 (f ++ rest) = RxDeliver h m rest.
Proof.
  intros Hd Hf Hp. destruct (msg4_roundtrip m Hd) as [p [E [Sz D]]].
  unfold fits4 in Hf. rewrite Sz in Hf. apply N.ltb_lt in Hf.
  pose proof (encodable AT4 (type_of m) pid (length p) (type_of_lt m Hd) Hp Hf) as He.
  unfold send4. rewrite Sz, E. cbn [obind]. rewrite He.
  eexists. eexists. split; [reflexivity|]. repeat (split; [reflexivity|]).
  apply rx_one_frame; [exact He| |exact D].
  unfold header_for. cbn [h_len]. now rewrite Nat2N.id.
Qed.

Lemma frame5_roundtrip m pid rest : dom5 m = true -> fits5 m = true -> pid < 256 ->
  exists h f, send5 m pid = Some (h, f) /\
              h_to h = to_address (type_of5 m) /\ h_from h = 0xB0 /\ h_pid h = pid /\ h_type h = type_of5 m /\
              rx_one msg5 rdec5 AT5 (f ++ rest) = RxDeliver h m rest.
Proof.
  intros Hd Hf Hp. destruct (msg5_roundtrip m Hd) as [p [E [Sz D]]].
  unfold fits5 in Hf. rewrite Sz in Hf. apply N.ltb_lt in Hf.
  pose proof (encodable AT5 (type_of5 m) pid (length p) (type_of5_lt m Hd) Hp Hf) as He.
  unfold send5. rewrite Sz, E. cbn [obind]. rewrite He.
  eexists. eexists. split; [reflexivity|]. repeat (split; [reflexivity|]).
  apply rx_one_frame; [exact He| |exact D].
  unfold header_for. cbn [h_len]. now rewrite Nat2N.id.
Qed.

Lemma send4_length m pid h f : send4 m pid = Some (h, f) ->
  exists p, enc4 m = Some p /\ size4 m = Some (N.to_nat (h_len h)) /\ f = frame AT4 h p.
Proof.
  unfold send4. destruct (size4 m) as [n|]; [|discriminate]. destruct (enc4 m) as [p|]; [|discriminate]. cbn [obind].
  destruct (hdr_encodable AT4 (header_for (type_of m) pid n)); [|discriminate]. intros H. injection H as <- <-.
  exists p. split; [reflexivity|]. split; [|reflexivity]. unfold header_for. cbn [h_len]. now rewrite Nat2N.id.
Qed.

Lemma send5_length m pid h f : send5 m pid = Some (h, f) ->
  exists p, enc5 m = Some p /\ size5 m = Some (N.to_nat (h_len h)) /\ f = frame AT5 h p.
Proof.
  unfold send5. destruct (size5 m) as [n|]; [|discriminate]. destruct (enc5 m) as [p|]; [|discriminate]. cbn [obind].
  destruct (hdr_encodable AT5 (header_for (type_of5 m) pid n)); [|discriminate]. intros H. injection H as <- <-.
  exists p. split; [reflexivity|]. split; [|reflexivity]. unfold header_for. cbn [h_len]. now rewrite Nat2N.id.
Qed.

(* addressing and check value of everything send() writes *)
Lemma send4_addressing m pid h f : send4 m pid = Some (h, f) ->
  h_to h = (if type_of m =? 0x1F then 0x90 else 0x80) /\ h_from h = 0xB0 /\ h_pid h = pid /\ h_type h = type_of m /\
  exists p, enc4 m = Some p /\ f = enc_hdr AT4 h ++ p ++ check_bytes (cov h ++ p) /\
            validate (cov h ++ p) (check_bytes (cov h ++ p)) = true.
Proof.
  unfold send4. destruct (size4 m) as [n|]; [|discriminate]. destruct (enc4 m) as [p|]; [|discriminate]. cbn [obind].
  destruct (hdr_encodable AT4 (header_for (type_of m) pid n)); [|discriminate]. intros H. injection H as <- <-.
  repeat (split; [reflexivity|]). exists p. split; [reflexivity|]. split; [reflexivity|]. apply validate_self.
Qed.

Lemma send5_addressing m pid h f : send5 m pid = Some (h, f) ->
  h_to h = (if type_of5 m =? 0x1F then 0x90 else 0x80) /\ h_from h = 0xB0 /\ h_pid h = pid /\ h_type h = type_of5 m /\
  exists p, enc5 m = Some p /\ f = enc_hdr AT5 h ++ p ++ check_bytes (cov h ++ p) /\
            validate (cov h ++ p) (check_bytes (cov h ++ p)) = true.
Proof.
  unfold send5. destruct (size5 m) as [n|]; [|discriminate]. destruct (enc5 m) as [p|]; [|discriminate]. cbn [obind].
  destruct (hdr_encodable AT5 (header_for (type_of5 m) pid n)); [|discriminate]. intros H. injection H as <- <-.
  repeat (split; [reflexivity|]). exists p. split; [reflexivity|]. split; [reflexivity|]. apply validate_self.
Qed.
