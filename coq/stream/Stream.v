(* Stream.v — framing: header encoder/decoder of both generations (at4/comms/hdr.py,
   at5/comms/hdr.py) and the receive path of comms/socket.py (_read_one_message, _read),
   parametric in the message decoder.  No proofs here. *)
From Coq Require Import NArith List Bool.
From PV Require Import crc.Crc.
Import ListNotations.
Open Scope N_scope.

Inductive gen := AT4 | AT5.

Record hdr := mkHdr { h_to : N; h_from : N; h_pid : N; h_type : N; h_len : N }.

Definition hdr_len (g : gen) : nat := match g with AT4 => 8%nat | AT5 => 20%nat end.

Definition be16 (h l : N) : N := h * 256 + l.
Definition hi8 (v : N) : N := v / 256.
Definition lo8 (v : N) : N := v mod 256.

(* the bytes of the header that contribute to the checksum: address .. length *)
Definition cov (h : hdr) : list N :=
  [h_to h; h_from h; h_pid h; h_type h; hi8 (h_len h); lo8 (h_len h)].

(* everything before them *)
Definition pre (g : gen) (h : hdr) : list N :=
  match g with
  | AT4 => [0x55; 0x55]
  | AT5 => let d := 10 + h_len h + 2 in
           [0x55; 0x55; 0x55; 0xAB; 0; 0; hi8 d; lo8 d; hi8 d; lo8 d; 0x55; 0x55; 0x55; 0xAA]
  end.

(* struct.pack range checks ("B": 0..255, "H": 0..65535) *)
Definition hdr_encodable (g : gen) (h : hdr) : bool :=
  (h_to h <? 256) && (h_from h <? 256) && (h_pid h <? 256) && (h_type h <? 256) &&
  match g with AT4 => h_len h <? 65536 | AT5 => 10 + h_len h + 2 <? 65536 end.

(* HeaderEncoder.encode: header bytes *)
Definition enc_hdr (g : gen) (h : hdr) : list N := pre g h ++ cov h.

(* the frame the send path writes: header, payload, check bytes over cov ++ payload *)
Definition frame (g : gen) (h : hdr) (payload : list N) : list N :=
  enc_hdr g h ++ payload ++ check_bytes (cov h ++ payload).

(* HeaderDecoder.decode on exactly header_length bytes: header and checksum data, or
   DecodeError *)
Definition dec_hdr (g : gen) (b : list N) : option (hdr * list N) :=
  match g, b with
  | AT4, [p0; p1; to; fr; pid; ty; lh; ll] =>
    if (p0 =? 0x55) && (p1 =? 0x55)
    then Some (mkHdr to fr pid ty (be16 lh ll), [to; fr; pid; ty; lh; ll]) else None
  | AT5, [p0; p1; p2; p3; _; _; d1h; d1l; d2h; d2l; q0; q1; q2; q3; to; fr; pid; ty; lh; ll] =>
    if (p0 =? 0x55) && (p1 =? 0x55) && (p2 =? 0x55) && (p3 =? 0xAB) &&
       (be16 d1h d1l =? be16 d2h d2l) &&
       (q0 =? 0x55) && (q1 =? 0x55) && (q2 =? 0x55) && (q3 =? 0xAA) &&
       (be16 d1h d1l =? 10 + be16 lh ll + 2)
    then Some (mkHdr to fr pid ty (be16 lh ll), [to; fr; pid; ty; lh; ll]) else None
  | _, _ => None
  end.

Section Reader.
  Variable msg : Type.
  (* the message decoder of the registry for this header: Some m = decoded completely;
     None = any exception (DecodeError or other) or bytes left over *)
  Variable dec : hdr -> list N -> option msg.

  Inductive rx :=
  | RxMore                                   (* readexactly still waiting *)
  | RxReset                                  (* rejected: the connection is reset *)
  | RxDeliver (h : hdr) (m : msg) (rest : list N).

  (* one pass of _read_one_message over the bytes received so far *)
  Definition rx_one (g : gen) (buf : list N) : rx :=
    if Nat.ltb (length buf) (hdr_len g) then RxMore else
    match dec_hdr g (firstn (hdr_len g) buf) with
    | None => RxReset
    | Some (h, cd) =>
      let r1 := skipn (hdr_len g) buf in
      let n := N.to_nat (h_len h) in
      if Nat.ltb (length r1) (n + 2)%nat then RxMore else
      let payload := firstn n r1 in
      let chk := firstn 2 (skipn n r1) in
      if validate (cd ++ payload) chk
      then match dec h payload with
           | Some m => RxDeliver h m (skipn (n + 2) r1)
           | None => RxReset
           end
      else RxReset
    end.

  (* the read loop over a buffer: deliveries, and what is left (None = reset) *)
  Fixpoint pump (g : gen) (fuel : nat) (buf : list N) : list (hdr * msg) * option (list N) :=
    match fuel with
    | O => ([], Some buf)
    | S f =>
      match rx_one g buf with
      | RxMore => ([], Some buf)
      | RxReset => ([], None)
      | RxDeliver h m rest =>
        let '(ds, st) := pump g f rest in ((h, m) :: ds, st)
      end
    end.

  (* receiver state between TCP segments: bytes buffered, or dead after a reset (the
     rest of this connection's stream is discarded) *)
  Definition rstate := option (list N).

  Definition feed (g : gen) (st : rstate) (chunk : list N) : list (hdr * msg) * rstate :=
    match st with
    | None => ([], None)
    | Some buf => pump g (S (length (buf ++ chunk))) (buf ++ chunk)
    end.

  Fixpoint feed_all (g : gen) (st : rstate) (chunks : list (list N))
    : list (hdr * msg) * rstate :=
    match chunks with
    | [] => ([], st)
    | c :: cs =>
      let '(d1, st1) := feed g st c in
      let '(d2, st2) := feed_all g st1 cs in (d1 ++ d2, st2)
    end.
End Reader.

Arguments RxMore {msg}.
Arguments RxReset {msg}.
Arguments RxDeliver {msg}.
