(* CrcProofs.v — the table-driven loop is CRC-16/MODBUS; algebra (GF(2)-linearity,
   injectivity) and the detection theorems. *)
From Coq Require Import NArith List Bool Lia Btauto.
From PV Require Import crc.Crc.
Import ListNotations.
Open Scope N_scope.

(* ---------------------------------------------------------------- bit lemmas *)
Lemma lxor_shiftr a b n : N.shiftr (N.lxor a b) n = N.lxor (N.shiftr a n) (N.shiftr b n).
Proof. apply N.shiftr_lxor. Qed.

Lemma odd_lxor a b : N.odd (N.lxor a b) = xorb (N.odd a) (N.odd b).
Proof. rewrite <- !N.bit0_odd. apply N.lxor_spec. Qed.

(* bit_step is linear over GF(2) *)
Lemma bit_step_lxor a b : bit_step (N.lxor a b) = N.lxor (bit_step a) (bit_step b).
Proof.
  unfold bit_step. rewrite odd_lxor, lxor_shiftr.
  destruct (N.odd a), (N.odd b); cbn [xorb];
    apply N.bits_inj; intros k; rewrite ?N.lxor_spec; btauto.
Qed.

Lemma bit_step_0 : bit_step 0 = 0. Proof. reflexivity. Qed.

Lemma iter_lxor n a b :
  N.iter n bit_step (N.lxor a b) = N.lxor (N.iter n bit_step a) (N.iter n bit_step b).
Proof.
  induction n using N.peano_ind.
  - reflexivity.
  - rewrite !N.iter_succ, IHn. apply bit_step_lxor.
Qed.

Lemma L8_lxor a b : L8 (N.lxor a b) = N.lxor (L8 a) (L8 b).
Proof. apply iter_lxor. Qed.

(* ------------------------------------------------------------ finite sweeps *)
Definition below (n : nat) : list N := map N.of_nat (seq 0 n).

Lemma below_forall (f : N -> bool) n :
  forallb f (below n) = true -> forall i, i < N.of_nat n -> f i = true.
Proof.
  intros H i Hi. rewrite forallb_forall in H. apply H.
  unfold below. apply in_map_iff. exists (N.to_nat i). split; [apply N2Nat.id|].
  apply in_seq. lia.
Qed.

(* ---------------------------------------------------------- "fits in n bits" *)
Definition fits (n a : N) : Prop := N.shiftr a n = 0.

Lemma fits_lt n a : fits n a <-> a < 2 ^ n.
Proof.
  unfold fits. rewrite N.shiftr_div_pow2. split; intros H.
  - apply N.div_small_iff in H; [exact H|]. apply N.pow_nonzero. discriminate.
  - apply N.div_small. exact H.
Qed.

Lemma fits_lxor n a b : fits n a -> fits n b -> fits n (N.lxor a b).
Proof. unfold fits. intros Ha Hb. now rewrite N.shiftr_lxor, Ha, Hb. Qed.

Lemma fits_shiftr n a k : fits n a -> fits n (N.shiftr a k).
Proof.
  unfold fits. intros H. rewrite N.shiftr_shiftr, N.add_comm, <- N.shiftr_shiftr, H. apply N.shiftr_0_l.
Qed.

Lemma fits_bit_step r : fits 16 r -> fits 16 (bit_step r).
Proof.
  intros H. unfold bit_step. destruct (N.odd r).
  - apply fits_lxor; [now apply fits_shiftr|reflexivity].
  - now apply fits_shiftr.
Qed.

Lemma fits_iter n r : fits 16 r -> fits 16 (N.iter n bit_step r).
Proof.
  intros H. induction n using N.peano_ind; [exact H|]. rewrite N.iter_succ. now apply fits_bit_step.
Qed.

Lemma fits_L8 r : fits 16 r -> fits 16 (L8 r).
Proof. apply fits_iter. Qed.

Lemma fits_mono n m a : n <= m -> fits n a -> fits m a.
Proof.
  rewrite !fits_lt. intros Hnm H. eapply N.lt_le_trans; [exact H|]. apply N.pow_le_mono_r; [discriminate|exact Hnm].
Qed.

Lemma fits_byte_step r b : fits 16 r -> fits 8 b -> fits 16 (byte_step r b).
Proof.
  intros Hr Hb. apply fits_L8, fits_lxor; [exact Hr|]. eapply fits_mono; [|exact Hb]. discriminate.
Qed.

(* ------------------------------------------------------- the table is right *)
Lemma table_sweep :
  forallb (fun i => N.eqb (nth (N.to_nat i) table 0) (L8 i)) (below 256) = true.
Proof. vm_compute. reflexivity. Qed.

Lemma table_correct i : i < 256 -> nth (N.to_nat i) table 0 = L8 i.
Proof. intros H. apply N.eqb_eq. exact (below_forall _ 256 table_sweep i H). Qed.

Lemma L8_high_sweep :
  forallb (fun h => N.eqb (L8 (N.shiftl h 8)) h) (below 256) = true.
Proof. vm_compute. reflexivity. Qed.

Lemma L8_high h : h < 256 -> L8 (N.shiftl h 8) = h.
Proof. intros H. apply N.eqb_eq. exact (below_forall _ 256 L8_high_sweep h H). Qed.

(* ------------------------------------------------------ splitting a register *)
Lemma testbit_255 k : N.testbit 255 k = (k <? 8).
Proof.
  change 255 with (N.ones 8). destruct (k <? 8) eqn:E.
  - apply N.ones_spec_low. now apply N.ltb_lt.
  - apply N.ones_spec_high. now apply N.ltb_ge.
Qed.

Lemma split_hi_lo r : r = N.lxor (N.shiftl (N.shiftr r 8) 8) (N.land r 255).
Proof.
  apply N.bits_inj. intros k. rewrite N.lxor_spec, N.land_spec, testbit_255.
  destruct (k <? 8) eqn:E.
  - apply N.ltb_lt in E. rewrite N.shiftl_spec_low by exact E. rewrite andb_true_r, xorb_false_l. reflexivity.
  - apply N.ltb_ge in E. rewrite N.shiftl_spec_high' by exact E.
    rewrite N.shiftr_spec', N.sub_add by exact E. rewrite andb_false_r, xorb_false_r. reflexivity.
Qed.

Lemma land_255_small b : fits 8 b -> N.land b 255 = b.
Proof.
  intros H. apply fits_lt in H. change 255 with (N.ones 8). rewrite N.land_ones. apply N.mod_small. exact H.
Qed.

Lemma land_lxor_255 a b : N.land (N.lxor a b) 255 = N.lxor (N.land a 255) (N.land b 255).
Proof.
  apply N.bits_inj. intros k. rewrite !N.lxor_spec, !N.land_spec, !N.lxor_spec. btauto.
Qed.

Lemma fits_land_255 a : fits 8 (N.land a 255).
Proof.
  apply fits_lt. change 255 with (N.ones 8). rewrite N.land_ones. apply N.mod_lt. discriminate.
Qed.

Lemma fits16_hi r : fits 16 r -> N.shiftr r 8 < 256.
Proof.
  intros H. change 256 with (2 ^ 8). apply fits_lt. unfold fits in *.
  rewrite N.shiftr_shiftr. exact H.
Qed.

(* ---------------------------------------- one step of the table-driven loop *)
Lemma tbl_step_is_byte_step r b : fits 16 r -> fits 8 b -> tbl_step r b = byte_step r b.
Proof.
  intros Hr Hb. unfold tbl_step, byte_step.
  rewrite land_lxor_255, (land_255_small b Hb).
  assert (Hidx : N.lxor b (N.land r 255) < 256).
  { change 256 with (2 ^ 8). apply fits_lt, fits_lxor; [exact Hb|apply fits_land_255]. }
  rewrite (table_correct _ Hidx).
  assert (E : N.lxor r b = N.lxor (N.shiftl (N.shiftr r 8) 8) (N.lxor b (N.land r 255))).
  { rewrite (split_hi_lo r) at 1. rewrite N.lxor_assoc, (N.lxor_comm (N.land r 255) b). reflexivity. }
  rewrite E, (L8_lxor (N.shiftl (N.shiftr r 8) 8)), (L8_high _ (fits16_hi r Hr)). reflexivity.
Qed.

Lemma fits_crc_from bs : forall r, fits 16 r -> bytes_ok bs -> fits 16 (crc_from r bs).
Proof.
  induction bs as [|b bs IH]; intros r Hr Hb; cbn; [exact Hr|].
  inversion Hb; subst. apply IH; [|assumption]. apply fits_byte_step; [exact Hr|].
  apply fits_lt. assumption.
Qed.

(* C06_crc_is_modbus: for every byte string, by induction on its length *)
Lemma fold_tbl_is_ref bs : forall r, fits 16 r -> bytes_ok bs ->
  fold_left tbl_step bs r = fold_left byte_step bs r.
Proof.
  induction bs as [|b bs IH]; intros r Hr Hb; cbn; [reflexivity|].
  inversion Hb; subst.
  assert (Hb8 : fits 8 b) by (apply fits_lt; assumption).
  rewrite (tbl_step_is_byte_step r b Hr Hb8). apply IH; [|assumption].
  now apply fits_byte_step.
Qed.

Theorem crc_tbl_is_ref bs : bytes_ok bs -> crc_tbl bs = crc_ref bs.
Proof. intros H. apply fold_tbl_is_ref; [reflexivity|exact H]. Qed.

(* ------------------------------------------------------------------ algebra *)
Fixpoint xor_list (a b : list N) : list N :=
  match a, b with
  | x :: a', y :: b' => N.lxor x y :: xor_list a' b'
  | _, _ => []
  end.

Definition zeros (n : nat) : list N := repeat 0 n.

Lemma crc_from_app r a b : crc_from r (a ++ b) = crc_from (crc_from r a) b.
Proof. apply fold_left_app. Qed.

(* affine in the message: registers and messages xor independently *)
Lemma crc_from_xor a : forall e r s, length a = length e ->
  crc_from (N.lxor r s) (xor_list a e) = N.lxor (crc_from r a) (crc_from s e).
Proof.
  induction a as [|x a IH]; intros e r s Hl; destruct e as [|y e]; try discriminate; [reflexivity|].
  injection Hl as Hl.
  change (crc_from (byte_step (N.lxor r s) (N.lxor x y)) (xor_list a e) =
          N.lxor (crc_from (byte_step r x) a) (crc_from (byte_step s y) e)).
  assert (E : byte_step (N.lxor r s) (N.lxor x y) = N.lxor (byte_step r x) (byte_step s y)).
  { unfold byte_step. rewrite <- L8_lxor. f_equal.
    apply N.bits_inj; intros k; rewrite ?N.lxor_spec; btauto. }
  rewrite E. apply IH. exact Hl.
Qed.

Lemma crc_affine m e : length m = length e ->
  crc_ref (xor_list m e) = N.lxor (crc_ref m) (crc_from 0 e).
Proof.
  intros Hl. unfold crc_ref. rewrite <- (crc_from_xor m e 0xFFFF 0 Hl). now rewrite N.lxor_0_r.
Qed.

Lemma crc0_xor a e : length a = length e ->
  crc_from 0 (xor_list a e) = N.lxor (crc_from 0 a) (crc_from 0 e).
Proof. intros Hl. rewrite <- (crc_from_xor a e 0 0 Hl). reflexivity. Qed.

Lemma L8_0 : L8 0 = 0. Proof. reflexivity. Qed.

Lemma crc_zeros n : forall r, crc_from r (zeros n) = N.iter (8 * N.of_nat n) bit_step r.
Proof.
  induction n as [|n IH]; intros r; [reflexivity|].
  cbn [zeros repeat crc_from fold_left]. fold (zeros n). fold (crc_from (byte_step r 0) (zeros n)).
  rewrite IH. unfold byte_step. rewrite N.lxor_0_r. unfold L8.
  rewrite <- N.iter_add. f_equal. lia.
Qed.

Lemma crc0_zeros n : crc_from 0 (zeros n) = 0.
Proof.
  rewrite crc_zeros. generalize (8 * N.of_nat n). intros k.
  induction k using N.peano_ind; [reflexivity|]. now rewrite N.iter_succ, IHk.
Qed.

(* bit_step is injective on 16-bit registers *)
Lemma bit_step_inj0 x : fits 16 x -> bit_step x = 0 -> x = 0.
Proof.
  intros Hf H. unfold bit_step in H. pose proof (N.div2_odd x) as Hx.
  rewrite <- N.div2_spec in H. destruct (N.odd x) eqn:Ho.
  - exfalso. apply N.lxor_eq in H.
    assert (N.div2 x < 2 ^ 15).
    { apply fits_lt in Hf. cbn [N.b2n] in Hx. change (2 ^ 16) with (2 * 2 ^ 15) in Hf. lia. }
    rewrite H in H0. vm_compute in H0. discriminate.
  - rewrite H in Hx. cbn in Hx. exact Hx.
Qed.

Lemma iter_inj0 n x : fits 16 x -> N.iter n bit_step x = 0 -> x = 0.
Proof.
  induction n using N.peano_ind; intros Hf H; [exact H|].
  rewrite N.iter_succ in H. apply IHn; [exact Hf|].
  apply bit_step_inj0; [now apply fits_iter|exact H].
Qed.

Lemma iter_neq n x y : fits 16 x -> fits 16 y -> x <> y -> N.iter n bit_step x <> N.iter n bit_step y.
Proof.
  intros Hx Hy Hne H. apply Hne. apply N.lxor_eq.
  apply (iter_inj0 n); [now apply fits_lxor|]. rewrite iter_lxor, H. apply N.lxor_nilpotent.
Qed.

(* ------------------------------------------------- orbit sweeps (period facts) *)
Definition sweep_step (bad : N -> bool) (st : N * bool) : N * bool :=
  let r' := bit_step (fst st) in (r', snd st && negb (bad r')).

Definition orbit_avoids (n : N) (bad : N -> bool) (r : N) : bool :=
  snd (N.iter n (sweep_step bad) (r, true)).

Lemma sweep_fst n bad r b : fst (N.iter n (sweep_step bad) (r, b)) = N.iter n bit_step r.
Proof.
  induction n using N.peano_ind; [reflexivity|]. rewrite !N.iter_succ. cbn. now rewrite IHn.
Qed.

Lemma orbit_avoids_spec n bad r :
  orbit_avoids n bad r = true -> forall d, 0 < d <= n -> bad (N.iter d bit_step r) = false.
Proof.
  unfold orbit_avoids. induction n using N.peano_ind; intros H d Hd; [lia|].
  rewrite N.iter_succ in H. unfold sweep_step at 1 in H. cbn [snd] in H.
  apply andb_prop in H as [H1 H2]. rewrite sweep_fst in H2.
  destruct (N.eq_dec d (N.succ n)) as [->|Hne].
  - rewrite N.iter_succ. now apply negb_true_iff in H2.
  - apply IHn; [exact H1|lia].
Qed.

Definition A001 : N := 0xA001.

(* x^d <> 1 for 0 < d < 32767: the orbit of 0xA001 does not return before the period *)
Lemma orbit_no_return : orbit_avoids 32766 (N.eqb A001) A001 = true.
Proof. vm_compute. reflexivity. Qed.

Definition is_pow2_16 (r : N) : bool :=
  existsb (N.eqb r) [1; 2; 4; 8; 16; 32; 64; 128; 256; 512; 1024; 2048; 4096; 8192; 16384; 32768].

(* the orbit of 0xA001 meets no single-bit register value for 32750 steps *)
Lemma orbit_no_single_bit : orbit_avoids 32750 is_pow2_16 A001 = true.
Proof. vm_compute. reflexivity. Qed.

Lemma A001_not_pow2 : is_pow2_16 A001 = false. Proof. reflexivity. Qed.

(* ------------------------------------------------------------ error patterns *)
Definition bit_at (n i : nat) (j : N) : list N := zeros i ++ [2 ^ j] ++ zeros (n - 1 - i).

Definition expo (n i : nat) (j : N) : N := 8 * N.of_nat (n - 1 - i) + (7 - j).

Lemma L8_bit_sweep :
  forallb (fun j => N.eqb (L8 (2 ^ j)) (N.iter (7 - j) bit_step A001)) (below 8) = true.
Proof. vm_compute. reflexivity. Qed.

Lemma crc0_window p w q :
  crc_from 0 (zeros p ++ w ++ zeros q) = N.iter (8 * N.of_nat q) bit_step (crc_from 0 w).
Proof. now rewrite !crc_from_app, crc0_zeros, crc_zeros. Qed.

Lemma crc0_bit_at n i j : j < 8 ->
  crc_from 0 (bit_at n i j) = N.iter (expo n i j) bit_step A001.
Proof.
  intros Hj. unfold bit_at, expo. rewrite crc0_window.
  change (crc_from 0 [2 ^ j]) with (L8 (N.lxor 0 (2 ^ j))). rewrite N.lxor_0_l.
  pose proof (below_forall _ 8 L8_bit_sweep j Hj) as E. apply N.eqb_eq in E. rewrite E.
  now rewrite <- N.iter_add.
Qed.

Lemma fits_A001 : fits 16 A001. Proof. reflexivity. Qed.

Lemma iter_A001_nonzero k : N.iter k bit_step A001 <> 0.
Proof. intros H. apply iter_inj0 in H; [discriminate|apply fits_A001]. Qed.

Lemma length_zeros n : length (zeros n) = n. Proof. apply repeat_length. Qed.

Lemma length_bit_at n i j : (i < n)%nat -> length (bit_at n i j) = n.
Proof. intros H. unfold bit_at. rewrite !app_length, !length_zeros. cbn. lia. Qed.

Lemma bytes_ok_zeros n : bytes_ok (zeros n).
Proof. apply Forall_forall. intros x Hx. apply repeat_spec in Hx. subst. reflexivity. Qed.

(* two-byte windows: every non-zero error confined to two adjacent bytes *)
Lemma window2_sweep :
  forallb (fun e0 => forallb (fun e1 =>
     (N.eqb e0 0 && N.eqb e1 0) || negb (N.eqb (crc_from 0 [e0; e1]) 0)) (below 256)) (below 256) = true.
Proof. vm_compute. reflexivity. Qed.

Lemma window2_nonzero e0 e1 : e0 < 256 -> e1 < 256 -> (e0 <> 0 \/ e1 <> 0) -> crc_from 0 [e0; e1] <> 0.
Proof.
  intros H0 H1 Hne. pose proof (below_forall _ 256 window2_sweep e0 H0) as E. cbn beta in E.
  pose proof (below_forall _ 256 E e1 H1) as E1. cbn beta in E1.
  apply orb_prop in E1 as [E1|E1].
  - apply andb_prop in E1 as [A B]. apply N.eqb_eq in A, B. destruct Hne; contradiction.
  - apply negb_true_iff, N.eqb_neq in E1. exact E1.
Qed.

(* three-byte windows that are bursts of <= 16 bits in the CRC's bit order (LSB first):
   bits >= s of the first byte, the middle byte, bits < s of the third *)
Definition belowN (n : N) : list N := below (N.to_nat n).

Lemma belowN_forall (f : N -> bool) n :
  forallb f (belowN n) = true -> forall i, i < n -> f i = true.
Proof. intros H i Hi. apply (below_forall f (N.to_nat n) H). now rewrite N2Nat.id. Qed.

Definition burst3_ok (s a e1 c : N) : bool :=
  (N.eqb a 0 && N.eqb e1 0 && N.eqb c 0) || negb (N.eqb (crc_from 0 [a * 2 ^ s; e1; c]) 0).

Lemma burst3_sweep :
  forallb (fun s => forallb (fun a => forallb (fun e1 => forallb (fun c => burst3_ok s a e1 c)
     (belowN (2 ^ s))) (below 256)) (belowN (2 ^ (8 - s)))) [1; 2; 3; 4; 5; 6; 7] = true.
Proof. vm_compute. reflexivity. Qed.

Lemma burst3_nonzero s a e1 c :
  1 <= s <= 7 -> a < 2 ^ (8 - s) -> e1 < 256 -> c < 2 ^ s -> (a <> 0 \/ e1 <> 0 \/ c <> 0) ->
  crc_from 0 [a * 2 ^ s; e1; c] <> 0.
Proof.
  intros Hs Ha H1 Hc Hne. pose proof burst3_sweep as E. rewrite forallb_forall in E.
  assert (Hin : In s [1; 2; 3; 4; 5; 6; 7]).
  { assert (s = 1 \/ s = 2 \/ s = 3 \/ s = 4 \/ s = 5 \/ s = 6 \/ s = 7) as Hc7 by lia.
    cbn. intuition. }
  specialize (E s Hin). cbn beta in E.
  pose proof (belowN_forall _ _ E a Ha) as E1. cbn beta in E1.
  pose proof (below_forall _ 256 E1 e1 H1) as E2. cbn beta in E2.
  pose proof (belowN_forall _ _ E2 c Hc) as E3. unfold burst3_ok in E3.
  apply orb_prop in E3 as [E3|E3].
  - apply andb_prop in E3 as [AB C]. apply andb_prop in AB as [A B].
    apply N.eqb_eq in A, B, C. intuition.
  - apply negb_true_iff, N.eqb_neq in E3. exact E3.
Qed.

(* ------------------------------------------------------ what validate() checks *)
Lemma bytes_ok_xor a : forall e, bytes_ok a -> bytes_ok e -> bytes_ok (xor_list a e).
Proof.
  induction a as [|x a IH]; intros e Ha He; destruct e as [|y e]; cbn; try constructor.
  - inversion Ha; inversion He; subst. change 256 with (2 ^ 8) in *. apply fits_lt, fits_lxor; now apply fits_lt.
  - inversion Ha; inversion He; subst. now apply IH.
Qed.

Lemma fits_crc0 e : bytes_ok e -> fits 16 (crc_from 0 e).
Proof. intros H. apply fits_crc_from; [reflexivity|exact H]. Qed.

Lemma fits_crc_ref m : bytes_ok m -> fits 16 (crc_ref m).
Proof. intros H. apply fits_crc_from; [reflexivity|exact H]. Qed.

Lemma lxor_cancel_l a b c : N.lxor a b = N.lxor a c -> b = c.
Proof.
  intros H. apply (f_equal (N.lxor a)) in H. now rewrite <- !N.lxor_assoc, N.lxor_nilpotent, !N.lxor_0_l in H.
Qed.

(* If the receiver accepts message m xor em with check bytes (h xor eh, l xor el), where
   (h, l) were the correct check bytes of m, then the linear CRC of the error equals the
   error of the check value. *)
Lemma validate_corrupt m em eh el :
  bytes_ok m -> bytes_ok em -> length m = length em ->
  validate (xor_list m em)
           [N.lxor (N.shiftr (crc_tbl m) 8) eh; N.lxor (N.land (crc_tbl m) 255) el] = true ->
  crc_from 0 em = N.lxor (N.shiftl eh 8) el.
Proof.
  intros Hm He Hl H. unfold validate, check_bytes in H.
  rewrite (crc_tbl_is_ref _ (bytes_ok_xor _ _ Hm He)), (crc_tbl_is_ref _ Hm), (crc_affine _ _ Hl) in H.
  set (c := crc_ref m) in *. set (L := crc_from 0 em) in *.
  apply andb_prop in H as [H1 H2]. apply N.eqb_eq in H1, H2.
  rewrite N.shiftr_lxor in H1. apply lxor_cancel_l in H1.
  rewrite land_lxor_255 in H2. apply lxor_cancel_l in H2.
  rewrite (split_hi_lo L). now rewrite <- H1, <- H2.
Qed.

(* ------------------------------------------------------------ orbit corollaries *)
Lemma orbit_distinct k1 k2 : k1 < k2 -> k2 - k1 <= 32766 ->
  N.iter k1 bit_step A001 <> N.iter k2 bit_step A001.
Proof.
  intros Hlt Hd. replace k2 with (k1 + (k2 - k1)) by lia. rewrite N.iter_add.
  apply iter_neq; [apply fits_A001|apply fits_iter, fits_A001|].
  intros E. pose proof (orbit_avoids_spec _ _ _ orbit_no_return (k2 - k1) ltac:(lia)) as B.
  apply N.eqb_neq in B. contradiction.
Qed.

Lemma pow2_sweep : forallb (fun t => is_pow2_16 (2 ^ t)) (below 16) = true.
Proof. vm_compute. reflexivity. Qed.

Lemma orbit_not_pow2 k t : k <= 32750 -> t < 16 -> N.iter k bit_step A001 <> 2 ^ t.
Proof.
  intros Hk Ht E. pose proof (below_forall _ 16 pow2_sweep t Ht) as P. cbn beta in P. rewrite <- E in P.
  destruct (N.eq_dec k 0) as [->|Hne].
  - cbn in P. discriminate.
  - rewrite (orbit_avoids_spec _ _ _ orbit_no_single_bit k ltac:(lia)) in P. discriminate.
Qed.

Lemma expo_bound n i j : (i < n)%nat -> j < 8 -> expo n i j <= 8 * N.of_nat n - 1.
Proof. intros Hi Hj. unfold expo. lia. Qed.

Lemma expo_inj n i1 j1 i2 j2 : (i1 < n)%nat -> (i2 < n)%nat -> j1 < 8 -> j2 < 8 ->
  expo n i1 j1 = expo n i2 j2 -> i1 = i2 /\ j1 = j2.
Proof. unfold expo. intros. lia. Qed.

(* ------------------------------------------------------------ detectable errors *)
(* em: error of the covered bytes (n of them); (eh, el): error of the two check bytes *)
Inductive detectable (n : nat) : list N -> N -> N -> Prop :=
| DetCheckOnly eh el :
    eh < 256 -> el < 256 -> (eh <> 0 \/ el <> 0) -> detectable n (zeros n) eh el
| DetWindow1 p q e0 :
    (p + 1 + q = n)%nat -> 0 < e0 < 256 -> detectable n (zeros p ++ [e0] ++ zeros q) 0 0
| DetWindow2 p q e0 e1 :
    (p + 2 + q = n)%nat -> e0 < 256 -> e1 < 256 -> (e0 <> 0 \/ e1 <> 0) ->
    detectable n (zeros p ++ [e0; e1] ++ zeros q) 0 0
| DetBurst3 p q s a e1 c :
    (p + 3 + q = n)%nat -> 1 <= s <= 7 -> a < 2 ^ (8 - s) -> e1 < 256 -> c < 2 ^ s ->
    (a <> 0 \/ e1 <> 0 \/ c <> 0) ->
    detectable n (zeros p ++ [a * 2 ^ s; e1; c] ++ zeros q) 0 0
| DetTwoBits i1 j1 i2 j2 :
    (i1 < n)%nat -> (i2 < n)%nat -> j1 < 8 -> j2 < 8 -> (i1 <> i2 \/ j1 <> j2) ->
    N.of_nat n <= 4095 ->
    detectable n (xor_list (bit_at n i1 j1) (bit_at n i2 j2)) 0 0
| DetBitAndCheckBit i j t :
    (i < n)%nat -> j < 8 -> t < 16 -> N.of_nat n <= 4093 ->
    detectable n (bit_at n i j) (N.shiftr (2 ^ t) 8) (N.land (2 ^ t) 255).

Lemma pow2_lt_256 j : j < 8 -> 2 ^ j < 256.
Proof. intros H. change 256 with (2 ^ 8). apply N.pow_lt_mono_r; [reflexivity|exact H]. Qed.

Lemma bytes_ok_app a b : bytes_ok a -> bytes_ok b -> bytes_ok (a ++ b).
Proof. intros Ha Hb. apply Forall_app. split; assumption. Qed.

Lemma bytes_ok_bit_at n i j : j < 8 -> bytes_ok (bit_at n i j).
Proof.
  intros Hj. unfold bit_at. repeat apply bytes_ok_app; try apply bytes_ok_zeros.
  constructor; [now apply pow2_lt_256|constructor].
Qed.

Lemma detectable_wf n em eh el : detectable n em eh el -> bytes_ok em /\ length em = n.
Proof.
  intros H. destruct H.
  - split; [apply bytes_ok_zeros|apply length_zeros].
  - split; [repeat apply bytes_ok_app; try apply bytes_ok_zeros; repeat constructor; lia|].
    rewrite !app_length, !length_zeros. cbn. lia.
  - split; [repeat apply bytes_ok_app; try apply bytes_ok_zeros; repeat constructor; lia|].
    rewrite !app_length, !length_zeros. cbn. lia.
  - split.
    + repeat apply bytes_ok_app; try apply bytes_ok_zeros. repeat constructor; try lia.
      * assert (a * 2 ^ s < 2 ^ (8 - s) * 2 ^ s) by (apply N.mul_lt_mono_pos_r; [apply N.neq_0_lt_0, N.pow_nonzero; discriminate|assumption]).
        rewrite <- N.pow_add_r in H5. replace (8 - s + s) with 8 in H5 by lia. exact H5.
      * eapply N.lt_le_trans; [eassumption|]. change 256 with (2 ^ 8). apply N.pow_le_mono_r; [discriminate|lia].
    + rewrite !app_length, !length_zeros. cbn. lia.
  - split.
    + apply bytes_ok_xor; now apply bytes_ok_bit_at.
    + assert (L1 := length_bit_at n i1 j1 H). assert (L2 := length_bit_at n i2 j2 H0).
      clear - L1 L2. revert L1 L2. generalize (bit_at n i1 j1) (bit_at n i2 j2). intros a.
      revert n. induction a as [|x a IH]; intros n b L1 L2; destruct b; cbn in *; try lia.
      destruct n; [discriminate|]. f_equal. apply IH; lia.
  - split; [now apply bytes_ok_bit_at|now apply length_bit_at].
Qed.

(* C06_detect at the level of the checksum calculator *)
Theorem detect n em eh el : detectable n em eh el ->
  forall m, bytes_ok m -> length m = n ->
  validate (xor_list m em)
           [N.lxor (N.shiftr (crc_tbl m) 8) eh; N.lxor (N.land (crc_tbl m) 255) el] = false.
Proof.
  intros Hd m Hm Hn. destruct (detectable_wf _ _ _ _ Hd) as [Hem Hlen].
  apply not_true_is_false. intros Hv.
  apply validate_corrupt in Hv; [|assumption|assumption|congruence].
  destruct Hd.
  - rewrite crc0_zeros in Hv. symmetry in Hv. apply N.lxor_eq in Hv.
    assert (Hh : N.shiftr (N.shiftl eh 8) 8 = N.shiftr el 8) by now rewrite Hv.
    rewrite N.shiftr_shiftl_l, N.sub_diag, N.shiftl_0_r in Hh by reflexivity.
    assert (Hz : N.shiftr el 8 = 0) by (apply fits_lt; assumption).
    rewrite Hz in Hh. subst eh. rewrite N.shiftl_0_l in Hv. subst el. intuition.
  - rewrite crc0_window in Hv. change (N.lxor (N.shiftl 0 8) 0) with 0 in Hv. apply iter_inj0 in Hv.
    + change (crc_from 0 [e0]) with (L8 (N.lxor 0 e0)) in Hv. rewrite N.lxor_0_l in Hv.
      unfold L8 in Hv. apply iter_inj0 in Hv; [lia|]. apply fits_lt. change (2 ^ 16) with 65536. lia.
    + apply fits_crc0. repeat constructor. lia.
  - rewrite crc0_window in Hv. change (N.lxor (N.shiftl 0 8) 0) with 0 in Hv. apply iter_inj0 in Hv.
    + now apply (window2_nonzero e0 e1).
    + apply fits_crc0. repeat constructor; assumption.
  - rewrite crc0_window in Hv. change (N.lxor (N.shiftl 0 8) 0) with 0 in Hv.
    pose proof (detectable_wf _ _ _ _ (DetBurst3 n p q s a e1 c H H0 H1 H2 H3 H4)) as [Hb _].
    apply Forall_app in Hb as [_ Hb]. apply Forall_app in Hb as [Hb _].
    apply iter_inj0 in Hv; [|now apply fits_crc0].
    now apply (burst3_nonzero s a e1 c).
  - rewrite crc0_xor in Hv by (rewrite !length_bit_at; auto).
    rewrite !crc0_bit_at in Hv by assumption. change (N.lxor (N.shiftl 0 8) 0) with 0 in Hv.
    apply N.lxor_eq in Hv.
    pose proof (expo_bound n i1 j1 H H1). pose proof (expo_bound n i2 j2 H0 H2).
    destruct (N.lt_trichotomy (expo n i1 j1) (expo n i2 j2)) as [Hlt|[Heq|Hgt]].
    + apply (orbit_distinct _ _ Hlt); [lia|exact Hv].
    + destruct (expo_inj n i1 j1 i2 j2 H H0 H1 H2 Heq). intuition.
    + apply (orbit_distinct _ _ Hgt); [lia|symmetry; exact Hv].
  - rewrite crc0_bit_at in Hv by assumption. rewrite <- split_hi_lo in Hv.
    pose proof (expo_bound n i j H H0).
    apply (orbit_not_pow2 (expo n i j) t); [lia|assumption|exact Hv].
Qed.
