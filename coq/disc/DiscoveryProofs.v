(* DiscoveryProofs.v — decoding of discovery datagrams and the request schedule. *)
From Coq Require Import NArith ZArith List Bool Lia.
From PV Require Import base.Utf8 disc.Discovery.
Import ListNotations.
Open Scope N_scope.

(* ------------------------------------------------------------------ bytes *)
Lemma bytes_eqb_eq a : forall b, bytes_eqb a b = true <-> a = b.
Proof.
  induction a as [|x a IH]; intros [|y b]; cbn; split; intros H; try discriminate; try reflexivity.
  - apply andb_prop in H as [H1 H2]. apply N.eqb_eq in H1. apply IH in H2. now subst.
  - inversion H; subst. rewrite N.eqb_refl. cbn. now apply IH.
Qed.

Lemma bytes_eqb_refl a : bytes_eqb a a = true.
Proof. now apply bytes_eqb_eq. Qed.

Lemma bytes_eqb_sym a b : bytes_eqb a b = bytes_eqb b a.
Proof.
  destruct (bytes_eqb a b) eqn:E.
  - apply bytes_eqb_eq in E. subst. symmetry. apply bytes_eqb_refl.
  - destruct (bytes_eqb b a) eqn:E'; [|reflexivity]. apply bytes_eqb_eq in E'. subst.
    rewrite bytes_eqb_refl in E. discriminate.
Qed.

Definition comma_free (l : list N) : Prop := ~ In comma l.

(* ------------------------------------------------------------------ split *)
Lemma break_comma_app p r : comma_free p -> break_comma (p ++ comma :: r) = (p, Some r).
Proof.
  induction p as [|b p IH]; intros H; cbn.
  - reflexivity.
  - destruct (b =? comma) eqn:E.
    + apply N.eqb_eq in E. exfalso. apply H. now left.
    + rewrite IH; [reflexivity|]. intros Hin. apply H. now right.
Qed.

Lemma break_comma_none p : comma_free p -> break_comma p = (p, None).
Proof.
  induction p as [|b p IH]; intros H; cbn; [reflexivity|].
  destruct (b =? comma) eqn:E.
  - apply N.eqb_eq in E. exfalso. apply H. now left.
  - rewrite IH; [reflexivity|]. intros Hin. apply H. now right.
Qed.

Lemma break_comma_inv l : forall p o, break_comma l = (p, o) ->
  comma_free p /\ match o with Some r => l = p ++ comma :: r | None => l = p end.
Proof.
  induction l as [|b l IH]; intros p o H; cbn in H.
  - inversion H; subst. split; [intros []|reflexivity].
  - destruct (b =? comma) eqn:E.
    + apply N.eqb_eq in E. inversion H; subst. split; [intros []|reflexivity].
    + destruct (break_comma l) as [p' o'] eqn:Eb. inversion H; subst.
      destruct (IH _ _ eq_refl) as [Hf Hl]. split.
      * intros [Hin|Hin]; [apply N.eqb_neq in E; congruence|now apply Hf].
      * destruct o; cbn; now rewrite Hl.
Qed.

(* ------------------------------------------------------------------ contains *)
Lemma is_prefix_app p l : is_prefix p (p ++ l) = true.
Proof. induction p as [|x p IH]; cbn; [reflexivity|]. now rewrite N.eqb_refl. Qed.

Lemma contains_app a p l : contains p (a ++ p ++ l) = true.
Proof.
  induction a as [|x a IH]; cbn [app].
  - destruct (p ++ l) eqn:E; cbn; rewrite <- ?E, is_prefix_app; reflexivity.
  - cbn [contains]. rewrite IH. apply orb_true_r.
Qed.

(* ---------------------------------------------------------- exact decoding *)
Definition dgram4 (host serial aid : list N) : list N :=
  host ++ comma :: serial ++ comma :: ID4 ++ comma :: aid.

Definition dgram5 (host serial aid name : list N) : list N :=
  host ++ comma :: serial ++ comma :: ID5 ++ comma :: aid ++ comma :: name.

Lemma ID4_comma_free : comma_free ID4. Proof. cbv. intuition discriminate. Qed.
Lemma ID5_comma_free : comma_free ID5. Proof. cbv. intuition discriminate. Qed.
Lemma REQ4_comma_free : comma_free REQ4. Proof. cbv. intuition discriminate. Qed.
Lemma REQ5_comma_free : comma_free REQ5. Proof. cbv. intuition discriminate. Qed.

Lemma not_request4 host rest : bytes_eqb (host ++ comma :: rest) REQ4 = false.
Proof.
  destruct (bytes_eqb _ REQ4) eqn:E; [|reflexivity]. apply bytes_eqb_eq in E.
  exfalso. apply REQ4_comma_free. rewrite <- E. apply in_or_app. right. now left.
Qed.

Lemma not_request5 host rest : bytes_eqb (host ++ comma :: rest) REQ5 = false.
Proof.
  destruct (bytes_eqb _ REQ5) eqn:E; [|reflexivity]. apply bytes_eqb_eq in E.
  exfalso. apply REQ5_comma_free. rewrite <- E. apply in_or_app. right. now left.
Qed.

(* every datagram in the vendor format decodes to exactly its fields; the AirTouch id
   (AT4) / the name (AT5) may itself contain commas *)
Theorem decode4_exact host serial aid :
  comma_free host -> comma_free serial ->
  utf8_valid host = true -> utf8_valid serial = true -> utf8_valid aid = true ->
  decode4 (dgram4 host serial aid) = DResp4 host serial aid.
Proof.
  intros Hh Hs Uh Us Ua. unfold decode4, dgram4. rewrite not_request4.
  assert (contains ([comma] ++ ID4 ++ [comma]) (host ++ comma :: serial ++ comma :: ID4 ++ comma :: aid) = true) as ->.
  { replace (host ++ comma :: serial ++ comma :: ID4 ++ comma :: aid)
      with ((host ++ comma :: serial) ++ ([comma] ++ ID4 ++ [comma]) ++ aid)
      by (repeat (rewrite <- app_assoc; cbn [app]); reflexivity).
    apply contains_app. }
  cbn [negb splitn]. rewrite (break_comma_app host _ Hh), (break_comma_app serial _ Hs),
    (break_comma_app ID4 _ ID4_comma_free).
  rewrite bytes_eqb_refl, Ua, Us, Uh. reflexivity.
Qed.

Theorem decode5_exact host serial aid name :
  comma_free host -> comma_free serial -> comma_free aid ->
  utf8_valid host = true -> utf8_valid serial = true -> utf8_valid aid = true -> utf8_valid name = true ->
  decode5 (dgram5 host serial aid name) = DResp5 host serial aid name.
Proof.
  intros Hh Hs Hi Uh Us Ua Un. unfold decode5, dgram5. rewrite not_request5.
  assert (contains ([comma] ++ ID5 ++ [comma])
            (host ++ comma :: serial ++ comma :: ID5 ++ comma :: aid ++ comma :: name) = true) as ->.
  { replace (host ++ comma :: serial ++ comma :: ID5 ++ comma :: aid ++ comma :: name)
      with ((host ++ comma :: serial) ++ ([comma] ++ ID5 ++ [comma]) ++ aid ++ comma :: name)
      by (repeat (rewrite <- app_assoc; cbn [app]); reflexivity).
    apply contains_app. }
  cbn [negb splitn]. rewrite (break_comma_app host _ Hh), (break_comma_app serial _ Hs),
    (break_comma_app ID5 _ ID5_comma_free), (break_comma_app aid _ Hi).
  rewrite bytes_eqb_refl, Ua, Un, Us, Uh. reflexivity.
Qed.

(* ... and only those: an entry is produced only by a datagram of that form *)
Theorem decode4_only d host serial aid :
  decode4 d = DResp4 host serial aid ->
  d = dgram4 host serial aid /\ comma_free host /\ comma_free serial /\
  utf8_valid host = true /\ utf8_valid serial = true /\ utf8_valid aid = true.
Proof.
  unfold decode4. destruct (bytes_eqb d REQ4); [discriminate|].
  destruct (negb _); [discriminate|]. cbn [splitn].
  destruct (break_comma d) as [p1 o1] eqn:E1. destruct o1 as [r1|]; [|discriminate].
  destruct (break_comma r1) as [p2 o2] eqn:E2. destruct o2 as [r2|]; [|discriminate].
  destruct (break_comma r2) as [p3 o3] eqn:E3. destruct o3 as [r3|]; [|discriminate].
  destruct (bytes_eqb p3 ID4) eqn:Eid; [|discriminate].
  destruct (utf8_valid r3 && utf8_valid p2 && utf8_valid p1) eqn:Eu; [|discriminate].
  intros H. inversion H; subst.
  apply bytes_eqb_eq in Eid. subst p3.
  apply andb_prop in Eu as [Eu U1]. apply andb_prop in Eu as [U3 U2].
  destruct (break_comma_inv _ _ _ E1) as [F1 L1]. destruct (break_comma_inv _ _ _ E2) as [F2 L2].
  destruct (break_comma_inv _ _ _ E3) as [F3 L3].
  unfold dgram4. subst. repeat split; auto.
Qed.

Theorem decode5_only d host serial aid name :
  decode5 d = DResp5 host serial aid name ->
  d = dgram5 host serial aid name /\ comma_free host /\ comma_free serial /\ comma_free aid /\
  utf8_valid host = true /\ utf8_valid serial = true /\ utf8_valid aid = true /\ utf8_valid name = true.
Proof.
  unfold decode5. destruct (bytes_eqb d REQ5); [discriminate|].
  destruct (negb _); [discriminate|]. cbn [splitn].
  destruct (break_comma d) as [p1 o1] eqn:E1. destruct o1 as [r1|]; [|discriminate].
  destruct (break_comma r1) as [p2 o2] eqn:E2. destruct o2 as [r2|]; [|discriminate].
  destruct (break_comma r2) as [p3 o3] eqn:E3. destruct o3 as [r3|]; [|discriminate].
  destruct (break_comma r3) as [p4 o4] eqn:E4. destruct o4 as [r4|]; [|discriminate].
  destruct (bytes_eqb p3 ID5) eqn:Eid; [|discriminate].
  destruct (utf8_valid p4 && utf8_valid r4 && utf8_valid p2 && utf8_valid p1) eqn:Eu; [|discriminate].
  intros H. inversion H; subst.
  apply bytes_eqb_eq in Eid. subst p3.
  apply andb_prop in Eu as [Eu U1]. apply andb_prop in Eu as [Eu U2]. apply andb_prop in Eu as [U4 U5].
  destruct (break_comma_inv _ _ _ E1) as [F1 L1]. destruct (break_comma_inv _ _ _ E2) as [F2 L2].
  destruct (break_comma_inv _ _ _ E3) as [F3 L3]. destruct (break_comma_inv _ _ _ E4) as [F4 L4].
  unfold dgram5. subst. repeat split; auto.
Qed.

(* the echo of the request is recognised and is not a response *)
Lemma decode_request : decode4 REQ4 = DRequest /\ decode5 REQ5 = DRequest.
Proof. split; reflexivity. Qed.

(* ------------------------------------------------------------------ search *)
Open Scope Z_scope.

(* the request schedule, written out: at most three requests, at 0, 0.5 s and 1 s; the
   search stops after the first interval in which the response set is non-empty and
   returns half a second after its last request *)
Theorem search_schedule arr :
  search arr =
  match collect 0 arr [] with
  | [] => match collect 512 arr [] with
          | [] => ([0; 512; 1024], collect 1024 arr [], 1536)
          | a => ([0; 512], a, 1024)
          end
  | a => ([0], a, 512)
  end.
Proof.
  unfold search. cbn [search_from]. destruct (collect 0 arr []) eqn:E0; [|reflexivity].
  change (0 + interval) with 512. destruct (collect 512 arr []) eqn:E1; [|reflexivity].
  change (512 + interval) with 1024. destruct (collect 1024 arr []) eqn:E2; reflexivity.
Qed.

(* set semantics of the result *)
Inductive distinct : list dres -> Prop :=
| distinct_nil : distinct []
| distinct_cons x l : existsb (dres_eqb x) l = false -> distinct l -> distinct (x :: l).

Lemma dres_eqb_sym a b : dres_eqb a b = dres_eqb b a.
Proof.
  destruct a, b; cbn; try reflexivity;
    rewrite ?(bytes_eqb_sym host host0), ?(bytes_eqb_sym serial serial0),
            ?(bytes_eqb_sym aid aid0), ?(bytes_eqb_sym name name0); reflexivity.
Qed.

Lemma distinct_snoc l r : distinct l -> existsb (dres_eqb r) l = false -> distinct (l ++ [r]).
Proof.
  induction 1 as [|x l Hx Hd IH]; intros Hr; cbn.
  - constructor; [reflexivity|constructor].
  - cbn in Hr. apply orb_false_iff in Hr as [Hrx Hrl]. constructor; [|now apply IH].
    rewrite existsb_app, Hx. cbn. rewrite dres_eqb_sym, Hrx. reflexivity.
Qed.

Lemma add_resp_distinct acc r :
  distinct acc -> Forall (fun x => is_resp x = true) acc ->
  distinct (add_resp acc r) /\ Forall (fun x => is_resp x = true) (add_resp acc r).
Proof.
  intros Hd Hf. unfold add_resp. destruct (is_resp r) eqn:Er; [|auto].
  destruct (existsb (dres_eqb r) acc) eqn:Ee; [auto|]. split.
  - now apply distinct_snoc.
  - apply Forall_app. split; [exact Hf|constructor; [exact Er|constructor]].
Qed.

Lemma collect_distinct t arr acc :
  distinct acc -> Forall (fun x => is_resp x = true) acc ->
  distinct (collect t arr acc) /\ Forall (fun x => is_resp x = true) (collect t arr acc).
Proof.
  unfold collect. generalize (map snd (filter (in_window t) arr)). intros l. revert acc.
  induction l as [|r l IH]; intros acc Hd Hf; cbn; [auto|].
  destruct (add_resp_distinct acc r Hd Hf) as [Hd' Hf']. now apply IH.
Qed.

(* the result never holds two equal entries and holds only decoded responses *)
Theorem search_distinct arr :
  let '(_, res, _) := search arr in distinct res /\ Forall (fun x => is_resp x = true) res.
Proof.
  rewrite search_schedule.
  pose proof (collect_distinct 0 arr [] distinct_nil (Forall_nil _)) as H0.
  pose proof (collect_distinct 512 arr [] distinct_nil (Forall_nil _)) as H1.
  pose proof (collect_distinct 1024 arr [] distinct_nil (Forall_nil _)) as H2.
  destruct (collect 0 arr []); [|exact H0]. destruct (collect 512 arr []); [exact H2|exact H1].
Qed.

(* equality of entries is equality of all their fields: duplicates collapse, datagrams
   that differ in any field are kept apart *)
Lemma dres_eqb_eq a b : is_resp a = true -> (dres_eqb a b = true <-> a = b).
Proof.
  intros Ha. destruct a, b; cbn in *; try discriminate; split; intros H; try discriminate.
  - repeat (apply andb_prop in H as [H ?]). apply bytes_eqb_eq in H.
    repeat match goal with X : bytes_eqb _ _ = true |- _ => apply bytes_eqb_eq in X end. now subst.
  - inversion H; subst. now rewrite !bytes_eqb_refl.
  - repeat (apply andb_prop in H as [H ?]). apply bytes_eqb_eq in H.
    repeat match goal with X : bytes_eqb _ _ = true |- _ => apply bytes_eqb_eq in X end. now subst.
  - inversion H; subst. now rewrite !bytes_eqb_refl.
Qed.

(* datagrams that are not responses leave the response set unchanged *)
Lemma add_non_resp acc r : is_resp r = false -> add_resp acc r = acc.
Proof. intros H. unfold add_resp. now rewrite H. Qed.
