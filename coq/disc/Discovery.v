(* Discovery.v — model of comms/discovery.py (AirTouchDiscoverer.search) and the two
   datagram decoders (at4/comms/discovery.py, at5/comms/discovery.py).  No proofs here. *)
From Coq Require Import NArith ZArith List Bool.
From PV Require Import base.Utf8.
Import ListNotations.
Open Scope N_scope.

Definition comma : N := 44.

Fixpoint bytes_eqb (a b : list N) : bool :=
  match a, b with
  | [], [] => true
  | x :: a', y :: b' => (x =? y) && bytes_eqb a' b'
  | _, _ => false
  end.

Fixpoint is_prefix (p l : list N) : bool :=
  match p, l with
  | [], _ => true
  | x :: p', y :: l' => (x =? y) && is_prefix p' l'
  | _ :: _, [] => false
  end.

(* pattern in buffer *)
Fixpoint contains (p l : list N) : bool :=
  is_prefix p l || match l with [] => false | _ :: r => contains p r end.

(* the bytes before the first comma, and what follows it (None: no comma) *)
Fixpoint break_comma (l : list N) : list N * option (list N) :=
  match l with
  | [] => ([], None)
  | b :: r => if b =? comma then ([], Some r)
              else let '(p, rest) := break_comma r in (b :: p, rest)
  end.

(* bytes.split(b",", n) *)
Fixpoint splitn (n : nat) (l : list N) : list (list N) :=
  match n with
  | O => [l]
  | S m => match break_comma l with
           | (p, None) => [p]
           | (p, Some r) => p :: splitn m r
           end
  end.

(* ASCII literals *)
Definition REQ4 : list N := [72;70;45;65;49;49;65;83;83;73;83;84;72;82;69;65;68].   (* HF-A11ASSISTHREAD *)
Definition ID4 : list N := [65;105;114;84;111;117;99;104;52].                        (* AirTouch4 *)
Definition REQ5 : list N :=                                  (* ::REQUEST-POLYAIRE-AIRTOUCH-DEVICE-INFO:; *)
  [58;58;82;69;81;85;69;83;84;45;80;79;76;89;65;73;82;69;45;65;73;82;84;79;85;67;72;45;68;69;86;73;67;69;45;73;78;70;79;58;59].
Definition ID5 : list N := [65;105;114;84;111;117;99;104;53].                        (* AirTouch5 *)

Inductive dres :=
| DNoMatch                       (* match() is false: ignored *)
| DRequest                       (* our own request echoed: not a response *)
| DDecodeError                   (* caught and logged *)
| DUnicodeError                  (* escapes datagram_received; the search goes on *)
| DResp4 (host serial aid : list N)
| DResp5 (host serial aid name : list N).

Definition decode4 (d : list N) : dres :=
  if bytes_eqb d REQ4 then DRequest
  else if negb (contains ([comma] ++ ID4 ++ [comma]) d) then DNoMatch
  else match splitn 3 d with
       | [host; serial; rid; aid] =>
         if bytes_eqb rid ID4
         then if utf8_valid aid && utf8_valid serial && utf8_valid host
              then DResp4 host serial aid else DUnicodeError
         else DDecodeError
       | _ => DDecodeError
       end.

Definition decode5 (d : list N) : dres :=
  if bytes_eqb d REQ5 then DRequest
  else if negb (contains ([comma] ++ ID5 ++ [comma]) d) then DNoMatch
  else match splitn 4 d with
       | [host; serial; rid; aid; name] =>
         if bytes_eqb rid ID5
         then if utf8_valid aid && utf8_valid name && utf8_valid serial && utf8_valid host
              then DResp5 host serial aid name else DUnicodeError
         else DDecodeError
       | _ => DDecodeError
       end.

(* ------------------------------------------------------------------ the search *)
Open Scope Z_scope.

Definition interval : Z := 512.      (* 0.5 s *)

(* set insertion (responses is a Python set of frozen dataclasses) *)
Definition dres_eqb (a b : dres) : bool :=
  match a, b with
  | DResp4 h s i, DResp4 h' s' i' => bytes_eqb h h' && bytes_eqb s s' && bytes_eqb i i'
  | DResp5 h s i n, DResp5 h' s' i' n' =>
    bytes_eqb h h' && bytes_eqb s s' && bytes_eqb i i' && bytes_eqb n n'
  | _, _ => false
  end.

Definition is_resp (r : dres) : bool := match r with DResp4 _ _ _ | DResp5 _ _ _ _ => true | _ => false end.

Definition add_resp (acc : list dres) (r : dres) : list dres :=
  if is_resp r then (if existsb (dres_eqb r) acc then acc else acc ++ [r]) else acc.

(* datagrams (already decoded) that arrive in [t, t + interval): an arrival exactly at a
   request instant belongs to the interval that starts there (the timer runs first) *)
Definition in_window (t : Z) (a : Z * dres) : bool := (t <=? fst a) && (fst a <? t + interval).

Definition collect (t : Z) (arr : list (Z * dres)) (acc : list dres) : list dres :=
  fold_left add_resp (map snd (filter (in_window t) arr)) acc.

(* budget: requests still allowed.  Returns request instants, responses, return instant *)
Fixpoint search_from (budget : nat) (t : Z) (arr : list (Z * dres)) (acc : list dres)
  : list Z * list dres * Z :=
  match budget with
  | O => ([], acc, t)
  | S b =>
    let acc' := collect t arr acc in
    match acc' with
    | [] => let '(reqs, res, tend) := search_from b (t + interval) arr acc' in (t :: reqs, res, tend)
    | _ => ([t], acc', t + interval)
    end
  end.

Definition search (arr : list (Z * dres)) : list Z * list dres * Z := search_from 3 0 arr [].
