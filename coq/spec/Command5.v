(* Command5.v — C04 for AirTouch 5: the bytes of every zone / AC control record, read as
   the vendor document says, ask for exactly what the record holds and keep the rest. *)
From Coq Require Import NArith ZArith List Bool Lia Arith.
From PV Require Import base.Res at4.Msg4 at4.Codec4 at4.Codec4Proofs at5.Msg5 at5.Codec5 at5.Codec5Proofs
  spec.Spec4 spec.Spec5 spec.Command4.
Import ListNotations.
Open Scope N_scope.

Definition mean_zpower (p : zpower_ctl) : change zone_power :=
  match p with ZP_Unchanged => Keep | ZP_Toggle => Toggle | ZP_Off => SetTo ZOff | ZP_On => SetTo ZOn | ZP_Turbo => SetTo ZTurbo end.
Definition mean_zsetting (s : zsetting) : change zone_value :=
  match s with ZS_None => Keep | ZS_Dec => Decrease | ZS_Inc => Increase
             | ZS_Damper p => SetTo (Percent p) | ZS_SetPoint d => SetTo (SetPointDeg d) end.
(* the AirTouch 5 client never asks for a control-type change *)
Definition mean_zone_ctrl (z : zone_ctrl) : szone_ctrl :=
  mkSZC (zc_zone z) (mean_zsetting (zc_setting z)) Keep (mean_zpower (zc_power z)).

Definition dom_zone_ctrl64 (z : zone_ctrl) : bool := dom_zone_ctrl z && (zc_zone z <? 64).

Lemma bits_6_1_small : forallb (fun n => bits n 6 1 =? n) (below 64) = true.
Proof. vm_compute. reflexivity. Qed.

Theorem zone_ctrl_means z : dom_zone_ctrl64 z = true ->
  exists b1 b2 b3, enc_zone_ctrl1 z = Some [b1; b2; b3; 0] /\ read_zone_ctrl b1 b2 b3 = mean_zone_ctrl z.
Proof.
  destruct z as [n pw st]. unfold dom_zone_ctrl64, dom_zone_ctrl. cbn [zc_zone zc_setting]. intros H.
  apply andb_prop in H as [H H64]. apply andb_prop in H as [Hn Hs]. apply N.ltb_lt in Hn, H64.
  pose proof (below_forall _ _ bits_6_1_small n H64) as Bn. cbn beta in Bn. apply N.eqb_eq in Bn.
  unfold enc_zone_ctrl1. cbn [zc_zone zc_power zc_setting].
  destruct st as [| | |p|d].
  1-3: (destruct pw; cbn -[pack_B bits]; rewrite (pack_B_ok n Hn); cbn [obind app];
        eexists; eexists; eexists; (split; [reflexivity|]); unfold read_zone_ctrl, mean_zone_ctrl;
        cbn [zc_zone zc_power zc_setting]; rewrite Bn; reflexivity).
  - apply N.ltb_lt in Hs. destruct pw; cbn -[pack_B bits]; rewrite (pack_B_ok n Hn), (pack_B_ok p Hs); cbn [obind app];
      eexists; eexists; eexists; (split; [reflexivity|]); unfold read_zone_ctrl, mean_zone_ctrl;
      cbn [zc_zone zc_power zc_setting]; rewrite Bn; reflexivity.
  - apply andb_prop in Hs as [Hs1 Hs2]. apply Z.leb_le in Hs1, Hs2.
    destruct (set_point_rt d ltac:(lia)) as [v [E [Hv D]]].
    unfold zc_setting_code. rewrite E. cbn [obind fst snd]. unfold dec_set_point in D.
    destruct pw; cbn -[pack_B bits]; rewrite (pack_B_ok n Hn), (pack_B_ok v Hv); cbn [obind app];
      eexists; eexists; eexists; (split; [reflexivity|]); unfold read_zone_ctrl, mean_zone_ctrl;
      cbn [zc_zone zc_power zc_setting]; rewrite Bn; cbn; rewrite D; reflexivity.
Qed.

(* --------------------------------------------------- 4.a.iii AC control (0x22) *)
Definition mean_a5power (p : a5power_ctl) : change onoff :=
  match p with A5P_Unchanged => Keep | A5P_Toggle => Toggle | A5P_Off => SetTo POff | A5P_On => SetTo POn
             | A5P_Away => SetTo PAway | A5P_Sleep => SetTo PSleep end.
Definition mean_a5fan (f : a5fan_ctl) : change fan5 :=
  match f with A5F_Auto => SetTo (F5 AFS_Auto) | A5F_Quiet => SetTo (F5 AFS_Quiet) | A5F_Low => SetTo (F5 AFS_Low)
             | A5F_Medium => SetTo (F5 AFS_Medium) | A5F_High => SetTo (F5 AFS_High) | A5F_Powerful => SetTo (F5 AFS_Powerful)
             | A5F_Turbo => SetTo (F5 AFS_Turbo) | A5F_IntelligentAuto => SetTo F5IntelligentAuto | A5F_Unchanged => Keep end.
Definition mean_a5sp (s : option Z) : change Z := match s with Some d => SetTo d | None => Keep end.
Definition mean_ac5_ctrl (c : ac5_ctrl) : sac5_ctrl :=
  mkSAC5 (a5c_number c) (mean_a5power (a5c_power c)) (mean_amode (a5c_mode c)) (mean_a5fan (a5c_fan c)) (mean_a5sp (a5c_sp c)).

Lemma a5c_b1_sweep :
  forallb (fun n => forallb (fun c =>
    let b := N.land n 0x0F + N.land (N.shiftl c 4) 0xF0 in
    (b <? 256) && (bits b 4 1 =? n) && (bits b 8 5 =? c)) (below 16)) (below 16) = true.
Proof. vm_compute. reflexivity. Qed.

Theorem ac5_ctrl_means c : dom_ac5_ctrl c = true ->
  exists b1 b2 b3 b4, enc_ac5_ctrl1 c = Some [b1; b2; b3; b4] /\ read_ac5_ctrl b1 b2 b3 b4 = mean_ac5_ctrl c.
Proof.
  destruct c as [n pw mo fa sp]. unfold dom_ac5_ctrl. cbn [a5c_number a5c_sp]. intros H.
  apply andb_prop in H as [Hn Hsp]. apply N.ltb_lt in Hn.
  pose proof (below2_forall _ _ _ a5c_b1_sweep n (a5power_ctl_code pw) Hn (a5power_ctl_code_lt pw)) as S1.
  cbn beta zeta in S1. apply andb_prop in S1 as [S1 S1c]. apply andb_prop in S1 as [S1a S1b].
  apply N.ltb_lt in S1a. apply N.eqb_eq in S1b, S1c.
  unfold enc_ac5_ctrl1, a5c_b1, a5c_b2, a5c_spc. cbn [a5c_number a5c_power a5c_mode a5c_fan a5c_sp].
  assert (Hb2 : let b := N.land (N.shiftl (amode_ctl_code mo) 4) 0xF0 + N.land (a5fan_ctl_code fa) 0x0F in
                b < 256 /\ bits b 8 5 = (if amode_ctl_code mo =? 255 then 15 else amode_ctl_code mo) /\
                bits b 4 1 = (if a5fan_ctl_code fa =? 255 then 15 else a5fan_ctl_code fa))
    by (destruct mo, fa; vm_compute; repeat split; reflexivity).
  cbn zeta in Hb2. destruct Hb2 as [B2a [B2b B2c]].
  assert (Es : exists ct v, match sp with
                            | Some d => if (d =? 0)%Z then Some (0, 255) else v <- enc_set_point d ;; Some (64, v)
                            | None => Some (0, 255) end = Some (ct, v) /\ ct < 256 /\ v < 256 /\
               (if ct =? 64 then SetTo (Z.of_N v + 100)%Z else if ct =? 0 then Keep else NotDefined) = mean_a5sp sp).
  { destruct sp as [d|].
    - apply andb_prop in Hsp as [H1 H2]. apply Z.leb_le in H1, H2. assert (d =? 0 = false)%Z as -> by (apply Z.eqb_neq; lia).
      destruct (set_point_rt d ltac:(lia)) as [v [E [Hv D]]]. rewrite E. cbn [obind].
      exists 64, v. repeat split; try reflexivity; try assumption. cbn. unfold dec_set_point in D. now rewrite D.
    - exists 0, 255. repeat split; reflexivity. }
  destruct Es as [ct [v [Es [Hct [Hv Ds]]]]]. rewrite Es. cbn [obind fst snd].
  rewrite (pack_B_ok _ S1a), (pack_B_ok _ B2a), (pack_B_ok _ Hct), (pack_B_ok _ Hv). cbn [obind app].
  eexists. eexists. eexists. eexists. split; [reflexivity|].
  unfold read_ac5_ctrl, mean_ac5_ctrl. cbn [a5c_number a5c_power a5c_mode a5c_fan a5c_sp].
  rewrite S1b, S1c, B2b, B2c, Ds. f_equal.
  - destruct pw; reflexivity.
  - destruct mo; reflexivity.
  - destruct fa; reflexivity.
Qed.
