(* Conform4.v — C05 for AirTouch 4: the decoders of Codec4.v read every status payload
   exactly as Spec4.v (the vendor document) says, or reject it. *)
From Coq Require Import NArith ZArith List Bool Lia Arith.
From PV Require Import base.Res base.Utf8 base.ListX at4.Msg4 at4.Codec4 at4.Codec4Proofs spec.Spec4.
Import ListNotations.
Open Scope N_scope.

(* exhaustive case analysis over one byte *)
Lemma byte_cases (P : N -> Prop) : Forall P (below 256) -> forall b, b < 256 -> P b.
Proof.
  intros H b Hb. rewrite Forall_forall in H. apply H. unfold below. apply in_map_iff.
  exists (N.to_nat b). split; [apply N2Nat.id|]. apply in_seq. lia.
Qed.
Ltac all_bytes :=
  apply byte_cases;
  let l := eval vm_compute in (below 256) in change (below 256) with l;
  repeat (apply Forall_cons; [vm_compute; repeat split; reflexivity|]); apply Forall_nil.

(* an Optional[float] of the decoder against a reading of the document (tenths) *)
Definition oz_agrees (o : option Z) (r : reading Z) : bool :=
  match o, r with Some a, Val b => (a =? b)%Z | None, NotAvailable => true | _, _ => false end.
Lemma oz_agrees_ok o r : oz_agrees o r = true ->
  match o with Some a => r = Val a | None => r = NotAvailable end.
Proof. destruct o, r; cbn; intros H; try discriminate; [apply Z.eqb_eq in H; now subst|reflexivity]. Qed.

Lemma cstring_is_text_before_zero l : cstring l = text_before_zero l.
Proof. induction l as [|c l IH]; [reflexivity|]. cbn. destruct c; cbn; [reflexivity|now rewrite IH]. Qed.

(* ------------------------------------------------ 4.b group status (0x2B) *)
Lemma gs_byte1 : forall b, b < 256 ->
  N.land b 0x3F = bits b 6 1 /\
  match gpower_of (N.shiftr (N.land b 0xC0) 6) with
  | Some p => (match bits b 8 7 with 0 => Val GPS_Off | 1 => Val GPS_On | 3 => Val GPS_Turbo | _ => Undefined end) = Val p
  | None => (match bits b 8 7 with 0 => Val GPS_Off | 1 => Val GPS_On | 3 => Val GPS_Turbo | _ => @Undefined gpower end) = Undefined
  end.
Proof. all_bytes. Qed.

Lemma gs_byte2 : forall b, b < 256 ->
  N.land b 0x7F = bits b 7 1 /\
  gmethod_of (N.shiftr (N.land b 0x80) 7) = Some (if bitv b 8 then GMS_Temperature else GMS_Damper).
Proof. all_bytes. Qed.

Lemma gs_byte3 : forall b, b < 256 ->
  N.land b 0x3F = bits b 6 1 /\ bit b 6 = bitv b 7 /\
  battery_of (N.shiftr (N.land b 0x80) 7) = Some (if bitv b 8 then Bat_Low else Bat_Normal).
Proof. all_bytes. Qed.

Lemma byte_bit7 : forall b, b < 256 -> bit b 7 = bitv b 8.
Proof. all_bytes. Qed.

(* bytes 5 and 6: temperature and spill *)
Lemma gs_temp_sweep :
  forallb (fun b5 => forallb (fun b6 =>
    let w := b5 * 256 + b6 in
    oz_agrees (if N.land w 0xFF00 =? 0xFF00 then None else Some (dec_temp (N.land w 0xFFE0))) (read_temp11 b5 b6) &&
    Bool.eqb (bit w 4) (bitv b6 5)) (below 256)) (below 256) = true.
Proof. vm_compute. reflexivity. Qed.

Definition group_status_agrees (g : group_status) (s : sgroup) : Prop :=
  gs_group g = sg_number s /\ sg_power s = Val (gs_power g) /\ gs_method g = sg_method s /\
  gs_damper g = sg_percent s /\ gs_battery g = (if sg_low_battery s then Bat_Low else Bat_Normal) /\
  gs_turbo g = sg_turbo_support s /\ gs_sensor g = sg_sensor s /\ gs_spill g = sg_spill s /\
  (* the set-point and the temperature are reported for groups with a sensor only *)
  gs_setpoint g = (if sg_sensor s then Some (sg_setpoint s) else None) /\
  match gs_temp g with
  | Some d => sg_sensor s = true /\ sg_temp s = Val d
  | None => sg_sensor s = false \/ sg_temp s = NotAvailable
  end.

Theorem conf_group_status b1 b2 b3 b4 b5 b6 :
  b1 < 256 -> b2 < 256 -> b3 < 256 -> b4 < 256 -> b5 < 256 -> b6 < 256 ->
  let s := read_group_status b1 b2 b3 b4 b5 b6 in
  match dec_group_status1 [b1; b2; b3; b4; b5; b6] with
  | Some g => group_status_agrees g s
  | None => sg_power s = Undefined
  end.
Proof.
  intros H1 H2 H3 H4 H5 H6. cbn zeta.
  destruct (gs_byte1 b1 H1) as [A1 A1p]. destruct (gs_byte2 b2 H2) as [A2 A2m].
  destruct (gs_byte3 b3 H3) as [A3 [A3t A3b]]. pose proof (byte_bit7 b4 H4) as A4.
  pose proof (below2_forall _ _ _ gs_temp_sweep b5 b6 H5 H6) as A5. cbn beta zeta in A5.
  apply andb_prop in A5 as [A5t A5s]. apply oz_agrees_ok in A5t. apply Bool.eqb_prop in A5s.
  unfold dec_group_status1, read_group_status. rewrite A2m, A3b. cbn [obind].
  destruct (gpower_of (N.shiftr (N.land b1 192) 6)) as [p|]; cbn [obind sg_power]; [|exact A1p].
  unfold group_status_agrees.
  cbn [gs_group gs_power gs_method gs_damper gs_battery gs_turbo gs_sensor gs_spill gs_setpoint gs_temp
       sg_number sg_power sg_method sg_percent sg_low_battery sg_turbo_support sg_sensor sg_spill sg_setpoint sg_temp].
  rewrite A1, A2, A3, A3t, A4, A5s.
  repeat (split; [reflexivity || exact A1p|]).
  destruct (bitv b4 8); cbn [negb orb].
  - destruct (N.land (b5 * 256 + b6) 65280 =? 65280); [right; exact A5t|split; [reflexivity|exact A5t]].
  - left. reflexivity.
Qed.

(* ---------------------------------------------------- 4.d AC status (0x2D) *)
Lemma as_byte1 : forall b, b < 256 ->
  N.land b 0x3F = bits b 6 1 /\
  match apower_of (N.shiftr (N.land b 0xC0) 6) with
  | Some p => (match bits b 8 7 with 0 => Val APS_Off | 1 => Val APS_On | _ => NotAvailable end) = Val p
  | None => (match bits b 8 7 with 0 => Val APS_Off | 1 => Val APS_On | _ => @NotAvailable apower end) = NotAvailable
  end.
Proof. all_bytes. Qed.

Definition spec_mode4 (b : N) : reading amode :=
  match bits b 8 5 with
  | 0 => Val AMS_Auto | 1 => Val AMS_Heat | 2 => Val AMS_Dry | 3 => Val AMS_Fan | 4 => Val AMS_Cool
  | 8 => Val AMS_AutoHeat | 9 => Val AMS_AutoCool | _ => NotAvailable end.
Definition spec_fan4 (b : N) : reading afan :=
  match bits b 4 1 with
  | 0 => Val AFS_Auto | 1 => Val AFS_Quiet | 2 => Val AFS_Low | 3 => Val AFS_Medium | 4 => Val AFS_High
  | 5 => Val AFS_Powerful | 6 => Val AFS_Turbo | _ => NotAvailable end.

Lemma as_byte2 : forall b, b < 256 ->
  match amode_of (N.shiftr (N.land b 0xF0) 4) with Some m => spec_mode4 b = Val m | None => spec_mode4 b = NotAvailable end /\
  match afan_of (N.land b 0x0F) with Some f => spec_fan4 b = Val f | None => spec_fan4 b = NotAvailable end.
Proof. all_bytes. Qed.

Lemma as_byte3 : forall b, b < 256 -> N.land b 0x3F = bits b 6 1 /\ bit b 7 = bitv b 8 /\ bit b 6 = bitv b 7.
Proof. all_bytes. Qed.

(* the decoder reports a number whatever byte 5 is; it is the document's value unless
   byte 5 is the not-available sentinel *)
Lemma as_temp_sweep :
  forallb (fun b5 => forallb (fun b6 =>
    (b5 =? 0xFF) || oz_agrees (Some (dec_temp (b5 * 256 + b6))) (read_temp11 b5 b6)) (below 256)) (below 256) = true.
Proof. vm_compute. reflexivity. Qed.

Definition ac_status_agrees (a : ac_status) (s : sac) (b5 : N) : Prop :=
  as_number a = sa_number s /\ sa_power s = Val (as_power a) /\ sa_mode s = Val (as_mode a) /\ sa_fan s = Val (as_fan a) /\
  as_spill a = sa_spill s /\ as_timer a = sa_timer s /\ as_setpoint a = sa_setpoint s /\ as_error a = sa_error s /\
  (b5 <> 0xFF -> sa_temp s = Val (as_temp a)).

(* PARTIAL: the temperature clause excludes byte 5 = 0xFF (see conf_ac_status_temp_refuted) *)
Theorem conf_ac_status_partial b1 b2 b3 b4 b5 b6 b7 b8 :
  b1 < 256 -> b2 < 256 -> b3 < 256 -> b4 < 256 -> b5 < 256 -> b6 < 256 -> b7 < 256 -> b8 < 256 ->
  let s := read_ac_status b1 b2 b3 b4 b5 b6 b7 b8 in
  match dec_ac_status1 [b1; b2; b3; b4; b5; b6; b7; b8] with
  | Some a => ac_status_agrees a s b5
  | None => sa_power s = NotAvailable \/ sa_mode s = NotAvailable \/ sa_fan s = NotAvailable
  end.
Proof.
  intros H1 H2 H3 H4 H5 H6 H7 H8. cbn zeta.
  destruct (as_byte1 b1 H1) as [A1 A1p]. destruct (as_byte2 b2 H2) as [A2m A2f].
  destruct (as_byte3 b3 H3) as [A3 [A3s A3t]].
  pose proof (below2_forall _ _ _ as_temp_sweep b5 b6 H5 H6) as A5. cbn beta in A5.
  unfold dec_ac_status1, read_ac_status. fold (spec_mode4 b2). fold (spec_fan4 b2).
  destruct (apower_of (N.shiftr (N.land b1 192) 6)) as [p|]; cbn [obind sa_power]; [|left; exact A1p].
  destruct (amode_of (N.shiftr (N.land b2 240) 4)) as [m|]; cbn [obind sa_mode]; [|right; left; exact A2m].
  destruct (afan_of (N.land b2 15)) as [f|]; cbn [obind sa_fan]; [|right; right; exact A2f].
  unfold ac_status_agrees.
  cbn [as_number as_power as_mode as_fan as_spill as_timer as_setpoint as_temp as_error
       sa_number sa_power sa_mode sa_fan sa_spill sa_timer sa_setpoint sa_temp sa_error].
  rewrite A1, A3, A3s, A3t. repeat (split; [reflexivity || assumption|]).
  intros Hne. apply N.eqb_neq in Hne. rewrite Hne in A5. cbn [orb] in A5. exact (oz_agrees_ok _ _ A5).
Qed.

(* the full statement is false of the code: the document's "Byte5 = 0xff, Not available"
   is decoded as 154.0 degC (known finding K1; the public field type is float) *)
Theorem conf_ac_status_temp_refuted :
  exists a, dec_ac_status1 [0x40; 0x42; 0x1A; 0; 0xFF; 0; 0; 0] = Some a /\
            sa_temp (read_ac_status 0x40 0x42 0x1A 0 0xFF 0 0 0) = NotAvailable /\ as_temp a = 1540%Z.
Proof. eexists. vm_compute. repeat split; reflexivity. Qed.

(* repeated records: "the data will be repeated with relevant values" — the list decoder
   reads record i from bytes [i*n, (i+1)*n) *)
Theorem conf_repeat {A} (f : list N -> option A) n (rs : list (list N)) l :
  (0 < n)%nat -> Forall (fun r => length r = n) rs ->
  dec_list n f (concat rs) = Some l -> sequence (map f rs) = Some l.
Proof.
  intros Hn F. unfold dec_list.
  assert (length (concat rs) >= length rs)%nat.
  { clear - F Hn. induction F as [|r rs Hr F IH]; cbn; [lia|]. rewrite app_length. lia. }
  rewrite (chunks_concat n rs (S (length (concat rs))) Hn F ltac:(lia)). cbn [obind]. auto.
Qed.

(* ------------------------------------------- 4.e.i AC ability (0xFF 0x11) *)
Lemma ab_modes_byte : forall b, b < 256 ->
  [bit b 0; bit b 1; bit b 2; bit b 3; bit b 4] = map (bitv b) [1; 2; 3; 4; 5].
Proof. all_bytes. Qed.
Lemma ab_fans_byte : forall b, b < 256 ->
  [bit b 0; bit b 1; bit b 2; bit b 3; bit b 4; bit b 5; bit b 6] = map (bitv b) [1; 2; 3; 4; 5; 6; 7].
Proof. all_bytes. Qed.

(* "Group display option": bit k of byte 27 is group k (Group1 = group number 0), bit k of
   byte 28 is group 8+k; the decoder reads the two bytes as a little-endian bitmap *)
Lemma ab_groups_sweep :
  forallb (fun g0 => forallb (fun g1 => leqb (groups_of_bitmap (g0 + g1 * 256)) (shown_groups g0 g1))
    (below 256)) (below 256) = true.
Proof. vm_compute. reflexivity. Qed.

Definition ability_agrees (a : ability) (s : sability) : Prop :=
  ab_number a = sb_number s /\ ab_name a = sb_name s /\ ab_start a = sb_start s /\ ab_count a = sb_count s /\
  ab_modes a = sb_modes s /\ ab_fans a = sb_fans s /\ ab_min a = sb_min s /\ ab_max a = sb_max s /\
  ab_groups a = sb_shown s.

Ltac destruct_list r n :=
  match n with
  | O => destruct r as [|? ?]; [|discriminate]
  | S ?k => destruct r as [|? r]; [discriminate|]; destruct_list r k
  end.

(* one ability record in the old format (following length 22, 24 bytes) or the new one
   (following length 24, 26 bytes with the group display bitmap) *)
Theorem conf_ability r :
  Forall (fun b => b < 256) r ->
  (length r = 24%nat /\ byte r 1 <> 24) \/ (length r = 26%nat /\ byte r 1 = 24) ->
  match dec_abilities 2 r with
  | Some [a] => ability_agrees a (read_ability r)
  | Some _ => False
  | None => utf8_valid (sb_name (read_ability r)) = false
  end.
Proof.
  intros Hb [[Hl Hf]|[Hl Hf]].
  - do 24 (destruct r as [|? r]; [discriminate Hl|]). destruct r; [|discriminate Hl].
    unfold byte in Hf. cbn [nth] in Hf. apply N.eqb_neq in Hf.
    cbn [dec_abilities length Nat.ltb Nat.leb firstn skipn nth]. rewrite Hf. cbn [obind].
    unfold read_ability, byte. cbn [nth firstn skipn sb_name]. rewrite Hf.
    rewrite <- cstring_is_text_before_zero.
    destruct (utf8_valid (cstring _)); cbn [negb]; [|reflexivity].
    unfold ability_agrees. cbn [obind ab_number ab_name ab_start ab_count ab_modes ab_fans ab_min ab_max ab_groups
                                sb_number sb_name sb_start sb_count sb_modes sb_fans sb_min sb_max sb_shown].
    repeat match goal with H : Forall _ (_ :: _) |- _ => inversion H; clear H; subst end.
    rewrite ab_modes_byte, ab_fans_byte by assumption. repeat split; reflexivity.
  - do 26 (destruct r as [|? r]; [discriminate Hl|]). destruct r; [|discriminate Hl].
    unfold byte in Hf. cbn [nth] in Hf. subst.
    cbn [dec_abilities length Nat.ltb Nat.leb firstn skipn nth N.eqb Pos.eqb obind].
    unfold read_ability, byte. cbn [nth firstn skipn sb_name N.eqb Pos.eqb].
    rewrite <- cstring_is_text_before_zero.
    destruct (utf8_valid (cstring _)); cbn [negb]; [|reflexivity].
    unfold ability_agrees. cbn [obind ab_number ab_name ab_start ab_count ab_modes ab_fans ab_min ab_max ab_groups
                                sb_number sb_name sb_start sb_count sb_modes sb_fans sb_min sb_max sb_shown].
    repeat match goal with H : Forall _ (_ :: _) |- _ => inversion H; clear H; subst end.
    rewrite ab_modes_byte, ab_fans_byte by assumption. repeat (split; [reflexivity|]).
    f_equal.
    match goal with |- groups_of_bitmap (?g0 + ?g1 * 256) = _ =>
      pose proof (below2_forall _ _ _ ab_groups_sweep g0 g1 ltac:(assumption) ltac:(assumption)) as G end.
    cbn beta in G. apply leqb_eq in G. exact G.
Qed.


(* --------------------------------------------- 4.e.iii group name (0xFF 0x12) *)
Theorem conf_group_name r : length r = 9%nat ->
  match dec_name1 r with
  | Some e => e = read_group_name r
  | None => utf8_valid (snd (read_group_name r)) = false
  end.
Proof.
  intros Hl. do 9 (destruct r as [|? r]; [discriminate Hl|]). destruct r; [|discriminate Hl].
  unfold dec_name1, read_group_name, byte. cbn [nth firstn skipn snd]. rewrite <- cstring_is_text_before_zero.
  destruct (utf8_valid (cstring _)); reflexivity.
Qed.

(* ------------------------------------- 4.e.ii AC error information (0xFF 0x10) *)
(* b: the bytes after the sub-id, len = their number *)
Theorem conf_error_info b : (2 <= length b)%nat -> (2 + N.to_nat (byte b 1) <= length b)%nat ->
  match dec_sub 0xFF10 (length b) b with
  | Some (S_ErrMsg ac info, rest) =>
    (ac, info) = read_error_info b /\ rest = skipn (2 + N.to_nat (byte b 1)) b
  | Some _ => False
  | None => exists e, snd (read_error_info b) = Some e /\ utf8_valid e = false
  end.
Proof.
  intros H2 Hn. destruct b as [|ac [|el r]]; try (cbn in H2; lia).
  unfold dec_sub. cbn [N.eqb Pos.eqb length Nat.eqb]. unfold read_error_info, byte. cbn [nth skipn Nat.add].
  destruct (el =? 0) eqn:E0.
  - apply N.eqb_eq in E0. subst. cbn. split; reflexivity.
  - apply N.eqb_neq in E0. destruct (N.to_nat el) eqn:En; [lia|]. rewrite <- En.
    destruct (utf8_valid (firstn (N.to_nat el) r)) eqn:Eu.
    + split; reflexivity.
    + eexists. split; [reflexivity|exact Eu].
Qed.

(* ------------------------------------------- 4.e.iv console version (0xFF 0x30) *)
Lemma split_sep_aux_is_split_on sep l : forall cur,
  split_sep_aux sep cur l = split_on sep (rev cur) l.
Proof.
  induction l as [|c l IH]; intros cur; cbn; [reflexivity|].
  destruct (c =? sep); [now rewrite IH|]. now rewrite IH.
Qed.

Theorem conf_version b : (2 <= length b)%nat ->
  match dec_sub 0xFF30 (length b) b with
  | Some (S_Version up vs, rest) => (up, vs) = read_version VERSION_SEP b
  | Some _ => False
  | None => utf8_valid (firstn (N.to_nat (byte b 1)) (skipn 2 b)) = false
  end.
Proof.
  intros H2. destruct b as [|up [|vl r]]; try (cbn in H2; lia).
  unfold dec_sub. cbn [N.eqb Pos.eqb length Nat.eqb]. unfold read_version, byte. cbn [nth skipn].
  destruct (utf8_valid (firstn (N.to_nat vl) r)); [|reflexivity].
  unfold split_sep. now rewrite split_sep_aux_is_split_on.
Qed.
