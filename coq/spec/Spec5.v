(* Spec5.v — what the bits of AirTouch 5 status payloads MEAN, transcribed from the vendor
   document "AirTouch 5 Communication Protocol V1.2" (text in spec_text/airtouch5_v1.2.txt).
   Same conventions as Spec4.v: bytes numbered from 1 within a repeat record, bits 8..1,
   extraction by division and remainder.  No proofs here. *)
From Coq Require Import NArith ZArith List Bool.
From PV Require Import at4.Msg4 at5.Msg5 spec.Spec4.
Import ListNotations.
Open Scope N_scope.

(* "Bit3-1 [of byte 5] + byte 6: Temperature, 0-2000: Temperature = (VALUE - 500)/10.
   Other: Not available" — tenths of a degree *)
Definition read_temp5 (b5 b6 : N) : reading Z :=
  let v := bits b5 3 1 * 256 + b6 in
  if v <=? 2000 then Val (Z.of_N v - 500)%Z else NotAvailable.

(* ------------------------------------------------- 4.a.ii zone status (0x21) *)
Record szone := mkSZ {
  sz_index : N; sz_power : reading zpower; sz_method : zmethod; sz_percent : N;
  sz_setpoint : reading Z;      (* "setpoint = (value+100)/10, 0xFF invalid" *)
  sz_sensor : bool; sz_temp : reading Z; sz_spill : bool; sz_low_battery : bool }.

Definition read_zone_status (b1 b2 b3 b4 b5 b6 b7 : N) : szone :=
  mkSZ (bits b1 6 1)
       (match bits b1 8 7 with 0 => Val ZPS_Off | 1 => Val ZPS_On | 3 => Val ZPS_Turbo | _ => Undefined end)
       (if bitv b2 8 then ZMS_Temperature else ZMS_Damper)
       (bits b2 7 1)
       (if b3 =? 0xFF then NotAvailable else Val (Z.of_N b3 + 100)%Z)
       (bitv b4 8)
       (read_temp5 b5 b6)
       (bitv b7 2) (bitv b7 1).

(* --------------------------------------------------- 4.a.iv AC status (0x23) *)
Record sac5 := mkSA5 {
  s5_index : N; s5_power : reading a5power; s5_mode : reading amode; s5_fan : reading a5fan;
  s5_setpoint : reading Z;      (* "0-250: Setpoint = (VALUE + 100)/10. Other: Not available" *)
  s5_turbo : bool; s5_bypass : bool; s5_spill : bool; s5_timer : bool;
  s5_temp : reading Z; s5_error : N }.

Definition read_ac5_status (b1 b2 b3 b4 b5 b6 b7 b8 : N) : sac5 :=
  mkSA5 (bits b1 4 1)
        (match bits b1 8 5 with
         | 0 => Val A5S_Off | 1 => Val A5S_On | 2 => Val A5S_OffAway | 3 => Val A5S_OnAway | 5 => Val A5S_Sleep
         | _ => NotAvailable end)
        (match bits b2 8 5 with
         | 0 => Val AMS_Auto | 1 => Val AMS_Heat | 2 => Val AMS_Dry | 3 => Val AMS_Fan | 4 => Val AMS_Cool
         | 8 => Val AMS_AutoHeat | 9 => Val AMS_AutoCool | _ => NotAvailable end)
        (match bits b2 4 1 with
         | 0 => Val A5FS_Auto | 1 => Val A5FS_Quiet | 2 => Val A5FS_Low | 3 => Val A5FS_Medium | 4 => Val A5FS_High
         | 5 => Val A5FS_Powerful | 6 => Val A5FS_Turbo
         | 9 => Val A5FS_IAQuiet | 10 => Val A5FS_IALow | 11 => Val A5FS_IAMedium | 12 => Val A5FS_IAHigh
         | 13 => Val A5FS_IAPowerful | 14 => Val A5FS_IATurbo      (* "1001 - 1110: Intelligent Auto" *)
         | _ => NotAvailable end)
        (if b3 <=? 250 then Val (Z.of_N b3 + 100)%Z else NotAvailable)
        (bitv b4 4) (bitv b4 3) (bitv b4 2) (bitv b4 1)
        (read_temp5 b5 b6)
        (b7 * 256 + b8).

(* --------------------------------------------- 4.b.i AC ability (0xFF 0x11) *)
Record sability5 := mkSAb5 {
  s5b_index : N; s5b_name : list N; s5b_start : N; s5b_count : N;
  s5b_modes : list bool;     (* auto heat dry fan cool: bits 1..5 of byte 23 *)
  s5b_fans : list bool;      (* auto quiet low medium high powerful turbo intelligent-auto: bits 1..8 of byte 24 *)
  s5b_min_cool : N; s5b_max_cool : N; s5b_min_heat : N; s5b_max_heat : N }.

Definition read_ability5 (r : list N) : sability5 :=
  mkSAb5 (byte r 0) (text_before_zero (firstn 16 (skipn 2 r))) (byte r 18) (byte r 19)
         (map (bitv (byte r 20)) [1; 2; 3; 4; 5])
         (map (bitv (byte r 21)) [1; 2; 3; 4; 5; 6; 7; 8])
         (byte r 22) (byte r 23) (byte r 24) (byte r 25).

(* ------------------------------------------- 4.b.iii zone name (0xFF 0x13) *)
(* "Zone index, Name length, Zone name; if there are more than one zone, the data will be
   repeated": the list of (index, name) entries of a buffer, None if a name overruns it *)
Fixpoint read_zone_names (fuel : nat) (b : list N) : option (list (N * list N)) :=
  match fuel, b with
  | _, [] => Some []
  | S f, z :: len :: r =>
    if Nat.ltb (length r) (N.to_nat len) then None
    else match read_zone_names f (skipn (N.to_nat len) r) with
         | Some rest => Some ((z, firstn (N.to_nat len) r) :: rest)
         | None => None
         end
  | _, _ => None
  end.

(* ======================= control messages ========================================== *)
(* --------------------------------------------------- 4.a.i zone control (0x20) *)
Record szone_ctrl := mkSZC {
  szc_zone : N;
  szc_value : change zone_value;      (* "Zone setting value": "Other: Keep setting value" *)
  szc_method : change method;         (* "Control type" *)
  szc_power : change zone_power }.    (* "Other: Keep power state" *)

Definition read_zone_ctrl (b1 b2 b3 : N) : szone_ctrl :=
  mkSZC (bits b1 6 1)
    (match bits b2 8 6 with
     | 2 => Decrease | 3 => Increase
     | 4 => SetTo (Percent b3) | 5 => SetTo (SetPointDeg (Z.of_N b3 + 100)) | _ => Keep end)
    (match bits b2 5 4 with 0 => Keep | 1 => Toggle | 2 => SetTo ByPercentage | _ => SetTo ByTemperature end)
    (match bits b2 3 1 with 1 => Toggle | 2 => SetTo ZOff | 3 => SetTo ZOn | 5 => SetTo ZTurbo | _ => Keep end).

(* --------------------------------------------------- 4.a.iii AC control (0x22) *)
Inductive fan5 := F5 (f : afan) | F5IntelligentAuto.
Record sac5_ctrl := mkSAC5 {
  s5c_index : N;
  s5c_power : change onoff;           (* "Other: Keep power setting" *)
  s5c_mode : change amode;
  s5c_fan : change fan5;
  s5c_setpoint : change Z }.          (* 0x40: change, 0x00: keep, other: invalid; tenths *)

Definition read_ac5_ctrl (b1 b2 b3 b4 : N) : sac5_ctrl :=
  mkSAC5 (bits b1 4 1)
    (match bits b1 8 5 with
     | 1 => Toggle | 2 => SetTo POff | 3 => SetTo POn | 4 => SetTo PAway | 5 => SetTo PSleep | _ => Keep end)
    (match bits b2 8 5 with
     | 0 => SetTo AMS_Auto | 1 => SetTo AMS_Heat | 2 => SetTo AMS_Dry | 3 => SetTo AMS_Fan | 4 => SetTo AMS_Cool | _ => Keep end)
    (match bits b2 4 1 with
     | 0 => SetTo (F5 AFS_Auto) | 1 => SetTo (F5 AFS_Quiet) | 2 => SetTo (F5 AFS_Low) | 3 => SetTo (F5 AFS_Medium)
     | 4 => SetTo (F5 AFS_High) | 5 => SetTo (F5 AFS_Powerful) | 6 => SetTo (F5 AFS_Turbo)
     | 8 => SetTo F5IntelligentAuto | _ => Keep end)
    (if b3 =? 0x40 then SetTo (Z.of_N b4 + 100)%Z else if b3 =? 0 then Keep else NotDefined).
