(* Conform5.v — C05 for AirTouch 5: the decoders of Codec5.v read every status payload
   exactly as Spec5.v (the vendor document) says, or reject it; announced record strides
   are honoured. *)
From Coq Require Import NArith ZArith List Bool Lia Arith.
From PV Require Import base.Res base.Utf8 base.ListX at4.Msg4 at4.Codec4 at4.Codec4Proofs
  at5.Msg5 at5.Codec5 at5.Codec5Proofs spec.Spec4 spec.Spec5 spec.Conform4.
Import ListNotations.
Open Scope N_scope.

(* ------------------------------------------------- 4.a.ii zone status (0x21) *)
Lemma zs_byte1 : forall b, b < 256 ->
  N.land b 0x3F = bits b 6 1 /\
  match zpower_of (N.shiftr (N.land b 0xC0) 6) with
  | Some p => (match bits b 8 7 with 0 => Val ZPS_Off | 1 => Val ZPS_On | 3 => Val ZPS_Turbo | _ => Undefined end) = Val p
  | None => (match bits b 8 7 with 0 => Val ZPS_Off | 1 => Val ZPS_On | 3 => Val ZPS_Turbo | _ => @Undefined zpower end) = Undefined
  end.
Proof. all_bytes. Qed.

Lemma zs_byte2 : forall b, b < 256 ->
  N.land b 0x7F = bits b 7 1 /\
  zmethod_of (N.shiftr (N.land b 0x80) 7) = Some (if bitv b 8 then ZMS_Temperature else ZMS_Damper).
Proof. all_bytes. Qed.

Lemma zs_byte3 : forall b, b < 256 ->
  match zs_sp_of b with
  | Some d => (if b =? 0xFF then NotAvailable else Val (Z.of_N b + 100)%Z) = Val d
  | None => (if b =? 0xFF then NotAvailable else Val (Z.of_N b + 100)%Z) = NotAvailable
  end.
Proof. all_bytes. Qed.

Lemma zs_byte7 : forall b, b < 256 ->
  bit b 1 = bitv b 2 /\ battery_of (N.land b 0x01) = Some (if bitv b 1 then Bat_Low else Bat_Normal).
Proof. all_bytes. Qed.

Lemma zs_temp_sweep :
  forallb (fun b5 => forallb (fun b6 => oz_agrees (zs_temp_of true (b5 * 256 + b6)) (read_temp5 b5 b6))
    (below 256)) (below 256) = true.
Proof. vm_compute. reflexivity. Qed.

Definition zone_status_agrees (z : zone_status) (s : szone) : Prop :=
  zs_zone z = sz_index s /\ sz_power s = Val (zs_power z) /\ zs_method z = sz_method s /\ zs_damper z = sz_percent s /\
  match zs_setpoint z with Some d => sz_setpoint s = Val d | None => sz_setpoint s = NotAvailable end /\
  zs_sensor z = sz_sensor s /\ zs_spill z = sz_spill s /\
  zs_battery z = (if sz_low_battery s then Bat_Low else Bat_Normal) /\
  (* the temperature is reported for zones with a sensor only *)
  match zs_temp z with
  | Some d => sz_sensor s = true /\ sz_temp s = Val d
  | None => sz_sensor s = false \/ sz_temp s = NotAvailable
  end.

Theorem conf_zone_status b1 b2 b3 b4 b5 b6 b7 b8 :
  b1 < 256 -> b2 < 256 -> b3 < 256 -> b4 < 256 -> b5 < 256 -> b6 < 256 -> b7 < 256 ->
  let s := read_zone_status b1 b2 b3 b4 b5 b6 b7 in
  match dec_zone_status1 [b1; b2; b3; b4; b5; b6; b7; b8] with
  | Some z => zone_status_agrees z s
  | None => sz_power s = Undefined
  end.
Proof.
  intros H1 H2 H3 H4 H5 H6 H7. cbn zeta.
  destruct (zs_byte1 b1 H1) as [A1 A1p]. destruct (zs_byte2 b2 H2) as [A2 A2m].
  pose proof (zs_byte3 b3 H3) as A3. pose proof (byte_bit7 b4 H4) as A4.
  destruct (zs_byte7 b7 H7) as [A7 A7b].
  pose proof (below2_forall _ _ _ zs_temp_sweep b5 b6 H5 H6) as A5. cbn beta in A5. apply oz_agrees_ok in A5.
  unfold dec_zone_status1, read_zone_status. rewrite A2m, A7b. cbn [obind].
  destruct (zpower_of (N.shiftr (N.land b1 192) 6)) as [p|]; cbn [obind sz_power]; [|exact A1p].
  unfold zone_status_agrees.
  cbn [zs_zone zs_power zs_spill zs_method zs_sensor zs_battery zs_temp zs_damper zs_setpoint
       sz_index sz_power sz_method sz_percent sz_setpoint sz_sensor sz_temp sz_spill sz_low_battery].
  rewrite A1, A2, A4, A7. repeat (split; [reflexivity || assumption|]).
  unfold zs_temp_of in *. destruct (bitv b4 8); cbn [negb orb] in *.
  - destruct (1500 <? dec_temp5 (N.land (b5 * 256 + b6) 2047))%Z; [right; exact A5|split; [reflexivity|exact A5]].
  - left. reflexivity.
Qed.

(* --------------------------------------------------- 4.a.iv AC status (0x23) *)
Definition spec_power5 (b : N) : reading a5power :=
  match bits b 8 5 with
  | 0 => Val A5S_Off | 1 => Val A5S_On | 2 => Val A5S_OffAway | 3 => Val A5S_OnAway | 5 => Val A5S_Sleep
  | _ => NotAvailable end.
Definition spec_fan5 (b : N) : reading a5fan :=
  match bits b 4 1 with
  | 0 => Val A5FS_Auto | 1 => Val A5FS_Quiet | 2 => Val A5FS_Low | 3 => Val A5FS_Medium | 4 => Val A5FS_High
  | 5 => Val A5FS_Powerful | 6 => Val A5FS_Turbo
  | 9 => Val A5FS_IAQuiet | 10 => Val A5FS_IALow | 11 => Val A5FS_IAMedium | 12 => Val A5FS_IAHigh
  | 13 => Val A5FS_IAPowerful | 14 => Val A5FS_IATurbo
  | _ => NotAvailable end.

Lemma a5_byte1 : forall b, b < 256 ->
  N.land b 0x0F = bits b 4 1 /\
  match a5power_of (N.shiftr (N.land b 0xF0) 4) with Some p => spec_power5 b = Val p | None => spec_power5 b = NotAvailable end.
Proof. all_bytes. Qed.

Lemma a5_byte2 : forall b, b < 256 ->
  match amode_of (N.shiftr (N.land b 0xF0) 4) with Some m => spec_mode4 b = Val m | None => spec_mode4 b = NotAvailable end /\
  match a5fan_of (N.land b 0x0F) with Some f => spec_fan5 b = Val f | None => spec_fan5 b = NotAvailable end.
Proof. all_bytes. Qed.

Lemma a5_byte4 : forall b, b < 256 -> bit b 3 = bitv b 4 /\ bit b 2 = bitv b 3 /\ bit b 1 = bitv b 2 /\ bit b 0 = bitv b 1.
Proof. all_bytes. Qed.

Lemma a5_byte3 : forall b, b < 256 -> b <= 250 -> (if b <=? 250 then Val (Z.of_N b + 100)%Z else NotAvailable) = Val (dec_set_point b).
Proof. intros b _ H. apply N.leb_le in H. rewrite H. reflexivity. Qed.

Lemma a5_temp_sweep :
  forallb (fun b5 => forallb (fun b6 =>
    negb (bits b5 3 1 * 256 + b6 <=? 2000) ||
    oz_agrees (Some (dec_temp5 (N.land (b5 * 256 + b6) 0x07FF))) (read_temp5 b5 b6)) (below 256)) (below 256) = true.
Proof. vm_compute. reflexivity. Qed.

Definition ac5_status_agrees (a : ac5_status) (s : sac5) (b3 b5 b6 : N) : Prop :=
  a5s_number a = s5_index s /\ s5_power s = Val (a5s_power a) /\ s5_mode s = Val (a5s_mode a) /\ s5_fan s = Val (a5s_fan a) /\
  a5s_turbo a = s5_turbo s /\ a5s_bypass a = s5_bypass s /\ a5s_spill a = s5_spill s /\ a5s_timer a = s5_timer s /\
  a5s_error a = s5_error s /\
  (b3 <= 250 -> s5_setpoint s = Val (a5s_setpoint a)) /\
  (bits b5 3 1 * 256 + b6 <= 2000 -> s5_temp s = Val (a5s_temp a)).

(* PARTIAL: the set-point and temperature clauses exclude the documented not-available
   ranges (see conf_ac5_status_refuted) *)
Theorem conf_ac5_status_partial b1 b2 b3 b4 b5 b6 b7 b8 tail :
  b1 < 256 -> b2 < 256 -> b3 < 256 -> b4 < 256 -> b5 < 256 -> b6 < 256 -> b7 < 256 -> b8 < 256 ->
  let s := read_ac5_status b1 b2 b3 b4 b5 b6 b7 b8 in
  match dec_ac5_status1 ([b1; b2; b3; b4; b5; b6; b7; b8] ++ tail) with
  | Some a => ac5_status_agrees a s b3 b5 b6
  | None => s5_power s = NotAvailable \/ s5_mode s = NotAvailable \/ s5_fan s = NotAvailable
  end.
Proof.
  intros H1 H2 H3 H4 H5 H6 H7 H8. cbn zeta.
  destruct (a5_byte1 b1 H1) as [A1 A1p]. destruct (a5_byte2 b2 H2) as [A2m A2f].
  destruct (a5_byte4 b4 H4) as [A4a [A4b [A4c A4d]]].
  pose proof (below2_forall _ _ _ a5_temp_sweep b5 b6 H5 H6) as A5. cbn beta in A5.
  cbn [app]. unfold dec_ac5_status1, read_ac5_status. fold (spec_power5 b1). fold (spec_mode4 b2). fold (spec_fan5 b2).
  destruct (a5power_of (N.shiftr (N.land b1 240) 4)) as [p|]; cbn [obind s5_power]; [|left; exact A1p].
  destruct (amode_of (N.shiftr (N.land b2 240) 4)) as [m|]; cbn [obind s5_mode]; [|right; left; exact A2m].
  destruct (a5fan_of (N.land b2 15)) as [f|]; cbn [obind s5_fan]; [|right; right; exact A2f].
  unfold ac5_status_agrees.
  cbn [a5s_number a5s_power a5s_mode a5s_fan a5s_turbo a5s_bypass a5s_spill a5s_timer a5s_setpoint a5s_temp a5s_error
       s5_index s5_power s5_mode s5_fan s5_setpoint s5_turbo s5_bypass s5_spill s5_timer s5_temp s5_error].
  rewrite A1, A4a, A4b, A4c, A4d. repeat (split; [reflexivity || assumption|]). split.
  - intros Hle. now apply a5_byte3.
  - intros Hle. apply N.leb_le in Hle. rewrite Hle in A5. cbn [negb orb] in A5. exact (oz_agrees_ok _ _ A5).
Qed.

(* the full statement is false of the code: set-point values 251..255 and temperature
   values 2001..2047 ("Other: Not available") are decoded as numbers (known finding K3;
   the public field types are float) *)
Theorem conf_ac5_status_refuted :
  exists a, dec_ac5_status1 [0x10; 0x12; 0xFF; 0xC0; 0x07; 0xFF; 0; 0] = Some a /\
            s5_setpoint (read_ac5_status 0x10 0x12 0xFF 0xC0 0x07 0xFF 0 0) = NotAvailable /\ a5s_setpoint a = 355%Z /\
            s5_temp (read_ac5_status 0x10 0x12 0xFF 0xC0 0x07 0xFF 0 0) = NotAvailable /\ a5s_temp a = 1547%Z.
Proof. eexists. vm_compute. repeat split; reflexivity. Qed.

(* ------------------------------------------------ announced record strides *)
(* "Each repeat data length ... If the protocol is upgraded, this value may change. Use
   this specific value for data parsing": record i is read at offset i * stride, and what
   is left is the buffer after count * stride bytes *)
Theorem conf_stride {A} (f : list N -> option A) stride : forall count b l rest,
  dec_repeat count stride f b = Some (l, rest) ->
  length l = count /\ rest = skipn (count * stride) b /\
  forall i, (i < count)%nat -> option_map Some (nth_error l i) = option_map f (Some (skipn (i * stride) b)).
Proof.
  induction count as [|c IH]; intros b l rest H.
  - cbn in H. injection H as <- <-. split; [reflexivity|]. split; [reflexivity|]. intros i Hi; lia.
  - cbn [dec_repeat] in H. destruct (f b) as [x|] eqn:Fx; [|discriminate]. cbn [obind] in H.
    destruct (dec_repeat c stride f (skipn stride b)) as [[l' rest']|] eqn:R; [|discriminate].
    cbn [obind fst snd] in H. injection H as <- <-.
    destruct (IH _ _ _ R) as [Hl [Hr Hi]]. split; [cbn; now rewrite Hl|]. split.
    + rewrite Hr, skipn_skipn'. reflexivity.
    + intros [|i] Hlt; cbn [nth_error option_map].
      * cbn [Nat.mul skipn]. now rewrite Fx.
      * rewrite (Hi i ltac:(lia)). cbn [option_map Nat.mul]. rewrite skipn_skipn'. reflexivity.
Qed.

(* and each record decoder reads the known prefix of its record only: bytes the console
   appends to a record (a longer stride) do not change the reading *)
Theorem conf_zone_status_prefix r tail : length r = 8%nat -> dec_zone_status1 (r ++ tail) = dec_zone_status1 r.
Proof. apply dec_zone_status1_ext. Qed.
Theorem conf_timer_prefix r tail : length r = 9%nat -> dec_timer5 (r ++ tail) = dec_timer5 r.
Proof. apply dec_timer5_ext. Qed.

(* a stride shorter than the known layout is rejected, for every sub-message with one *)
Theorem conf_short_stride id nrl rl rc b :
  (id = 0x21 \/ id = 0x23) -> (0 < rl < 8)%nat -> dec_c0_body id nrl rl rc b = None.
Proof.
  intros [-> | ->] [H0 H8]; unfold dec_c0_body; cbn [N.eqb Pos.eqb];
    destruct rl as [|rl]; try lia; cbn [Nat.eqb andb];
    (assert (Nat.ltb (S rl) 8 = true) as -> by (apply Nat.ltb_lt; lia)); reflexivity.
Qed.

(* --------------------------------------------- 4.b.i AC ability (0xFF 0x11) *)
Lemma ab5_fans_byte : forall b, b < 256 ->
  [bit b 0; bit b 1; bit b 2; bit b 3; bit b 4; bit b 5; bit b 6; bit b 7] = map (bitv b) [1; 2; 3; 4; 5; 6; 7; 8].
Proof. all_bytes. Qed.

Definition ability5_agrees (a : ability5) (s : sability5) : Prop :=
  ab5_number a = s5b_index s /\ ab5_name a = s5b_name s /\ ab5_start a = s5b_start s /\ ab5_count a = s5b_count s /\
  ab5_modes a = s5b_modes s /\ ab5_fans a = s5b_fans s /\
  ab5_min_cool a = s5b_min_cool s /\ ab5_max_cool a = s5b_max_cool s /\
  ab5_min_heat a = s5b_min_heat s /\ ab5_max_heat a = s5b_max_heat s.

Theorem conf_ability5 r : Forall (fun b => b < 256) r -> length r = 26%nat ->
  match dec_ability5 r with
  | Some a => ability5_agrees a (read_ability5 r)
  | None => utf8_valid (s5b_name (read_ability5 r)) = false
  end.
Proof.
  intros Hb Hl. do 26 (destruct r as [|? r]; [discriminate Hl|]). destruct r; [|discriminate Hl].
  unfold dec_ability5, read_ability5, byte. cbn [nth firstn skipn s5b_name].
  rewrite <- cstring_is_text_before_zero.
  destruct (utf8_valid (cstring _)); cbn [negb]; [|reflexivity].
  unfold ability5_agrees.
  cbn [ab5_number ab5_name ab5_start ab5_count ab5_modes ab5_fans ab5_min_cool ab5_max_cool ab5_min_heat ab5_max_heat
       s5b_index s5b_name s5b_start s5b_count s5b_modes s5b_fans s5b_min_cool s5b_max_cool s5b_min_heat s5b_max_heat].
  repeat match goal with H : Forall _ (_ :: _) |- _ => inversion H; clear H; subst end.
  rewrite ab_modes_byte, ab5_fans_byte by assumption. repeat split; reflexivity.
Qed.

(* ------------------------------------------- 4.b.iii zone name (0xFF 0x13) *)
(* the decoder yields the entries the document describes, in order, or rejects *)
Theorem conf_zone_names : forall fuel b l,
  dec_names5 fuel b = Some l -> read_zone_names fuel b = Some l.
Proof.
  induction fuel as [|f IH]; intros b l H.
  - destruct b; cbn in *; [exact H|discriminate].
  - destruct b as [|z [|nl r]]; cbn [dec_names5 read_zone_names] in *; try exact H; try discriminate.
    destruct (Nat.ltb (length r) (N.to_nat nl)); [discriminate|].
    destruct (utf8_valid (firstn (N.to_nat nl) r)); cbn [negb] in H; [|discriminate].
    destruct (dec_names5 f (skipn (N.to_nat nl) r)) as [rest|] eqn:R; [|discriminate].
    cbn [obind] in H. injection H as <-. now rewrite (IH _ _ R).
Qed.

Theorem conf_zone_names_reject : forall fuel b, (length b <= fuel)%nat ->
  dec_names5 fuel b = None ->
  read_zone_names fuel b = None \/
  exists l, read_zone_names fuel b = Some l /\ existsb (fun e => negb (utf8_valid (snd e))) l = true.
Proof.
  induction fuel as [|f IH]; intros b Hf H.
  - destruct b; cbn in *; [discriminate|lia].
  - destruct b as [|z [|nl r]]; cbn [dec_names5 read_zone_names] in *; try discriminate; [left; reflexivity|].
    destruct (Nat.ltb (length r) (N.to_nat nl)) eqn:Lt; [left; reflexivity|].
    apply Nat.ltb_ge in Lt.
    assert (Hf' : (length (skipn (N.to_nat nl) r) <= f)%nat) by (rewrite skipn_length; cbn [length] in Hf; lia).
    destruct (utf8_valid (firstn (N.to_nat nl) r)) eqn:U; cbn [negb] in H.
    + destruct (dec_names5 f (skipn (N.to_nat nl) r)) as [rest|] eqn:R; [discriminate|].
      destruct (IH _ Hf' R) as [E|[l [E X]]]; rewrite E; [left; reflexivity|].
      right. eexists. split; [reflexivity|]. cbn [existsb snd]. rewrite X. apply orb_true_r.
    + destruct (read_zone_names f (skipn (N.to_nat nl) r)) as [rest|]; [|left; reflexivity].
      right. eexists. split; [reflexivity|]. cbn [existsb snd]. now rewrite U.
Qed.

(* ---------------- 4.b.ii error information and 4.b.iv console version (as AirTouch 4,
   with "," between the versions) *)
Theorem conf_error_info5 b : (2 <= length b)%nat -> (2 + N.to_nat (byte b 1) <= length b)%nat ->
  match dec_sub5 0xFF10 (length b) b with
  | Some (S5_ErrMsg ac info, rest) =>
    (ac, info) = read_error_info b /\ rest = skipn (2 + N.to_nat (byte b 1)) b
  | Some _ => False
  | None => exists e, snd (read_error_info b) = Some e /\ utf8_valid e = false
  end.
Proof.
  intros H2 Hn. destruct b as [|ac [|el r]]; try (cbn in H2; lia).
  unfold dec_sub5. cbn [N.eqb Pos.eqb length Nat.eqb]. unfold read_error_info, byte. cbn [nth skipn Nat.add].
  destruct (el =? 0) eqn:E0.
  - apply N.eqb_eq in E0. subst. cbn. split; reflexivity.
  - apply N.eqb_neq in E0. destruct (N.to_nat el) eqn:En; [lia|]. rewrite <- En.
    destruct (utf8_valid (firstn (N.to_nat el) r)) eqn:Eu.
    + split; reflexivity.
    + eexists. split; [reflexivity|exact Eu].
Qed.

Theorem conf_version5 b : (2 <= length b)%nat ->
  match dec_sub5 0xFF30 (length b) b with
  | Some (S5_Version up vs, rest) => (up, vs) = read_version VERSION_SEP5 b
  | Some _ => False
  | None => utf8_valid (firstn (N.to_nat (byte b 1)) (skipn 2 b)) = false
  end.
Proof.
  intros H2. destruct b as [|up [|vl r]]; try (cbn in H2; lia).
  unfold dec_sub5. cbn [N.eqb Pos.eqb length Nat.eqb]. unfold read_version, byte. cbn [nth skipn].
  destruct (utf8_valid (firstn (N.to_nat vl) r)); [|reflexivity].
  unfold split_sep. now rewrite split_sep_aux_is_split_on.
Qed.
