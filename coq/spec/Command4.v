(* Command4.v — C04 for AirTouch 4: the bytes of every control message, read as the vendor
   document says (Spec4.read_group_ctrl / read_ac_ctrl), ask for exactly what the control
   record holds, and keep everything else. *)
From Coq Require Import NArith ZArith List Bool Lia Arith.
From PV Require Import base.Res at4.Msg4 at4.Codec4 at4.Codec4Proofs spec.Spec4.
Import ListNotations.
Open Scope N_scope.

(* what a control record means, in the document's vocabulary *)
Definition mean_apower (p : apower_ctl) : change onoff :=
  match p with AP_Unchanged => Keep | AP_Toggle => Toggle | AP_Off => SetTo POff | AP_On => SetTo POn end.
Definition mean_amode (m : amode_ctl) : change amode :=
  match m with AM_Auto => SetTo AMS_Auto | AM_Heat => SetTo AMS_Heat | AM_Dry => SetTo AMS_Dry | AM_Fan => SetTo AMS_Fan
             | AM_Cool => SetTo AMS_Cool | AM_Unchanged => Keep end.
Definition mean_afan (f : afan_ctl) : change afan :=
  match f with AF_Auto => SetTo AFS_Auto | AF_Quiet => SetTo AFS_Quiet | AF_Low => SetTo AFS_Low | AF_Medium => SetTo AFS_Medium
             | AF_High => SetTo AFS_High | AF_Powerful => SetTo AFS_Powerful | AF_Turbo => SetTo AFS_Turbo | AF_Unchanged => Keep end.
Definition mean_asp (s : asetpoint_ctl) : change Z :=
  match s with AS_None => Keep | AS_Dec => Decrease | AS_Inc => Increase | AS_Value v => SetTo (Z.of_N v * 10)%Z end.
Definition mean_ac_ctrl (c : ac_ctrl) : sac_ctrl :=
  mkSAC (ac_number c) (mean_apower (ac_power c)) (mean_amode (ac_mode c)) (mean_afan (ac_fan c)) (mean_asp (ac_sp c)).

Lemma acc_b1_sweep :
  forallb (fun n => forallb (fun pw =>
    let b := N.land (N.shiftl pw 6) 0xC0 + N.land n 0x3F in
    (b <? 256) && (bits b 6 1 =? n) && (bits b 8 7 =? pw)) (below 4)) (below 64) = true.
Proof. vm_compute. reflexivity. Qed.

Lemma acc_b3_sweep :
  forallb (fun ct => forallb (fun v =>
    let b := N.land (N.shiftl ct 6) 0xC0 + N.land v 0x3F in
    (b <? 256) && (bits b 6 1 =? v) && (bits b 8 7 =? ct)) (below 64)) (below 4) = true.
Proof. vm_compute. reflexivity. Qed.

Theorem ac_ctrl_means c : dom_ac_ctrl c = true ->
  exists b1 b2 b3, enc_ac_ctrl c = Some [b1; b2; b3; 0] /\ read_ac_ctrl b1 b2 b3 = mean_ac_ctrl c.
Proof.
  destruct c as [n pw mo fa sp]. unfold dom_ac_ctrl. cbn [ac_number ac_sp]. intros H.
  apply andb_prop in H as [Hn Hs]. apply N.ltb_lt in Hn.
  pose proof (below2_forall _ _ _ acc_b1_sweep n (apower_ctl_code pw) Hn (apower_ctl_code_lt pw)) as S1.
  cbn beta zeta in S1. apply andb_prop in S1 as [S1 S1c]. apply andb_prop in S1 as [S1a S1b].
  apply N.ltb_lt in S1a. apply N.eqb_eq in S1b, S1c.
  assert (Hb2 : let b := N.land (N.shiftl (amode_ctl_code mo) 4) 0xF0 + N.land (afan_ctl_code fa) 0x0F in
                b < 256 /\ bits b 8 5 = (if amode_ctl_code mo =? 255 then 15 else amode_ctl_code mo) /\
                bits b 4 1 = (if afan_ctl_code fa =? 255 then 15 else afan_ctl_code fa))
    by (destruct mo, fa; vm_compute; repeat split; reflexivity).
  cbn zeta in Hb2. destruct Hb2 as [B2a [B2b B2c]].
  assert (Hb3 : exists ct v, (ct, v) = match sp with AS_None => (0, 0x3F) | AS_Dec => (2, 0x3F) | AS_Inc => (3, 0x3F) | AS_Value v => (1, v) end
                /\ ct < 4 /\ v < 64).
  { destruct sp as [| | |v]; try apply N.ltb_lt in Hs; eexists; eexists; (split; [reflexivity|split; [reflexivity|assumption||reflexivity]]). }
  destruct Hb3 as [ct [v [E [Hct Hv]]]].
  pose proof (below2_forall _ _ _ acc_b3_sweep ct v Hct Hv) as S3.
  cbn beta zeta in S3. apply andb_prop in S3 as [S3 S3c]. apply andb_prop in S3 as [S3a S3b].
  apply N.ltb_lt in S3a. apply N.eqb_eq in S3b, S3c.
  unfold enc_ac_ctrl. cbn [ac_number ac_power ac_mode ac_fan ac_sp]. rewrite <- E.
  rewrite (pack_B_ok _ S1a), (pack_B_ok _ B2a), (pack_B_ok _ S3a). cbn [obind app].
  eexists. eexists. eexists. split; [reflexivity|].
  unfold read_ac_ctrl, mean_ac_ctrl. cbn [ac_number ac_power ac_mode ac_fan ac_sp].
  rewrite S1b, S1c, B2b, B2c, S3b, S3c.
  f_equal.
  - destruct pw; reflexivity.
  - destruct mo; reflexivity.
  - destruct fa; reflexivity.
  - destruct sp as [| | |v']; inversion E; subst; reflexivity.
Qed.

(* ------------------------------------------ 4.a group control message (0x2A) *)
Definition mean_gpower (p : gpower_ctl) : change zone_power :=
  match p with GP_Unchanged => Keep | GP_Toggle => Toggle | GP_Off => SetTo ZOff | GP_On => SetTo ZOn | GP_Turbo => SetTo ZTurbo end.
Definition mean_gmethod (m : gmethod_ctl) : change method :=
  match m with GM_Unchanged => Keep | GM_Change => Toggle | GM_Damper => SetTo ByPercentage | GM_Temperature => SetTo ByTemperature end.
Definition mean_gsetting (s : gsetting) : change zone_value :=
  match s with GS_None => Keep | GS_Dec => Decrease | GS_Inc => Increase
             | GS_Damper p => SetTo (Percent p) | GS_SetPoint v => SetTo (SetPointDeg (Z.of_N v * 10)) end.
Definition mean_group_ctrl (c : group_ctrl) : sgroup_ctrl :=
  mkSGC (gc_group c) (mean_gsetting (gc_setting c)) (mean_gmethod (gc_method c)) (mean_gpower (gc_power c)).

Theorem group_ctrl_means c : dom_group_ctrl c = true ->
  exists b1 b2 b3, enc_group_ctrl c = Some [b1; b2; b3; 0] /\ read_group_ctrl b1 b2 b3 = mean_group_ctrl c.
Proof.
  destruct c as [g pw me st]. unfold dom_group_ctrl. cbn [gc_group gc_setting].
  intros H. apply andb_prop in H as [Hg Hs]. apply N.ltb_lt in Hg.
  unfold enc_group_ctrl. cbn [gc_group gc_power gc_method gc_setting].
  rewrite (pack_B_ok g Hg).
  destruct st as [| | |p|v]; try apply N.ltb_lt in Hs;
    destruct pw, me; cbn -[pack_B]; rewrite ?(pack_B_ok _ Hs); cbn [obind app];
    eexists; eexists; eexists; (split; [reflexivity|]); reflexivity.
Qed.
