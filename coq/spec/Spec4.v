(* Spec4.v — what the bits of AirTouch 4 status payloads MEAN, transcribed from the vendor
   document "AirTouch 4 Communication Protocol V1.6" (text in spec_text/airtouch4_v1.6.txt),
   section by section, in the document's own vocabulary: bytes are numbered from 1 within a
   record, bits from 8 (most significant) down to 1.  Nothing here is derived from the
   code; the field extraction is written with division and remainder, not with the masks
   and shifts the Python code uses.  No proofs here. *)
From Coq Require Import NArith ZArith List Bool.
From PV Require Import at4.Msg4.
Import ListNotations.
Open Scope N_scope.

(* a value the document defines, a documented "not available", or a bit pattern the
   document does not define *)
Inductive reading (A : Type) := Val (a : A) | NotAvailable | Undefined.
Arguments Val {A} a. Arguments NotAvailable {A}. Arguments Undefined {A}.

(* "Bit hi-lo" of a byte, bits numbered 8..1 *)
Definition bits (b hi lo : N) : N := (b / 2 ^ (lo - 1)) mod 2 ^ (hi - lo + 1).
Definition bitv (b k : N) : bool := bits b k k =? 1.

(* "Byte5 Temperature (Total: 11 bits) Byte6 Bit8-6; Byte5 = 0xff, Not available;
   Current Temperature = (VALUE - 500)/10" — in tenths of a degree *)
Definition read_temp11 (b5 b6 : N) : reading Z :=
  if b5 =? 0xFF then NotAvailable else Val (Z.of_N (b5 * 8 + bits b6 8 6) - 500)%Z.

(* "If less than 16 bytes, end with 0": the text before the first zero byte *)
Fixpoint text_before_zero (l : list N) : list N :=
  match l with
  | [] => []
  | c :: r => match c with 0 => [] | _ => c :: text_before_zero r end
  end.

(* ------------------------------------------------ 4.b group status (0x2B) *)
Record sgroup := mkSG {
  sg_number : N; sg_power : reading gpower; sg_method : gmethod; sg_percent : N;
  sg_low_battery : bool; sg_turbo_support : bool; sg_setpoint : N; sg_sensor : bool;
  sg_temp : reading Z; sg_spill : bool }.

Definition read_group_status (b1 b2 b3 b4 b5 b6 : N) : sgroup :=
  mkSG (bits b1 6 1)
       (match bits b1 8 7 with 0 => Val GPS_Off | 1 => Val GPS_On | 3 => Val GPS_Turbo | _ => Undefined end)
       (if bitv b2 8 then GMS_Temperature else GMS_Damper)
       (bits b2 7 1)
       (bitv b3 8) (bitv b3 7) (bits b3 6 1)
       (bitv b4 8)
       (read_temp11 b5 b6)
       (bitv b6 5).

(* ---------------------------------------------------- 4.d AC status (0x2D) *)
Record sac := mkSA {
  sa_number : N; sa_power : reading apower; sa_mode : reading amode; sa_fan : reading afan;
  sa_spill : bool; sa_timer : bool; sa_setpoint : N; sa_temp : reading Z; sa_error : N }.

Definition read_ac_status (b1 b2 b3 b4 b5 b6 b7 b8 : N) : sac :=
  mkSA (bits b1 6 1)
       (match bits b1 8 7 with 0 => Val APS_Off | 1 => Val APS_On | _ => NotAvailable end)
       (match bits b2 8 5 with
        | 0 => Val AMS_Auto | 1 => Val AMS_Heat | 2 => Val AMS_Dry | 3 => Val AMS_Fan | 4 => Val AMS_Cool
        | 8 => Val AMS_AutoHeat | 9 => Val AMS_AutoCool | _ => NotAvailable end)
       (match bits b2 4 1 with
        | 0 => Val AFS_Auto | 1 => Val AFS_Quiet | 2 => Val AFS_Low | 3 => Val AFS_Medium | 4 => Val AFS_High
        | 5 => Val AFS_Powerful | 6 => Val AFS_Turbo | _ => NotAvailable end)
       (bitv b3 8) (bitv b3 7) (bits b3 6 1)
       (read_temp11 b5 b6)
       (b7 * 256 + b8).

(* ------------------------------------------- 4.e.i AC ability (0xFF 0x11) *)
(* record bytes r (document bytes 3..26 or 3..28): r[0] AC number, r[1] following data
   length, r[2..17] name, r[18] start group, r[19] group count, r[20] modes, r[21] fan
   speeds, r[22] min, r[23] max, r[24], r[25] group display options *)
Record sability := mkSAb {
  sb_number : N; sb_following : N; sb_name : list N; sb_start : N; sb_count : N;
  sb_modes : list bool;      (* auto heat dry fan cool: bits 1..5 of byte 23 *)
  sb_fans : list bool;       (* auto quiet low medium high powerful turbo: bits 1..7 of byte 24 *)
  sb_min : N; sb_max : N;
  sb_shown : option (list N) (* group numbers shown for this AC; None = all ("if there is no byte27/28") *) }.

Definition byte (r : list N) (i : nat) : N := nth i r 0.

(* "Byte27 Bit k: Group display option Group k" (k = 1..8), "Byte28 Bit k: Group 8+k";
   the document counts groups from 1 here, group numbers elsewhere from 0 *)
Definition shown_groups (b27 b28 : N) : list N :=
  filter (fun g => bitv (if g <? 8 then b27 else b28) (g mod 8 + 1))
         [0; 1; 2; 3; 4; 5; 6; 7; 8; 9; 10; 11; 12; 13; 14; 15].

Definition read_ability (r : list N) : sability :=
  mkSAb (byte r 0) (byte r 1) (text_before_zero (firstn 16 (skipn 2 r))) (byte r 18) (byte r 19)
        (map (bitv (byte r 20)) [1; 2; 3; 4; 5])
        (map (bitv (byte r 21)) [1; 2; 3; 4; 5; 6; 7])
        (byte r 22) (byte r 23)
        (if byte r 1 =? 24 then Some (shown_groups (byte r 24) (byte r 25)) else None).

(* --------------------------------------------- 4.e.iii group name (0xFF 0x12) *)
Definition read_group_name (r : list N) : N * list N := (byte r 0, text_before_zero (firstn 8 (skipn 1 r))).

(* ------------------------------------- 4.e.ii AC error information (0xFF 0x10) *)
(* bytes after the sub-id: AC number, error info length ("if no error, will be 0"), text *)
Definition read_error_info (b : list N) : N * option (list N) :=
  let len := N.to_nat (byte b 1) in
  (byte b 0, match len with O => None | _ => Some (firstn len (skipn 2 b)) end).

(* ------------------------------------------- 4.e.iv console version (0xFF 0x30) *)
(* "Update sign 0-latest version, Other-new version available"; versions separated by "|" *)
Fixpoint split_on (sep : N) (cur : list N) (l : list N) : list (list N) :=
  match l with
  | [] => [cur]
  | c :: r => if c =? sep then cur :: split_on sep [] r else split_on sep (cur ++ [c]) r
  end.
Definition read_version (sep : N) (b : list N) : bool * list (list N) :=
  (negb (byte b 0 =? 0), split_on sep [] (firstn (N.to_nat (byte b 1)) (skipn 2 b))).

(* ======================= control messages (what a command frame asks for) =========== *)
(* the change a control field requests *)
Inductive change (A : Type) := Keep | SetTo (a : A) | Toggle | Decrease | Increase | NotDefined.
Arguments Keep {A}. Arguments SetTo {A} a. Arguments Toggle {A}. Arguments Decrease {A}. Arguments Increase {A}.
Arguments NotDefined {A}.

Inductive zone_value := Percent (p : N) | SetPointDeg (t : Z).      (* t in tenths of a degree *)
Inductive method := ByPercentage | ByTemperature.
Inductive zone_power := ZOff | ZOn | ZTurbo.
Inductive onoff := POff | POn | PAway | PSleep.

(* ------------------------------------------ 4.a group control message (0x2A) *)
Record sgroup_ctrl := mkSGC {
  sgc_group : N;
  sgc_value : change zone_value;      (* "Group setting value" + byte 3 *)
  sgc_method : change method;         (* "Set percentage or temperature control" *)
  sgc_power : change zone_power }.

Definition read_group_ctrl (b1 b2 b3 : N) : sgroup_ctrl :=
  mkSGC b1
    (match bits b2 8 6 with
     | 0 => Keep | 2 => Decrease | 3 => Increase
     | 4 => SetTo (Percent b3) | 5 => SetTo (SetPointDeg (Z.of_N b3 * 10)) | _ => NotDefined end)
    (match bits b2 5 4 with 0 => Keep | 1 => Toggle | 2 => SetTo ByPercentage | _ => SetTo ByTemperature end)
    (match bits b2 3 1 with
     | 0 => Keep | 1 => Toggle | 2 => SetTo ZOff | 3 => SetTo ZOn | 5 => SetTo ZTurbo | _ => NotDefined end).

(* --------------------------------------------- 4.c AC control message (0x2C) *)
Record sac_ctrl := mkSAC {
  sac_number : N;
  sac_power : change onoff;
  sac_mode : change amode;            (* "Other: Keep mode setting" *)
  sac_fan : change afan;              (* "Other: Keep fan speed setting" *)
  sac_setpoint : change Z }.          (* tenths of a degree *)

Definition read_ac_ctrl (b1 b2 b3 : N) : sac_ctrl :=
  mkSAC (bits b1 6 1)
    (match bits b1 8 7 with 0 => Keep | 1 => Toggle | 2 => SetTo POff | _ => SetTo POn end)
    (match bits b2 8 5 with
     | 0 => SetTo AMS_Auto | 1 => SetTo AMS_Heat | 2 => SetTo AMS_Dry | 3 => SetTo AMS_Fan | 4 => SetTo AMS_Cool | _ => Keep end)
    (match bits b2 4 1 with
     | 0 => SetTo AFS_Auto | 1 => SetTo AFS_Quiet | 2 => SetTo AFS_Low | 3 => SetTo AFS_Medium | 4 => SetTo AFS_High
     | 5 => SetTo AFS_Powerful | 6 => SetTo AFS_Turbo | _ => Keep end)
    (match bits b3 8 7 with 0 => Keep | 1 => SetTo (Z.of_N (bits b3 6 1) * 10)%Z | 2 => Decrease | _ => Increase end).
