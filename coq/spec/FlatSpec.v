(* FlatSpec.v — the readings of Spec4/Spec5 as model cases (integer lists), so that the
   harness can compare what the package's public decoders return with what the vendor
   documents say about the same bytes. *)
From Coq Require Import NArith ZArith List Bool.
From PV Require Import base.Res at4.Msg4 at4.Codec4 at4.Flat4 at5.Msg5 at5.Codec5 spec.Spec4 spec.Spec5.
Import ListNotations.
Open Scope Z_scope.

(* a reading: [0; v] = value, [1; 0] = not available, [2; 0] = undefined *)
Definition f_reading {A} (f : A -> Z) (r : reading A) : list Z :=
  match r with Val a => [0; f a] | NotAvailable => [1; 0] | Undefined => [2; 0] end.

Definition nb (r : list N) (i : nat) : N := nth i r 0%N.

(* a requested change: [0;_] keep, [1;v] set to v, [2;_] toggle, [3;_] decrease, [4;_] increase, [5;_] not defined *)
Definition f_change {A} (f : A -> Z) (c : change A) : list Z :=
  match c with Keep => [0; 0] | SetTo a => [1; f a] | Toggle => [2; 0] | Decrease => [3; 0] | Increase => [4; 0]
             | NotDefined => [5; 0] end.
(* a zone value: percent p -> p, set-point t (tenths) -> 1000 + t *)
Definition f_zone_value (v : zone_value) : Z := match v with Percent p => Nz p | SetPointDeg t => 1000 + t end.
Definition f_method (m : method) : Z := match m with ByPercentage => 0 | ByTemperature => 1 end.
Definition f_zone_power (p : zone_power) : Z := match p with ZOff => 0 | ZOn => 1 | ZTurbo => 2 end.
Definition f_onoff (p : onoff) : Z := match p with POff => 0 | POn => 1 | PAway => 2 | PSleep => 3 end.
Definition f_fan5 (f : fan5) : Z := match f with F5 x => Nz (afan_code x) | F5IntelligentAuto => 8 end.

Definition run_spec (args : list Z) : list Z :=
  match args with
  | layout :: bs =>
    let r := map zN bs in
    if layout =? 1 then
      let s := read_group_status (nb r 0) (nb r 1) (nb r 2) (nb r 3) (nb r 4) (nb r 5) in
      [Nz (sg_number s)] ++ f_reading (fun p => Nz (gpower_code p)) (sg_power s) ++
      [Nz (gmethod_code (sg_method s)); Nz (sg_percent s); bz (sg_low_battery s); bz (sg_turbo_support s);
       Nz (sg_setpoint s); bz (sg_sensor s)] ++ f_reading (fun d => d) (sg_temp s) ++ [bz (sg_spill s)]
    else if layout =? 2 then
      let s := read_ac_status (nb r 0) (nb r 1) (nb r 2) (nb r 3) (nb r 4) (nb r 5) (nb r 6) (nb r 7) in
      [Nz (sa_number s)] ++ f_reading (fun p => Nz (apower_code p)) (sa_power s) ++
      f_reading (fun p => Nz (amode_code p)) (sa_mode s) ++ f_reading (fun p => Nz (afan_code p)) (sa_fan s) ++
      [bz (sa_spill s); bz (sa_timer s); Nz (sa_setpoint s)] ++ f_reading (fun d => d) (sa_temp s) ++ [Nz (sa_error s)]
    else if layout =? 3 then
      let s := read_zone_status (nb r 0) (nb r 1) (nb r 2) (nb r 3) (nb r 4) (nb r 5) (nb r 6) in
      [Nz (sz_index s)] ++ f_reading (fun p => Nz (zpower_code p)) (sz_power s) ++
      [Nz (zmethod_code (sz_method s)); Nz (sz_percent s)] ++ f_reading (fun d => d) (sz_setpoint s) ++
      [bz (sz_sensor s)] ++ f_reading (fun d => d) (sz_temp s) ++ [bz (sz_spill s); bz (sz_low_battery s)]
    else if layout =? 4 then
      let s := read_ac5_status (nb r 0) (nb r 1) (nb r 2) (nb r 3) (nb r 4) (nb r 5) (nb r 6) (nb r 7) in
      [Nz (s5_index s)] ++ f_reading (fun p => Nz (a5power_code p)) (s5_power s) ++
      f_reading (fun p => Nz (amode_code p)) (s5_mode s) ++ f_reading (fun p => Nz (a5fan_code p)) (s5_fan s) ++
      f_reading (fun d => d) (s5_setpoint s) ++
      [bz (s5_turbo s); bz (s5_bypass s); bz (s5_spill s); bz (s5_timer s)] ++ f_reading (fun d => d) (s5_temp s) ++
      [Nz (s5_error s)]
    else if layout =? 5 then
      let s := read_ability r in
      [Nz (sb_number s); Nz (sb_following s)] ++ f_bytes (sb_name s) ++ [Nz (sb_start s); Nz (sb_count s)] ++
      map bz (sb_modes s) ++ map bz (sb_fans s) ++ [Nz (sb_min s); Nz (sb_max s)] ++
      match sb_shown s with Some gs => 1 :: f_list (fun g => [Nz g]) gs | None => [0; 0] end
    else if layout =? 6 then
      let s := read_ability5 r in
      [Nz (s5b_index s)] ++ f_bytes (s5b_name s) ++ [Nz (s5b_start s); Nz (s5b_count s)] ++
      map bz (s5b_modes s) ++ map bz (s5b_fans s) ++
      [Nz (s5b_min_cool s); Nz (s5b_max_cool s); Nz (s5b_min_heat s); Nz (s5b_max_heat s)]
    else if layout =? 7 then
      let e := read_group_name r in Nz (fst e) :: f_bytes (snd e)
    else if layout =? 8 then
      match read_zone_names (S (length r)) r with
      | Some l => 1 :: f_list (fun e => Nz (fst e) :: f_bytes (snd e)) l
      | None => [0]
      end
    else if layout =? 9 then
      let e := read_error_info r in
      Nz (fst e) :: match snd e with Some t => 1 :: f_bytes t | None => [0; 0] end
    else if layout =? 10 then
      match r with
      | sep :: b => let v := read_version sep b in bz (fst v) :: f_list f_bytes (snd v)
      | [] => [-1]
      end
    else if layout =? 11 then
      let s := read_group_ctrl (nb r 0) (nb r 1) (nb r 2) in
      [Nz (sgc_group s)] ++ f_change f_zone_value (sgc_value s) ++ f_change f_method (sgc_method s) ++
      f_change f_zone_power (sgc_power s)
    else if layout =? 12 then
      let s := read_ac_ctrl (nb r 0) (nb r 1) (nb r 2) in
      [Nz (sac_number s)] ++ f_change f_onoff (sac_power s) ++ f_change (fun m => Nz (amode_code m)) (sac_mode s) ++
      f_change (fun f => Nz (afan_code f)) (sac_fan s) ++ f_change (fun t => t) (sac_setpoint s)
    else if layout =? 13 then
      let s := read_zone_ctrl (nb r 0) (nb r 1) (nb r 2) in
      [Nz (szc_zone s)] ++ f_change f_zone_value (szc_value s) ++ f_change f_method (szc_method s) ++
      f_change f_zone_power (szc_power s)
    else if layout =? 14 then
      let s := read_ac5_ctrl (nb r 0) (nb r 1) (nb r 2) (nb r 3) in
      [Nz (s5c_index s)] ++ f_change f_onoff (s5c_power s) ++ f_change (fun m => Nz (amode_code m)) (s5c_mode s) ++
      f_change f_fan5 (s5c_fan s) ++ f_change (fun t => t) (s5c_setpoint s)
    else [-1]
  | [] => [-1]
  end.
