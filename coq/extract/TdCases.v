(* TdCases.v - exchange format for the acceptor of coq/sock/Teardown.v: observables 1 dial | 2 open | 3 refused | 4 close;
   out: index of the first observable the model cannot produce (-1: all accepted), largest number of connections open
   at once along the accepted prefix. *)
From Coq Require Import ZArith List Bool.
From PV Require Import sock.Teardown.
Import ListNotations.
Open Scope Z_scope.

Definition run_td (args : list Z) : list Z :=
  match first_reject ainit (map Z.to_nat args) 0 0 with
  | (i, ok, mx) => [if ok then -1 else Z.of_nat i; Z.of_nat mx]
  end.
