(* Dispatch.v — single entry point of the extracted model. *)
From Coq Require Import ZArith List.
From PV Require Import extract.Cases.
Import ListNotations.
Open Scope Z_scope.

Definition run_case (l : list Z) : list Z :=
  match l with
  | 1 :: args => run_sock args
  | _ => [-1]
  end.
