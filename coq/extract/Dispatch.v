(* Dispatch.v — single entry point of the extracted model. *)
From Coq Require Import ZArith List.
From PV Require Import extract.Cases at4.Flat4 at5.Flat5 extract.Doms spec.FlatSpec extract.RxCases extract.ApiCases extract.ClientCases base.Flt extract.DrainCases extract.TdCases.
Import ListNotations.
Open Scope Z_scope.

Definition run_case (l : list Z) : list Z :=
  match l with
  | 1 :: args => run_sock args
  | 2 :: args => run_crc args
  | 3 :: args => run_validate args
  | 4 :: args => run_stream args
  | 5 :: args => run_hb args
  | 6 :: args => run_decode_dgram args
  | 7 :: args => run_search args
  | 8 :: args => run_flt args
  | 9 :: args => run_drain args
  | 10 :: args => run_td args
  | 20 :: args => run_enc4 args
  | 21 :: args => run_dec4 args
  | 22 :: args => run_dom4 args
  | 30 :: args => run_enc5 args
  | 31 :: args => run_dec5 args
  | 32 :: args => run_dom5 args
  | 40 :: args => run_spec args
  | 41 :: args => run_rx args
  | 50 :: args => run_api_call args
  | 51 :: args => run_api_getters args
  | 60 :: args => run_client args
  | 61 :: args => run_poll args
  | _ => [-1]
  end.
