(* ApiCases.v — the API object models as model cases: getters and control calls of an AC or
   a zone given by its raw records. *)
From Coq Require Import NArith ZArith List Bool.
From PV Require Import base.Res at4.Msg4 at4.Codec4 at4.Flat4 at5.Msg5 at5.Codec5 at5.Flat5
  api.ApiTypes api.Api4 api.Api5.
Import ListNotations.
Open Scope Z_scope.

Definition f_outcome {M} (f : M -> list Z) (o : outcome M) : list Z :=
  match o with Sent m p => [0; policy_ix p] ++ f m | Refused => [1] | Unsendable => [2] end.

Definition f_timer_getter (o : option (option (N * N))) : list Z :=
  match o with None => [0; 0; 0] | Some None => [1; 0; 0] | Some (Some (h, m)) => [2; Nz h; Nz m] end.
Definition f_err_getter (o : option (N * option (list N))) : list Z :=
  match o with
  | None => [0; 0; 0; 0]
  | Some (code, None) => [1; Nz code; 0; 0]
  | Some (code, Some t) => [1; Nz code; 1] ++ f_bytes t
  end.
Definition p_opt_bytes : parser (option (list N)) := f <~ pz ;; b <~ pbytes ;; pret (if zb f then Some b else None).

(* ---- AirTouch 4 *)
Definition p_ac4 : parser ac4 := ab <~ p_ability ;; st <~ p_ac_status ;; t <~ Flat4.p_timer ;; e <~ p_opt_bytes ;; pret (mkAc4 ab st t e).
Definition p_zone4 : parser zone4 := n <~ pbytes ;; s <~ p_group_status ;; pret (mkZone4 n s).

Definition getters_ac4 (a : ac4) : list Z :=
  [p_ac_power_ix (g4_power_state a); p_mode_ix (g4_selected_mode a); p_mode_ix (g4_active_mode a);
   p_fan_ix (g4_selected_fan a); p_fan_ix (g4_active_fan a); g4_current_temp a; Nz (g4_target_temp a) * 10;
   Nz (g4_min_target a) * 10; Nz (g4_max_target a) * 10; p_spill_ix (g4_spill a)] ++
  f_timer_getter (g4_next_timer a PT_Off) ++ f_timer_getter (g4_next_timer a PT_On) ++ f_err_getter (g4_error_info a) ++
  f_list (fun m => [p_mode_ix m]) (supported_modes4 a) ++ f_list (fun f => [p_fan_ix f]) (supported_fans4 a) ++
  f_list (fun p => [p_power_ctl_ix p]) supported_power_controls4.

Definition f_optN10 (o : option N) : list Z := match o with Some v => [1; Nz v * 10] | None => [0; 0] end.
Definition getters_zone4 (z : zone4) : list Z :=
  f_list (fun p => [p_zpower_ix p]) (gz4_supported_power z) ++
  [p_zpower_ix (gz4_power_state z); p_zmethod_ix (gz4_method z); bz (gz4_has_sensor z); p_battery_ix (gz4_battery z)] ++
  f_optZ (gz4_current_temp z) ++ f_optN10 (gz4_target_temp z) ++ [Nz (gz4_damper z); bz (gz4_spill z)].

Definition call_ac4 (a : ac4) (call : Z) (args : list Z) : option (outcome msg4) :=
  match call, args with
  | 1, [p] => match p_power_ctl_of p with Some x => Some (set_power4 a x) | None => None end
  | 2, [m; on] => match p_mode_of m with Some x => Some (set_mode4 a x (zb on)) | None => None end
  | 3, [f] => match p_fan_of f with Some x => Some (set_fan4 a x) | None => None end
  | 4, [m; e] => Some (set_target4 a m e)
  | 5, [t; mins] => match p_timer_of t with Some x => Some (set_timer_duration4 a x (zN mins)) | None => None end
  | 6, [t; h; m] => match p_timer_of t with Some x => Some (set_timer_time4 a x (zN h) (zN m)) | None => None end
  | 7, [t] => match p_timer_of t with Some x => Some (clear_timer4 a x) | None => None end
  | 8, [] => Some check_updates4
  | _, _ => None
  end.
Definition call_zone4 (z : zone4) (call : Z) (args : list Z) : option (outcome msg4) :=
  match call, args with
  | 11, [p] => match p_zpower_of p with Some x => Some (zone_set_power4 z x) | None => None end
  | 12, [m; e] => Some (zone_set_target4 z m e)
  | 13, [p] => Some (zone_set_damper4 z p)
  | _, _ => None
  end.

(* ---- AirTouch 5 *)
Definition p_ac5 : parser ac5 := ab <~ p_ability5 ;; st <~ p_ac5_status ;; t <~ Flat4.p_timer ;; e <~ p_opt_bytes ;; pret (mkAc5 ab st t e).
Definition p_zone5 : parser zone5 := n <~ pbytes ;; s <~ p_zone_status ;; pret (mkZone5 n s).

Definition getters_ac5 (a : ac5) : list Z :=
  [p_ac_power_ix (g5_power_state a); p_mode_ix (g5_selected_mode a); p_mode_ix (g5_active_mode a);
   p_fan_ix (g5_selected_fan a); p_fan_ix (g5_active_fan a); g5_current_temp a; g5_target_temp a;
   Nz (g5_min_target a) * 10; Nz (g5_max_target a) * 10; p_spill_ix (g5_spill a)] ++
  f_timer_getter (g5_next_timer a PT_Off) ++ f_timer_getter (g5_next_timer a PT_On) ++ f_err_getter (g5_error_info a) ++
  f_list (fun m => [p_mode_ix m]) (supported_modes5 a) ++ f_list (fun f => [p_fan_ix f]) (supported_fans5 a) ++
  f_list (fun p => [p_power_ctl_ix p]) supported_power_controls5.

Definition getters_zone5 (z : zone5) : list Z :=
  f_list (fun p => [p_zpower_ix p]) (gz5_supported_power z) ++
  [p_zpower_ix (gz5_power_state z); p_zmethod_ix (gz5_method z); bz (gz5_has_sensor z); p_battery_ix (gz5_battery z)] ++
  f_optZ (gz5_current_temp z) ++ f_optZ (gz5_target_temp z) ++ [Nz (gz5_damper z); bz (gz5_spill z)].

Definition call_ac5 (a : ac5) (call : Z) (args : list Z) : option (outcome msg5) :=
  match call, args with
  | 1, [p] => match p_power_ctl_of p with Some x => Some (set_power5 a x) | None => None end
  | 2, [m; on] => match p_mode_of m with Some x => Some (set_mode5 a x (zb on)) | None => None end
  | 3, [f] => match p_fan_of f with Some x => Some (set_fan5 a x) | None => None end
  | 4, [m; e] => Some (set_target5 a m e)
  | 5, [t; mins] => match p_timer_of t with Some x => Some (set_timer_duration5 a x (zN mins)) | None => None end
  | 6, [t; h; m] => match p_timer_of t with Some x => Some (set_timer_time5 a x (zN h) (zN m)) | None => None end
  | 7, [t] => match p_timer_of t with Some x => Some (clear_timer5 a x) | None => None end
  | 8, [] => Some check_updates5
  | _, _ => None
  end.
Definition call_zone5 (z : zone5) (call : Z) (args : list Z) : option (outcome msg5) :=
  match call, args with
  | 11, [p] => match p_zpower_of p with Some x => Some (zone_set_power5 z x) | None => None end
  | 12, [m; e] => Some (zone_set_target5 z m e)
  | 13, [p] => Some (zone_set_damper5 z p)
  | _, _ => None
  end.

(* [50; gen; kind(0 AC / 1 zone); object...; call; args...] -> outcome
   [51; gen; kind; object...] -> getters *)
Definition run_api_call (args : list Z) : list Z :=
  match args with
  | 4 :: 0 :: r => match p_ac4 r with Some (a, call :: cargs) =>
                     match call_ac4 a call cargs with Some o => f_outcome f_msg4 o | None => [-2] end | _ => [-1] end
  | 4 :: 1 :: r => match p_zone4 r with Some (z, call :: cargs) =>
                     match call_zone4 z call cargs with Some o => f_outcome f_msg4 o | None => [-2] end | _ => [-1] end
  | 5 :: 0 :: r => match p_ac5 r with Some (a, call :: cargs) =>
                     match call_ac5 a call cargs with Some o => f_outcome f_msg5 o | None => [-2] end | _ => [-1] end
  | 5 :: 1 :: r => match p_zone5 r with Some (z, call :: cargs) =>
                     match call_zone5 z call cargs with Some o => f_outcome f_msg5 o | None => [-2] end | _ => [-1] end
  | _ => [-1]
  end.
Definition run_api_getters (args : list Z) : list Z :=
  match args with
  | 4 :: 0 :: r => match p_ac4 r with Some (a, _) => getters_ac4 a | None => [-1] end
  | 4 :: 1 :: r => match p_zone4 r with Some (z, _) => getters_zone4 z | None => [-1] end
  | 5 :: 0 :: r => match p_ac5 r with Some (a, _) => getters_ac5 a | None => [-1] end
  | 5 :: 1 :: r => match p_zone5 r with Some (z, _) => getters_zone5 z | None => [-1] end
  | _ => [-1]
  end.
