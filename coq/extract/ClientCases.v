(* ClientCases.v — the client core (Core.v instantiated in Client4.v / Client5.v) as a model
   case: a script of stimuli (init, connected, received frame, subscribe/unsubscribe,
   shutdown) -> the outputs per stimulus and a snapshot of the object model. *)
From Coq Require Import NArith ZArith List Bool.
From PV Require Import base.Res stream.Stream at4.Msg4 at4.Flat4 at5.Msg5 at5.Flat5
  api.ApiTypes api.Api4 api.Api5 api.Core api.Client4 api.Client5 extract.ApiCases.
Import ListNotations.
Open Scope Z_scope.

Definition f_req (r : req) : list Z :=
  match r with RVersion => [0; 0] | RNames => [1; 0] | RAbility => [2; 0] | RAcStatus => [3; 0] | RTimer => [4; 0]
             | RZoneStatus => [5; 0] | RErrInfo ac => [6; Nz ac] end.
Definition f_out (o : out) : list Z :=
  match o with
  | OSendReq r => 1 :: f_req r
  | ONotifyZone s z => [2; Z.of_nat s; Nz z]
  | ONotifyAc s a => [3; Z.of_nat s; Nz a]
  | ONotifyAirTouch s => [4; Z.of_nat s; 0]
  | OStartHeartbeat => [5; 0; 0]
  | OStartPoll => [6; 0; 0]
  | OPollReset => [7; 0; 0]
  | OInitialised => [8; 0; 0]
  end.
Definition f_outs (l : list out) : list Z := Z.of_nat (length l) :: concat (map f_out l).

Definition f_state (s : astate) : Z :=
  match s with Closed => 0 | Connecting => 1 | InitVersion => 2 | InitNames => 3 | InitAbility => 4 | InitAcStatus => 5
             | InitTimer => 6 | InitZoneStatus => 7 | Connected => 8 end.

Definition p_subop : parser subop :=
  k <~ pz ;; id <~ pn ;; s <~ pz ;;
  let n := Z.to_nat s in
  pret (if k =? 0 then SubZone id n else if k =? 1 then UnsubZone id n else if k =? 2 then SubAc id n
        else if k =? 3 then UnsubAc id n else if k =? 4 then SubAcState id n else if k =? 5 then UnsubAcState id n
        else if k =? 6 then SubAirTouch n else UnsubAirTouch n).

Section Run.
  Variables ZS AS AB TD M : Type.
  Variable pmsg : parser M.
  Variable onmsg : client ZS AS AB TD -> hdr -> M -> client ZS AS AB TD * list out.
  Variable snap : client ZS AS AB TD -> list Z.

  (* stimuli: [0] init, [1] connected, [2; to; msg...] frame, [3; subop] , [4] shutdown *)
  Fixpoint run_script (fuel : nat) (c : client ZS AS AB TD) (l : list Z) : list Z :=
    match fuel, l with
    | S f, 0 :: r => f_outs [] ++ run_script f (on_init _ _ _ _ c) r
    | S f, 1 :: r => let '(c1, o) := on_connected _ _ _ _ c in f_outs o ++ run_script f c1 r
    | S f, 2 :: to :: r =>
      match pmsg r with
      | Some (m, r') => let '(c1, o) := onmsg c (mkHdr (zN to) 0%N 0%N 0%N 0%N) m in f_outs o ++ run_script f c1 r'
      | None => [-1]
      end
    | S f, 3 :: r =>
      match p_subop r with
      | Some (op, r') => f_outs [] ++ run_script f (apply_subop _ _ _ _ c op) r'
      | None => [-1]
      end
    | S f, 4 :: r => f_outs [] ++ run_script f (on_shutdown _ _ _ _ c) r
    | _, _ => [-7] ++ snap c
    end.
End Run.

Definition f_version (v : bool * list (list N)) : list Z := bz (fst v) :: f_list f_bytes (snd v).

Definition snap4 (c : client4) : list Z :=
  [f_state (c_state _ _ _ _ c); bz (c_initialised _ _ _ _ c)] ++ f_version (c_version _ _ _ _ c) ++
  f_list (fun z => Nz (z_id _ z) :: f_bytes (z_name _ z) ++ getters_zone4 (to_zone4 z)) (c_zones _ _ _ _ c) ++
  f_list (fun a => Nz (a_id _ _ _ a) :: f_bytes (ab_name (a_ability _ _ _ a)) ++ f_list (fun z => [Nz z]) (a_zones _ _ _ a) ++
                   getters_ac4 (to_ac4 a)) (c_acs _ _ _ _ c).
Definition snap5 (c : client5) : list Z :=
  [f_state (c_state _ _ _ _ c); bz (c_initialised _ _ _ _ c)] ++ f_version (c_version _ _ _ _ c) ++
  f_list (fun z => Nz (z_id _ z) :: f_bytes (z_name _ z) ++ getters_zone5 (to_zone5 z)) (c_zones _ _ _ _ c) ++
  f_list (fun a => Nz (a_id _ _ _ a) :: f_bytes (ab5_name (a_ability _ _ _ a)) ++ f_list (fun z => [Nz z]) (a_zones _ _ _ a) ++
                   getters_ac5 (to_ac5 a)) (c_acs _ _ _ _ c).

(* [60; gen; script...] *)
Definition run_client (args : list Z) : list Z :=
  match args with
  | 4 :: r => run_script _ _ _ _ _ p_msg4 on_message4 snap4 (S (length r)) empty4 r
  | 5 :: r => run_script _ _ _ _ _ p_msg5 on_message5 snap5 (S (length r)) empty5 r
  | _ => [-1]
  end.

(* [61; ops...] the AT4 group-status poll: ops 0 start, 1 stop, 2 seen, [3; dt; connected]
   -> the instants of the requests, then [-1; deadline; now] *)
From PV Require Import api.Poll.
Fixpoint dec_pops (fuel : nat) (l : list Z) : list pop :=
  match fuel, l with
  | S f, 0 :: r => PStart :: dec_pops f r
  | S f, 1 :: r => PStop :: dec_pops f r
  | S f, 2 :: r => PSeen :: dec_pops f r
  | S f, 3 :: dt :: c :: r => PAdv dt (zb c) :: dec_pops f r
  | _, _ => []
  end.
Definition run_poll (args : list Z) : list Z :=
  let '(s, evs) := prun (300 * 1024) pinit (dec_pops (length args) args) in
  concat (map (fun e => match e with PRequest t => [t] | PTime _ => [] end) evs) ++ [-1; p_dead s; p_now s].
