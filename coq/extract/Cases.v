(* Cases.v — textual case protocol between the harness and the executable models.
   A case is a list of integers; the first selects the model function. *)
From Coq Require Import ZArith List Bool.
From PV Require Import sock.Sock.
Import ListNotations.
Open Scope Z_scope.

Definition zb (z : Z) : bool := negb (z =? 0).
Definition bz (b : bool) : Z := if b then 1 else 0.
Definition zn (z : Z) : nat := Z.to_nat z.
Definition nz (n : nat) : Z := Z.of_nat n.

Definition cls_of (z : Z) : eclass :=
  if z =? 0 then EncOk else if z =? 1 then EncNoEncoder else EncBadWrite.

(* ops: fuel = length of the list bounds the recursion *)
Fixpoint dec_ops (fuel : nat) (l : list Z) : list op :=
  match fuel with
  | O => []
  | S f =>
    match l with
    | 0 :: r => OOpen :: dec_ops f r
    | 1 :: r => OClose :: dec_ops f r
    | 2 :: k :: c :: rt :: life :: r => OSend (zn k) (cls_of c) (zn rt) life :: dec_ops f r
    | 3 :: dt :: r => OAdv dt :: dec_ops f r
    | 4 :: a :: lat :: r => ONet (zb a) lat :: dec_ops f r
    | 5 :: r => OPeerEof :: dec_ops f r
    | 6 :: r => OPeerRst :: dec_ops f r
    | 7 :: j :: r => OPeerFrame (zn j) :: dec_ops f r
    | 8 :: r => OPeerBad :: dec_ops f r
    | 9 :: r => OFailNextWrite :: dec_ops f r
    | 10 :: r => OReset :: dec_ops f r
    | 11 :: r => ONop :: dec_ops f r
    | _ => []
    end
  end.

Definition enc_ev (e : ev) : list Z :=
  match e with
  | EDial => [1]
  | ERefused => [2]
  | EOpen c => [3; nz c]
  | EClose c => [4; nz c]
  | EWFail c _ => [5; nz c]
  | EWrote c i k pid _ => [6; nz c; nz i; nz k; pid]
  | EAccept i k pid r ex => [12; nz i; nz k; pid; nz r; ex]
  | ELost c => [13; nz c]
  | ENotify b => [7; bz b]
  | EDeliver j => [8; nz j]
  | ESendOk => [9]
  | ESendErr code => [10; code]
  | ETime t => [11; t]
  end.

(* one stimulus' events, terminated by 0 *)
Definition enc_evs (l : list ev) : list Z := concat (map enc_ev l) ++ [0].

Definition run_sock (args : list Z) : list Z :=
  match args with
  | pid0 :: ops => concat (map enc_evs (snd (run (init pid0) (dec_ops (length ops) ops))))
  | [] => []
  end.

(* ------------------------------------------------------------- CRC and framing *)
From PV Require Import crc.Crc stream.Stream.
Open Scope Z_scope.

Definition zN (z : Z) : N := Z.to_N z.
Definition Nz (n : N) : Z := Z.of_N n.

(* [2; bytes...] -> [crc_tbl] *)
Definition run_crc (args : list Z) : list Z := [Nz (crc_tbl (map zN args))].

(* [3; c1; c2; bytes...] -> [validate] *)
Definition run_validate (args : list Z) : list Z :=
  match args with
  | c1 :: c2 :: bs => [bz (validate (map zN bs) [zN c1; zN c2])]
  | _ => [-1]
  end.

Definition rawdec (h : hdr) (p : list N) : option (list N) := Some p.

Definition gen_of (z : Z) : gen := if z =? 4 then AT4 else AT5.

(* chunks: [len; bytes...; len; bytes...; ...] *)
Fixpoint dec_chunks (fuel : nat) (l : list Z) : list (list N) :=
  match fuel with
  | O => []
  | S f =>
    match l with
    | [] => []
    | n :: r => map zN (firstn (zn n) r) :: dec_chunks f (skipn (zn n) r)
    end
  end.

Definition enc_delivery (d : hdr * list N) : list Z :=
  let '(h, p) := d in
  [1; Nz (h_to h); Nz (h_from h); Nz (h_pid h); Nz (h_type h); Nz (h_len h)] ++ map Nz p.

(* [4; gen; chunks] -> deliveries, then [2; alive; buffered] *)
Definition run_stream (args : list Z) : list Z :=
  match args with
  | g :: cs =>
    let '(ds, st) := feed_all _ rawdec (gen_of g) (Some []) (dec_chunks (length cs) cs) in
    concat (map enc_delivery ds) ++
    match st with Some b => [2; 1; nz (length b)] | None => [2; 0; 0] end
  | [] => [-1]
  end.

(* -------------------------------------------------------------------- heartbeat *)
From PV Require Import hb.Heartbeat.
Open Scope Z_scope.

Fixpoint dec_hops (fuel : nat) (l : list Z) : list hop :=
  match fuel with
  | O => []
  | S f =>
    match l with
    | 0 :: c :: r => HStart (zb c) :: dec_hops f r
    | 1 :: r => HStop :: dec_hops f r
    | 2 :: r => HResp :: dec_hops f r
    | 3 :: dt :: c :: r => HAdv dt (zb c) :: dec_hops f r
    | _ => []
    end
  end.

Definition enc_hev (e : hev) : list Z :=
  match e with HSend t => [1; t] | HReset t => [2; t] | HTime t => [3; t] end.

(* [5; interval; timeout; now0; ops...] -> per-op events, each list terminated by 0 *)
Fixpoint hrun_per_op (i t : Z) (s : hstate) (ops : list hop) : list Z :=
  match ops with
  | [] => []
  | o :: r => let '(s1, e1) := hstep i t s o in
              concat (map enc_hev e1) ++ [0] ++ hrun_per_op i t s1 r
  end.

Definition run_hb (args : list Z) : list Z :=
  match args with
  | i :: t :: now0 :: ops => hrun_per_op i t (mkH false 0 0 now0) (dec_hops (length ops) ops)
  | _ => [-1]
  end.

(* -------------------------------------------------------------------- discovery *)
From PV Require Import disc.Discovery.
Open Scope Z_scope.

Definition enc_bytes (l : list N) : list Z := nz (length l) :: map Nz l.

Definition enc_dres (r : dres) : list Z :=
  match r with
  | DNoMatch => [0]
  | DRequest => [1]
  | DDecodeError => [2]
  | DUnicodeError => [3]
  | DResp4 h s i => [4] ++ enc_bytes h ++ enc_bytes s ++ enc_bytes i
  | DResp5 h s i n => [5] ++ enc_bytes h ++ enc_bytes s ++ enc_bytes i ++ enc_bytes n
  end.

(* [6; gen; bytes...] -> decoded datagram *)
Definition run_decode_dgram (args : list Z) : list Z :=
  match args with
  | g :: bs => enc_dres ((if g =? 4 then decode4 else decode5) (map zN bs))
  | [] => [-1]
  end.

(* arrivals: [t; len; bytes...]* *)
Fixpoint dec_arrivals (fuel : nat) (g : Z) (l : list Z) : list (Z * dres) :=
  match fuel with
  | O => []
  | S f =>
    match l with
    | t :: n :: r =>
      (t, (if g =? 4 then decode4 else decode5) (map zN (firstn (zn n) r))) :: dec_arrivals f g (skipn (zn n) r)
    | _ => []
    end
  end.

(* [7; gen; arrivals] -> [nreq; instants...; tend; nres; results...] *)
Definition run_search (args : list Z) : list Z :=
  match args with
  | g :: r =>
    let '(reqs, res, tend) := search (dec_arrivals (length r) g r) in
    [nz (length reqs)] ++ reqs ++ [tend; nz (length res)] ++ concat (map enc_dres res)
  | [] => [-1]
  end.
