(* RxCases.v — the receive path with the registries' real decoders as a model case. *)
From Coq Require Import NArith ZArith List.
From PV Require Import stream.Stream stream.Wire at4.Msg4 at4.Flat4 at5.Msg5 at5.Flat5 extract.Cases.
Import ListNotations.
Open Scope Z_scope.

Definition enc_rx {msg} (f : msg -> list Z) (d : hdr * msg) : list Z :=
  let '(h, m) := d in
  let fm := f m in
  [1; Nz (h_to h); Nz (h_from h); Nz (h_pid h); Nz (h_type h); Nz (h_len h); Z.of_nat (length fm)] ++ fm.

(* [41; gen; chunks] -> per delivery [1; to; from; pid; type; len; n; flat message (n ints)],
   then [2; alive; buffered] *)
Definition run_rx (args : list Z) : list Z :=
  match args with
  | g :: cs =>
    let chunks := dec_chunks (length cs) cs in
    if g =? 4 then
      let '(ds, st) := feed_all _ rdec4 AT4 (Some []) chunks in
      concat (map (enc_rx f_msg4) ds) ++ match st with Some b => [2; 1; Z.of_nat (length b)] | None => [2; 0; 0] end
    else
      let '(ds, st) := feed_all _ rdec5 AT5 (Some []) chunks in
      concat (map (enc_rx f_msg5) ds) ++ match st with Some b => [2; 1; Z.of_nat (length b)] | None => [2; 0; 0] end
  | [] => [-1]
  end.
