(* Extract.v — extraction of the executable models (ExtrOcamlBasic only: bool, option,
   unit, list, prod, sumbool map to OCaml's; N, Z, positive, nat stay Coq datatypes). *)
From Coq Require Import Extraction ExtrOcamlBasic.
From PV Require Import extract.Dispatch.
Extraction Language OCaml.
Extraction "../ocaml/model.ml" run_case.
