(* DrainCases.v — exchange format for the back-pressure queue model (coq/sock/Drain.v).
   ops: 1 retries life | 2 dt | 3 on | 4 (up) | 5 (down) | 6 (connected, notifying) | 7 (flush);  initial connectivity first.
   out: per stimulus its events then 0; events: 1 i expiry | 2 | 3 i t | 4 i t; -9 = outside the model. *)
From Coq Require Import ZArith List Bool.
From PV Require Import sock.Sock sock.Drain.
Import ListNotations.
Open Scope Z_scope.

Fixpoint dec_dops (fuel : nat) (l : list Z) : list dop :=
  match fuel with
  | O => []
  | S f =>
    match l with
    | 1 :: r :: life :: t => DSend (Z.to_nat r) life :: dec_dops f t
    | 2 :: dt :: t => DAdv dt :: dec_dops f t
    | 3 :: b :: t => DBp (negb (b =? 0)) :: dec_dops f t
    | 4 :: t => DUp :: dec_dops f t
    | 5 :: t => DDown :: dec_dops f t
    | 6 :: t => DConn :: dec_dops f t
    | 7 :: t => DFlush :: dec_dops f t
    | _ => []
    end
  end.

Definition enc_dev (e : dev) : list Z :=
  match e with
  | DAccept i x => [1; Z.of_nat i; x]
  | DRefused => [2]
  | DWrote i t => [3; Z.of_nat i; t]
  | DDrop i t => [4; Z.of_nat i; t]
  end.

Definition run_drain (args : list Z) : list Z :=
  match args with
  | c :: ops =>
    concat (map (fun o => match o with
                          | Some evs => concat (map enc_dev evs) ++ [0]
                          | None => [-9]
                          end)
                (drun_steps (dinit (negb (c =? 0))) (dec_dops (length ops) ops)))
  | [] => []
  end.
