(* Doms.v — the domain predicates of the codec theorems as model cases, so that the
   harness can ask which generated messages the theorems speak about. *)
From Coq Require Import ZArith List.
From PV Require Import at4.Flat4 at5.Flat5 at4.Codec4Proofs at5.Codec5Proofs stream.WireProofs.
Import ListNotations.
Open Scope Z_scope.

(* [22; msg...] -> [dom4; fits4] *)
Definition run_dom4 (args : list Z) : list Z :=
  match p_msg4 args with Some (m, _) => [bz (dom4 m); bz (fits4 m)] | None => [-1] end.
(* [32; msg...] -> [dom5; fits5] *)
Definition run_dom5 (args : list Z) : list Z :=
  match p_msg5 args with Some (m, _) => [bz (dom5 m); bz (fits5 m)] | None => [-1] end.
