(* Codec5.v — model of the AirTouch 5 message encoders, size() and decoders
   (at5/comms/x*.py, x1F_ext.py, xC0_ctrl_status.py, registry.py).  The small named
   functions mirror the _encode_* / _decode_* helpers of the Python classes.  Every
   function is total: an exception of the Python code (struct.error, ValueError,
   DecodeError, IndexError, Unicode error, NotImplementedError) is None.  No proofs here. *)
From Coq Require Import NArith ZArith List Bool.
From PV Require Import base.Res base.Utf8 at4.Msg4 at4.Codec4 at5.Msg5.
Import ListNotations.
Open Scope N_scope.

(* ----------------------------------------------------------------- enums *)
Definition zpower_ctl_code (p : zpower_ctl) : N :=
  match p with ZP_Unchanged => 0 | ZP_Toggle => 1 | ZP_Off => 2 | ZP_On => 3 | ZP_Turbo => 5 end.
(* _missing_: every other code is UNCHANGED *)
Definition zpower_ctl_of (c : N) : zpower_ctl :=
  match c with 1 => ZP_Toggle | 2 => ZP_Off | 3 => ZP_On | 5 => ZP_Turbo | _ => ZP_Unchanged end.

Definition zpower_code (p : zpower) : N := match p with ZPS_Off => 0 | ZPS_On => 1 | ZPS_Turbo => 3 end.
Definition zpower_of (c : N) : option zpower :=
  match c with 0 => Some ZPS_Off | 1 => Some ZPS_On | 3 => Some ZPS_Turbo | _ => None end.
Definition zmethod_code (m : zmethod) : N := match m with ZMS_Damper => 0 | ZMS_Temperature => 1 end.
Definition zmethod_of (c : N) : option zmethod :=
  match c with 0 => Some ZMS_Damper | 1 => Some ZMS_Temperature | _ => None end.

Definition a5power_ctl_code (p : a5power_ctl) : N :=
  match p with A5P_Unchanged => 0 | A5P_Toggle => 1 | A5P_Off => 2 | A5P_On => 3 | A5P_Away => 4 | A5P_Sleep => 5 end.
Definition a5power_ctl_of (c : N) : a5power_ctl :=
  match c with 1 => A5P_Toggle | 2 => A5P_Off | 3 => A5P_On | 4 => A5P_Away | 5 => A5P_Sleep | _ => A5P_Unchanged end.
Definition a5fan_ctl_code (f : a5fan_ctl) : N :=
  match f with A5F_Auto => 0 | A5F_Quiet => 1 | A5F_Low => 2 | A5F_Medium => 3 | A5F_High => 4 | A5F_Powerful => 5
             | A5F_Turbo => 6 | A5F_IntelligentAuto => 8 | A5F_Unchanged => 0xFF end.
Definition a5fan_ctl_of (c : N) : a5fan_ctl :=
  match c with 0 => A5F_Auto | 1 => A5F_Quiet | 2 => A5F_Low | 3 => A5F_Medium | 4 => A5F_High | 5 => A5F_Powerful
             | 6 => A5F_Turbo | 8 => A5F_IntelligentAuto | _ => A5F_Unchanged end.

Definition a5power_code (p : a5power) : N :=
  match p with A5S_Off => 0 | A5S_On => 1 | A5S_OffAway => 2 | A5S_OnAway => 3 | A5S_Sleep => 5 end.
Definition a5power_of (c : N) : option a5power :=
  match c with 0 => Some A5S_Off | 1 => Some A5S_On | 2 => Some A5S_OffAway | 3 => Some A5S_OnAway | 5 => Some A5S_Sleep
             | _ => None end.
Definition a5fan_code (f : a5fan) : N :=
  match f with A5FS_Auto => 0 | A5FS_Quiet => 1 | A5FS_Low => 2 | A5FS_Medium => 3 | A5FS_High => 4 | A5FS_Powerful => 5
             | A5FS_Turbo => 6 | A5FS_IAQuiet => 9 | A5FS_IALow => 10 | A5FS_IAMedium => 11 | A5FS_IAHigh => 12
             | A5FS_IAPowerful => 13 | A5FS_IATurbo => 14 end.
Definition a5fan_of (c : N) : option a5fan :=
  match c with 0 => Some A5FS_Auto | 1 => Some A5FS_Quiet | 2 => Some A5FS_Low | 3 => Some A5FS_Medium | 4 => Some A5FS_High
             | 5 => Some A5FS_Powerful | 6 => Some A5FS_Turbo | 9 => Some A5FS_IAQuiet | 10 => Some A5FS_IALow
             | 11 => Some A5FS_IAMedium | 12 => Some A5FS_IAHigh | 13 => Some A5FS_IAPowerful | 14 => Some A5FS_IATurbo
             | _ => None end.

(* -------------------------------------------------------------- utils.py *)
(* encode_set_point on t = d/10: int(t*10.0 - 100); a negative result never packs *)
Definition enc_set_point (d : Z) : option N :=
  let v := (d - 100)%Z in if (0 <=? v)%Z then Some (Z.to_N v) else None.
Definition dec_set_point (raw : N) : Z := (Z.of_N raw + 100)%Z.
(* encode_temperature(t) & 0x07FF: Python's & on a possibly negative int *)
Definition enc_temp11 (d : Z) : N := Z.to_N (Z.land (d + 500) 0x7FF).
Definition dec_temp5 (raw : N) : Z := (Z.of_N raw - 500)%Z.

(* ---------------------------------------------------- xC020 zone control *)
Definition zc_setting_code (s : zsetting) : option (N * N) :=       (* (type << 5, value) *)
  match s with
  | ZS_None => Some (N.shiftl 0 5, 0xFF)
  | ZS_Dec => Some (N.shiftl 2 5, 0xFF)
  | ZS_Inc => Some (N.shiftl 3 5, 0xFF)
  | ZS_Damper p => Some (N.shiftl 4 5, p)
  | ZS_SetPoint d => v <- enc_set_point d ;; Some (N.shiftl 5 5, v)
  end.
Definition enc_zone_ctrl1 (z : zone_ctrl) : option (list N) :=
  sv <- zc_setting_code (zc_setting z) ;;
  let b2 := fst sv + zpower_ctl_code (zc_power z) in
  x1 <- pack_B (zc_zone z) ;; x2 <- pack_B b2 ;; x3 <- pack_B (snd sv) ;; Some (x1 ++ x2 ++ x3 ++ [0]).

Definition zc_setting_of (b2 raw : N) : zsetting :=
  let ct := N.shiftr (N.land b2 0xE0) 5 in
  if ct =? 2 then ZS_Dec else if ct =? 3 then ZS_Inc
  else if ct =? 5 then ZS_SetPoint (dec_set_point raw)
  else if ct =? 4 then ZS_Damper raw else ZS_None.
Definition dec_zone_ctrl1 (r : list N) : option zone_ctrl :=
  match r with
  | z :: b2 :: raw :: _ :: _ => Some (mkZC z (zpower_ctl_of (N.land b2 0x07)) (zc_setting_of b2 raw))
  | _ => None
  end.

(* ----------------------------------------------------- xC021 zone status *)
Definition zs_b1 (z : zone_status) : N := N.land (zs_zone z) 0x3F + N.shiftl (zpower_code (zs_power z)) 6.
Definition zs_b2 (z : zone_status) : N := N.shiftl (zmethod_code (zs_method z)) 7 + N.land (zs_damper z) 0x7F.
Definition zs_sp (z : zone_status) : option N :=
  match zs_setpoint z with
  | Some d => if (d =? 0)%Z then Some 0xFF else enc_set_point d          (* "if set_point:" *)
  | None => Some 0xFF end.
Definition zs_b4 (z : zone_status) : N := b2n (zs_sensor z) 7.
Definition zs_t (z : zone_status) : N := match zs_temp z with Some d => enc_temp11 d | None => 0x07FF end.
Definition zs_b7 (z : zone_status) : N := b2n (zs_spill z) 1 + battery_code (zs_battery z).
Definition enc_zone_status1 (z : zone_status) : option (list N) :=
  sp <- zs_sp z ;;
  x1 <- pack_B (zs_b1 z) ;; x2 <- pack_B (zs_b2 z) ;; x3 <- pack_B sp ;; x4 <- pack_B (zs_b4 z) ;;
  x56 <- pack_H (zs_t z) ;; x7 <- pack_B (zs_b7 z) ;; Some (x1 ++ x2 ++ x3 ++ x4 ++ x56 ++ x7 ++ [0]).

Definition zs_temp_of (sensor : bool) (raw : N) : option Z :=
  let d := dec_temp5 (N.land raw 0x07FF) in
  if negb sensor || (1500 <? d)%Z then None else Some d.
Definition zs_sp_of (raw : N) : option Z := if raw =? 0xFF then None else Some (dec_set_point raw).
Definition dec_zone_status1 (r : list N) : option zone_status :=
  match r with
  | b1 :: b2 :: sp :: b4 :: t1 :: t0 :: b7 :: _ :: _ =>
    let sensor := bit b4 7 in
    pw <- zpower_of (N.shiftr (N.land b1 0xC0) 6) ;;
    me <- zmethod_of (N.shiftr (N.land b2 0x80) 7) ;;
    ba <- battery_of (N.land b7 0x01) ;;
    Some (mkZS (N.land b1 0x3F) pw (bit b7 1) me sensor ba (zs_temp_of sensor (t1 * 256 + t0))
               (N.land b2 0x7F) (zs_sp_of sp))
  | _ => None
  end.

(* ------------------------------------------------------- xC022 AC control *)
Definition a5c_b1 (c : ac5_ctrl) : N := N.land (a5c_number c) 0x0F + N.land (N.shiftl (a5power_ctl_code (a5c_power c)) 4) 0xF0.
Definition a5c_b2 (c : ac5_ctrl) : N :=
  N.land (N.shiftl (amode_ctl_code (a5c_mode c)) 4) 0xF0 + N.land (a5fan_ctl_code (a5c_fan c)) 0x0F.
Definition a5c_spc (c : ac5_ctrl) : option (N * N) :=
  match a5c_sp c with
  | Some d => if (d =? 0)%Z then Some (0, 0xFF) else v <- enc_set_point d ;; Some (0x40, v)     (* "if set_point:" *)
  | None => Some (0, 0xFF) end.
Definition enc_ac5_ctrl1 (c : ac5_ctrl) : option (list N) :=
  s <- a5c_spc c ;;
  x1 <- pack_B (a5c_b1 c) ;; x2 <- pack_B (a5c_b2 c) ;; x3 <- pack_B (fst s) ;; x4 <- pack_B (snd s) ;;
  Some (x1 ++ x2 ++ x3 ++ x4).

Definition dec_ac5_ctrl1 (r : list N) : option ac5_ctrl :=
  match r with
  | b1 :: b2 :: ct :: raw :: _ =>
    sp <- (if ct =? 0 then Some None else if ct =? 0x40 then Some (Some (dec_set_point raw)) else None) ;;
    Some (mkA5C (N.land b1 0x0F) (a5power_ctl_of (N.shiftr (N.land b1 0xF0) 4))
                (amode_ctl_of (N.shiftr (N.land b2 0xF0) 4)) (a5fan_ctl_of (N.land b2 0x0F)) sp)
  | _ => None
  end.

(* -------------------------------------------------------- xC023 AC status *)
Definition a5s_b1 (a : ac5_status) : N := N.land (a5s_number a) 0x0F + N.land (N.shiftl (a5power_code (a5s_power a)) 4) 0xF0.
Definition a5s_b2 (a : ac5_status) : N := N.land (N.shiftl (amode_code (a5s_mode a)) 4) 0xF0 + N.land (a5fan_code (a5s_fan a)) 0x0F.
Definition a5s_b4 (a : ac5_status) : N :=
  0xC0 + b2n (a5s_turbo a) 3 + b2n (a5s_bypass a) 2 + b2n (a5s_spill a) 1 + b2n (a5s_timer a) 0.
Definition enc_ac5_status1 (a : ac5_status) : option (list N) :=
  sp <- enc_set_point (a5s_setpoint a) ;;
  x1 <- pack_B (a5s_b1 a) ;; x2 <- pack_B (a5s_b2 a) ;; x3 <- pack_B sp ;; x4 <- pack_B (a5s_b4 a) ;;
  xt <- pack_H (enc_temp11 (a5s_temp a)) ;; xe <- pack_H (a5s_error a) ;;
  Some (x1 ++ x2 ++ x3 ++ x4 ++ xt ++ xe ++ [0; 0]).

Definition dec_ac5_status1 (r : list N) : option ac5_status :=
  match r with
  | b1 :: b2 :: sp :: b4 :: t1 :: t0 :: e1 :: e0 :: _ =>
    pw <- a5power_of (N.shiftr (N.land b1 0xF0) 4) ;;
    mo <- amode_of (N.shiftr (N.land b2 0xF0) 4) ;;
    fa <- a5fan_of (N.land b2 0x0F) ;;
    Some (mkA5S (N.land b1 0x0F) pw mo fa (bit b4 3) (bit b4 2) (bit b4 1) (bit b4 0)
                (dec_set_point sp) (dec_temp5 (N.land (t1 * 256 + t0) 0x07FF)) (e1 * 256 + e0))
  | _ => None
  end.

(* -------------------------------------------------- xC032 / xC033 timers *)
Definition enc_timer5 (t : timer_data) : option (list N) :=
  n <- pack_B (td_number t) ;;                 (* bytearray.append: ValueError above 255 *)
  Some (n ++ enc_timer_state (td_on t) ++ enc_timer_state (td_off t) ++ [0; 0; 0; 0]).
Definition dec_timer5 (r : list N) : option timer_data :=
  match r with
  | n :: a1 :: a2 :: b1 :: b2 :: _ => Some (mkTD n (dec_timer_state a1 a2) (dec_timer_state b1 b2))
  | _ => None
  end.

(* repeated records with an announced stride: record i is read at the front of the
   buffer, which then advances by [stride] (a slice, so it may run off the end) *)
Fixpoint dec_repeat {A} (count : nat) (stride : nat) (f : list N -> option A) (b : list N) : option (list A * list N) :=
  match count with
  | O => Some ([], b)
  | S c => x <- f b ;; r <- dec_repeat c stride f (skipn stride b) ;; Some (x :: fst r, snd r)
  end.

(* ------------------------------------------------- 0xC0 control / status *)
Definition pack_H' (n : nat) : option (list N) := pack_H (N.of_nat n).

Definition c0_parts (s : subc05) : option (N * nat * nat * nat * list N) :=   (* id, non-repeat, repeat size, count, body *)
  match s with
  | C_ZoneCtrl l => b <- enc_list enc_zone_ctrl1 l ;; Some (0x20, 0%nat, 4%nat, length l, b)
  | C_ZoneStatus l => b <- enc_list enc_zone_status1 l ;; Some (0x21, 0%nat, 8%nat, length l, b)
  | C_ZoneStatusReq => Some (0x21, 0%nat, 0%nat, 0%nat, [])
  | C_AcCtrl l => b <- enc_list enc_ac5_ctrl1 l ;; Some (0x22, 0%nat, 4%nat, length l, b)
  | C_AcStatus l => b <- enc_list enc_ac5_status1 l ;; Some (0x23, 0%nat, 10%nat, length l, b)
  | C_AcStatusReq => Some (0x23, 0%nat, 0%nat, 0%nat, [])
  | C_TimerCtrl l => b <- enc_list enc_timer5 l ;; Some (0x32, 0%nat, 9%nat, length l, b)
  | C_TimerStatus l => b <- enc_list enc_timer5 l ;; Some (0x33, 0%nat, 9%nat, length l, b)
  | C_TimerStatusReq => Some (0x33, 0%nat, 0%nat, 0%nat, [])
  | C_Unsupported _ _ => None
  end.

(* size() never runs the record encoders *)
Definition c0_size (s : subc05) : option nat :=
  match s with
  | C_ZoneCtrl l => Some (8 + 4 * length l)%nat
  | C_ZoneStatus l => Some (8 + 8 * length l)%nat
  | C_AcCtrl l => Some (8 + 4 * length l)%nat
  | C_AcStatus l => Some (8 + 10 * length l)%nat
  | C_TimerCtrl l | C_TimerStatus l => Some (8 + 9 * length l)%nat
  | C_ZoneStatusReq | C_AcStatusReq | C_TimerStatusReq => Some 8%nat
  | C_Unsupported _ _ => None
  end.

Definition enc_c0 (s : subc05) : option (list N) :=
  p <- c0_parts s ;;
  let '(id, nrl, rl, rc, body) := p in
  i <- pack_B id ;; a <- pack_H' nrl ;; b <- pack_H' rl ;; c <- pack_H' rc ;;
  Some (i ++ [0] ++ a ++ b ++ c ++ body).

Definition dec_c0_body (id : N) (nrl rl rc : nat) (b : list N) : option (subc05 * list N) :=
  let is_req := Nat.eqb rl 0 && Nat.eqb rc 0 in
  if id =? 0x20 then r <- dec_repeat rc 4 dec_zone_ctrl1 b ;; Some (C_ZoneCtrl (fst r), snd r)
  else if id =? 0x21 then
    if is_req then Some (C_ZoneStatusReq, b)
    else if Nat.ltb rl 8 then None
    else r <- dec_repeat rc rl dec_zone_status1 b ;; Some (C_ZoneStatus (fst r), snd r)
  else if id =? 0x22 then r <- dec_repeat rc 4 dec_ac5_ctrl1 b ;; Some (C_AcCtrl (fst r), snd r)
  else if id =? 0x23 then
    if is_req then Some (C_AcStatusReq, b)
    else if Nat.ltb rl 8 then None
    else r <- dec_repeat rc rl dec_ac5_status1 b ;; Some (C_AcStatus (fst r), snd r)
  else if id =? 0x32 then
    if is_req then None
    else if Nat.ltb rl 9 then None
    else r <- dec_repeat rc rl dec_timer5 b ;; Some (C_TimerCtrl (fst r), snd r)
  else if id =? 0x33 then
    if is_req then Some (C_TimerStatusReq, b)
    else if Nat.ltb rl 9 then None
    else r <- dec_repeat rc rl dec_timer5 b ;; Some (C_TimerStatus (fst r), snd r)
  else let n := (nrl + rc * rl)%nat in Some (C_Unsupported id (firstn n b), skipn n b).

(* the sub-header "!BxHHH": id, pad, non-repeat length, repeat length, repeat count *)
Definition dec_c0 (p : list N) : option (subc05 * list N) :=
  match p with
  | id :: _ :: n1 :: n0 :: l1 :: l0 :: c1 :: c0 :: b =>
    dec_c0_body id (N.to_nat (n1 * 256 + n0)) (N.to_nat (l1 * 256 + l0)) (N.to_nat (c1 * 256 + c0)) b
  | _ => None
  end.

(* ---------------------------------------------------- 0x1F sub-messages *)
Definition enc_ability5 (a : ability5) : option (list N) :=
  x0 <- pack_B (ab5_number a) ;;
  x2 <- pack_B (ab5_start a) ;; x3 <- pack_B (ab5_count a) ;;
  x4 <- pack_B (bits_byte (ab5_modes a)) ;; x5 <- pack_B (bits_byte (ab5_fans a)) ;;
  x6 <- pack_B (ab5_min_cool a) ;; x7 <- pack_B (ab5_max_cool a) ;;
  x8 <- pack_B (ab5_min_heat a) ;; x9 <- pack_B (ab5_max_heat a) ;;
  Some (x0 ++ [24] ++ pad_to 16 (ab5_name a) ++ x2 ++ x3 ++ x4 ++ x5 ++ x6 ++ x7 ++ x8 ++ x9).

Definition dec_ability5 (h : list N) : option ability5 :=
  let name := firstn 16 (skipn 2 h) in
  let b23 := nth 20 h 0 in let b24 := nth 21 h 0 in
  if negb (utf8_valid (cstring name)) then None else
  Some (mkAb5 (nth 0 h 0) (cstring name) (nth 18 h 0) (nth 19 h 0)
              [bit b23 0; bit b23 1; bit b23 2; bit b23 3; bit b23 4]
              [bit b24 0; bit b24 1; bit b24 2; bit b24 3; bit b24 4; bit b24 5; bit b24 6; bit b24 7]
              (nth 22 h 0) (nth 23 h 0) (nth 24 h 0) (nth 25 h 0)).

Definition enc_name5 (e : N * list N) : option (list N) :=
  z <- pack_B (fst e) ;; l <- pack_B (N.of_nat (length (snd e))) ;; Some (z ++ l ++ snd e).

(* the while loop of ZoneNamesDecoder; fuel = length of the buffer *)
Fixpoint dec_names5 (fuel : nat) (b : list N) : option (list (N * list N)) :=
  match b with
  | [] => Some []
  | z :: r =>
    match fuel with
    | O => None
    | S f =>
      match r with
      | [] => None                                   (* IndexError *)
      | nl :: r2 =>
        let n := N.to_nat nl in
        if Nat.ltb (length r2) n then None else        (* name exceeds message length *)
        let name := firstn n r2 in
        if negb (utf8_valid name) then None else
        rest <- dec_names5 f (skipn n r2) ;; Some ((z, name) :: rest)
      end
    end
  end.

Definition VERSION_SEP5 : N := 44.   (* "," *)

Definition enc_sub5 (s : sub1f5) : option (N * list N) :=      (* (sub id, body) *)
  match s with
  | S5_ErrMsg ac info =>
    let n := N.land ac 0xFF in
    match info with
    | Some ((_ :: _) as e) => l <- pack_B (N.of_nat (length e)) ;; Some (0xFF10, n :: l ++ e)
    | _ => Some (0xFF10, [n; 0])
    end
  | S5_ErrReq ac => Some (0xFF10, [N.land ac 0xFF])
  | S5_Ability l => b <- enc_list enc_ability5 l ;; Some (0xFF11, b)
  | S5_AbilityReq All => Some (0xFF11, [])
  | S5_AbilityReq (Num n) => b <- pack_B n ;; Some (0xFF11, b)
  | S5_Names l => b <- enc_list enc_name5 l ;; Some (0xFF13, b)
  | S5_NamesReq All => Some (0xFF13, [])
  | S5_NamesReq (Num n) => b <- pack_B n ;; Some (0xFF13, b)
  | S5_QuickTimer ac t tm =>
    a <- pack_B ac ;;
    Some (0xFF49, a ++ [N.land (timer_type_code t) 0xFF; N.land ((tm / 60) mod 24) 0xFF; N.land (tm mod 60) 0xFF])
  | S5_Version up vs =>
    let v := join_sep VERSION_SEP5 vs in
    l <- pack_B (N.of_nat (length v)) ;; Some (0xFF30, (if up then 1 else 0) :: l ++ v)
  | S5_VersionReq => Some (0xFF30, [])
  | S5_Unsupported _ _ => None                     (* NotImplementedError *)
  end.

Definition dec_sub5 (id : N) (len : nat) (b : list N) : option (sub1f5 * list N) :=
  if id =? 0xFF10 then
    match b with
    | [] => None
    | ac :: r =>
      if Nat.eqb len 1 then Some (S5_ErrReq ac, r) else
      match r with
      | [] => None
      | el :: r2 =>
        let n := N.to_nat el in
        let e := firstn n r2 in
        if el =? 0 then Some (S5_ErrMsg ac None, skipn n r2)
        else if utf8_valid e then Some (S5_ErrMsg ac (Some e), skipn n r2) else None
      end
    end
  else if id =? 0xFF11 then
    if Nat.eqb len 0 then Some (S5_AbilityReq All, b)
    else if Nat.eqb len 1 then match b with x :: r => Some (S5_AbilityReq (Num x), r) | [] => None end
    else if negb (Nat.eqb (len mod 26) 0) then None
    else l <- dec_list 26 dec_ability5 (firstn len b) ;; Some (S5_Ability l, skipn len b)
  else if id =? 0xFF13 then
    if Nat.eqb len 0 then Some (S5_NamesReq All, b)
    else if Nat.eqb len 1 then match b with x :: r => Some (S5_NamesReq (Num x), r) | [] => None end
    else l <- dec_names5 (S len) (firstn len b) ;; Some (S5_Names (dict_of l), skipn len b)
  else if id =? 0xFF49 then
    match b with
    | ac :: t :: h :: m :: r => tt <- timer_type_of t ;; Some (S5_QuickTimer ac tt (h * 60 + m), r)
    | _ => None
    end
  else if id =? 0xFF30 then
    if Nat.eqb len 0 then Some (S5_VersionReq, b) else
    match b with
    | up :: vl :: r =>
      let n := N.to_nat vl in
      let v := firstn n r in
      if utf8_valid v then Some (S5_Version (negb (up =? 0)) (split_sep VERSION_SEP5 v), skipn n r) else None
    | _ => None
    end
  else Some (S5_Unsupported id (firstn len b), skipn len b).

(* ------------------------------------------------------------ top level *)
Definition enc5 (m : msg5) : option (list N) :=
  match m with
  | M5_Ext s => x <- enc_sub5 s ;; Some ([fst x / 256; fst x mod 256] ++ snd x)
  | M5_Ctl s => enc_c0 s
  | M5_Unsupported _ _ => None
  end.

Definition sub5_size (s : sub1f5) : option nat :=
  match s with
  | S5_ErrMsg _ (Some ((_ :: _) as e)) => Some (2 + length e)%nat
  | S5_ErrMsg _ _ => Some 2%nat
  | S5_ErrReq _ => Some 1%nat
  | S5_Ability l => Some (26 * length l)%nat
  | S5_AbilityReq All => Some 0%nat
  | S5_AbilityReq (Num _) => Some 1%nat
  | S5_Names l => Some (fold_left (fun acc e => acc + length (snd e)) l (2 * length l))%nat
  | S5_NamesReq All => Some 0%nat
  | S5_NamesReq (Num _) => Some 1%nat
  | S5_QuickTimer _ _ _ => Some 4%nat
  | S5_Version _ vs => Some (2 + length (join_sep VERSION_SEP5 vs))%nat
  | S5_VersionReq => Some 0%nat
  | S5_Unsupported _ _ => None
  end.

Definition size5 (m : msg5) : option nat :=
  match m with
  | M5_Ext s => n <- sub5_size s ;; Some (2 + n)%nat
  | M5_Ctl s => c0_size s
  | M5_Unsupported _ _ => None
  end.

Definition dec5 (ty : N) (p : list N) : option msg5 :=
  if ty =? 0x1F then
    match p with
    | i1 :: i0 :: b => s <- complete (dec_sub5 (i1 * 256 + i0) (length b) b) ;; Some (M5_Ext s)
    | _ => None
    end
  else if ty =? 0xC0 then s <- complete (dec_c0 p) ;; Some (M5_Ctl s)
  else Some (M5_Unsupported ty p).
