(** The integer (tenths) temperature arithmetic of Codec4.v / Codec5.v is what the binary64 code of
    at4/comms/utils.py and at5/comms/utils.py computes (base/Flt.v), on every value the wire formats
    can carry. *)
From Coq Require Import NArith ZArith List Bool Lia SpecFloat.
From PV Require Import base.Flt base.FltProofs at4.Codec4 at5.Codec5.
Open Scope Z_scope.

(* ---- decoders: the float returned is the binary64 nearest to (model tenths)/10 *)
Definition chk_dec4 (raw : Z) : bool := Z.shiftr (Z.land raw 65504) 5 - 500 =? dec_temp (Z.to_N raw).
Lemma sweep_dec4 : forallb chk_dec4 (zrange 0 65536) = true. Proof. vm_compute. reflexivity. Qed.

Lemma dec_temp4_float raw : (raw < 65536)%N -> f_dec_temp4 (Z.of_N raw) = f_tenths (dec_temp raw).
Proof.
  intros H. pose proof (sweep_elim chk_dec4 0 65536 sweep_dec4 (Z.of_N raw) ltac:(lia)) as S.
  unfold chk_dec4 in S. rewrite N2Z.id in S. apply Z.eqb_eq in S. unfold f_dec_temp4, f_tenths. rewrite S. reflexivity.
Qed.
Lemma dec_set_point5_float raw : f_dec_sp5 (Z.of_N raw) = f_tenths (dec_set_point raw).
Proof. reflexivity. Qed.
Lemma dec_temp5_float raw : f_dec_temp5 (Z.of_N raw) = f_tenths (dec_temp5 raw).
Proof. reflexivity. Qed.

(* ---- encoders: on the binary64 nearest to k/10 the float code yields the model's integer *)
Definition chk_enc4 (k : Z) : bool :=
  match enc_temp k, f_enc_temp4 (f_tenths k) with Some a, Some b => (0 <=? b) && (Z.of_N a =? b) | _, _ => false end.
Definition chk_enc_sp5 (k : Z) : bool :=
  match enc_set_point k, f_enc_sp5 (f_tenths k) with Some a, Some b => (0 <=? b) && (Z.of_N a =? b) | _, _ => false end.
Definition chk_enc_t5 (k : Z) : bool :=
  match f_enc_temp5 (f_tenths k) with Some b => Z.of_N (enc_temp11 k) =? Z.land b 2047 | None => false end.
Lemma sweep_enc4 : forallb chk_enc4 (zrange (-500) 2048) = true. Proof. vm_compute. reflexivity. Qed.
Lemma sweep_enc_sp5 : forallb chk_enc_sp5 (zrange 100 256) = true. Proof. vm_compute. reflexivity. Qed.
(* the AT5 11-bit field is masked, so negative results (below -50.0) matter too: swept from -150.0 to 154.7 *)
Lemma sweep_enc_t5 : forallb chk_enc_t5 (zrange (-1500) 3048) = true. Proof. vm_compute. reflexivity. Qed.

Lemma enc_temp4_float k : -500 <= k < 1548 ->
  exists b, f_enc_temp4 (f_tenths k) = Some b /\ 0 <= b /\ enc_temp k = Some (Z.to_N b).
Proof.
  intros H. pose proof (sweep_elim chk_enc4 (-500) 2048 sweep_enc4 k ltac:(lia)) as S. unfold chk_enc4 in S.
  destruct (enc_temp k) as [a|]; [|discriminate]. destruct (f_enc_temp4 _) as [b|]; [|discriminate].
  apply andb_prop in S as [S1 S2]. apply Z.leb_le in S1. apply Z.eqb_eq in S2.
  exists b. repeat split; [exact S1|]. rewrite <- S2, N2Z.id. reflexivity.
Qed.
Lemma enc_set_point5_float k : 100 <= k < 356 ->
  exists b, f_enc_sp5 (f_tenths k) = Some b /\ 0 <= b /\ enc_set_point k = Some (Z.to_N b).
Proof.
  intros H. pose proof (sweep_elim chk_enc_sp5 100 256 sweep_enc_sp5 k ltac:(lia)) as S. unfold chk_enc_sp5 in S.
  destruct (enc_set_point k) as [a|]; [|discriminate]. destruct (f_enc_sp5 _) as [b|]; [|discriminate].
  apply andb_prop in S as [S1 S2]. apply Z.leb_le in S1. apply Z.eqb_eq in S2.
  exists b. repeat split; [exact S1|]. rewrite <- S2, N2Z.id. reflexivity.
Qed.
Lemma enc_temp5_float k : -1500 <= k < 1548 ->
  exists b, f_enc_temp5 (f_tenths k) = Some b /\ Z.of_N (enc_temp11 k) = Z.land b 2047.
Proof.
  intros H. pose proof (sweep_elim chk_enc_t5 (-1500) 3048 sweep_enc_t5 k ltac:(lia)) as S. unfold chk_enc_t5 in S.
  destruct (f_enc_temp5 _) as [b|]; [|discriminate]. apply Z.eqb_eq in S. exists b. split; [reflexivity|exact S].
Qed.
