(* Flat5.v — serialisation of AT5 messages to/from integer lists (exchange format with the
   harness), and the model cases for the codec correspondence. *)
From Coq Require Import NArith ZArith List Bool.
From PV Require Import base.Res at4.Msg4 at4.Codec4 at4.Flat4 at5.Msg5 at5.Codec5.
Import ListNotations.
Open Scope Z_scope.

Definition f_zone_ctrl (z : zone_ctrl) : list Z :=
  [Nz (zc_zone z); Nz (zpower_ctl_code (zc_power z))] ++
  match zc_setting z with ZS_None => [0; 0] | ZS_Dec => [1; 0] | ZS_Inc => [2; 0]
                        | ZS_Damper p => [3; Nz p] | ZS_SetPoint d => [4; d] end.
Definition f_zone_status (z : zone_status) : list Z :=
  [Nz (zs_zone z); Nz (zpower_code (zs_power z)); bz (zs_spill z); Nz (zmethod_code (zs_method z)); bz (zs_sensor z);
   Nz (battery_code (zs_battery z))] ++ f_optZ (zs_temp z) ++ [Nz (zs_damper z)] ++ f_optZ (zs_setpoint z).
Definition f_ac5_ctrl (c : ac5_ctrl) : list Z :=
  [Nz (a5c_number c); Nz (a5power_ctl_code (a5c_power c)); Nz (amode_ctl_code (a5c_mode c)); Nz (a5fan_ctl_code (a5c_fan c))] ++
  f_optZ (a5c_sp c).
Definition f_ac5_status (a : ac5_status) : list Z :=
  [Nz (a5s_number a); Nz (a5power_code (a5s_power a)); Nz (amode_code (a5s_mode a)); Nz (a5fan_code (a5s_fan a));
   bz (a5s_turbo a); bz (a5s_bypass a); bz (a5s_spill a); bz (a5s_timer a); a5s_setpoint a; a5s_temp a; Nz (a5s_error a)].
Definition f_ability5 (a : ability5) : list Z :=
  [Nz (ab5_number a)] ++ f_bytes (ab5_name a) ++ [Nz (ab5_start a); Nz (ab5_count a)] ++
  map bz (ab5_modes a) ++ map bz (ab5_fans a) ++
  [Nz (ab5_min_cool a); Nz (ab5_max_cool a); Nz (ab5_min_heat a); Nz (ab5_max_heat a)].

Definition f_sub5 (s : sub1f5) : list Z :=
  match s with
  | S5_ErrMsg ac info => [1; Nz ac] ++ match info with Some e => 1 :: f_bytes e | None => [0; 0] end
  | S5_ErrReq ac => [2; Nz ac]
  | S5_Ability l => 3 :: f_list f_ability5 l
  | S5_AbilityReq a => 4 :: f_all_or a
  | S5_Names l => 5 :: f_list (fun e => Nz (fst e) :: f_bytes (snd e)) l
  | S5_NamesReq a => 6 :: f_all_or a
  | S5_QuickTimer ac t tm => [7; Nz ac; Nz (timer_type_code t); Nz (tm / 60); Nz (tm mod 60)]
  | S5_Version up vs => [8; bz up] ++ f_list f_bytes vs
  | S5_VersionReq => [9]
  | S5_Unsupported id raw => [10; Nz id] ++ f_bytes raw
  end.

Definition f_c05 (s : subc05) : list Z :=
  match s with
  | C_ZoneCtrl l => 1 :: f_list f_zone_ctrl l
  | C_ZoneStatus l => 2 :: f_list f_zone_status l
  | C_ZoneStatusReq => [3]
  | C_AcCtrl l => 4 :: f_list f_ac5_ctrl l
  | C_AcStatus l => 5 :: f_list f_ac5_status l
  | C_AcStatusReq => [6]
  | C_TimerCtrl l => 7 :: f_list f_timer l
  | C_TimerStatus l => 8 :: f_list f_timer l
  | C_TimerStatusReq => [9]
  | C_Unsupported id raw => [10; Nz id] ++ f_bytes raw
  end.

Definition f_msg5 (m : msg5) : list Z :=
  match m with
  | M5_Ext s => 1 :: f_sub5 s
  | M5_Ctl s => 2 :: f_c05 s
  | M5_Unsupported id raw => [3; Nz id] ++ f_bytes raw
  end.

(* ---------------------------------------------------------------- unflatten *)
Definition p_zone_ctrl : parser zone_ctrl :=
  z <~ pn ;; pw <~ pn ;; st <~ pz ;; v <~ pz ;;
  pret (mkZC z (zpower_ctl_of pw) (if st =? 1 then ZS_Dec else if st =? 2 then ZS_Inc
                                   else if st =? 3 then ZS_Damper (zN v) else if st =? 4 then ZS_SetPoint v else ZS_None)).
Definition p_zone_status : parser zone_status :=
  z <~ pn ;; pw <~ pn ;; sp <~ pb ;; me <~ pn ;; se <~ pb ;; ba <~ pn ;; t <~ poptZ ;; d <~ pn ;; s <~ poptZ ;;
  pw' <~ popt (zpower_of pw) ;; me' <~ popt (zmethod_of me) ;; ba' <~ popt (battery_of ba) ;;
  pret (mkZS z pw' sp me' se ba' t d s).
Definition p_ac5_ctrl : parser ac5_ctrl :=
  n <~ pn ;; pw <~ pn ;; mo <~ pn ;; fa <~ pn ;; s <~ poptZ ;;
  pret (mkA5C n (a5power_ctl_of pw) (amode_ctl_of mo) (a5fan_ctl_of fa) s).
Definition p_ac5_status : parser ac5_status :=
  n <~ pn ;; pw <~ pn ;; mo <~ pn ;; fa <~ pn ;; tu <~ pb ;; by_ <~ pb ;; sp <~ pb ;; ti <~ pb ;; s <~ pz ;; t <~ pz ;; e <~ pn ;;
  pw' <~ popt (a5power_of pw) ;; mo' <~ popt (amode_of mo) ;; fa' <~ popt (a5fan_of fa) ;;
  pret (mkA5S n pw' mo' fa' tu by_ sp ti s t e).
Definition p_ability5 : parser ability5 :=
  n <~ pn ;; name <~ pbytes ;; st <~ pn ;; ct <~ pn ;; modes <~ prep 5 pb ;; fans <~ prep 8 pb ;;
  a <~ pn ;; b <~ pn ;; c <~ pn ;; d <~ pn ;;
  pret (mkAb5 n name st ct modes fans a b c d).

Definition p_sub5 : parser sub1f5 :=
  tag <~ pz ;;
  if tag =? 1 then ac <~ pn ;; f <~ pz ;; e <~ pbytes ;; pret (S5_ErrMsg ac (if zb f then Some e else None))
  else if tag =? 2 then ac <~ pn ;; pret (S5_ErrReq ac)
  else if tag =? 3 then l <~ plist p_ability5 ;; pret (S5_Ability l)
  else if tag =? 4 then a <~ p_all_or ;; pret (S5_AbilityReq a)
  else if tag =? 5 then l <~ plist (g <~ pn ;; b <~ pbytes ;; pret (g, b)) ;; pret (S5_Names l)
  else if tag =? 6 then a <~ p_all_or ;; pret (S5_NamesReq a)
  else if tag =? 7 then ac <~ pn ;; t <~ pn ;; h <~ pn ;; m <~ pn ;; t' <~ popt (timer_type_of t) ;; pret (S5_QuickTimer ac t' (h * 60 + m))
  else if tag =? 8 then up <~ pb ;; vs <~ plist pbytes ;; pret (S5_Version up vs)
  else if tag =? 9 then pret S5_VersionReq
  else if tag =? 10 then id <~ pn ;; raw <~ pbytes ;; pret (S5_Unsupported id raw)
  else fun _ => None.

Definition p_c05 : parser subc05 :=
  tag <~ pz ;;
  if tag =? 1 then l <~ plist p_zone_ctrl ;; pret (C_ZoneCtrl l)
  else if tag =? 2 then l <~ plist p_zone_status ;; pret (C_ZoneStatus l)
  else if tag =? 3 then pret C_ZoneStatusReq
  else if tag =? 4 then l <~ plist p_ac5_ctrl ;; pret (C_AcCtrl l)
  else if tag =? 5 then l <~ plist p_ac5_status ;; pret (C_AcStatus l)
  else if tag =? 6 then pret C_AcStatusReq
  else if tag =? 7 then l <~ plist p_timer ;; pret (C_TimerCtrl l)
  else if tag =? 8 then l <~ plist p_timer ;; pret (C_TimerStatus l)
  else if tag =? 9 then pret C_TimerStatusReq
  else if tag =? 10 then id <~ pn ;; raw <~ pbytes ;; pret (C_Unsupported id raw)
  else fun _ => None.

Definition p_msg5 : parser msg5 :=
  tag <~ pz ;;
  if tag =? 1 then s <~ p_sub5 ;; pret (M5_Ext s)
  else if tag =? 2 then s <~ p_c05 ;; pret (M5_Ctl s)
  else if tag =? 3 then id <~ pn ;; raw <~ pbytes ;; pret (M5_Unsupported id raw)
  else fun _ => None.

(* [30; msg...] -> encode: [1; size_present; size; len; bytes...] or [0] *)
Definition run_enc5 (args : list Z) : list Z :=
  match p_msg5 args with
  | Some (m, _) =>
    match enc5 m with
    | Some p => [1] ++ match size5 m with Some n => [1; Z.of_nat n] | None => [0; 0] end ++ f_bytes p
    | None => [0]
    end
  | None => [-1]
  end.

(* [31; type; bytes...] -> decode: 1 :: flat message, or [0] *)
Definition run_dec5 (args : list Z) : list Z :=
  match args with
  | ty :: bs => match dec5 (zN ty) (map zN bs) with Some m => 1 :: f_msg5 m | None => [0] end
  | [] => [-1]
  end.
