(* Msg5.v — the AirTouch 5 message classes (at5/comms/*.py) as Gallina types.
   ints are N, strings are their UTF-8 bytes, temperatures and set-points are tenths of a
   degree (Z), Optional[...] is option. *)
From Coq Require Import NArith ZArith List Bool.
From PV Require Import at4.Msg4.
Import ListNotations.

(* xC020 zone control *)
Inductive zpower_ctl := ZP_Unchanged | ZP_Toggle | ZP_Off | ZP_On | ZP_Turbo.          (* 0 1 2 3 5 *)
Inductive zsetting := ZS_None | ZS_Dec | ZS_Inc | ZS_Damper (p : N) | ZS_SetPoint (d : Z).
Record zone_ctrl := mkZC { zc_zone : N; zc_power : zpower_ctl; zc_setting : zsetting }.

(* xC021 zone status *)
Inductive zpower := ZPS_Off | ZPS_On | ZPS_Turbo.                                       (* 0 1 3 *)
Inductive zmethod := ZMS_Damper | ZMS_Temperature.                                      (* 0 1 *)
Record zone_status := mkZS {
  zs_zone : N; zs_power : zpower; zs_spill : bool; zs_method : zmethod; zs_sensor : bool;
  zs_battery : battery; zs_temp : option Z; zs_damper : N; zs_setpoint : option Z }.

(* xC022 AC control *)
Inductive a5power_ctl := A5P_Unchanged | A5P_Toggle | A5P_Off | A5P_On | A5P_Away | A5P_Sleep.   (* 0 1 2 3 4 5 *)
Inductive a5fan_ctl := A5F_Auto | A5F_Quiet | A5F_Low | A5F_Medium | A5F_High | A5F_Powerful | A5F_Turbo
                     | A5F_IntelligentAuto | A5F_Unchanged.                             (* 0..6 8 0xFF *)
Record ac5_ctrl := mkA5C { a5c_number : N; a5c_power : a5power_ctl; a5c_mode : amode_ctl; a5c_fan : a5fan_ctl;
                           a5c_sp : option Z }.

(* xC023 AC status *)
Inductive a5power := A5S_Off | A5S_On | A5S_OffAway | A5S_OnAway | A5S_Sleep.           (* 0 1 2 3 5 *)
Inductive a5fan := A5FS_Auto | A5FS_Quiet | A5FS_Low | A5FS_Medium | A5FS_High | A5FS_Powerful | A5FS_Turbo
                 | A5FS_IAQuiet | A5FS_IALow | A5FS_IAMedium | A5FS_IAHigh | A5FS_IAPowerful | A5FS_IATurbo.
                                                                                        (* 0..6 9..14 *)
Record ac5_status := mkA5S {
  a5s_number : N; a5s_power : a5power; a5s_mode : amode; a5s_fan : a5fan;
  a5s_turbo : bool; a5s_bypass : bool; a5s_spill : bool; a5s_timer : bool;
  a5s_setpoint : Z; a5s_temp : Z; a5s_error : N }.

(* xC032 / xC033 timers: timer_data of Msg4 (ac number explicit on the wire) *)

(* x1FFF11 AC ability *)
Record ability5 := mkAb5 {
  ab5_number : N; ab5_name : list N; ab5_start : N; ab5_count : N;
  ab5_modes : list bool;       (* AUTO HEAT DRY FAN COOL *)
  ab5_fans : list bool;        (* AUTO QUIET LOW MEDIUM HIGH POWERFUL TURBO INTELLIGENT_AUTO *)
  ab5_min_cool : N; ab5_max_cool : N; ab5_min_heat : N; ab5_max_heat : N }.

Inductive sub1f5 :=
| S5_ErrMsg (ac : N) (info : option (list N))
| S5_ErrReq (ac : N)
| S5_Ability (l : list ability5)
| S5_AbilityReq (a : all_or)
| S5_Names (l : list (N * list N))      (* dict in insertion order, keys distinct *)
| S5_NamesReq (a : all_or)
| S5_QuickTimer (ac : N) (t : timer_type) (total_minutes : N)
| S5_Version (update : bool) (versions : list (list N))
| S5_VersionReq
| S5_Unsupported (id : N) (raw : list N).

Inductive subc05 :=
| C_ZoneCtrl (l : list zone_ctrl)
| C_ZoneStatus (l : list zone_status)
| C_ZoneStatusReq
| C_AcCtrl (l : list ac5_ctrl)
| C_AcStatus (l : list ac5_status)
| C_AcStatusReq
| C_TimerCtrl (l : list timer_data)
| C_TimerStatus (l : list timer_data)
| C_TimerStatusReq
| C_Unsupported (id : N) (raw : list N).

Inductive msg5 :=
| M5_Ext (s : sub1f5)
| M5_Ctl (s : subc05)
| M5_Unsupported (id : N) (raw : list N).

Definition type_of5 (m : msg5) : N :=
  match m with M5_Ext _ => 0x1F | M5_Ctl _ => 0xC0 | M5_Unsupported id _ => id end%N.
