(* Codec5Proofs.v — C03 for AirTouch 5: every message in the domain encodes to a payload
   of the announced size which decodes back to the same message. *)
From Coq Require Import NArith ZArith List Bool Lia Arith.
From PV Require Import base.Res base.Utf8 base.ListX at4.Msg4 at4.Codec4 at4.Codec4Proofs at5.Msg5 at5.Codec5.
Import ListNotations.
Open Scope N_scope.

(* --------------------------------------------------------------- enum codes *)
Lemma zpower_ctl_rt p : zpower_ctl_of (zpower_ctl_code p) = p. Proof. destruct p; reflexivity. Qed.
Lemma zpower_rt p : zpower_of (zpower_code p) = Some p. Proof. destruct p; reflexivity. Qed.
Lemma zmethod_rt p : zmethod_of (zmethod_code p) = Some p. Proof. destruct p; reflexivity. Qed.
Lemma a5power_ctl_rt p : a5power_ctl_of (a5power_ctl_code p) = p. Proof. destruct p; reflexivity. Qed.
Lemma a5fan_ctl_rt p : a5fan_ctl_of (a5fan_ctl_code p) = p. Proof. destruct p; reflexivity. Qed.
Lemma a5power_rt p : a5power_of (a5power_code p) = Some p. Proof. destruct p; reflexivity. Qed.
Lemma a5fan_rt p : a5fan_of (a5fan_code p) = Some p. Proof. destruct p; reflexivity. Qed.
Lemma amode_ctl_rt p : amode_ctl_of (amode_ctl_code p) = p. Proof. destruct p; reflexivity. Qed.

(* ------------------------------------------------------------- set-points *)
Lemma set_point_rt d : (100 <= d <= 355)%Z ->
  exists v, enc_set_point d = Some v /\ v < 256 /\ dec_set_point v = d.
Proof.
  intros H. unfold enc_set_point. assert (0 <=? d - 100 = true)%Z as -> by (apply Z.leb_le; lia).
  eexists. split; [reflexivity|]. split; [lia|]. unfold dec_set_point. lia.
Qed.

(* ----------------------------------------------------------- temperatures *)
Lemma temp11_sweep :
  forallb (fun v => let d := (Z.of_N v - 500)%Z in
                    (enc_temp11 d <? 2048) && (dec_temp5 (N.land (enc_temp11 d) 0x07FF) =? d)%Z) (below 2048) = true.
Proof. vm_compute. reflexivity. Qed.

Lemma temp11_rt d : (-500 <= d <= 1547)%Z ->
  enc_temp11 d < 2048 /\ dec_temp5 (N.land (enc_temp11 d) 0x07FF) = d.
Proof.
  intros H. pose proof (below_forall _ _ temp11_sweep (Z.to_N (d + 500)) ltac:(lia)) as S.
  cbn beta zeta in S. replace (Z.of_N (Z.to_N (d + 500)) - 500)%Z with d in S by lia. b2p S. split; assumption.
Qed.

(* ---------------------------------------------------- xC020 zone control *)
Definition dom_zone_ctrl (z : zone_ctrl) : bool :=
  (zc_zone z <? 256) &&
  match zc_setting z with ZS_Damper p => p <? 256 | ZS_SetPoint d => (100 <=? d)%Z && (d <=? 355)%Z | _ => true end.

Lemma zone_ctrl_roundtrip z : dom_zone_ctrl z = true ->
  exists p, enc_zone_ctrl1 z = Some p /\ length p = 4%nat /\ dec_zone_ctrl1 p = Some z.
Proof.
  destruct z as [n pw st]. unfold dom_zone_ctrl. cbn [zc_zone zc_setting]. intros H. b2p H.
  unfold enc_zone_ctrl1. cbn [zc_zone zc_power zc_setting].
  destruct st as [| | |p|d].
  1-3: (destruct pw; cbn -[pack_B]; rewrite (pack_B_ok n B); cbn; eexists; repeat split; reflexivity).
  - b2p B0. destruct pw; cbn -[pack_B]; rewrite (pack_B_ok n B), (pack_B_ok p B0); cbn; eexists; repeat split; reflexivity.
  - b2p B0. destruct (set_point_rt d ltac:(lia)) as [v [E [Hv D]]].
    unfold zc_setting_code. rewrite E. cbn [obind fst snd].
    destruct pw; cbn -[pack_B dec_set_point]; rewrite (pack_B_ok n B), (pack_B_ok v Hv); cbn -[dec_set_point];
      eexists; (split; [reflexivity|split; [reflexivity|]]); unfold dec_zone_ctrl1, zc_setting_of; cbn -[dec_set_point];
      rewrite D; reflexivity.
Qed.

(* ----------------------------------------------------- xC021 zone status *)
Definition dom_zone_status (z : zone_status) : bool :=
  (zs_zone z <? 64) && (zs_damper z <? 128) &&
  match zs_setpoint z with Some d => (100 <=? d)%Z && (d <=? 354)%Z | None => true end &&
  match zs_temp z with Some d => zs_sensor z && (-500 <=? d)%Z && (d <=? 1500)%Z | None => true end.

Lemma zs_b1_sweep :
  forallb (fun n => forallb (fun c =>
    let b := N.land n 0x3F + N.shiftl c 6 in
    (b <? 256) && (N.land b 0x3F =? n) && (N.shiftr (N.land b 0xC0) 6 =? c)) (below 4)) (below 64) = true.
Proof. vm_compute. reflexivity. Qed.

Lemma zs_b2_sweep :
  forallb (fun c => forallb (fun d =>
    let b := N.shiftl c 7 + N.land d 0x7F in
    (b <? 256) && (N.land b 0x7F =? d) && (N.shiftr (N.land b 0x80) 7 =? c)) (below 128)) (below 2) = true.
Proof. vm_compute. reflexivity. Qed.

Lemma zpower_code_lt p : zpower_code p < 4. Proof. destruct p; reflexivity. Qed.
Lemma zmethod_code_lt p : zmethod_code p < 2. Proof. destruct p; reflexivity. Qed.

Lemma zone_status_roundtrip z : dom_zone_status z = true ->
  exists p, enc_zone_status1 z = Some p /\ length p = 8%nat /\ dec_zone_status1 p = Some z.
Proof.
  destruct z as [n pw spill me sensor ba temp damper sp]. unfold dom_zone_status.
  cbn [zs_zone zs_damper zs_setpoint zs_temp zs_sensor]. intros H.
  apply andb_prop in H as [H Ht]. apply andb_prop in H as [H Hsp]. apply andb_prop in H as [Hn Hd]. b2p Hn. b2p Hd.
  pose proof (below2_forall _ _ _ zs_b1_sweep n (zpower_code pw) Hn (zpower_code_lt pw)) as S1.
  cbn beta zeta in S1. apply andb_prop in S1 as [S1 S1c]. apply andb_prop in S1 as [S1a S1b]. b2p S1a. b2p S1b. b2p S1c.
  pose proof (below2_forall _ _ _ zs_b2_sweep (zmethod_code me) damper (zmethod_code_lt me) Hd) as S2.
  cbn beta zeta in S2. apply andb_prop in S2 as [S2 S2c]. apply andb_prop in S2 as [S2a S2b]. b2p S2a. b2p S2b. b2p S2c.
  unfold enc_zone_status1, zs_b1, zs_b2, zs_sp, zs_b4, zs_t, zs_b7.
  cbn [zs_zone zs_power zs_method zs_damper zs_setpoint zs_sensor zs_temp zs_spill zs_battery].
  (* set-point byte *)
  assert (Esp : exists v, match sp with Some d => if (d =? 0)%Z then Some 255 else enc_set_point d | None => Some 255 end = Some v
                          /\ v < 256 /\ zs_sp_of v = sp).
  { destruct sp as [d|].
    - apply andb_prop in Hsp as [Hsp1 Hsp2]. b2p Hsp1. b2p Hsp2. assert (d =? 0 = false)%Z as -> by (apply Z.eqb_neq; lia).
      destruct (set_point_rt d ltac:(lia)) as [v [E [Hv D]]]. exists v. split; [exact E|]. split; [exact Hv|].
      unfold zs_sp_of. assert (v =? 255 = false) as ->; [|now rewrite D].
      apply N.eqb_neq. unfold dec_set_point in D. lia.
    - exists 255. repeat split; reflexivity. }
  destruct Esp as [v [Ev [Hv Dv]]]. rewrite Ev. cbn [obind].
  (* temperature half-word *)
  assert (Et : exists t, match temp with Some d => enc_temp11 d | None => 2047 end = t /\ t < 65536 /\
                         zs_temp_of sensor (t / 256 * 256 + t mod 256) = temp).
  { eexists. split; [reflexivity|]. rewrite be16_div_mod. destruct temp as [d|].
    - apply andb_prop in Ht as [Ht Ht3]. apply andb_prop in Ht as [Ht1 Ht2]. b2p Ht2. b2p Ht3.
      destruct (temp11_rt d ltac:(lia)) as [L D]. split; [lia|].
      unfold zs_temp_of. rewrite D. rewrite Ht1. cbn [negb orb].
      assert (1500 <? d = false)%Z as -> by (apply Z.ltb_ge; lia). reflexivity.
    - split; [reflexivity|]. unfold zs_temp_of. replace (1500 <? dec_temp5 (N.land 2047 2047))%Z with true by reflexivity.
      now rewrite orb_true_r. }
  destruct Et as [t [Et [Ht16 Dt]]]. rewrite Et.
  rewrite (pack_B_ok _ S1a), (pack_B_ok _ S2a), (pack_B_ok _ Hv), (pack_H_ok _ Ht16).
  assert (Hb4 : b2n sensor 7 < 256 /\ bit (b2n sensor 7) 7 = sensor) by (destruct sensor; split; reflexivity).
  destruct Hb4 as [Hb4 Db4]. rewrite (pack_B_ok _ Hb4).
  assert (Hb7 : b2n spill 1 + battery_code ba < 256 /\ bit (b2n spill 1 + battery_code ba) 1 = spill /\
                battery_of (N.land (b2n spill 1 + battery_code ba) 1) = Some ba)
    by (destruct spill, ba; repeat split; reflexivity).
  destruct Hb7 as [Hb7 [Db7 Db7']]. rewrite (pack_B_ok _ Hb7). cbn [obind app].
  eexists. split; [reflexivity|]. split; [reflexivity|].
  unfold dec_zone_status1. rewrite S1b, S1c, S2b, S2c, zpower_rt, zmethod_rt, Db7', Db4, Db7, Dt, Dv. reflexivity.
Qed.

(* ------------------------------------------------------- xC022 AC control *)
Definition dom_ac5_ctrl (c : ac5_ctrl) : bool :=
  (a5c_number c <? 16) &&
  match a5c_sp c with Some d => (100 <=? d)%Z && (d <=? 355)%Z | None => true end.

Lemma nib_sweep :
  forallb (fun n => forallb (fun c =>
    let b := N.land n 0x0F + N.land (N.shiftl c 4) 0xF0 in
    (b <? 256) && (N.land b 0x0F =? n) && (N.shiftr (N.land b 0xF0) 4 =? c)) (below 16)) (below 16) = true.
Proof. vm_compute. reflexivity. Qed.

Lemma a5power_ctl_code_lt p : a5power_ctl_code p < 16. Proof. destruct p; reflexivity. Qed.
Lemma a5power_code_lt p : a5power_code p < 16. Proof. destruct p; reflexivity. Qed.

Lemma ac5_ctrl_roundtrip c : dom_ac5_ctrl c = true ->
  exists p, enc_ac5_ctrl1 c = Some p /\ length p = 4%nat /\ dec_ac5_ctrl1 p = Some c.
Proof.
  destruct c as [n pw mo fa sp]. unfold dom_ac5_ctrl. cbn [a5c_number a5c_sp]. intros H.
  apply andb_prop in H as [Hn Hsp]. b2p Hn.
  pose proof (below2_forall _ _ _ nib_sweep n (a5power_ctl_code pw) Hn (a5power_ctl_code_lt pw)) as S1.
  cbn beta zeta in S1. apply andb_prop in S1 as [S1 S1c]. apply andb_prop in S1 as [S1a S1b]. b2p S1a. b2p S1b. b2p S1c.
  unfold enc_ac5_ctrl1, a5c_b1, a5c_b2, a5c_spc. cbn [a5c_number a5c_power a5c_mode a5c_fan a5c_sp].
  assert (Hb2 : let b := N.land (N.shiftl (amode_ctl_code mo) 4) 0xF0 + N.land (a5fan_ctl_code fa) 0x0F in
                b < 256 /\ amode_ctl_of (N.shiftr (N.land b 0xF0) 4) = mo /\ a5fan_ctl_of (N.land b 0x0F) = fa)
    by (destruct mo, fa; vm_compute; repeat split; reflexivity).
  cbn zeta in Hb2. destruct Hb2 as [B2a [B2b B2c]].
  assert (Es : exists ct v, match sp with
                            | Some d => if (d =? 0)%Z then Some (0, 255) else v <- enc_set_point d ;; Some (64, v)
                            | None => Some (0, 255) end = Some (ct, v) /\ ct < 256 /\ v < 256 /\
               (if ct =? 0 then Some None else if ct =? 64 then Some (Some (dec_set_point v)) else None) = Some sp).
  { destruct sp as [d|].
    - apply andb_prop in Hsp as [H1 H2]. b2p H1. b2p H2. assert (d =? 0 = false)%Z as -> by (apply Z.eqb_neq; lia).
      destruct (set_point_rt d ltac:(lia)) as [v [E [Hv D]]]. rewrite E. cbn [obind].
      exists 64, v. repeat split; try reflexivity; try assumption. cbn. now rewrite D.
    - exists 0, 255. repeat split; reflexivity. }
  destruct Es as [ct [v [Es [Hct [Hv Ds]]]]]. rewrite Es. cbn [obind fst snd].
  rewrite (pack_B_ok _ S1a), (pack_B_ok _ B2a), (pack_B_ok _ Hct), (pack_B_ok _ Hv). cbn [obind app].
  eexists. split; [reflexivity|]. split; [reflexivity|].
  unfold dec_ac5_ctrl1. rewrite Ds. cbn [obind]. rewrite S1b, S1c, B2b, B2c, a5power_ctl_rt. reflexivity.
Qed.

(* -------------------------------------------------------- xC023 AC status *)
Definition dom_ac5_status (a : ac5_status) : bool :=
  (a5s_number a <? 16) && (100 <=? a5s_setpoint a)%Z && (a5s_setpoint a <=? 355)%Z &&
  (-500 <=? a5s_temp a)%Z && (a5s_temp a <=? 1547)%Z && (a5s_error a <? 65536).

Lemma ac5_status_roundtrip a : dom_ac5_status a = true ->
  exists p, enc_ac5_status1 a = Some p /\ length p = 10%nat /\ dec_ac5_status1 p = Some a.
Proof.
  destruct a as [n pw mo fa tu byp spill ti sp temp er]. unfold dom_ac5_status.
  cbn [a5s_number a5s_setpoint a5s_temp a5s_error]. intros H.
  apply andb_prop in H as [H He]. apply andb_prop in H as [H Ht2]. apply andb_prop in H as [H Ht1].
  apply andb_prop in H as [H Hs2]. apply andb_prop in H as [Hn Hs1]. b2p Hn. b2p Hs1. b2p Hs2. b2p Ht1. b2p Ht2. b2p He.
  pose proof (below2_forall _ _ _ nib_sweep n (a5power_code pw) Hn (a5power_code_lt pw)) as S1.
  cbn beta zeta in S1. apply andb_prop in S1 as [S1 S1c]. apply andb_prop in S1 as [S1a S1b]. b2p S1a. b2p S1b. b2p S1c.
  unfold enc_ac5_status1, a5s_b1, a5s_b2, a5s_b4.
  cbn [a5s_number a5s_power a5s_mode a5s_fan a5s_turbo a5s_bypass a5s_spill a5s_timer a5s_setpoint a5s_temp a5s_error].
  assert (Hb2 : let b := N.land (N.shiftl (amode_code mo) 4) 0xF0 + N.land (a5fan_code fa) 0x0F in
                b < 256 /\ amode_of (N.shiftr (N.land b 0xF0) 4) = Some mo /\ a5fan_of (N.land b 0x0F) = Some fa)
    by (destruct mo, fa; vm_compute; repeat split; reflexivity).
  cbn zeta in Hb2. destruct Hb2 as [B2a [B2b B2c]].
  assert (Hb4 : let b := 0xC0 + b2n tu 3 + b2n byp 2 + b2n spill 1 + b2n ti 0 in
                b < 256 /\ bit b 3 = tu /\ bit b 2 = byp /\ bit b 1 = spill /\ bit b 0 = ti)
    by (destruct tu, byp, spill, ti; vm_compute; repeat split; reflexivity).
  cbn zeta in Hb4. destruct Hb4 as [B4a [B4b [B4c [B4d B4e]]]].
  destruct (set_point_rt sp ltac:(lia)) as [v [Ev [Hv Dv]]]. rewrite Ev. cbn [obind].
  destruct (temp11_rt temp ltac:(lia)) as [Lt Dt].
  rewrite (pack_B_ok _ S1a), (pack_B_ok _ B2a), (pack_B_ok _ Hv), (pack_B_ok _ B4a),
          (pack_H_ok (enc_temp11 temp) ltac:(lia)), (pack_H_ok _ He). cbn [obind app].
  eexists. split; [reflexivity|]. split; [reflexivity|].
  unfold dec_ac5_status1. rewrite S1b, S1c, B2b, B2c, a5power_rt. cbn [obind].
  rewrite B4b, B4c, B4d, B4e, Dv, !be16_div_mod, Dt. reflexivity.
Qed.

(* -------------------------------------------------- xC032 / xC033 timers *)
Definition dom_timer5 (t : timer_data) : bool :=
  (td_number t <? 256) && dom_timer_state (td_on t) && dom_timer_state (td_off t).

Lemma timer5_roundtrip t : dom_timer5 t = true ->
  exists p, enc_timer5 t = Some p /\ length p = 9%nat /\ dec_timer5 p = Some t.
Proof.
  destruct t as [n on off]. unfold dom_timer5. cbn [td_number td_on td_off]. intros H.
  apply andb_prop in H as [H Hoff]. apply andb_prop in H as [Hn Hon]. b2p Hn.
  destruct (timer_state_rt on Hon) as [a1 [a2 [E1 [_ [_ D1]]]]].
  destruct (timer_state_rt off Hoff) as [b1 [b2 [E2 [_ [_ D2]]]]].
  unfold enc_timer5. cbn [td_number td_on td_off]. rewrite (pack_B_ok n Hn), E1, E2. cbn [obind app].
  eexists. split; [reflexivity|]. split; [reflexivity|]. unfold dec_timer5. now rewrite D1, D2.
Qed.

(* ------------------------------------------- repeated records with a stride *)
Lemma dec_repeat_concat {A} (dec : list N -> option A) n : forall (rs : list (list N)) (l : list A),
  Forall (fun r => length r = n) rs ->
  (forall r tail, length r = n -> dec (r ++ tail) = dec r) ->
  sequence (map dec rs) = Some l ->
  dec_repeat (length rs) n dec (concat rs) = Some (l, []).
Proof.
  induction rs as [|r rs IH]; intros l F Hext S.
  - cbn in S. injection S as <-. reflexivity.
  - inversion F as [|? ? Hr Hrs]; subst. cbn [map sequence] in S.
    destruct (dec r) as [x|] eqn:Dr; [|discriminate]. cbn [obind] in S.
    destruct (sequence (map dec rs)) as [xs|] eqn:Srs; [|discriminate]. cbn [obind] in S. injection S as <-.
    cbn [length concat dec_repeat]. rewrite (Hext r (concat rs) eq_refl), Dr. cbn [obind].
    rewrite skipn_app, skipn_all, Nat.sub_diag. cbn [app skipn].
    rewrite (IH xs Hrs Hext eq_refl). reflexivity.
Qed.

(* per-record round trip lifts to a record list read back with the encoder's stride *)
Lemma repeat_roundtrip {A} (enc : A -> option (list N)) (dec : list N -> option A) n (l : list A) :
  (forall r tail, length r = n -> dec (r ++ tail) = dec r) ->
  (forall a, In a l -> exists r, enc a = Some r /\ length r = n /\ dec r = Some a) ->
  exists p, enc_list enc l = Some p /\ length p = (n * length l)%nat /\
            dec_repeat (length l) n dec p = Some (l, []).
Proof.
  intros Hext H.
  assert (G : exists rs, sequence (map enc l) = Some rs /\ Forall (fun r => length r = n) rs /\
                         length rs = length l /\ sequence (map dec rs) = Some l).
  { induction l as [|a l IH]; cbn.
    - exists []. repeat split; constructor.
    - destruct (H a (or_introl eq_refl)) as [r [E [L D]]].
      destruct IH as [rs [S1 [F [Ln S2]]]]; [intros x Hx; apply H; now right|].
      exists (r :: rs). rewrite E, S1. cbn. rewrite D, S2. cbn. repeat split; auto. }
  destruct G as [rs [S1 [F [Ln S2]]]].
  exists (concat rs). unfold enc_list. rewrite S1. cbn [obind]. split; [reflexivity|]. split.
  - clear - F Ln. revert l Ln. induction F as [|r rs Hr F IH]; intros l Ln; destruct l; cbn in *; try lia.
    rewrite app_length, Hr. rewrite (IH l) by lia. lia.
  - rewrite <- Ln. apply dec_repeat_concat; assumption.
Qed.

(* the record decoders look only at their own bytes *)
Ltac ext_tac := let r := fresh "r" in let tail := fresh "tail" in let Hr := fresh "Hr" in
  intros r tail Hr; repeat (destruct r as [|? r]; [try discriminate Hr; try reflexivity | try discriminate Hr]).
Lemma dec_zone_ctrl1_ext : forall r tail, length r = 4%nat -> dec_zone_ctrl1 (r ++ tail) = dec_zone_ctrl1 r.
Proof. ext_tac. Qed.
Lemma dec_zone_status1_ext : forall r tail, length r = 8%nat -> dec_zone_status1 (r ++ tail) = dec_zone_status1 r.
Proof. ext_tac. Qed.
Lemma dec_ac5_ctrl1_ext : forall r tail, length r = 4%nat -> dec_ac5_ctrl1 (r ++ tail) = dec_ac5_ctrl1 r.
Proof. ext_tac. Qed.
Lemma dec_ac5_status1_ext : forall r tail, length r = 10%nat -> dec_ac5_status1 (r ++ tail) = dec_ac5_status1 r.
Proof. ext_tac. Qed.
Lemma dec_timer5_ext : forall r tail, length r = 9%nat -> dec_timer5 (r ++ tail) = dec_timer5 r.
Proof. ext_tac. Qed.

(* ------------------------------------------------- 0xC0 control / status *)
Definition dom_c0 (s : subc05) : bool :=
  match s with
  | C_ZoneCtrl l => forallb dom_zone_ctrl l && (N.of_nat (length l) <? 65536)
  | C_ZoneStatus l => forallb dom_zone_status l && (N.of_nat (length l) <? 65536)
  | C_AcCtrl l => forallb dom_ac5_ctrl l && (N.of_nat (length l) <? 65536)
  | C_AcStatus l => forallb dom_ac5_status l && (N.of_nat (length l) <? 65536)
  | C_TimerCtrl l | C_TimerStatus l => forallb dom_timer5 l && (N.of_nat (length l) <? 65536)
  | C_ZoneStatusReq | C_AcStatusReq | C_TimerStatusReq => true
  | C_Unsupported _ _ => false
  end.

Definition c0_hdr (id : N) (nrl rl rc : nat) : list N :=
  [id; 0; N.of_nat nrl / 256; N.of_nat nrl mod 256; N.of_nat rl / 256; N.of_nat rl mod 256;
   N.of_nat rc / 256; N.of_nat rc mod 256].

Lemma enc_c0_hdr id nrl rl rc body :
  id < 256 -> N.of_nat nrl < 65536 -> N.of_nat rl < 65536 -> N.of_nat rc < 65536 ->
  (i <- pack_B id ;; a <- pack_H' nrl ;; b <- pack_H' rl ;; c <- pack_H' rc ;; Some (i ++ [0] ++ a ++ b ++ c ++ body))
  = Some (c0_hdr id nrl rl rc ++ body).
Proof.
  intros H0 H1 H2 H3. unfold pack_H'. now rewrite (pack_B_ok _ H0), (pack_H_ok _ H1), (pack_H_ok _ H2), (pack_H_ok _ H3).
Qed.

Lemma dec_c0_hdr id nrl rl rc body :
  dec_c0 (c0_hdr id nrl rl rc ++ body) = dec_c0_body id nrl rl rc body.
Proof. unfold c0_hdr. cbn [app dec_c0]. now rewrite !be16_div_mod, !Nat2N.id. Qed.

Ltac c0_list_case RT EXT :=
  match goal with
  | H : forallb _ ?l && (_ <? _) = true |- _ =>
    let Hd := fresh "Hd" in let Hl := fresh "Hl" in
    apply andb_prop in H as [Hd Hl]; b2p Hl;
    let p := fresh "p" in let E := fresh "E" in let L := fresh "L" in let D := fresh "D" in
    destruct (repeat_roundtrip _ _ _ l EXT (fun a Ha => RT a (forallb_In _ _ Hd a Ha))) as [p [E [L D]]];
    unfold enc_c0, c0_parts; rewrite E; cbn [obind];
    rewrite enc_c0_hdr by (try reflexivity; exact Hl);
    eexists; split; [reflexivity|]; split;
    [ cbn [c0_size]; rewrite app_length, L; reflexivity
    | rewrite dec_c0_hdr; unfold dec_c0_body; cbn [N.eqb Pos.eqb Nat.eqb Nat.ltb Nat.leb andb];
      rewrite D; reflexivity ]
  end.

Theorem c0_roundtrip s : dom_c0 s = true ->
  exists p, enc_c0 s = Some p /\ c0_size s = Some (length p) /\ dec_c0 p = Some (s, []).
Proof.
  destruct s as [l|l| |l|l| |l|l| |id raw]; cbn [dom_c0]; intros H; try discriminate H.
  - c0_list_case zone_ctrl_roundtrip dec_zone_ctrl1_ext.
  - c0_list_case zone_status_roundtrip dec_zone_status1_ext.
  - eexists. repeat split; reflexivity.
  - c0_list_case ac5_ctrl_roundtrip dec_ac5_ctrl1_ext.
  - c0_list_case ac5_status_roundtrip dec_ac5_status1_ext.
  - eexists. repeat split; reflexivity.
  - c0_list_case timer5_roundtrip dec_timer5_ext.
  - c0_list_case timer5_roundtrip dec_timer5_ext.
  - eexists. repeat split; reflexivity.
Qed.

(* ---------------------------------------------------- 0x1F sub-messages *)
Lemma bits8 m0 m1 m2 m3 m4 m5 m6 m7 : let b := bits_byte [m0; m1; m2; m3; m4; m5; m6; m7] in
  b < 256 /\ [bit b 0; bit b 1; bit b 2; bit b 3; bit b 4; bit b 5; bit b 6; bit b 7] = [m0; m1; m2; m3; m4; m5; m6; m7].
Proof. destruct m0, m1, m2, m3, m4, m5, m6, m7; split; reflexivity. Qed.

Definition dom_ability5 (a : ability5) : bool :=
  (ab5_number a <? 256) && (ab5_start a <? 256) && (ab5_count a <? 256) &&
  (ab5_min_cool a <? 256) && (ab5_max_cool a <? 256) && (ab5_min_heat a <? 256) && (ab5_max_heat a <? 256) &&
  Nat.eqb (length (ab5_modes a)) 5 && Nat.eqb (length (ab5_fans a)) 8 &&
  nul_free (ab5_name a) && (N.of_nat (length (ab5_name a)) <? 17) && utf8_valid (ab5_name a).

Lemma ability5_roundtrip a : dom_ability5 a = true ->
  exists r, enc_ability5 a = Some r /\ length r = 26%nat /\ dec_ability5 r = Some a.
Proof.
  destruct a as [num name st ct modes fans c1 c2 h1 h2]. unfold dom_ability5.
  cbn [ab5_number ab5_name ab5_start ab5_count ab5_modes ab5_fans ab5_min_cool ab5_max_cool ab5_min_heat ab5_max_heat].
  intros H.
  apply andb_prop in H as [H Hu]. apply andb_prop in H as [H Hl]. apply andb_prop in H as [H Hnf].
  apply andb_prop in H as [H Hfl]. apply andb_prop in H as [H Hml]. apply andb_prop in H as [H Hh2].
  apply andb_prop in H as [H Hh1]. apply andb_prop in H as [H Hc2]. apply andb_prop in H as [H Hc1].
  apply andb_prop in H as [H Hct]. apply andb_prop in H as [Hnum Hst].
  b2p Hnum. b2p Hst. b2p Hct. b2p Hc1. b2p Hc2. b2p Hh1. b2p Hh2. b2p Hl. apply Nat.eqb_eq in Hml, Hfl.
  destruct modes as [|m0 [|m1 [|m2 [|m3 [|m4 [|? ?]]]]]]; try discriminate Hml.
  destruct fans as [|f0 [|f1 [|f2 [|f3 [|f4 [|f5 [|f6 [|f7 [|? ?]]]]]]]]]; try discriminate Hfl.
  destruct (bits5 m0 m1 m2 m3 m4) as [Lm Dm]. destruct (bits8 f0 f1 f2 f3 f4 f5 f6 f7) as [Lf Df].
  unfold enc_ability5.
  cbn [ab5_number ab5_name ab5_start ab5_count ab5_modes ab5_fans ab5_min_cool ab5_max_cool ab5_min_heat ab5_max_heat].
  rewrite (pack_B_ok _ Hnum), (pack_B_ok _ Hst), (pack_B_ok _ Hct), (pack_B_ok _ Lm), (pack_B_ok _ Lf),
          (pack_B_ok _ Hc1), (pack_B_ok _ Hc2), (pack_B_ok _ Hh1), (pack_B_ok _ Hh2).
  pose proof (cstring_pad 16 name Hnf ltac:(lia)) as Cs. pose proof (pad_to_length 16 name) as Pl.
  remember (pad_to 16 name) as pn eqn:Epn. clear Epn.
  do 17 (destruct pn as [|? pn]; try discriminate Pl). clear Pl.
  remember (bits_byte [m0; m1; m2; m3; m4]) as mb. remember (bits_byte [f0; f1; f2; f3; f4; f5; f6; f7]) as fb.
  cbn [obind app]. eexists. split; [reflexivity|]. split; [reflexivity|].
  unfold dec_ability5. cbn [firstn skipn nth]. rewrite Cs, Hu. cbn [negb]. rewrite Dm, Df. reflexivity.
Qed.

Definition dom_name5 (e : N * list N) : bool := (fst e <? 256) && dom_str 256 (snd e).

Lemma names5_roundtrip l : forallb dom_name5 l = true ->
  exists p, enc_list enc_name5 l = Some p /\
            length p = fold_left (fun acc e => acc + length (snd e))%nat l (2 * length l)%nat /\
            (2 * length l <= length p)%nat /\
            forall fuel, (length l <= fuel)%nat -> dec_names5 fuel p = Some l.
Proof.
  assert (G : forall l, forallb dom_name5 l = true -> forall acc,
    exists p, enc_list enc_name5 l = Some p /\
              (acc + length p)%nat = fold_left (fun acc e => acc + length (snd e))%nat l (acc + 2 * length l)%nat /\
              (2 * length l <= length p)%nat /\
              forall fuel, (length l <= fuel)%nat -> dec_names5 fuel p = Some l).
  { clear l. induction l as [|[z name] l IH]; intros H acc.
    - exists []. split; [reflexivity|]. split; [cbn; lia|]. split; [cbn; lia|]. intros fuel _. destruct fuel; reflexivity.
    - cbn in H. apply andb_prop in H as [Ha Hl]. unfold dom_name5, dom_str in Ha. cbn [fst snd] in Ha.
      apply andb_prop in Ha as [Hz Hs]. apply andb_prop in Hs as [Hlen Hu]. b2p Hz. b2p Hlen.
      destruct (IH Hl (acc + 2 + length name)%nat) as [p [Ep [Lp [Lmin Dp]]]].
      unfold enc_list in *. cbn [map sequence]. unfold enc_name5 at 1. cbn [fst snd].
      rewrite (pack_B_ok z Hz), (pack_B_ok _ Hlen). cbn [obind].
      destruct (sequence (map enc_name5 l)) as [rs|]; [|discriminate]. cbn [obind] in *. injection Ep as <-.
      eexists. split; [reflexivity|]. cbn [concat app length]. rewrite app_length.
      split; [cbn [fold_left snd]; replace (acc + 2 * S (length l) + length name)%nat with (acc + 2 + length name + 2 * length l)%nat by lia;
              rewrite <- Lp; lia|].
      split; [lia|]. intros fuel Hf. destruct fuel as [|fuel]; [cbn in Hf; lia|].
      cbn [dec_names5]. rewrite Nat2N.id, app_length.
      assert (Nat.ltb (length name + length (concat rs)) (length name) = false) as -> by (apply Nat.ltb_ge; lia).
      rewrite firstn_app_exact, skipn_app_exact, Hu. cbn [negb].
      rewrite (Dp fuel ltac:(cbn in Hf; lia)). reflexivity. }
  intros H. destruct (G l H 0%nat) as [p [E [L R]]]. exists p. split; [exact E|]. split; [exact L|]. exact R.
Qed.

Definition dom_sub5 (s : sub1f5) : bool :=
  match s with
  | S5_ErrMsg ac info =>
    (ac <? 256) && match info with Some e => negb (is_nil e) && dom_str 256 e | None => true end
  | S5_ErrReq ac => ac <? 256
  | S5_Ability l => negb (is_nil l) && forallb dom_ability5 l
  | S5_AbilityReq All | S5_NamesReq All => true
  | S5_AbilityReq (Num n) | S5_NamesReq (Num n) => n <? 256
  | S5_Names l => negb (is_nil l) && forallb dom_name5 l && keys_distinct l
  | S5_QuickTimer ac _ tm => (ac <? 256) && (tm <? 1440)
  | S5_Version _ vs => negb (is_nil vs) && forallb (sep_free VERSION_SEP5) vs && dom_str 256 (join_sep VERSION_SEP5 vs)
  | S5_VersionReq => true
  | S5_Unsupported _ _ => false
  end.

Theorem sub5_roundtrip s : dom_sub5 s = true ->
  exists id body, enc_sub5 s = Some (id, body) /\ id < 65536 /\
                  sub5_size s = Some (length body) /\
                  dec_sub5 id (length body) body = Some (s, []).
Proof.
  destruct s as [ac info|ac|l|a|l|a|ac t tm|up vs| |id raw]; cbn [dom_sub5]; intros H; try discriminate H.
  - (* error message *)
    apply andb_prop in H as [Hac Hi]. b2p Hac. unfold enc_sub5. rewrite (land_ff ac Hac).
    destruct info as [[|e0 e]|].
    + discriminate Hi.
    + cbn [is_nil negb andb] in Hi. unfold dom_str in Hi. apply andb_prop in Hi as [Hl Hu]. b2p Hl.
      rewrite (pack_B_ok _ Hl). cbn [obind app]. eexists. eexists. split; [reflexivity|]. split; [reflexivity|].
      split; [reflexivity|]. remember (e0 :: e) as es.
      unfold dec_sub5. cbn [N.eqb Pos.eqb]. cbn [length Nat.eqb].
      assert (Nat.eqb (length es) 0 = false) as Hz by (subst es; reflexivity).
      destruct (length es) eqn:El; [discriminate Hz|]. cbn [Nat.eqb]. rewrite <- El. rewrite Nat2N.id.
      rewrite firstn_all, skipn_all, Hu.
      assert (N.of_nat (length es) =? 0 = false) as -> by (apply N.eqb_neq; lia). reflexivity.
    + eexists. eexists. split; [reflexivity|]. repeat split; reflexivity.
  - b2p H. unfold enc_sub5. rewrite (land_ff ac H). eexists. eexists. repeat split; reflexivity.
  - (* abilities *)
    apply andb_prop in H as [Hne Hl].
    destruct (list_roundtrip enc_ability5 dec_ability5 26 l ltac:(lia)
                (fun e He => ability5_roundtrip e (forallb_In _ _ Hl e He))) as [p [E [L D]]].
    unfold enc_sub5. rewrite E. cbn [obind]. eexists. eexists. split; [reflexivity|]. split; [reflexivity|].
    split; [cbn [sub5_size]; now rewrite L|].
    unfold dec_sub5. cbn [N.eqb Pos.eqb].
    assert (Hlen : (26 <= length l * 26)%nat) by (destruct l; [discriminate Hne|cbn [length]; lia]).
    assert (Nat.eqb (length p) 0 = false) as -> by (apply Nat.eqb_neq; lia).
    assert (Nat.eqb (length p) 1 = false) as -> by (apply Nat.eqb_neq; lia).
    assert (Nat.eqb (length p mod 26) 0 = true) as ->.
    { apply Nat.eqb_eq. rewrite L, Nat.mul_comm. apply Nat.mod_mul. lia. }
    cbn [negb]. rewrite firstn_all, skipn_all, D. reflexivity.
  - destruct a as [|n]; [eexists; eexists; repeat split; reflexivity|].
    b2p H. unfold enc_sub5. rewrite (pack_B_ok n H). cbn [obind]. eexists. eexists. repeat split; reflexivity.
  - (* names *)
    apply andb_prop in H as [H Hk]. apply andb_prop in H as [Hne Hl].
    destruct (names5_roundtrip l Hl) as [p [E [L [Lmin D]]]].
    unfold enc_sub5. rewrite E. cbn [obind]. eexists. eexists. split; [reflexivity|]. split; [reflexivity|].
    split; [cbn [sub5_size]; now rewrite L|].
    unfold dec_sub5. cbn [N.eqb Pos.eqb].
    assert (Hlen : (2 <= 2 * length l)%nat) by (destruct l; [discriminate Hne|cbn [length]; lia]).
    assert (Nat.eqb (length p) 0 = false) as -> by (apply Nat.eqb_neq; lia).
    assert (Nat.eqb (length p) 1 = false) as -> by (apply Nat.eqb_neq; lia).
    rewrite firstn_all, skipn_all, (D (S (length p)) ltac:(lia)). cbn [obind].
    now rewrite (dict_of_distinct _ Hk).
  - destruct a as [|n]; [eexists; eexists; repeat split; reflexivity|].
    b2p H. unfold enc_sub5. rewrite (pack_B_ok n H). cbn [obind]. eexists. eexists. repeat split; reflexivity.
  - (* quick timer *)
    apply andb_prop in H as [Hac Htm]. b2p Hac. b2p Htm.
    pose proof (below_forall _ _ qt_sweep tm Htm) as S. cbn beta in S.
    apply andb_prop in S as [S S3]. apply andb_prop in S as [S1 S2]. b2p S1.
    unfold enc_sub5. rewrite (pack_B_ok ac Hac). cbn [obind app].
    eexists. eexists. split; [reflexivity|]. split; [reflexivity|]. split; [reflexivity|].
    unfold dec_sub5. cbn [N.eqb Pos.eqb]. destruct t; cbn [timer_type_code N.land timer_type_of obind]; rewrite S1; reflexivity.
  - (* version *)
    apply andb_prop in H as [H Hs]. apply andb_prop in H as [Hne Hf].
    unfold dom_str in Hs. apply andb_prop in Hs as [Hl Hu]. b2p Hl.
    unfold enc_sub5. rewrite (pack_B_ok _ Hl). cbn [obind].
    eexists. eexists. split; [reflexivity|]. split; [reflexivity|]. split; [reflexivity|].
    unfold dec_sub5. cbn [N.eqb Pos.eqb]. cbn [length Nat.eqb]. cbn [app]. rewrite Nat2N.id.
    rewrite firstn_all, skipn_all, Hu.
    rewrite split_join; [|destruct vs; [discriminate Hne|discriminate]|exact Hf].
    destruct up; reflexivity.
  - eexists. eexists. repeat split; reflexivity.
Qed.

(* ------------------------------------------------------------- top level *)
Definition dom5 (m : msg5) : bool :=
  match m with
  | M5_Ext s => dom_sub5 s
  | M5_Ctl s => dom_c0 s
  | M5_Unsupported _ _ => false
  end.

Theorem msg5_roundtrip m : dom5 m = true ->
  exists p, enc5 m = Some p /\ size5 m = Some (length p) /\ dec5 (type_of5 m) p = Some m.
Proof.
  destruct m as [s|s|id raw]; cbn [dom5]; intros H; try discriminate H.
  - destruct (sub5_roundtrip s H) as [id [body [E [Hid [Sz D]]]]]. cbn [enc5 size5 type_of5]. rewrite E, Sz. cbn [obind fst snd].
    eexists. split; [reflexivity|]. split; [reflexivity|].
    unfold dec5. cbn [N.eqb Pos.eqb app]. rewrite be16_div_mod, D. reflexivity.
  - destruct (c0_roundtrip s H) as [p [E [Sz D]]]. cbn [enc5 size5 type_of5]. rewrite E, Sz.
    eexists. split; [reflexivity|]. split; [reflexivity|].
    unfold dec5. cbn [N.eqb Pos.eqb]. rewrite D. reflexivity.
Qed.
