(* Res.v — small helpers shared by the codec models. *)
From Coq Require Import NArith ZArith List Bool.
Import ListNotations.
Open Scope N_scope.

Definition obind {A B} (o : option A) (f : A -> option B) : option B :=
  match o with Some a => f a | None => None end.
Notation "x <- e ;; k" := (obind e (fun x => k)) (at level 61, e at next level, right associativity).

(* struct.pack("B") / ("H") range checks *)
Definition pack_B (v : N) : option (list N) := if v <? 256 then Some [v] else None.
Definition pack_H (v : N) : option (list N) := if v <? 65536 then Some [v / 256; v mod 256] else None.

Definition b2n (b : bool) (off : N) : N := if b then N.shiftl 1 off else 0.   (* bool_to_bit *)
Definition bit (v off : N) : bool := N.eqb (N.land v (N.shiftl 1 off)) (N.shiftl 1 off).   (* bit_to_bool *)

Definition below (n : nat) : list N := map N.of_nat (seq 0 n).

(* all optional results present *)
Fixpoint sequence {A} (l : list (option A)) : option (list A) :=
  match l with
  | [] => Some []
  | x :: r => a <- x ;; rs <- sequence r ;; Some (a :: rs)
  end.

(* fixed-size chunks of a buffer (None if the length is not a multiple) *)
Fixpoint chunks (fuel : nat) (n : nat) (l : list N) : option (list (list N)) :=
  match l with
  | [] => Some []
  | _ =>
    match fuel with
    | O => None
    | S f => if Nat.ltb (length l) n then None
             else rs <- chunks f n (skipn n l) ;; Some (firstn n l :: rs)
    end
  end.

(* decode_c_string: bytes before the first NUL *)
Fixpoint cstring (l : list N) : list N :=
  match l with [] => [] | b :: r => if b =? 0 then [] else b :: cstring r end.

(* encode_c_string: pad with NULs / truncate to n *)
Definition pad_to (n : nat) (l : list N) : list N := firstn n (l ++ repeat 0 n).
