(* Utf8.v — well-formed UTF-8 byte sequences (Unicode table 3-7): what CPython's strict
   decoder accepts.  A Python str that can be encoded is identified with its UTF-8 bytes. *)
From Coq Require Import NArith List Bool.
Import ListNotations.
Open Scope N_scope.

Definition in_range (lo hi b : N) : bool := (lo <=? b) && (b <=? hi).
Definition cont (b : N) : bool := in_range 0x80 0xBF b.

Fixpoint utf8_valid (l : list N) : bool :=
  match l with
  | [] => true
  | b0 :: r =>
    if b0 <? 0x80 then utf8_valid r
    else if in_range 0xC2 0xDF b0 then
      match r with b1 :: r1 => cont b1 && utf8_valid r1 | _ => false end
    else if b0 =? 0xE0 then
      match r with b1 :: b2 :: r2 => in_range 0xA0 0xBF b1 && cont b2 && utf8_valid r2 | _ => false end
    else if in_range 0xE1 0xEC b0 || in_range 0xEE 0xEF b0 then
      match r with b1 :: b2 :: r2 => cont b1 && cont b2 && utf8_valid r2 | _ => false end
    else if b0 =? 0xED then
      match r with b1 :: b2 :: r2 => in_range 0x80 0x9F b1 && cont b2 && utf8_valid r2 | _ => false end
    else if b0 =? 0xF0 then
      match r with b1 :: b2 :: b3 :: r3 => in_range 0x90 0xBF b1 && cont b2 && cont b3 && utf8_valid r3 | _ => false end
    else if in_range 0xF1 0xF3 b0 then
      match r with b1 :: b2 :: b3 :: r3 => cont b1 && cont b2 && cont b3 && utf8_valid r3 | _ => false end
    else if b0 =? 0xF4 then
      match r with b1 :: b2 :: b3 :: r3 => in_range 0x80 0x8F b1 && cont b2 && cont b3 && utf8_valid r3 | _ => false end
    else false
  end.
