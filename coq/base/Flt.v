(** IEEE-754 binary64 model of the two lines of floating-point arithmetic in
    pyairtouch/at4/comms/utils.py and pyairtouch/at5/comms/utils.py.

    The operations are the pure Gallina ones of Coq.Floats.SpecFloat (no primitive floats,
    no axioms): round-to-nearest-even binary64 multiplication, addition, subtraction and
    division on [spec_float]. *)
From Coq Require Import ZArith List Bool SpecFloat.
Import ListNotations.
Open Scope Z_scope.

Definition prec := 53.
Definition emax := 1024.

Definition f_of_Z (z : Z) : spec_float := binary_normalize prec emax z 0 false.
Definition fmul := SFmul prec emax.
Definition fadd := SFadd prec emax.
Definition fsub := SFsub prec emax.
Definition fdiv := SFdiv prec emax.

(** Python [int(x)]: truncation toward zero; [None] for inf / nan (OverflowError / ValueError) *)
Definition f_int (f : spec_float) : option Z :=
  match f with
  | S754_zero _ => Some 0
  | S754_finite s m e =>
      let v := if 0 <=? e then Zpos m * 2 ^ e else Zpos m / 2 ^ (- e) in
      Some (if s then - v else v)
  | _ => None
  end.

Definition f10 := f_of_Z 10.

(** at4/comms/utils.py *)
Definition f_dec_temp4 (raw : Z) : spec_float :=               (* (((raw & 0xFFE0) >> 5) - 500) / 10.0 *)
  fdiv (f_of_Z (Z.shiftr (Z.land raw 65504) 5 - 500)) f10.
Definition f_enc_temp4 (t : spec_float) : option Z :=          (* (int(t * 10.0 + 500) << 5) & 0xFFE0 *)
  option_map (fun i => Z.land (Z.shiftl i 5) 65504) (f_int (fadd (fmul t f10) (f_of_Z 500))).

(** at5/comms/utils.py *)
Definition f_dec_sp5 (raw : Z) : spec_float := fdiv (f_of_Z (raw + 100)) f10.          (* (raw + 100) / 10.0 *)
Definition f_enc_sp5 (t : spec_float) : option Z := f_int (fsub (fmul t f10) (f_of_Z 100)).   (* int(t * 10.0 - 100) *)
Definition f_dec_temp5 (raw : Z) : spec_float := fdiv (f_of_Z (raw - 500)) f10.        (* (raw - 500) / 10.0 *)
Definition f_enc_temp5 (t : spec_float) : option Z := f_int (fadd (fmul t f10) (f_of_Z 500)). (* int(t * 10.0 + 500) *)

(** the float the API hands to the encoder for a value of k tenths: round(x, 1) and k / 10.0 are both
    the binary64 nearest to k/10 *)
Definition f_tenths (k : Z) : spec_float := fdiv (f_of_Z k) f10.

Fixpoint zr (lo : Z) (n : nat) : list Z := match n with O => [] | S n' => lo :: zr (lo + 1) n' end.
Definition zrange (lo n : Z) : list Z := zr lo (Z.to_nat n).

Definition chk_temp4 (v : Z) : bool := match f_enc_temp4 (f_dec_temp4 (Z.shiftl v 5)) with Some r => r =? Z.shiftl v 5 | None => false end.
Definition chk_sp5 (r : Z) : bool := match f_enc_sp5 (f_dec_sp5 r) with Some r' => r' =? r | None => false end.
Definition chk_temp5 (r : Z) : bool := match f_enc_temp5 (f_dec_temp5 r) with Some r' => r' =? r | None => false end.

(** exchange format for the correspondence check: [which; raw] ->
    [class; sign; mantissa; exponent; encode(decode raw) or -1]  (class 0 zero, 1 finite, 2 other) *)
Definition flat_sf (f : spec_float) : list Z :=
  match f with
  | S754_zero s => [0; if s then 1 else 0; 0; 0]
  | S754_finite s m e => [1; if s then 1 else 0; Zpos m; e]
  | _ => [2; 0; 0; 0]
  end.
Definition oz (o : option Z) : Z := match o with Some z => z | None => -1 end.
Definition run_flt (l : list Z) : list Z :=
  match l with
  | [1; raw] => flat_sf (f_dec_temp4 raw) ++ [oz (f_enc_temp4 (f_dec_temp4 raw))]
  | [2; raw] => flat_sf (f_dec_sp5 raw) ++ [oz (f_enc_sp5 (f_dec_sp5 raw))]
  | [3; raw] => flat_sf (f_dec_temp5 raw) ++ [oz (f_enc_temp5 (f_dec_temp5 raw))]
  | [4; k] => flat_sf (f_tenths k) ++ [oz (f_enc_sp5 (f_tenths k))]
  | [5; k] => flat_sf (f_tenths k) ++ [oz (f_enc_temp5 (f_tenths k))]
  | [6; k] => flat_sf (f_tenths k) ++ [oz (f_enc_temp4 (f_tenths k))]
  | _ => [-1]
  end.
