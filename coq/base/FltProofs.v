From Coq Require Import ZArith List Bool Lia SpecFloat.
From PV Require Import base.Flt.
Open Scope Z_scope.

Lemma zr_in n : forall lo v, lo <= v < lo + Z.of_nat n -> In v (zr lo n).
Proof.
  induction n as [|n IH]; intros lo v H; [lia|]. cbn [zr]. destruct (Z.eq_dec lo v) as [E|E]; [left; exact E|].
  right. apply IH. lia.
Qed.
Lemma zrange_in lo n v : lo <= v < lo + n -> In v (zrange lo n).
Proof. intros H. unfold zrange. apply zr_in. lia. Qed.

Lemma sweep_temp4_ok : forallb chk_temp4 (zrange 0 2048) = true. Proof. vm_compute. reflexivity. Qed.
Lemma sweep_sp5_ok : forallb chk_sp5 (zrange 0 256) = true. Proof. vm_compute. reflexivity. Qed.
Lemma sweep_temp5_ok : forallb chk_temp5 (zrange 0 2048) = true. Proof. vm_compute. reflexivity. Qed.

Lemma sweep_elim (f : Z -> bool) lo n : forallb f (zrange lo n) = true -> forall v, lo <= v < lo + n -> f v = true.
Proof. intros S v H. rewrite forallb_forall in S. apply S, zrange_in, H. Qed.

(** every 11-bit temperature field value survives decode-then-encode in binary64 arithmetic *)
Lemma temp4_float_roundtrip v : 0 <= v < 2048 -> f_enc_temp4 (f_dec_temp4 (Z.shiftl v 5)) = Some (Z.shiftl v 5).
Proof.
  intros H. pose proof (sweep_elim chk_temp4 0 2048 sweep_temp4_ok v ltac:(lia)) as S. unfold chk_temp4 in S.
  destruct (f_enc_temp4 _) as [r|]; [|discriminate]. apply Z.eqb_eq in S. congruence.
Qed.

Lemma sp5_float_roundtrip r : 0 <= r < 256 -> f_enc_sp5 (f_dec_sp5 r) = Some r.
Proof.
  intros H. pose proof (sweep_elim chk_sp5 0 256 sweep_sp5_ok r ltac:(lia)) as S. unfold chk_sp5 in S.
  destruct (f_enc_sp5 _) as [r'|]; [|discriminate]. apply Z.eqb_eq in S. congruence.
Qed.

Lemma temp5_float_roundtrip r : 0 <= r < 2048 -> f_enc_temp5 (f_dec_temp5 r) = Some r.
Proof.
  intros H. pose proof (sweep_elim chk_temp5 0 2048 sweep_temp5_ok r ltac:(lia)) as S. unfold chk_temp5 in S.
  destruct (f_enc_temp5 _) as [r'|]; [|discriminate]. apply Z.eqb_eq in S. congruence.
Qed.

(** what the encoders make of the float nearest to k tenths is k shifted by the offset: the integer model
    of Codec4 / Codec5 (tenths in Z) is what the float code computes *)
Lemma sp5_of_tenths k : 100 <= k < 356 -> f_enc_sp5 (f_tenths k) = Some (k - 100).
Proof. intros H. replace (f_tenths k) with (f_dec_sp5 (k - 100)) by (unfold f_dec_sp5, f_tenths; do 2 f_equal; lia). apply sp5_float_roundtrip. lia. Qed.
Lemma temp5_of_tenths k : -500 <= k < 1548 -> f_enc_temp5 (f_tenths k) = Some (k + 500).
Proof. intros H. replace (f_tenths k) with (f_dec_temp5 (k + 500)) by (unfold f_dec_temp5, f_tenths; do 2 f_equal; lia). apply temp5_float_roundtrip. lia. Qed.
