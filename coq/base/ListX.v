(* ListX.v — facts about the byte-string helpers of Res.v / Codec4.v used by the codec
   round-trip proofs: C strings, separators, ordered dictionaries. *)
From Coq Require Import NArith List Bool Lia Arith.
From PV Require Import base.Res.
Import ListNotations.
Open Scope N_scope.

Lemma firstn_app_exact {A} (a b : list A) : firstn (length a) (a ++ b) = a.
Proof. induction a as [|x a IH]; cbn; [now destruct b|]. now rewrite IH. Qed.

Lemma skipn_app_exact {A} (a b : list A) : skipn (length a) (a ++ b) = b.
Proof. induction a as [|x a IH]; cbn; [reflexivity|exact IH]. Qed.

(* ------------------------------------------------------------- C strings *)
Definition nul_free (s : list N) : bool := forallb (fun b => negb (b =? 0)) s.

Lemma cstring_app_nul s k : nul_free s = true -> cstring (s ++ repeat 0 k) = s.
Proof.
  induction s as [|b s IH]; cbn; intros H.
  - destruct k; reflexivity.
  - apply andb_prop in H as [Hb Hs]. apply negb_true_iff in Hb. rewrite Hb. now rewrite (IH Hs).
Qed.

Lemma firstn_repeat {A} (x : A) k n : (k <= n)%nat -> firstn k (repeat x n) = repeat x k.
Proof.
  revert n. induction k as [|k IH]; intros n H; [reflexivity|].
  destruct n as [|n]; [lia|]. cbn. f_equal. apply IH. lia.
Qed.

Lemma pad_to_short n s : (length s <= n)%nat -> pad_to n s = s ++ repeat 0 (n - length s).
Proof.
  intros H. unfold pad_to. rewrite firstn_app. rewrite firstn_all2 by exact H. f_equal.
  apply firstn_repeat. lia.
Qed.

Lemma pad_to_length n s : length (pad_to n s) = n.
Proof. unfold pad_to. rewrite firstn_length, app_length, repeat_length. lia. Qed.

Lemma cstring_pad n s : nul_free s = true -> (length s <= n)%nat -> cstring (pad_to n s) = s.
Proof. intros H L. rewrite (pad_to_short n s L). now apply cstring_app_nul. Qed.

Lemma skipn_skipn' {A} (x y : nat) (l : list A) : skipn x (skipn y l) = skipn (y + x) l.
Proof.
  revert l. induction y as [|y IH]; intros l; [reflexivity|].
  destruct l as [|a l]; [now rewrite !skipn_nil|]. cbn [skipn Nat.add]. apply IH.
Qed.
