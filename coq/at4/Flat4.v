(* Flat4.v — serialisation of AT4 messages to/from integer lists, the exchange format
   between the harness (Python objects flattened field by field) and the model. *)
From Coq Require Import NArith ZArith List Bool.
From PV Require Import base.Res at4.Msg4 at4.Codec4.
Import ListNotations.
Open Scope Z_scope.

Definition zN (z : Z) : N := Z.to_N z.
Definition Nz (n : N) : Z := Z.of_N n.
Definition bz (b : bool) : Z := if b then 1 else 0.
Definition zb (z : Z) : bool := negb (z =? 0).

(* ------------------------------------------------------------------ flatten *)
Definition f_bytes (l : list N) : list Z := Z.of_nat (length l) :: map Nz l.
Definition f_list {A} (f : A -> list Z) (l : list A) : list Z := Z.of_nat (length l) :: concat (map f l).
Definition f_optN (o : option N) : list Z := match o with Some v => [1; Nz v] | None => [0; 0] end.
Definition f_optZ (o : option Z) : list Z := match o with Some v => [1; v] | None => [0; 0] end.

Definition f_group_status (g : group_status) : list Z :=
  [Nz (gs_group g); Nz (gpower_code (gs_power g)); Nz (gmethod_code (gs_method g)); bz (gs_spill g);
   bz (gs_turbo g); bz (gs_sensor g); Nz (battery_code (gs_battery g))] ++ f_optZ (gs_temp g) ++
  [Nz (gs_damper g)] ++ f_optN (gs_setpoint g).

Definition f_ac_status (a : ac_status) : list Z :=
  [Nz (as_number a); Nz (apower_code (as_power a)); Nz (amode_code (as_mode a)); Nz (afan_code (as_fan a));
   bz (as_spill a); bz (as_timer a); Nz (as_setpoint a); as_temp a; Nz (as_error a)].

Definition f_timer (t : timer_data) : list Z :=
  [Nz (td_number t); bz (ts_disabled (td_on t)); Nz (ts_hour (td_on t)); Nz (ts_minute (td_on t));
   bz (ts_disabled (td_off t)); Nz (ts_hour (td_off t)); Nz (ts_minute (td_off t))].

Definition f_ability (a : ability) : list Z :=
  [Nz (ab_number a)] ++ f_bytes (ab_name a) ++ map bz (ab_modes a) ++ map bz (ab_fans a) ++
  [Nz (ab_min a); Nz (ab_max a)] ++
  match ab_groups a with Some gs => 1 :: f_list (fun g => [Nz g]) gs | None => [0; 0] end ++
  [Nz (ab_start a); Nz (ab_count a)].

Definition f_all_or (a : all_or) : list Z := match a with All => [0; 0] | Num n => [1; Nz n] end.

Definition f_sub (s : sub4) : list Z :=
  match s with
  | S_ErrMsg ac info => [1; Nz ac] ++ match info with Some e => 1 :: f_bytes e | None => [0; 0] end
  | S_ErrReq ac => [2; Nz ac]
  | S_Ability l => 3 :: f_list f_ability l
  | S_AbilityReq a => 4 :: f_all_or a
  | S_Names l => 5 :: f_list (fun e => Nz (fst e) :: f_bytes (snd e)) l
  | S_NamesReq a => 6 :: f_all_or a
  | S_QuickTimer ac t tm => [7; Nz ac; Nz (timer_type_code t); Nz (tm / 60); Nz (tm mod 60)]
  | S_Version up vs => [8; bz up] ++ f_list f_bytes vs
  | S_VersionReq => [9]
  | S_Unsupported id raw => [10; Nz id] ++ f_bytes raw
  end.

Definition f_msg4 (m : msg4) : list Z :=
  match m with
  | M_GroupCtrl c =>
    [1; Nz (gc_group c); Nz (gpower_ctl_code (gc_power c)); Nz (gmethod_ctl_code (gc_method c))] ++
    match gc_setting c with GS_None => [0; 0] | GS_Dec => [1; 0] | GS_Inc => [2; 0]
                          | GS_Damper p => [3; Nz p] | GS_SetPoint v => [4; Nz v] end
  | M_GroupStatus l => 2 :: f_list f_group_status l
  | M_GroupStatusReq => [3]
  | M_AcCtrl c =>
    [4; Nz (ac_number c); Nz (apower_ctl_code (ac_power c)); Nz (amode_ctl_code (ac_mode c)); Nz (afan_ctl_code (ac_fan c))] ++
    match ac_sp c with AS_None => [0; 0] | AS_Dec => [1; 0] | AS_Inc => [2; 0] | AS_Value v => [3; Nz v] end
  | M_AcStatus l => 5 :: f_list f_ac_status l
  | M_AcStatusReq => [6]
  | M_TimerCtrl l => 7 :: f_list f_timer l
  | M_TimerStatus l => 8 :: f_list f_timer l
  | M_TimerStatusReq => [9]
  | M_Ext s => 10 :: f_sub s
  | M_Unsupported id raw => [11; Nz id] ++ f_bytes raw
  end.

(* ---------------------------------------------------------------- unflatten *)
Definition parser (A : Type) := list Z -> option (A * list Z).
Definition pret {A} (a : A) : parser A := fun l => Some (a, l).
Definition pbind {A B} (p : parser A) (f : A -> parser B) : parser B :=
  fun l => match p l with Some (a, r) => f a r | None => None end.
Notation "x <~ p ;; k" := (pbind p (fun x => k)) (at level 61, p at next level, right associativity).
Definition pz : parser Z := fun l => match l with x :: r => Some (x, r) | [] => None end.
Definition pn : parser N := x <~ pz ;; pret (zN x).
Definition pb : parser bool := x <~ pz ;; pret (zb x).
Definition popt {A} (o : option A) : parser A := fun l => match o with Some a => Some (a, l) | None => None end.

Fixpoint prep {A} (n : nat) (p : parser A) : parser (list A) :=
  match n with O => pret [] | S m => x <~ p ;; xs <~ prep m p ;; pret (x :: xs) end.
Definition plist {A} (p : parser A) : parser (list A) := n <~ pz ;; prep (Z.to_nat n) p.
Definition pbytes : parser (list N) := plist pn.
Definition poptN : parser (option N) := f <~ pz ;; v <~ pn ;; pret (if zb f then Some v else None).
Definition poptZ : parser (option Z) := f <~ pz ;; v <~ pz ;; pret (if zb f then Some v else None).

Definition p_group_status : parser group_status :=
  g <~ pn ;; pw <~ pn ;; me <~ pn ;; sp <~ pb ;; tu <~ pb ;; se <~ pb ;; ba <~ pn ;; t <~ poptZ ;;
  d <~ pn ;; s <~ poptN ;;
  pw' <~ popt (gpower_of pw) ;; me' <~ popt (gmethod_of me) ;; ba' <~ popt (battery_of ba) ;;
  pret (mkGS g pw' me' sp tu se ba' t d s).

Definition p_ac_status : parser ac_status :=
  n <~ pn ;; pw <~ pn ;; mo <~ pn ;; fa <~ pn ;; sp <~ pb ;; ti <~ pb ;; s <~ pn ;; t <~ pz ;; e <~ pn ;;
  pw' <~ popt (apower_of pw) ;; mo' <~ popt (amode_of mo) ;; fa' <~ popt (afan_of fa) ;;
  pret (mkAS n pw' mo' fa' sp ti s t e).

Definition p_timer : parser timer_data :=
  n <~ pn ;; d1 <~ pb ;; h1 <~ pn ;; m1 <~ pn ;; d2 <~ pb ;; h2 <~ pn ;; m2 <~ pn ;;
  pret (mkTD n (mkTS d1 h1 m1) (mkTS d2 h2 m2)).

Definition p_ability : parser ability :=
  n <~ pn ;; name <~ pbytes ;; modes <~ prep 5 pb ;; fans <~ prep 7 pb ;; mi <~ pn ;; ma <~ pn ;;
  gf <~ pz ;; gs <~ plist pn ;; st <~ pn ;; ct <~ pn ;;
  pret (mkAb n name modes fans mi ma (if zb gf then Some gs else None) st ct).

Definition p_all_or : parser all_or := f <~ pz ;; n <~ pn ;; pret (if zb f then Num n else All).

Definition p_sub : parser sub4 :=
  tag <~ pz ;;
  if tag =? 1 then ac <~ pn ;; f <~ pz ;; e <~ pbytes ;; pret (S_ErrMsg ac (if zb f then Some e else None))
  else if tag =? 2 then ac <~ pn ;; pret (S_ErrReq ac)
  else if tag =? 3 then l <~ plist p_ability ;; pret (S_Ability l)
  else if tag =? 4 then a <~ p_all_or ;; pret (S_AbilityReq a)
  else if tag =? 5 then l <~ plist (g <~ pn ;; b <~ pbytes ;; pret (g, b)) ;; pret (S_Names l)
  else if tag =? 6 then a <~ p_all_or ;; pret (S_NamesReq a)
  else if tag =? 7 then ac <~ pn ;; t <~ pn ;; h <~ pn ;; m <~ pn ;; t' <~ popt (timer_type_of t) ;; pret (S_QuickTimer ac t' (h * 60 + m))
  else if tag =? 8 then up <~ pb ;; vs <~ plist pbytes ;; pret (S_Version up vs)
  else if tag =? 9 then pret S_VersionReq
  else if tag =? 10 then id <~ pn ;; raw <~ pbytes ;; pret (S_Unsupported id raw)
  else fun _ => None.

Definition p_msg4 : parser msg4 :=
  tag <~ pz ;;
  if tag =? 1 then
    g <~ pn ;; pw <~ pn ;; me <~ pn ;; st <~ pz ;; sv <~ pn ;;
    pw' <~ popt (gpower_ctl_of pw) ;; me' <~ popt (gmethod_ctl_of me) ;;
    pret (M_GroupCtrl (mkGC g pw' me' (if st =? 1 then GS_Dec else if st =? 2 then GS_Inc
                                       else if st =? 3 then GS_Damper sv else if st =? 4 then GS_SetPoint sv else GS_None)))
  else if tag =? 2 then l <~ plist p_group_status ;; pret (M_GroupStatus l)
  else if tag =? 3 then pret M_GroupStatusReq
  else if tag =? 4 then
    n <~ pn ;; pw <~ pn ;; mo <~ pn ;; fa <~ pn ;; st <~ pz ;; sv <~ pn ;;
    pw' <~ popt (apower_ctl_of pw) ;;
    pret (M_AcCtrl (mkAC n pw' (amode_ctl_of mo) (afan_ctl_of fa)
                         (if st =? 1 then AS_Dec else if st =? 2 then AS_Inc else if st =? 3 then AS_Value sv else AS_None)))
  else if tag =? 5 then l <~ plist p_ac_status ;; pret (M_AcStatus l)
  else if tag =? 6 then pret M_AcStatusReq
  else if tag =? 7 then l <~ plist p_timer ;; pret (M_TimerCtrl l)
  else if tag =? 8 then l <~ plist p_timer ;; pret (M_TimerStatus l)
  else if tag =? 9 then pret M_TimerStatusReq
  else if tag =? 10 then s <~ p_sub ;; pret (M_Ext s)
  else if tag =? 11 then id <~ pn ;; raw <~ pbytes ;; pret (M_Unsupported id raw)
  else fun _ => None.

(* ---------------------------------------------------------------- model cases *)
(* [20; msg...] -> encode: [1; size_present; size; len; bytes...] or [0] *)
Definition run_enc4 (args : list Z) : list Z :=
  match p_msg4 args with
  | Some (m, _) =>
    match enc4 m with
    | Some p => [1] ++ match size4 m with Some n => [1; Z.of_nat n] | None => [0; 0] end ++ f_bytes p
    | None => [0]
    end
  | None => [-1]
  end.

(* [21; type; bytes...] -> decode: 1 :: flat message, or [0] *)
Definition run_dec4 (args : list Z) : list Z :=
  match args with
  | ty :: bs => match dec4 (zN ty) (map zN bs) with Some m => 1 :: f_msg4 m | None => [0] end
  | [] => [-1]
  end.
