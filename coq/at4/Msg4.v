(* Msg4.v — the AirTouch 4 message classes (at4/comms/*.py) as Gallina types.
   ints are N, strings are their UTF-8 bytes, temperatures are tenths of a degree (Z),
   Optional[...] is option. *)
From Coq Require Import NArith ZArith List Bool.
Import ListNotations.

(* x2A group control *)
Inductive gpower_ctl := GP_Unchanged | GP_Toggle | GP_Off | GP_On | GP_Turbo.        (* 0 1 2 3 5 *)
Inductive gmethod_ctl := GM_Unchanged | GM_Change | GM_Damper | GM_Temperature.      (* 0 1 2 3 *)
Inductive gsetting := GS_None | GS_Dec | GS_Inc | GS_Damper (p : N) | GS_SetPoint (v : N).
Record group_ctrl := mkGC { gc_group : N; gc_power : gpower_ctl; gc_method : gmethod_ctl; gc_setting : gsetting }.

(* x2B group status *)
Inductive gpower := GPS_Off | GPS_On | GPS_Turbo.                                     (* 0 1 3 *)
Inductive gmethod := GMS_Damper | GMS_Temperature.                                    (* 0 1 *)
Inductive battery := Bat_Normal | Bat_Low.                                            (* 0 1 *)
Record group_status := mkGS {
  gs_group : N; gs_power : gpower; gs_method : gmethod; gs_spill : bool; gs_turbo : bool;
  gs_sensor : bool; gs_battery : battery; gs_temp : option Z; gs_damper : N; gs_setpoint : option N }.

(* x2C AC control *)
Inductive apower_ctl := AP_Unchanged | AP_Toggle | AP_Off | AP_On.                    (* 0 1 2 3 *)
Inductive amode_ctl := AM_Auto | AM_Heat | AM_Dry | AM_Fan | AM_Cool | AM_Unchanged.  (* 0..4, 0xFF *)
Inductive afan_ctl := AF_Auto | AF_Quiet | AF_Low | AF_Medium | AF_High | AF_Powerful | AF_Turbo | AF_Unchanged. (* 0..6, 0xFF *)
Inductive asetpoint_ctl := AS_None | AS_Dec | AS_Inc | AS_Value (v : N).
Record ac_ctrl := mkAC { ac_number : N; ac_power : apower_ctl; ac_mode : amode_ctl; ac_fan : afan_ctl; ac_sp : asetpoint_ctl }.

(* x2D AC status *)
Inductive apower := APS_Off | APS_On.                                                 (* 0 1 *)
Inductive amode := AMS_Auto | AMS_Heat | AMS_Dry | AMS_Fan | AMS_Cool | AMS_AutoHeat | AMS_AutoCool.  (* 0..4 8 9 *)
Inductive afan := AFS_Auto | AFS_Quiet | AFS_Low | AFS_Medium | AFS_High | AFS_Powerful | AFS_Turbo.  (* 0..6 *)
Record ac_status := mkAS {
  as_number : N; as_power : apower; as_mode : amode; as_fan : afan; as_spill : bool; as_timer : bool;
  as_setpoint : N; as_temp : Z; as_error : N }.

(* x36 / x37 AC timers *)
Record timer_state := mkTS { ts_disabled : bool; ts_hour : N; ts_minute : N }.
Record timer_data := mkTD { td_number : N; td_on : timer_state; td_off : timer_state }.

(* 0x1F sub-messages *)
Record ability := mkAb {
  ab_number : N; ab_name : list N;
  ab_modes : list bool;        (* AUTO HEAT DRY FAN COOL *)
  ab_fans : list bool;         (* AUTO QUIET LOW MEDIUM HIGH POWERFUL TURBO *)
  ab_min : N; ab_max : N;
  ab_groups : option (list N); (* the set of group numbers, ascending *)
  ab_start : N; ab_count : N }.

Inductive all_or := All | Num (n : N).
Inductive timer_type := TT_Off | TT_On.                                               (* 0 1 *)

Inductive sub4 :=
| S_ErrMsg (ac : N) (info : option (list N))
| S_ErrReq (ac : N)
| S_Ability (l : list ability)
| S_AbilityReq (a : all_or)
| S_Names (l : list (N * list N))       (* dict in insertion order, keys distinct *)
| S_NamesReq (a : all_or)
| S_QuickTimer (ac : N) (t : timer_type) (total_minutes : N)     (* timedelta, whole minutes *)
| S_Version (update : bool) (versions : list (list N))
| S_VersionReq
| S_Unsupported (id : N) (raw : list N).

Inductive msg4 :=
| M_GroupCtrl (c : group_ctrl)
| M_GroupStatus (l : list group_status)
| M_GroupStatusReq
| M_AcCtrl (c : ac_ctrl)
| M_AcStatus (l : list ac_status)
| M_AcStatusReq
| M_TimerCtrl (l : list timer_data)
| M_TimerStatus (l : list timer_data)
| M_TimerStatusReq
| M_Ext (s : sub4)
| M_Unsupported (id : N) (raw : list N).

Definition type_of (m : msg4) : N :=
  match m with
  | M_GroupCtrl _ => 0x2A | M_GroupStatus _ | M_GroupStatusReq => 0x2B
  | M_AcCtrl _ => 0x2C | M_AcStatus _ | M_AcStatusReq => 0x2D
  | M_TimerCtrl _ => 0x36 | M_TimerStatus _ | M_TimerStatusReq => 0x37
  | M_Ext _ => 0x1F | M_Unsupported id _ => id
  end%N.
