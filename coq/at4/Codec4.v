(* Codec4.v — model of the AirTouch 4 message encoders, size() and decoders
   (at4/comms/x*.py, x1F_ext.py, registry.py).  Every function is total: an exception
   of the Python code (struct.error, ValueError, DecodeError, IndexError, Unicode error)
   is None.  No proofs here. *)
From Coq Require Import NArith ZArith List Bool.
From PV Require Import base.Res base.Utf8 at4.Msg4.
Import ListNotations.
Open Scope N_scope.

(* ----------------------------------------------------------------- enums *)
Definition gpower_ctl_code (p : gpower_ctl) : N :=
  match p with GP_Unchanged => 0 | GP_Toggle => 1 | GP_Off => 2 | GP_On => 3 | GP_Turbo => 5 end.
Definition gpower_ctl_of (c : N) : option gpower_ctl :=
  match c with 0 => Some GP_Unchanged | 1 => Some GP_Toggle | 2 => Some GP_Off | 3 => Some GP_On | 5 => Some GP_Turbo | _ => None end.
Definition gmethod_ctl_code (m : gmethod_ctl) : N :=
  match m with GM_Unchanged => 0 | GM_Change => 1 | GM_Damper => 2 | GM_Temperature => 3 end.
Definition gmethod_ctl_of (c : N) : option gmethod_ctl :=
  match c with 0 => Some GM_Unchanged | 1 => Some GM_Change | 2 => Some GM_Damper | 3 => Some GM_Temperature | _ => None end.

Definition gpower_code (p : gpower) : N := match p with GPS_Off => 0 | GPS_On => 1 | GPS_Turbo => 3 end.
Definition gpower_of (c : N) : option gpower :=
  match c with 0 => Some GPS_Off | 1 => Some GPS_On | 3 => Some GPS_Turbo | _ => None end.
Definition gmethod_code (m : gmethod) : N := match m with GMS_Damper => 0 | GMS_Temperature => 1 end.
Definition gmethod_of (c : N) : option gmethod :=
  match c with 0 => Some GMS_Damper | 1 => Some GMS_Temperature | _ => None end.
Definition battery_code (b : battery) : N := match b with Bat_Normal => 0 | Bat_Low => 1 end.
Definition battery_of (c : N) : option battery :=
  match c with 0 => Some Bat_Normal | 1 => Some Bat_Low | _ => None end.

Definition apower_ctl_code (p : apower_ctl) : N :=
  match p with AP_Unchanged => 0 | AP_Toggle => 1 | AP_Off => 2 | AP_On => 3 end.
Definition apower_ctl_of (c : N) : option apower_ctl :=
  match c with 0 => Some AP_Unchanged | 1 => Some AP_Toggle | 2 => Some AP_Off | 3 => Some AP_On | _ => None end.
Definition amode_ctl_code (m : amode_ctl) : N :=
  match m with AM_Auto => 0 | AM_Heat => 1 | AM_Dry => 2 | AM_Fan => 3 | AM_Cool => 4 | AM_Unchanged => 0xFF end.
(* _missing_: every other code is UNCHANGED *)
Definition amode_ctl_of (c : N) : amode_ctl :=
  match c with 0 => AM_Auto | 1 => AM_Heat | 2 => AM_Dry | 3 => AM_Fan | 4 => AM_Cool | _ => AM_Unchanged end.
Definition afan_ctl_code (f : afan_ctl) : N :=
  match f with AF_Auto => 0 | AF_Quiet => 1 | AF_Low => 2 | AF_Medium => 3 | AF_High => 4 | AF_Powerful => 5
             | AF_Turbo => 6 | AF_Unchanged => 0xFF end.
Definition afan_ctl_of (c : N) : afan_ctl :=
  match c with 0 => AF_Auto | 1 => AF_Quiet | 2 => AF_Low | 3 => AF_Medium | 4 => AF_High | 5 => AF_Powerful
             | 6 => AF_Turbo | _ => AF_Unchanged end.

Definition apower_code (p : apower) : N := match p with APS_Off => 0 | APS_On => 1 end.
Definition apower_of (c : N) : option apower := match c with 0 => Some APS_Off | 1 => Some APS_On | _ => None end.
Definition amode_code (m : amode) : N :=
  match m with AMS_Auto => 0 | AMS_Heat => 1 | AMS_Dry => 2 | AMS_Fan => 3 | AMS_Cool => 4
             | AMS_AutoHeat => 8 | AMS_AutoCool => 9 end.
Definition amode_of (c : N) : option amode :=
  match c with 0 => Some AMS_Auto | 1 => Some AMS_Heat | 2 => Some AMS_Dry | 3 => Some AMS_Fan | 4 => Some AMS_Cool
             | 8 => Some AMS_AutoHeat | 9 => Some AMS_AutoCool | _ => None end.
Definition afan_code (f : afan) : N :=
  match f with AFS_Auto => 0 | AFS_Quiet => 1 | AFS_Low => 2 | AFS_Medium => 3 | AFS_High => 4
             | AFS_Powerful => 5 | AFS_Turbo => 6 end.
Definition afan_of (c : N) : option afan :=
  match c with 0 => Some AFS_Auto | 1 => Some AFS_Quiet | 2 => Some AFS_Low | 3 => Some AFS_Medium | 4 => Some AFS_High
             | 5 => Some AFS_Powerful | 6 => Some AFS_Turbo | _ => None end.

Definition timer_type_code (t : timer_type) : N := match t with TT_Off => 0 | TT_On => 1 end.
Definition timer_type_of (c : N) : option timer_type := match c with 0 => Some TT_Off | 1 => Some TT_On | _ => None end.

(* ------------------------------------------------------------ temperature *)
(* utils.encode_temperature on t = d/10: (int(t*10.0 + 500) << 5) & 0xFFE0.  int() of a
   negative value and values beyond 16 bits are outside the model's domain: None. *)
Definition enc_temp (d : Z) : option N :=
  let v := (d + 500)%Z in
  if (0 <=? v)%Z then Some (N.land (N.shiftl (Z.to_N v) 5) 0xFFE0) else None.
(* utils.decode_temperature: (((raw & 0xFFE0) >> 5) - 500) / 10.0, in tenths *)
Definition dec_temp (raw : N) : Z := (Z.of_N (N.shiftr (N.land raw 0xFFE0) 5) - 500)%Z.

(* ------------------------------------------------------ x2A group control *)
Definition enc_group_ctrl (c : group_ctrl) : option (list N) :=
  let method := N.land (N.shiftl (gmethod_ctl_code (gc_method c)) 3) 0x18 in
  let '(st, sv) := match gc_setting c with
                   | GS_None => (0, 0) | GS_Dec => (2, 0) | GS_Inc => (3, 0)
                   | GS_Damper p => (4, p) | GS_SetPoint v => (5, v) end in
  let b2 := N.shiftl st 5 + method + gpower_ctl_code (gc_power c) in
  g <- pack_B (gc_group c) ;; b <- pack_B b2 ;; v <- pack_B sv ;; Some (g ++ b ++ v ++ [0]).

Definition dec_group_ctrl (p : list N) : option (group_ctrl * list N) :=
  match p with
  | g :: b2 :: sv :: _ :: rest =>
    pw <- gpower_ctl_of (N.land b2 0x07) ;;
    me <- gmethod_ctl_of (N.shiftr (N.land b2 0x18) 3) ;;
    let st := N.shiftr (N.land b2 0xE0) 5 in
    let setting := if st =? 2 then GS_Dec else if st =? 3 then GS_Inc
                   else if st =? 5 then GS_SetPoint sv else if st =? 4 then GS_Damper sv else GS_None in
    Some (mkGC g pw me setting, rest)
  | _ => None
  end.

(* ------------------------------------------------------- x2B group status *)
Definition enc_group_status1 (g : group_status) : option (list N) :=
  let b1 := N.shiftl (gpower_code (gs_power g)) 6 + N.land (gs_group g) 0x3F in
  let b2 := N.shiftl (gmethod_code (gs_method g)) 7 + N.land (gs_damper g) 0x7F in
  let sp := match gs_setpoint g with
            | Some v => if v =? 0 then 0 else N.land v 0x3F     (* "if set_point:" *)
            | None => 0 end in
  let b3 := N.shiftl (battery_code (gs_battery g)) 7 + b2n (gs_turbo g) 6 + sp in
  t <- match gs_temp g with Some d => enc_temp d | None => Some 0xFF00 end ;;
  let b56 := t + b2n (gs_spill g) 4 in
  x1 <- pack_B b1 ;; x2 <- pack_B b2 ;; x3 <- pack_B b3 ;; x4 <- pack_B (b2n (gs_sensor g) 7) ;;
  x56 <- pack_H b56 ;; Some (x1 ++ x2 ++ x3 ++ x4 ++ x56).

Definition dec_group_status1 (r : list N) : option group_status :=
  match r with
  | [b1; b2; b3; b4; b5; b6] =>
    let b56 := b5 * 256 + b6 in
    let sensor := bit b4 7 in
    pw <- gpower_of (N.shiftr (N.land b1 0xC0) 6) ;;
    me <- gmethod_of (N.shiftr (N.land b2 0x80) 7) ;;
    ba <- battery_of (N.shiftr (N.land b3 0x80) 7) ;;
    let et := N.land b56 0xFFE0 in
    let temp := if negb sensor || (N.land b56 0xFF00 =? 0xFF00) then None else Some (dec_temp et) in
    let sp := if sensor then Some (N.land b3 0x3F) else None in
    Some (mkGS (N.land b1 0x3F) pw me (bit b56 4) (bit b3 6) sensor ba temp (N.land b2 0x7F) sp)
  | _ => None
  end.

(* a repeated record message: concatenation of the encoded records *)
Definition enc_list {A} (f : A -> option (list N)) (l : list A) : option (list N) :=
  rs <- sequence (map f l) ;; Some (concat rs).

Definition dec_list {A} (n : nat) (f : list N -> option A) (p : list N) : option (list A) :=
  cs <- chunks (S (length p)) n p ;; sequence (map f cs).

(* --------------------------------------------------------- x2C AC control *)
Definition enc_ac_ctrl (c : ac_ctrl) : option (list N) :=
  let b1 := N.land (N.shiftl (apower_ctl_code (ac_power c)) 6) 0xC0 + N.land (ac_number c) 0x3F in
  let b2 := N.land (N.shiftl (amode_ctl_code (ac_mode c)) 4) 0xF0 + N.land (afan_ctl_code (ac_fan c)) 0x0F in
  let '(ct, v) := match ac_sp c with
                  | AS_None => (0, 0x3F) | AS_Dec => (2, 0x3F) | AS_Inc => (3, 0x3F) | AS_Value v => (1, v) end in
  let b3 := N.land (N.shiftl ct 6) 0xC0 + N.land v 0x3F in
  x1 <- pack_B b1 ;; x2 <- pack_B b2 ;; x3 <- pack_B b3 ;; Some (x1 ++ x2 ++ x3 ++ [0]).

Definition dec_ac_ctrl (p : list N) : option (ac_ctrl * list N) :=
  match p with
  | b1 :: b2 :: b3 :: _ :: rest =>
    pw <- apower_ctl_of (N.shiftr (N.land b1 0xC0) 6) ;;
    let ct := N.shiftr (N.land b3 0xC0) 6 in
    let sp := if ct =? 3 then AS_Inc else if ct =? 2 then AS_Dec
              else if ct =? 1 then AS_Value (N.land b3 0x3F) else AS_None in
    Some (mkAC (N.land b1 0x3F) pw (amode_ctl_of (N.shiftr (N.land b2 0xF0) 4))
               (afan_ctl_of (N.land b2 0x0F)) sp, rest)
  | _ => None
  end.

(* ---------------------------------------------------------- x2D AC status *)
Definition enc_ac_status1 (a : ac_status) : option (list N) :=
  let b1 := N.land (N.shiftl (apower_code (as_power a)) 6) 0xC0 + N.land (as_number a) 0x3F in
  let b2 := N.land (N.shiftl (amode_code (as_mode a)) 4) 0xF0 + N.land (afan_code (as_fan a)) 0x0F in
  let b3 := b2n (as_spill a) 7 + b2n (as_timer a) 6 + N.land (as_setpoint a) 0x3F in
  t <- enc_temp (as_temp a) ;;
  x1 <- pack_B b1 ;; x2 <- pack_B b2 ;; x3 <- pack_B b3 ;; xt <- pack_H t ;; xe <- pack_H (as_error a) ;;
  Some (x1 ++ x2 ++ x3 ++ [0] ++ xt ++ xe).

Definition dec_ac_status1 (r : list N) : option ac_status :=
  match r with
  | [b1; b2; b3; _; t1; t0; e1; e0] =>
    pw <- apower_of (N.shiftr (N.land b1 0xC0) 6) ;;
    mo <- amode_of (N.shiftr (N.land b2 0xF0) 4) ;;
    fa <- afan_of (N.land b2 0x0F) ;;
    Some (mkAS (N.land b1 0x3F) pw mo fa (bit b3 7) (bit b3 6) (N.land b3 0x3F)
               (dec_temp (t1 * 256 + t0)) (e1 * 256 + e0))
  | _ => None
  end.

(* ------------------------------------------------------ x36 / x37 timers *)
Definition enc_timer_state (t : timer_state) : list N :=
  [b2n (ts_disabled t) 7 + N.land (ts_hour t) 0x1F; N.land (ts_minute t) 0x3F].

Definition dec_timer_state (b1 b2 : N) : timer_state :=
  mkTS (bit b1 7) (N.land b1 0x1F) (N.land b2 0x3F).

(* the encoder writes record ac_number at offset 8 * ac_number of a 32-byte buffer;
   pack_into beyond the buffer raises struct.error; later records overwrite earlier *)
Fixpoint set_at (l : list N) (off : nat) (v : list N) : list N :=
  match off, l with
  | O, _ => v ++ skipn (length v) l
  | S o, x :: r => x :: set_at r o v
  | S _, [] => []
  end.

Definition enc_timers (l : list timer_data) : option (list N) :=
  fold_left (fun acc t =>
    buf <- acc ;;
    if td_number t <? 4 then
      Some (set_at buf (N.to_nat (td_number t) * 8) (enc_timer_state (td_on t) ++ enc_timer_state (td_off t)))
    else None) l (Some (repeat 0 32)).

Definition dec_timer_rec (i : nat) (r : list N) : option timer_data :=
  match r with
  | a1 :: a2 :: b1 :: b2 :: _ => Some (mkTD (N.of_nat i) (dec_timer_state a1 a2) (dec_timer_state b1 b2))
  | _ => None
  end.

Fixpoint dec_timers_from (i : nat) (cs : list (list N)) : option (list timer_data) :=
  match cs with
  | [] => Some []
  | c :: r => t <- dec_timer_rec i c ;; ts <- dec_timers_from (S i) r ;; Some (t :: ts)
  end.

Definition dec_timers (p : list N) : option (list timer_data) :=
  cs <- chunks (S (length p)) 8 p ;; dec_timers_from 0 cs.

(* ---------------------------------------------------- 0x1F sub-messages *)
Definition bits_byte (l : list bool) : N :=
  fst (fold_left (fun '(acc, off) b => (acc + b2n b off, off + 1)) l (0, 0)).

Definition group_bitmap (gs : list N) : N := fold_left (fun acc g => acc + N.shiftl 1 g) gs 0.

Definition groups_of_bitmap (v : N) : list N := filter (fun g => bit v g) (below 16).

Definition enc_ability1 (a : ability) : option (list N) :=
  let fl := match ab_groups a with Some _ => 24 | None => 22 end in
  let name := ab_name a in
  x0 <- pack_B (ab_number a) ;; x1 <- pack_B fl ;;
  x2 <- pack_B (ab_start a) ;; x3 <- pack_B (ab_count a) ;;
  x4 <- pack_B (bits_byte (ab_modes a)) ;; x5 <- pack_B (bits_byte (ab_fans a)) ;;
  x6 <- pack_B (ab_min a) ;; x7 <- pack_B (ab_max a) ;;
  gb <- match ab_groups a with
        | Some gs => let v := group_bitmap gs in
                     if v <? 65536 then Some [v mod 256; v / 256] else None      (* "<H" little endian *)
        | None => Some [] end ;;
  Some (x0 ++ x1 ++ pad_to 16 name ++ x2 ++ x3 ++ x4 ++ x5 ++ x6 ++ x7 ++ gb).

(* the decoder walks the buffer; fuel = length bounds the number of records *)
Fixpoint dec_abilities (fuel : nat) (p : list N) : option (list ability) :=
  match p with
  | [] => Some []
  | _ =>
    match fuel with
    | O => None
    | S f =>
      if Nat.ltb (length p) 24 then None else
      let h := firstn 24 p in
      let r := skipn 24 p in
      let num := nth 0 h 0 in let fl := nth 1 h 0 in
      let name := firstn 16 (skipn 2 h) in
      let b23 := nth 20 h 0 in let b24 := nth 21 h 0 in
      let '(groups, r') :=
        if fl =? 24 then
          match r with
          | g0 :: g1 :: r2 => (Some (Some (groups_of_bitmap (g0 + g1 * 256))), r2)
          | _ => (None, r)
          end
        else (Some None, r) in
      gs <- groups ;;
      if negb (utf8_valid (cstring name)) then None else
      rest <- dec_abilities f r' ;;
      Some (mkAb num (cstring name)
                 [bit b23 0; bit b23 1; bit b23 2; bit b23 3; bit b23 4]
                 [bit b24 0; bit b24 1; bit b24 2; bit b24 3; bit b24 4; bit b24 5; bit b24 6]
                 (nth 22 h 0) (nth 23 h 0) gs (nth 18 h 0) (nth 19 h 0) :: rest)
    end
  end.

Definition enc_name1 (e : N * list N) : option (list N) :=
  x <- pack_B (fst e) ;; Some (x ++ pad_to 8 (snd e)).

Definition dec_name1 (r : list N) : option (N * list N) :=
  match r with
  | g :: name => let s := cstring name in if utf8_valid s then Some (g, s) else None
  | [] => None
  end.

(* dict assignment in order: a later entry for the same key replaces the value in place *)
Fixpoint dict_set (d : list (N * list N)) (k : N) (v : list N) : list (N * list N) :=
  match d with
  | [] => [(k, v)]
  | (k', v') :: r => if k =? k' then (k, v) :: r else (k', v') :: dict_set r k v
  end.
Definition dict_of (l : list (N * list N)) : list (N * list N) :=
  fold_left (fun d e => dict_set d (fst e) (snd e)) l [].

(* join with a one-byte separator / split on it *)
Fixpoint join_sep (sep : N) (l : list (list N)) : list N :=
  match l with [] => [] | [x] => x | x :: r => x ++ sep :: join_sep sep r end.

Fixpoint split_sep_aux (sep : N) (cur : list N) (l : list N) : list (list N) :=
  match l with
  | [] => [rev cur]
  | b :: r => if b =? sep then rev cur :: split_sep_aux sep [] r else split_sep_aux sep (b :: cur) r
  end.
Definition split_sep (sep : N) (l : list N) : list (list N) := split_sep_aux sep [] l.

Definition VERSION_SEP : N := 124.   (* "|" *)

Definition enc_sub (s : sub4) : option (N * list N) :=      (* (sub id, body) *)
  match s with
  | S_ErrMsg ac info =>
    let n := N.land ac 0xFF in
    match info with
    | Some ((_ :: _) as e) => l <- pack_B (N.of_nat (length e)) ;; Some (0xFF10, n :: l ++ e)
    | _ => Some (0xFF10, [n; 0])
    end
  | S_ErrReq ac => Some (0xFF10, [N.land ac 0xFF])
  | S_Ability l => b <- enc_list enc_ability1 l ;; Some (0xFF11, b)
  | S_AbilityReq All => Some (0xFF11, [])
  | S_AbilityReq (Num n) => b <- pack_B n ;; Some (0xFF11, b)
  | S_Names l => b <- enc_list enc_name1 l ;; Some (0xFF12, b)
  | S_NamesReq All => Some (0xFF12, [])
  | S_NamesReq (Num n) => b <- pack_B n ;; Some (0xFF12, b)
  | S_QuickTimer ac t tm =>
    a <- pack_B ac ;;
    Some (0xFF20, a ++ [N.land (timer_type_code t) 0xFF; N.land ((tm / 60) mod 24) 0xFF; N.land (tm mod 60) 0xFF])
  | S_Version up vs =>
    let v := join_sep VERSION_SEP vs in
    l <- pack_B (N.of_nat (length v)) ;; Some (0xFF30, (if up then 1 else 0) :: l ++ v)
  | S_VersionReq => Some (0xFF30, [])
  | S_Unsupported _ _ => None                      (* NotImplementedError *)
  end.

Definition dec_sub (id : N) (len : nat) (b : list N) : option (sub4 * list N) :=
  if id =? 0xFF10 then
    match b with
    | [] => None
    | ac :: r =>
      if Nat.eqb len 1 then Some (S_ErrReq ac, r) else
      match r with
      | [] => None
      | el :: r2 =>
        let n := N.to_nat el in
        let e := firstn n r2 in
        if el =? 0 then Some (S_ErrMsg ac None, skipn n r2)
        else if utf8_valid e then Some (S_ErrMsg ac (Some e), skipn n r2) else None
      end
    end
  else if id =? 0xFF11 then
    if Nat.eqb len 0 then Some (S_AbilityReq All, b)
    else if Nat.eqb len 1 then match b with x :: r => Some (S_AbilityReq (Num x), r) | [] => None end
    else l <- dec_abilities (S len) (firstn len b) ;; Some (S_Ability l, skipn len b)
  else if id =? 0xFF12 then
    if Nat.eqb len 0 then Some (S_NamesReq All, b)
    else if Nat.eqb len 1 then match b with x :: r => Some (S_NamesReq (Num x), r) | [] => None end
    else if negb (Nat.eqb (len mod 9) 0) then None
    else l <- dec_list 9 dec_name1 (firstn len b) ;;
         if Nat.ltb (length b) len then None else Some (S_Names (dict_of l), skipn len b)
  else if id =? 0xFF20 then
    match b with
    | ac :: t :: h :: m :: r => tt <- timer_type_of t ;; Some (S_QuickTimer ac tt (h * 60 + m), r)
    | _ => None
    end
  else if id =? 0xFF30 then
    if Nat.eqb len 0 then Some (S_VersionReq, b) else
    match b with
    | up :: vl :: r =>
      let n := N.to_nat vl in
      let v := firstn n r in
      if utf8_valid v then Some (S_Version (negb (up =? 0)) (split_sep VERSION_SEP v), skipn n r) else None
    | _ => None
    end
  else Some (S_Unsupported id (firstn len b), skipn len b).

(* ------------------------------------------------------------ top level *)
Definition enc4 (m : msg4) : option (list N) :=
  match m with
  | M_GroupCtrl c => enc_group_ctrl c
  | M_GroupStatus l => enc_list enc_group_status1 l
  | M_GroupStatusReq => Some []
  | M_AcCtrl c => enc_ac_ctrl c
  | M_AcStatus l => enc_list enc_ac_status1 l
  | M_AcStatusReq => Some []
  | M_TimerCtrl l | M_TimerStatus l => enc_timers l
  | M_TimerStatusReq => Some []
  | M_Ext s => x <- enc_sub s ;; Some ([fst x / 256; fst x mod 256] ++ snd x)
  | M_Unsupported _ _ => None
  end.

(* MessageEncoder.size(): computed before the header is built *)
Definition size4 (m : msg4) : option nat :=
  match m with
  | M_GroupCtrl _ => Some 4%nat
  | M_GroupStatus l => Some (6 * length l)%nat
  | M_GroupStatusReq => Some 0%nat
  | M_AcCtrl _ => Some 4%nat
  | M_AcStatus l => Some (8 * length l)%nat
  | M_AcStatusReq => Some 0%nat
  | M_TimerCtrl _ | M_TimerStatus _ => Some 32%nat
  | M_TimerStatusReq => Some 0%nat
  | M_Ext s =>
    match s with
    | S_ErrMsg _ (Some ((_ :: _) as e)) => Some (2 + (2 + length e))%nat
    | S_ErrMsg _ _ => Some (2 + 2)%nat
    | S_ErrReq _ => Some (2 + 1)%nat
    | S_Ability l => Some (2 + fold_left (fun acc a => acc + 24 + match ab_groups a with Some _ => 2 | None => 0 end) l 0)%nat
    | S_AbilityReq All => Some 2%nat
    | S_AbilityReq (Num _) => Some 3%nat
    | S_Names l => Some (2 + 9 * length l)%nat
    | S_NamesReq All => Some 2%nat
    | S_NamesReq (Num _) => Some 3%nat
    | S_QuickTimer _ _ _ => Some (2 + 4)%nat
    | S_Version _ vs => Some (2 + (2 + length (join_sep VERSION_SEP vs)))%nat
    | S_VersionReq => Some 2%nat
    | S_Unsupported _ _ => None
    end
  | M_Unsupported _ _ => None
  end.

(* registry.get_decoder(type).decode(payload, header) followed by assert_complete:
   Some m only if everything was consumed *)
Definition complete {A} (r : option (A * list N)) : option A :=
  x <- r ;; match snd x with [] => Some (fst x) | _ => None end.

Definition dec4 (ty : N) (p : list N) : option msg4 :=
  let len := length p in
  if ty =? 0x2A then c <- complete (dec_group_ctrl p) ;; Some (M_GroupCtrl c)
  else if ty =? 0x2B then
    if Nat.eqb len 0 then Some M_GroupStatusReq
    else if negb (Nat.eqb (len mod 6) 0) then None
    else l <- dec_list 6 dec_group_status1 p ;; Some (M_GroupStatus l)
  else if ty =? 0x2C then c <- complete (dec_ac_ctrl p) ;; Some (M_AcCtrl c)
  else if ty =? 0x2D then
    if Nat.eqb len 0 then Some M_AcStatusReq
    else if negb (Nat.eqb (len mod 8) 0) then None
    else l <- dec_list 8 dec_ac_status1 p ;; Some (M_AcStatus l)
  else if ty =? 0x36 then
    if Nat.eqb len 0 then None
    else if negb (Nat.eqb (len mod 8) 0) then None
    else l <- dec_timers p ;; Some (M_TimerCtrl l)
  else if ty =? 0x37 then
    if Nat.eqb len 0 then Some M_TimerStatusReq
    else if negb (Nat.eqb (len mod 8) 0) then None
    else l <- dec_timers p ;; Some (M_TimerStatus l)
  else if ty =? 0x1F then
    match p with
    | i1 :: i0 :: b => s <- complete (dec_sub (i1 * 256 + i0) (length b) b) ;; Some (M_Ext s)
    | _ => None
    end
  else Some (M_Unsupported ty p).
