(* Codec4Proofs.v — C03 for AirTouch 4: every message in the domain encodes to a payload
   of the announced size which decodes back to the same message. *)
From Coq Require Import NArith ZArith List Bool Lia Arith.
From PV Require Import base.Res base.Utf8 base.ListX at4.Msg4 at4.Codec4.
Import ListNotations.
Open Scope N_scope.

(* ------------------------------------------------------------ finite sweeps *)
Lemma below_forall (f : N -> bool) n :
  forallb f (below n) = true -> forall i, i < N.of_nat n -> f i = true.
Proof.
  intros H i Hi. rewrite forallb_forall in H. apply H.
  unfold below. apply in_map_iff. exists (N.to_nat i). split; [apply N2Nat.id|].
  apply in_seq. lia.
Qed.

Lemma below2_forall (f : N -> N -> bool) n m :
  forallb (fun a => forallb (f a) (below m)) (below n) = true ->
  forall a b, a < N.of_nat n -> b < N.of_nat m -> f a b = true.
Proof. intros H a b Ha Hb. exact (below_forall _ _ (below_forall _ _ H a Ha) b Hb). Qed.

Lemma below3_forall (f : N -> N -> N -> bool) n m k :
  forallb (fun a => forallb (fun b => forallb (f a b) (below k)) (below m)) (below n) = true ->
  forall a b c, a < N.of_nat n -> b < N.of_nat m -> c < N.of_nat k -> f a b c = true.
Proof. intros H a b c Ha Hb Hc. exact (below_forall _ _ (below2_forall _ _ _ H a b Ha Hb) c Hc). Qed.

Lemma pack_B_ok v : v < 256 -> pack_B v = Some [v].
Proof. intros H. unfold pack_B. apply N.ltb_lt in H. now rewrite H. Qed.

Lemma pack_H_ok v : v < 65536 -> pack_H v = Some [v / 256; v mod 256].
Proof. intros H. unfold pack_H. apply N.ltb_lt in H. now rewrite H. Qed.

(* ------------------------------------------------------- repeated records *)
Lemma chunks_step fuel n l : l <> [] -> (n <= length l)%nat ->
  chunks (S fuel) n l = (rs <- chunks fuel n (skipn n l) ;; Some (firstn n l :: rs)).
Proof.
  intros Hne Hl. destruct l as [|x l]; [contradiction|]. cbn [chunks].
  assert (Nat.ltb (length (x :: l)) n = false) as -> by (apply Nat.ltb_ge; exact Hl). reflexivity.
Qed.

Lemma chunks_concat n : forall (rs : list (list N)) fuel,
  (0 < n)%nat -> Forall (fun r => length r = n) rs -> (length rs <= fuel)%nat ->
  chunks fuel n (concat rs) = Some rs.
Proof.
  induction rs as [|r rs IH]; intros fuel Hn Hf Hfuel.
  - destruct fuel; reflexivity.
  - inversion Hf as [|? ? Hr Hrs]; subst.
    destruct fuel as [|fuel]; [cbn in Hfuel; lia|].
    cbn [concat]. rewrite chunks_step.
    + rewrite skipn_app, skipn_all, Nat.sub_diag. cbn [skipn app].
      rewrite (IH fuel Hn Hrs ltac:(cbn in Hfuel; lia)). cbn [obind].
      rewrite firstn_app, firstn_all, Nat.sub_diag. cbn [firstn]. now rewrite app_nil_r.
    + destruct r; [cbn in Hn; lia|discriminate].
    + rewrite app_length. lia.
Qed.

Lemma sequence_map_some {A B} (f : A -> option B) (g : A -> B) l :
  (forall a, In a l -> f a = Some (g a)) -> sequence (map f l) = Some (map g l).
Proof.
  induction l as [|a l IH]; intros H; cbn; [reflexivity|].
  rewrite (H a (or_introl eq_refl)). cbn. rewrite IH; [reflexivity|]. intros x Hx. apply H. now right.
Qed.

(* per-record round trip lifts to the list encoders *)
Lemma list_roundtrip {A} (enc : A -> option (list N)) (dec : list N -> option A) n (l : list A) :
  (0 < n)%nat ->
  (forall a, In a l -> exists r, enc a = Some r /\ length r = n /\ dec r = Some a) ->
  exists p, enc_list enc l = Some p /\ length p = (n * length l)%nat /\ dec_list n dec p = Some l.
Proof.
  intros Hn H.
  assert (G : exists rs, sequence (map enc l) = Some rs /\ Forall (fun r => length r = n) rs /\
                         length rs = length l /\ sequence (map dec rs) = Some l).
  { induction l as [|a l IH]; cbn.
    - exists []. repeat split; constructor.
    - destruct (H a (or_introl eq_refl)) as [r [E [L D]]].
      destruct IH as [rs [S1 [F [Ln S2]]]]; [intros x Hx; apply H; now right|].
      exists (r :: rs). rewrite E, S1. cbn. rewrite D, S2. cbn. repeat split; auto. }
  destruct G as [rs [S1 [F [Ln S2]]]].
  exists (concat rs). unfold enc_list, dec_list. rewrite S1. cbn [obind]. split; [reflexivity|]. split.
  - clear - F Ln. revert l Ln. induction F as [|r rs Hr F IH]; intros l Ln; destruct l; cbn in *; try lia.
    rewrite app_length, Hr. rewrite (IH l) by lia. lia.
  - assert (length (concat rs) >= length rs)%nat.
    { clear - F Hn. induction F as [|r rs Hr F IH]; cbn; [lia|]. rewrite app_length. lia. }
    rewrite (chunks_concat n rs (S (length (concat rs))) Hn F ltac:(lia)). cbn [obind]. exact S2.
Qed.

(* --------------------------------------------------------------- enum codes *)
Lemma gpower_ctl_rt p : gpower_ctl_of (gpower_ctl_code p) = Some p. Proof. destruct p; reflexivity. Qed.
Lemma gmethod_ctl_rt p : gmethod_ctl_of (gmethod_ctl_code p) = Some p. Proof. destruct p; reflexivity. Qed.
Lemma gpower_rt p : gpower_of (gpower_code p) = Some p. Proof. destruct p; reflexivity. Qed.
Lemma gmethod_rt p : gmethod_of (gmethod_code p) = Some p. Proof. destruct p; reflexivity. Qed.
Lemma battery_rt p : battery_of (battery_code p) = Some p. Proof. destruct p; reflexivity. Qed.
Lemma apower_ctl_rt p : apower_ctl_of (apower_ctl_code p) = Some p. Proof. destruct p; reflexivity. Qed.
Lemma apower_rt p : apower_of (apower_code p) = Some p. Proof. destruct p; reflexivity. Qed.
Lemma amode_rt p : amode_of (amode_code p) = Some p. Proof. destruct p; reflexivity. Qed.
Lemma afan_rt p : afan_of (afan_code p) = Some p. Proof. destruct p; reflexivity. Qed.
Lemma timer_type_rt p : timer_type_of (timer_type_code p) = Some p. Proof. destruct p; reflexivity. Qed.

(* ------------------------------------------------------ x2A group control *)
Definition dom_group_ctrl (c : group_ctrl) : bool :=
  (gc_group c <? 256) &&
  match gc_setting c with GS_Damper p => p <? 256 | GS_SetPoint v => v <? 256 | _ => true end.

Lemma group_ctrl_roundtrip c : dom_group_ctrl c = true ->
  exists p, enc_group_ctrl c = Some p /\ length p = 4%nat /\ dec_group_ctrl p = Some (c, []).
Proof.
  destruct c as [g pw me st]. unfold dom_group_ctrl. cbn [gc_group gc_setting].
  intros H. apply andb_prop in H as [Hg Hs]. apply N.ltb_lt in Hg.
  unfold enc_group_ctrl. cbn [gc_group gc_power gc_method gc_setting].
  rewrite (pack_B_ok g Hg).
  destruct st as [| | |p|v]; try apply N.ltb_lt in Hs;
    destruct pw, me; cbn -[pack_B]; rewrite ?(pack_B_ok _ Hs); cbn;
    eexists; (split; [reflexivity|split; [reflexivity|reflexivity]]).
Qed.

(* --------------------------------------------------------- x2C AC control *)
Definition dom_ac_ctrl (c : ac_ctrl) : bool :=
  (ac_number c <? 64) && match ac_sp c with AS_Value v => v <? 64 | _ => true end.

Lemma ac_b1_sweep :
  forallb (fun n => forallb (fun pw =>
    let b1 := N.land (N.shiftl pw 6) 0xC0 + N.land n 0x3F in
    (b1 <? 256) && (N.land b1 0x3F =? n) && (N.shiftr (N.land b1 0xC0) 6 =? pw)) (below 4)) (below 64) = true.
Proof. vm_compute. reflexivity. Qed.

Lemma ac_b3_sweep :
  forallb (fun ct => forallb (fun v =>
    let b3 := N.land (N.shiftl ct 6) 0xC0 + N.land v 0x3F in
    (b3 <? 256) && (N.land b3 0x3F =? v) && (N.shiftr (N.land b3 0xC0) 6 =? ct)) (below 64)) (below 4) = true.
Proof. vm_compute. reflexivity. Qed.

Lemma apower_ctl_code_lt p : apower_ctl_code p < 4. Proof. destruct p; reflexivity. Qed.

Lemma ac_ctrl_roundtrip c : dom_ac_ctrl c = true ->
  exists p, enc_ac_ctrl c = Some p /\ length p = 4%nat /\ dec_ac_ctrl p = Some (c, []).
Proof.
  destruct c as [n pw mo fa sp]. unfold dom_ac_ctrl. cbn [ac_number ac_sp].
  intros H. apply andb_prop in H as [Hn Hs]. apply N.ltb_lt in Hn.
  pose proof (below2_forall _ _ _ ac_b1_sweep n (apower_ctl_code pw) Hn (apower_ctl_code_lt pw)) as B1.
  cbn zeta in B1. apply andb_prop in B1 as [B1 B1c]. apply andb_prop in B1 as [B1a B1b].
  apply N.ltb_lt in B1a. apply N.eqb_eq in B1b, B1c.
  unfold enc_ac_ctrl. cbn [ac_number ac_power ac_mode ac_fan ac_sp].
  rewrite (pack_B_ok _ B1a).
  assert (Hb2 : N.land (N.shiftl (amode_ctl_code mo) 4) 0xF0 + N.land (afan_ctl_code fa) 0x0F < 256
                /\ amode_ctl_of (N.shiftr (N.land (N.land (N.shiftl (amode_ctl_code mo) 4) 0xF0 + N.land (afan_ctl_code fa) 0x0F) 0xF0) 4) = mo
                /\ afan_ctl_of (N.land (N.land (N.shiftl (amode_ctl_code mo) 4) 0xF0 + N.land (afan_ctl_code fa) 0x0F) 0x0F) = fa)
    by (destruct mo, fa; vm_compute; repeat split; reflexivity).
  destruct Hb2 as [B2a [B2b B2c]]. rewrite (pack_B_ok _ B2a).
  assert (Hb3 : exists ct v, (ct, v) = match sp with AS_None => (0, 0x3F) | AS_Dec => (2, 0x3F) | AS_Inc => (3, 0x3F) | AS_Value v => (1, v) end
                /\ ct < 4 /\ v < 64).
  { destruct sp as [| | |v]; try apply N.ltb_lt in Hs; eexists; eexists; (split; [reflexivity|split; [reflexivity|assumption||reflexivity]]). }
  destruct Hb3 as [ct [v [E [Hct Hv]]]]. rewrite <- E.
  pose proof (below2_forall _ _ _ ac_b3_sweep ct v Hct Hv) as B3.
  cbn zeta in B3. apply andb_prop in B3 as [B3 B3c]. apply andb_prop in B3 as [B3a B3b].
  apply N.ltb_lt in B3a. apply N.eqb_eq in B3b, B3c.
  rewrite (pack_B_ok _ B3a). cbn [obind app].
  eexists. split; [reflexivity|]. split; [reflexivity|].
  unfold dec_ac_ctrl. rewrite B1b, B1c, B2b, B2c, B3b, B3c, apower_ctl_rt. cbn [obind].
  destruct sp as [| | |v']; inversion E; subst; reflexivity.
Qed.

(* ------------------------------------------------------------------ helpers *)
Ltac b2p H :=
  match type of H with
  | (_ && _) = true => let A := fresh "B" in let B := fresh "B" in apply andb_prop in H as [A B]; b2p A; b2p B
  | (_ <? _) = true => apply N.ltb_lt in H
  | (_ =? _) = true => apply N.eqb_eq in H
  | (_ <=? _)%Z = true => apply Z.leb_le in H
  | (_ =? _)%Z = true => apply Z.eqb_eq in H
  | _ => idtac
  end.

Lemma be16_div_mod v : v / 256 * 256 + v mod 256 = v.
Proof. rewrite N.mul_comm. symmetry. apply N.div_mod. discriminate. Qed.

Lemma forallb_In {A} (f : A -> bool) l : forallb f l = true -> forall a, In a l -> f a = true.
Proof. intros H a Ha. rewrite forallb_forall in H. auto. Qed.

(* ------------------------------------------------------------ temperature *)
Lemma temp_sweep :
  forallb (fun v => let d := (Z.of_N v - 500)%Z in
     match enc_temp d with
     | Some t => (t <? 65536) && (N.land t 0x1F =? 0) && (dec_temp t =? d)%Z && (N.land t 0xFFE0 =? t)
     | None => false end) (below 2048) = true.
Proof. vm_compute. reflexivity. Qed.

Lemma temp_rt d : (-500 <= d <= 1547)%Z ->
  exists t, enc_temp d = Some t /\ t < 65536 /\ N.land t 0x1F = 0 /\ dec_temp t = d /\ N.land t 0xFFE0 = t.
Proof.
  intros H. pose proof (below_forall _ _ temp_sweep (Z.to_N (d + 500)) ltac:(lia)) as S.
  cbn beta zeta in S. replace (Z.of_N (Z.to_N (d + 500)) - 500)%Z with d in S by lia.
  destruct (enc_temp d) as [t|]; [|discriminate]. exists t.
  apply andb_prop in S as [S S4]. apply andb_prop in S as [S S3]. apply andb_prop in S as [S1 S2].
  b2p S1. b2p S2. b2p S3. b2p S4. repeat split; assumption.
Qed.

(* a temperature half-word with the spill bit (bit 4) added: both are recovered *)
Lemma temp_spill_sweep :
  forallb (fun v => forallb (fun s : bool =>
     let t := N.shiftl v 5 in let w := t + b2n s 4 in
     (w <? 65536) && (N.land w 0xFFE0 =? t) && Bool.eqb (bit w 4) s && (N.land w 0xFF00 =? N.land t 0xFF00))
     [true; false]) (below 2048) = true.
Proof. vm_compute. reflexivity. Qed.

Lemma enc_temp_shift_sweep :
  forallb (fun v => match enc_temp (Z.of_N v - 500) with Some t => t =? N.shiftl v 5 | None => false end) (below 2048) = true.
Proof. vm_compute. reflexivity. Qed.

Lemma enc_temp_shift d : (-500 <= d <= 1547)%Z -> enc_temp d = Some (N.shiftl (Z.to_N (d + 500)) 5).
Proof.
  intros H. pose proof (below_forall _ _ enc_temp_shift_sweep (Z.to_N (d + 500)) ltac:(lia)) as S.
  cbn beta in S. replace (Z.of_N (Z.to_N (d + 500)) - 500)%Z with d in S by lia.
  destruct (enc_temp d) as [t|]; [|discriminate]. b2p S. now subst.
Qed.

Lemma dec_temp_shift_sweep :
  forallb (fun v => (dec_temp (N.shiftl v 5) =? Z.of_N v - 500)%Z) (below 2048) = true.
Proof. vm_compute. reflexivity. Qed.

(* temperatures up to 153.9 degC never put 0xFF into byte 5 *)
Lemma b5_not_ff_sweep : forallb (fun v => negb (N.land (N.shiftl v 5) 0xFF00 =? 0xFF00)) (below 2040) = true.
Proof. vm_compute. reflexivity. Qed.

(* ------------------------------------------------------- x2B group status *)
Definition dom_group_status (g : group_status) : bool :=
  (gs_group g <? 64) && (gs_damper g <? 128) &&
  match gs_setpoint g with Some v => gs_sensor g && (v <? 64) | None => negb (gs_sensor g) end &&
  match gs_temp g with Some d => gs_sensor g && (-500 <=? d)%Z && (d <=? 1539)%Z | None => true end.

Lemma gs_b1_sweep :
  forallb (fun n => forallb (fun c =>
    let b := N.shiftl c 6 + N.land n 0x3F in
    (b <? 256) && (N.land b 0x3F =? n) && (N.shiftr (N.land b 0xC0) 6 =? c)) (below 4)) (below 64) = true.
Proof. vm_compute. reflexivity. Qed.

Lemma gs_b2_sweep :
  forallb (fun c => forallb (fun d =>
    let b := N.shiftl c 7 + N.land d 0x7F in
    (b <? 256) && (N.land b 0x7F =? d) && (N.shiftr (N.land b 0x80) 7 =? c)) (below 128)) (below 2) = true.
Proof. vm_compute. reflexivity. Qed.

Lemma gs_b3_sweep :
  forallb (fun c => forallb (fun tu : bool => forallb (fun sp =>
    let b := N.shiftl c 7 + b2n tu 6 + sp in
    (b <? 256) && (N.land b 0x3F =? sp) && (N.shiftr (N.land b 0x80) 7 =? c) && Bool.eqb (bit b 6) tu)
    (below 64)) [true; false]) (below 2) = true.
Proof. vm_compute. reflexivity. Qed.

Lemma gpower_code_lt p : gpower_code p < 4. Proof. destruct p; reflexivity. Qed.
Lemma gmethod_code_lt p : gmethod_code p < 2. Proof. destruct p; reflexivity. Qed.
Lemma battery_code_lt p : battery_code p < 2. Proof. destruct p; reflexivity. Qed.

Lemma group_status_roundtrip g : dom_group_status g = true ->
  exists p, enc_group_status1 g = Some p /\ length p = 6%nat /\ dec_group_status1 p = Some g.
Proof.
  destruct g as [n pw me spill turbo sensor ba temp damper sp]. unfold dom_group_status.
  cbn [gs_group gs_damper gs_setpoint gs_temp gs_sensor]. intros H.
  apply andb_prop in H as [H Ht]. apply andb_prop in H as [H Hsp]. apply andb_prop in H as [Hn Hd]. b2p Hn. b2p Hd.
  pose proof (below2_forall _ _ _ gs_b1_sweep n (gpower_code pw) Hn (gpower_code_lt pw)) as S1.
  cbn beta zeta in S1. apply andb_prop in S1 as [S1 S1c]. apply andb_prop in S1 as [S1a S1b]. b2p S1a. b2p S1b. b2p S1c.
  pose proof (below2_forall _ _ _ gs_b2_sweep (gmethod_code me) damper (gmethod_code_lt me) Hd) as S2.
  cbn beta zeta in S2. apply andb_prop in S2 as [S2 S2c]. apply andb_prop in S2 as [S2a S2b]. b2p S2a. b2p S2b. b2p S2c.
  (* byte 3: battery, turbo, set-point *)
  assert (E3 : exists s, match sp with Some v => if v =? 0 then 0 else N.land v 63 | None => 0 end = s /\ s < 64 /\
                         (if sensor then Some s else None) = sp).
  { destruct sp as [v|].
    - apply andb_prop in Hsp as [Hs Hv]. b2p Hv. subst sensor. destruct (v =? 0) eqn:Ev.
      + apply N.eqb_eq in Ev. subst v. exists 0. repeat split; reflexivity.
      + exists v. split; [|split; [exact Hv|reflexivity]].
        change 63 with (N.ones 6). rewrite N.land_ones. apply N.mod_small. exact Hv.
    - apply negb_true_iff in Hsp. subst sensor. exists 0. repeat split; reflexivity. }
  destruct E3 as [s [Es [Hs Ds]]].
  pose proof (below_forall _ _ gs_b3_sweep (battery_code ba) (battery_code_lt ba)) as S3. cbn beta in S3.
  rewrite forallb_forall in S3. specialize (S3 turbo ltac:(destruct turbo; cbn; auto)).
  pose proof (below_forall _ _ S3 s Hs) as S3'. cbn beta zeta in S3'. clear S3.
  apply andb_prop in S3' as [S3 S3d]. apply andb_prop in S3 as [S3 S3c]. apply andb_prop in S3 as [S3a S3b].
  b2p S3a. b2p S3b. b2p S3c. apply Bool.eqb_prop in S3d.
  (* bytes 5-6: temperature and spill *)
  assert (E5 : exists v, match temp with Some d => enc_temp d | None => Some 65280 end = Some (N.shiftl v 5) /\ v < 2048 /\
                         (if negb sensor || (N.land (N.shiftl v 5) 65280 =? 65280) then None else Some (dec_temp (N.shiftl v 5))) = temp).
  { destruct temp as [d|].
    - apply andb_prop in Ht as [Ht Ht3]. apply andb_prop in Ht as [Ht1 Ht2]. b2p Ht2. b2p Ht3. rewrite Ht1.
      exists (Z.to_N (d + 500)). split; [apply enc_temp_shift; lia|]. split; [lia|]. cbn [negb orb].
      assert (N.land (N.shiftl (Z.to_N (d + 500)) 5) 65280 =? 65280 = false) as ->.
      { pose proof (below_forall _ _ b5_not_ff_sweep (Z.to_N (d + 500)) ltac:(lia)) as S0. cbn beta in S0.
        apply negb_true_iff in S0. exact S0. }
      pose proof (below_forall _ _ dec_temp_shift_sweep (Z.to_N (d + 500)) ltac:(lia)) as S. cbn beta in S. b2p S.
      rewrite S. f_equal. lia.
    - exists 2040. split; [reflexivity|]. split; [reflexivity|]. now rewrite orb_true_r. }
  destruct E5 as [v [E5 [Hv D5]]].
  pose proof (below_forall _ _ temp_spill_sweep v Hv) as S5. cbn beta in S5. rewrite forallb_forall in S5.
  specialize (S5 spill ltac:(destruct spill; cbn; auto)). cbn zeta in S5.
  apply andb_prop in S5 as [S5 S5d]. apply andb_prop in S5 as [S5 S5c]. apply andb_prop in S5 as [S5a S5b].
  b2p S5a. b2p S5b. apply Bool.eqb_prop in S5c. b2p S5d.
  unfold enc_group_status1. cbn [gs_power gs_group gs_method gs_damper gs_setpoint gs_battery gs_turbo gs_temp gs_spill gs_sensor].
  rewrite Es, E5. cbn [obind].
  assert (Hb4 : b2n sensor 7 < 256 /\ bit (b2n sensor 7) 7 = sensor) by (destruct sensor; split; reflexivity).
  destruct Hb4 as [Hb4 Db4].
  rewrite (pack_B_ok _ S1a), (pack_B_ok _ S2a), (pack_B_ok _ S3a), (pack_B_ok _ Hb4), (pack_H_ok _ S5a). cbn [obind app].
  eexists. split; [reflexivity|]. split; [reflexivity|].
  unfold dec_group_status1. rewrite be16_div_mod, S1b, S1c, S2b, S2c, S3b, S3c, S3d, S5b, S5c, S5d, Db4, gpower_rt, gmethod_rt, battery_rt.
  cbn [obind]. rewrite D5, Ds. reflexivity.
Qed.

(* ---------------------------------------------------------- x2D AC status *)
Definition dom_ac_status (a : ac_status) : bool :=
  (as_number a <? 64) && (as_setpoint a <? 64) && (-500 <=? as_temp a)%Z && (as_temp a <=? 1547)%Z && (as_error a <? 65536).

Lemma as_b3_sweep :
  forallb (fun sp => forallb (fun s : bool => forallb (fun t : bool =>
    let b := b2n s 7 + b2n t 6 + N.land sp 0x3F in
    (b <? 256) && (N.land b 0x3F =? sp) && Bool.eqb (bit b 7) s && Bool.eqb (bit b 6) t)
    [true; false]) [true; false]) (below 64) = true.
Proof. vm_compute. reflexivity. Qed.

Lemma apower_code_lt p : apower_code p < 4. Proof. destruct p; reflexivity. Qed.

Lemma ac_status_roundtrip a : dom_ac_status a = true ->
  exists p, enc_ac_status1 a = Some p /\ length p = 8%nat /\ dec_ac_status1 p = Some a.
Proof.
  destruct a as [n pw mo fa spill ti sp temp er]. unfold dom_ac_status.
  cbn [as_number as_setpoint as_temp as_error]. intros H.
  apply andb_prop in H as [H He]. apply andb_prop in H as [H Ht2]. apply andb_prop in H as [H Ht1].
  apply andb_prop in H as [Hn Hsp]. b2p Hn. b2p Hsp. b2p Ht1. b2p Ht2. b2p He.
  pose proof (below2_forall _ _ _ ac_b1_sweep n (apower_code pw) Hn (apower_code_lt pw)) as S1.
  cbn beta zeta in S1. apply andb_prop in S1 as [S1 S1c]. apply andb_prop in S1 as [S1a S1b]. b2p S1a. b2p S1b. b2p S1c.
  assert (Hb2 : let b := N.land (N.shiftl (amode_code mo) 4) 0xF0 + N.land (afan_code fa) 0x0F in
                b < 256 /\ amode_of (N.shiftr (N.land b 0xF0) 4) = Some mo /\ afan_of (N.land b 0x0F) = Some fa)
    by (destruct mo, fa; vm_compute; repeat split; reflexivity).
  cbn zeta in Hb2. destruct Hb2 as [B2a [B2b B2c]].
  pose proof (below_forall _ _ as_b3_sweep sp Hsp) as S3. cbn beta in S3. rewrite forallb_forall in S3.
  specialize (S3 spill ltac:(destruct spill; cbn; auto)). rewrite forallb_forall in S3.
  specialize (S3 ti ltac:(destruct ti; cbn; auto)). cbn zeta in S3.
  apply andb_prop in S3 as [S3 S3d]. apply andb_prop in S3 as [S3 S3c]. apply andb_prop in S3 as [S3a S3b].
  b2p S3a. b2p S3b. apply Bool.eqb_prop in S3c. apply Bool.eqb_prop in S3d.
  destruct (temp_rt temp ltac:(lia)) as [t [Et [Ht [_ [Dt _]]]]].
  unfold enc_ac_status1. cbn [as_number as_power as_mode as_fan as_spill as_timer as_setpoint as_temp as_error].
  rewrite Et. cbn [obind].
  rewrite (pack_B_ok _ S1a), (pack_B_ok _ B2a), (pack_B_ok _ S3a), (pack_H_ok _ Ht), (pack_H_ok _ He). cbn [obind app].
  eexists. split; [reflexivity|]. split; [reflexivity|].
  unfold dec_ac_status1. rewrite S1b, S1c, B2b, B2c, apower_rt. cbn [obind].
  rewrite S3b, S3c, S3d, !be16_div_mod, Dt. reflexivity.
Qed.

(* ------------------------------------------------------ x36 / x37 timers *)
Definition dom_timer_state (t : timer_state) : bool := (ts_hour t <? 32) && (ts_minute t <? 64).
Lemma timer_b1_sweep :
  forallb (fun h => forallb (fun d : bool =>
    let b := b2n d 7 + N.land h 0x1F in
    (b <? 256) && (N.land b 0x1F =? h) && Bool.eqb (bit b 7) d) [true; false]) (below 32) = true.
Proof. vm_compute. reflexivity. Qed.

Lemma timer_b2_sweep : forallb (fun m => N.land (N.land m 0x3F) 0x3F =? m) (below 64) = true.
Proof. vm_compute. reflexivity. Qed.

Lemma timer_state_rt t : dom_timer_state t = true ->
  exists a b, enc_timer_state t = [a; b] /\ a < 256 /\ b < 256 /\ dec_timer_state a b = t.
Proof.
  destruct t as [d h m]. unfold dom_timer_state. cbn [ts_hour ts_minute]. intros H.
  apply andb_prop in H as [Hh Hm]. b2p Hh. b2p Hm.
  unfold enc_timer_state. cbn [ts_disabled ts_hour ts_minute]. eexists. eexists. split; [reflexivity|].
  pose proof (below_forall _ _ timer_b1_sweep h Hh) as S. cbn beta in S. rewrite forallb_forall in S.
  specialize (S d ltac:(destruct d; cbn; auto)). cbn zeta in S.
  apply andb_prop in S as [S Sc]. apply andb_prop in S as [Sa Sb]. b2p Sa. b2p Sb. apply Bool.eqb_prop in Sc.
  pose proof (below_forall _ _ timer_b2_sweep m Hm) as S2. cbn beta in S2. b2p S2.
  split; [exact Sa|]. split.
  - change 63 with (N.ones 6). rewrite N.land_ones. pose proof (N.mod_upper_bound m (2^6) ltac:(discriminate)). cbn in *. lia.
  - unfold dec_timer_state. rewrite Sb, Sc, S2. reflexivity.
Qed.


Definition dom_timers4 (l : list timer_data) : bool :=
  match l with
  | [t0; t1; t2; t3] =>
    (td_number t0 =? 0) && (td_number t1 =? 1) && (td_number t2 =? 2) && (td_number t3 =? 3) &&
    forallb (fun t => dom_timer_state (td_on t) && dom_timer_state (td_off t)) l
  | _ => false
  end.

Lemma timers4_roundtrip l : dom_timers4 l = true ->
  exists p, enc_timers l = Some p /\ length p = 32%nat /\ dec_timers p = Some l.
Proof.
  destruct l as [|[n0 on0 off0] [|[n1 on1 off1] [|[n2 on2 off2] [|[n3 on3 off3] [|? ?]]]]]; try discriminate.
  unfold dom_timers4. cbn [td_number td_on td_off forallb]. intros H.
  apply andb_prop in H as [H Hs]. apply andb_prop in H as [H H3]. apply andb_prop in H as [H H2]. apply andb_prop in H as [H0 H1].
  b2p H0. b2p H1. b2p H2. b2p H3. subst.
  apply andb_prop in Hs as [Hs0 Hs]. apply andb_prop in Hs as [Hs1 Hs]. apply andb_prop in Hs as [Hs2 Hs].
  apply andb_prop in Hs as [Hs3 _].
  apply andb_prop in Hs0 as [A0 B0]. apply andb_prop in Hs1 as [A1 B1]. apply andb_prop in Hs2 as [A2 B2]. apply andb_prop in Hs3 as [A3 B3].
  destruct (timer_state_rt on0 A0) as [a0 [a0' [Ea0 [_ [_ Da0]]]]]. destruct (timer_state_rt off0 B0) as [b0 [b0' [Eb0 [_ [_ Db0]]]]].
  destruct (timer_state_rt on1 A1) as [a1 [a1' [Ea1 [_ [_ Da1]]]]]. destruct (timer_state_rt off1 B1) as [b1 [b1' [Eb1 [_ [_ Db1]]]]].
  destruct (timer_state_rt on2 A2) as [a2 [a2' [Ea2 [_ [_ Da2]]]]]. destruct (timer_state_rt off2 B2) as [b2 [b2' [Eb2 [_ [_ Db2]]]]].
  destruct (timer_state_rt on3 A3) as [a3 [a3' [Ea3 [_ [_ Da3]]]]]. destruct (timer_state_rt off3 B3) as [b3 [b3' [Eb3 [_ [_ Db3]]]]].
  assert (E : enc_timers [mkTD 0 on0 off0; mkTD 1 on1 off1; mkTD 2 on2 off2; mkTD 3 on3 off3] =
              Some [a0; a0'; b0; b0'; 0; 0; 0; 0; a1; a1'; b1; b1'; 0; 0; 0; 0;
                    a2; a2'; b2; b2'; 0; 0; 0; 0; a3; a3'; b3; b3'; 0; 0; 0; 0]).
  { unfold enc_timers. cbn [fold_left td_number td_on td_off obind N.ltb N.compare Pos.compare Pos.compare_cont].
    rewrite Ea0, Eb0, Ea1, Eb1, Ea2, Eb2, Ea3, Eb3. reflexivity. }
  rewrite E. eexists. split; [reflexivity|]. split; [reflexivity|].
  cbn -[dec_timer_state]. rewrite Da0, Db0, Da1, Db1, Da2, Db2, Da3, Db3. reflexivity.
Qed.

(* ------------------------------------------------------------ separators *)
Definition sep_free (sep : N) (s : list N) : bool := forallb (fun b => negb (b =? sep)) s.

Lemma split_aux_app sep x : forall cur l, sep_free sep x = true ->
  split_sep_aux sep cur (x ++ l) = split_sep_aux sep (rev x ++ cur) l.
Proof.
  induction x as [|b x IH]; intros cur l H; [reflexivity|].
  cbn in H. apply andb_prop in H as [Hb Hx]. apply negb_true_iff in Hb.
  cbn [app split_sep_aux]. rewrite Hb, (IH _ _ Hx). cbn [rev]. now rewrite <- app_assoc.
Qed.

Lemma split_join sep vs : vs <> [] -> forallb (sep_free sep) vs = true ->
  split_sep sep (join_sep sep vs) = vs.
Proof.
  unfold split_sep. induction vs as [|x vs IH]; intros Hne H; [contradiction|].
  cbn in H. apply andb_prop in H as [Hx Hvs]. destruct vs as [|y r].
  - cbn [join_sep]. rewrite <- (app_nil_r x) at 1. rewrite (split_aux_app sep x [] [] Hx).
    cbn [split_sep_aux]. now rewrite app_nil_r, rev_involutive.
  - cbn [join_sep]. rewrite (split_aux_app sep x [] _ Hx). cbn [split_sep_aux]. rewrite N.eqb_refl.
    rewrite app_nil_r, rev_involutive. f_equal. apply IH; [discriminate|exact Hvs].
Qed.

(* -------------------------------------------------- ordered dictionaries *)
Fixpoint keys_distinct (l : list (N * list N)) : bool :=
  match l with
  | [] => true
  | (k, _) :: r => negb (existsb (fun e => fst e =? k) r) && keys_distinct r
  end.

Lemma dict_set_fresh d k v : existsb (fun e => fst e =? k) d = false -> dict_set d k v = d ++ [(k, v)].
Proof.
  induction d as [|[k' v'] d IH]; cbn; intros H; [reflexivity|].
  apply orb_false_iff in H as [Hk Hd]. rewrite N.eqb_sym, Hk. now rewrite (IH Hd).
Qed.

Lemma dict_of_distinct_aux l : forall acc,
  keys_distinct l = true -> (forall e, In e l -> existsb (fun a => fst a =? fst e) acc = false) ->
  fold_left (fun d e => dict_set d (fst e) (snd e)) l acc = acc ++ l.
Proof.
  induction l as [|[k v] l IH]; intros acc Hd Hacc; cbn [fold_left]; [now rewrite app_nil_r|].
  cbn in Hd. apply andb_prop in Hd as [Hk Hl]. apply negb_true_iff in Hk.
  cbn [fst snd]. rewrite (dict_set_fresh acc k v (Hacc (k, v) (or_introl eq_refl))).
  rewrite IH; [now rewrite <- app_assoc|exact Hl|].
  intros e He. rewrite existsb_app. cbn [existsb fst]. rewrite (Hacc e (or_intror He)). cbn [orb].
  rewrite orb_false_r. apply N.eqb_neq. intros Heq.
  assert (existsb (fun e0 => fst e0 =? k) l = true) as C; [|congruence].
  apply existsb_exists. exists e. split; [exact He|]. now apply N.eqb_eq.
Qed.

Lemma dict_of_distinct l : keys_distinct l = true -> dict_of l = l.
Proof. intros H. unfold dict_of. now rewrite (dict_of_distinct_aux l [] H (fun _ _ => eq_refl)). Qed.

(* ---------------------------------------------------- 0x1F sub-messages *)
Lemma land_ff v : v < 256 -> N.land v 0xFF = v.
Proof. intros H. change 255 with (N.ones 8). rewrite N.land_ones. now apply N.mod_small. Qed.

Definition is_nil {A} (l : list A) : bool := match l with [] => true | _ => false end.

Definition dom_str (maxlen : N) (s : list N) : bool := (N.of_nat (length s) <? maxlen) && utf8_valid s.

Lemma qt_sweep :
  forallb (fun tm => (N.land ((tm / 60) mod 24) 0xFF * 60 + N.land (tm mod 60) 0xFF =? tm) &&
                     (N.land ((tm / 60) mod 24) 0xFF <? 256) && (N.land (tm mod 60) 0xFF <? 256)) (below 1440) = true.
Proof. vm_compute. reflexivity. Qed.

Definition dom_name4 (e : N * list N) : bool :=
  (fst e <? 256) && nul_free (snd e) && (N.of_nat (length (snd e)) <? 9) && utf8_valid (snd e).

Lemma name4_roundtrip e : dom_name4 e = true ->
  exists r, enc_name1 e = Some r /\ length r = 9%nat /\ dec_name1 r = Some e.
Proof.
  destruct e as [g name]. unfold dom_name4. cbn [fst snd]. intros H.
  apply andb_prop in H as [H Hu]. apply andb_prop in H as [H Hl]. apply andb_prop in H as [Hg Hn]. b2p Hg. b2p Hl.
  unfold enc_name1. cbn [fst snd]. rewrite (pack_B_ok g Hg). cbn [obind app].
  eexists. split; [reflexivity|]. split; [cbn [length]; now rewrite pad_to_length|].
  cbn [dec_name1]. rewrite (cstring_pad 8 name Hn ltac:(lia)), Hu. reflexivity.
Qed.

(* support bitmaps *)
Lemma bits5 m0 m1 m2 m3 m4 : let b := bits_byte [m0; m1; m2; m3; m4] in
  b < 256 /\ [bit b 0; bit b 1; bit b 2; bit b 3; bit b 4] = [m0; m1; m2; m3; m4].
Proof. destruct m0, m1, m2, m3, m4; split; reflexivity. Qed.

Lemma bits7 m0 m1 m2 m3 m4 m5 m6 : let b := bits_byte [m0; m1; m2; m3; m4; m5; m6] in
  b < 256 /\ [bit b 0; bit b 1; bit b 2; bit b 3; bit b 4; bit b 5; bit b 6] = [m0; m1; m2; m3; m4; m5; m6].
Proof. destruct m0, m1, m2, m3, m4, m5, m6; split; reflexivity. Qed.

Fixpoint leqb (a b : list N) : bool :=
  match a, b with
  | [], [] => true
  | x :: a', y :: b' => (x =? y) && leqb a' b'
  | _, _ => false
  end.
Lemma leqb_eq a : forall b, leqb a b = true -> a = b.
Proof.
  induction a as [|x a IH]; intros [|y b] H; try discriminate; [reflexivity|].
  cbn in H. apply andb_prop in H as [H1 H2]. apply N.eqb_eq in H1. subst. f_equal. now apply IH.
Qed.

(* the group set is the ascending list of the bits of a 16-bit map *)
Definition canon_groups (gs : list N) : bool :=
  (group_bitmap gs <? 65536) && leqb (groups_of_bitmap (group_bitmap gs)) gs.

Definition dom_ability4 (a : ability) : bool :=
  (ab_number a <? 256) && (ab_start a <? 256) && (ab_count a <? 256) && (ab_min a <? 256) && (ab_max a <? 256) &&
  Nat.eqb (length (ab_modes a)) 5 && Nat.eqb (length (ab_fans a)) 7 &&
  nul_free (ab_name a) && (N.of_nat (length (ab_name a)) <? 17) && utf8_valid (ab_name a) &&
  match ab_groups a with Some gs => canon_groups gs | None => true end.

Lemma le16_div_mod v : v mod 256 + v / 256 * 256 = v.
Proof. rewrite N.add_comm. apply be16_div_mod. Qed.

Lemma ability4_roundtrip a : dom_ability4 a = true ->
  exists r, enc_ability1 a = Some r /\
            length r = (24 + match ab_groups a with Some _ => 2 | None => 0 end)%nat /\
            forall fuel rest, dec_abilities (S fuel) (r ++ rest) = (rs <- dec_abilities fuel rest ;; Some (a :: rs)).
Proof.
  destruct a as [num name modes fans mi ma groups st ct]. unfold dom_ability4.
  cbn [ab_number ab_name ab_modes ab_fans ab_min ab_max ab_groups ab_start ab_count]. intros H.
  apply andb_prop in H as [H Hg]. apply andb_prop in H as [H Hu]. apply andb_prop in H as [H Hl].
  apply andb_prop in H as [H Hnf]. apply andb_prop in H as [H Hfl]. apply andb_prop in H as [H Hml].
  apply andb_prop in H as [H Hma]. apply andb_prop in H as [H Hmi]. apply andb_prop in H as [H Hct].
  apply andb_prop in H as [Hnum Hst]. b2p Hnum. b2p Hst. b2p Hct. b2p Hmi. b2p Hma. b2p Hl.
  apply Nat.eqb_eq in Hml, Hfl.
  destruct modes as [|m0 [|m1 [|m2 [|m3 [|m4 [|? ?]]]]]]; try discriminate Hml.
  destruct fans as [|f0 [|f1 [|f2 [|f3 [|f4 [|f5 [|f6 [|? ?]]]]]]]]; try discriminate Hfl.
  destruct (bits5 m0 m1 m2 m3 m4) as [Lm Dm]. destruct (bits7 f0 f1 f2 f3 f4 f5 f6) as [Lf Df].
  unfold enc_ability1. cbn [ab_number ab_name ab_modes ab_fans ab_min ab_max ab_groups ab_start ab_count].
  rewrite (pack_B_ok _ Hnum), (pack_B_ok _ Hst), (pack_B_ok _ Hct), (pack_B_ok _ Lm), (pack_B_ok _ Lf),
          (pack_B_ok _ Hmi), (pack_B_ok _ Hma).
  pose proof (cstring_pad 16 name Hnf ltac:(lia)) as Cs. pose proof (pad_to_length 16 name) as Pl.
  remember (pad_to 16 name) as pn eqn:Epn. clear Epn.
  do 17 (destruct pn as [|? pn]; try discriminate Pl). clear Pl.
  remember (bits_byte [m0; m1; m2; m3; m4]) as mb. remember (bits_byte [f0; f1; f2; f3; f4; f5; f6]) as fb.
  destruct groups as [gs|].
  - apply andb_prop in Hg as [Hv Hgs]. b2p Hv. apply leqb_eq in Hgs. rewrite (pack_B_ok 24 ltac:(reflexivity)).
    apply N.ltb_lt in Hv. rewrite Hv. cbn [obind app].
    eexists. split; [reflexivity|]. split; [reflexivity|]. intros fuel rest.
    cbn -[cstring utf8_valid groups_of_bitmap group_bitmap dec_abilities N.div N.modulo N.mul N.add bit].
    change (dec_abilities (S fuel) ?l) with (dec_abilities (S fuel) l).
    cbn [dec_abilities length Nat.ltb Nat.leb firstn skipn nth N.eqb Pos.eqb].
    rewrite le16_div_mod, Hgs. cbn [obind]. rewrite Cs, Hu. cbn [negb].
    destruct (dec_abilities fuel rest); cbn [obind]; [|reflexivity]. rewrite Dm, Df. reflexivity.
  - rewrite (pack_B_ok 22 ltac:(reflexivity)). cbn [obind app].
    eexists. split; [reflexivity|]. split; [reflexivity|]. intros fuel rest.
    cbn [app dec_abilities length Nat.ltb Nat.leb firstn skipn nth N.eqb Pos.eqb obind].
    rewrite Cs, Hu. cbn [negb].
    destruct (dec_abilities fuel rest); cbn [obind]; [|reflexivity]. rewrite Dm, Df. reflexivity.
Qed.

Lemma abilities4_roundtrip l : forallb dom_ability4 l = true ->
  exists p, enc_list enc_ability1 l = Some p /\
            length p = fold_left (fun acc a => acc + 24 + match ab_groups a with Some _ => 2 | None => 0 end)%nat l 0%nat /\
            (l <> [] -> (24 <= length p)%nat) /\
            forall fuel, (length l <= fuel)%nat -> dec_abilities fuel p = Some l.
Proof.
  assert (G : forall l, forallb dom_ability4 l = true -> forall acc,
    exists p, enc_list enc_ability1 l = Some p /\
              (acc + length p)%nat = fold_left (fun acc a => acc + 24 + match ab_groups a with Some _ => 2 | None => 0 end)%nat l acc /\
              (l <> [] -> (24 <= length p)%nat) /\
              forall fuel, (length l <= fuel)%nat -> dec_abilities fuel p = Some l).
  { clear l. induction l as [|a l IH]; intros H acc.
    - exists []. split; [reflexivity|]. split; [cbn; lia|]. split; [intros C; contradiction|].
      intros fuel _. destruct fuel; reflexivity.
    - cbn in H. apply andb_prop in H as [Ha Hl].
      destruct (ability4_roundtrip a Ha) as [r [Er [Lr Dr]]].
      destruct (IH Hl (acc + 24 + match ab_groups a with Some _ => 2 | None => 0 end)%nat) as [p [Ep [Lp [_ Dp]]]].
      unfold enc_list in *. cbn [map sequence]. rewrite Er. cbn [obind].
      destruct (sequence (map enc_ability1 l)) as [rs|]; [|discriminate]. cbn [obind] in *. injection Ep as <-.
      exists (r ++ concat rs). split; [reflexivity|]. rewrite app_length, Lr. split; [cbn [fold_left]; rewrite <- Lp; lia|].
      split; [intros _; lia|]. intros fuel Hf. destruct fuel as [|fuel]; [cbn in Hf; lia|].
      rewrite Dr, (Dp fuel ltac:(cbn in Hf; lia)). reflexivity. }
  intros H. destruct (G l H 0%nat) as [p [E [L R]]]. exists p. split; [exact E|]. split; [exact L|]. exact R.
Qed.

Definition dom_sub4 (s : sub4) : bool :=
  match s with
  | S_ErrMsg ac info =>
    (ac <? 256) && match info with Some e => negb (is_nil e) && dom_str 256 e | None => true end
  | S_ErrReq ac => ac <? 256
  | S_Ability l => negb (is_nil l) && forallb dom_ability4 l
  | S_AbilityReq All | S_NamesReq All => true
  | S_AbilityReq (Num n) | S_NamesReq (Num n) => n <? 256
  | S_Names l => negb (is_nil l) && forallb dom_name4 l && keys_distinct l
  | S_QuickTimer ac _ tm => (ac <? 256) && (tm <? 1440)
  | S_Version _ vs => negb (is_nil vs) && forallb (sep_free VERSION_SEP) vs && dom_str 256 (join_sep VERSION_SEP vs)
  | S_VersionReq => true
  | S_Unsupported _ _ => false
  end.

Theorem sub4_roundtrip s : dom_sub4 s = true ->
  exists id body, enc_sub s = Some (id, body) /\ id < 65536 /\
                  size4 (M_Ext s) = Some (2 + length body)%nat /\
                  dec_sub id (length body) body = Some (s, []).
Proof.
  destruct s as [ac info|ac|l|a|l|a|ac t tm|up vs| |id raw]; cbn [dom_sub4]; intros H; try discriminate H.
  - (* error message *)
    apply andb_prop in H as [Hac Hi]. b2p Hac. unfold enc_sub. rewrite (land_ff ac Hac).
    destruct info as [[|e0 e]|].
    + discriminate Hi.
    + cbn [is_nil negb andb] in Hi. unfold dom_str in Hi. apply andb_prop in Hi as [Hl Hu]. b2p Hl.
      rewrite (pack_B_ok _ Hl). cbn [obind app]. eexists. eexists. split; [reflexivity|]. split; [reflexivity|].
      split; [reflexivity|]. remember (e0 :: e) as es.
      unfold dec_sub. cbn [N.eqb Pos.eqb]. cbn [length Nat.eqb].
      assert (Nat.eqb (length es) 0 = false) as Hz by (subst es; reflexivity).
      destruct (length es) eqn:El; [discriminate Hz|]. cbn [Nat.eqb]. rewrite <- El. rewrite Nat2N.id.
      rewrite firstn_all, skipn_all, Hu.
      assert (N.of_nat (length es) =? 0 = false) as -> by (apply N.eqb_neq; lia). reflexivity.
    + eexists. eexists. split; [reflexivity|]. repeat split; reflexivity.
  - b2p H. unfold enc_sub. rewrite (land_ff ac H). eexists. eexists. repeat split; reflexivity.
  - (* abilities *)
    apply andb_prop in H as [Hne Hl]. destruct (abilities4_roundtrip l Hl) as [p [E [L [Lmin D]]]].
    assert (Hne' : l <> []) by (destruct l; [discriminate Hne|discriminate]). specialize (Lmin Hne').
    unfold enc_sub. rewrite E. cbn [obind]. eexists. eexists. split; [reflexivity|]. split; [reflexivity|].
    split; [cbn [size4]; now rewrite L|].
    unfold dec_sub. cbn [N.eqb Pos.eqb].
    destruct (length p) as [|[|n]] eqn:Lp; try lia. cbn [Nat.eqb]. rewrite <- Lp.
    rewrite firstn_all, skipn_all. rewrite (D (S (length p))); [reflexivity|].
    (* each record has at least 24 bytes, so there are at most length p records *)
    clear - L Lp. assert (forall (l : list ability) acc,
      (acc + length l <= fold_left (fun acc a => acc + 24 + match ab_groups a with Some _ => 2 | None => 0 end) l acc)%nat) as G.
    { induction l0 as [|a l0 IH]; intros acc; cbn; [lia|]. specialize (IH (acc + 24 + match ab_groups a with Some _ => 2 | None => 0 end)%nat). lia. }
    specialize (G l 0%nat). lia.
  - destruct a as [|n]; [eexists; eexists; repeat split; reflexivity|].
    b2p H. unfold enc_sub. rewrite (pack_B_ok n H). cbn [obind]. eexists. eexists. repeat split; reflexivity.
  - (* names *)
    apply andb_prop in H as [H Hk]. apply andb_prop in H as [Hne Hl].
    destruct (list_roundtrip enc_name1 dec_name1 9 l ltac:(lia)
                (fun e He => name4_roundtrip e (forallb_In _ _ Hl e He))) as [p [E [L D]]].
    unfold enc_sub. rewrite E. cbn [obind]. eexists. eexists. split; [reflexivity|]. split; [reflexivity|].
    split; [cbn [size4]; now rewrite L|].
    unfold dec_sub. cbn [N.eqb Pos.eqb].
    assert (Hlen : (9 <= length l * 9)%nat) by (destruct l; [discriminate Hne|cbn [length]; lia]).
    assert (Nat.eqb (length p) 0 = false) as -> by (apply Nat.eqb_neq; lia).
    assert (Nat.eqb (length p) 1 = false) as -> by (apply Nat.eqb_neq; lia).
    assert (Nat.eqb (length p mod 9) 0 = true) as ->.
    { apply Nat.eqb_eq. rewrite L, Nat.mul_comm. apply Nat.mod_mul. lia. }
    cbn [negb]. rewrite firstn_all, skipn_all, D. cbn [obind].
    rewrite (dict_of_distinct _ Hk). rewrite Nat.ltb_irrefl. reflexivity.
  - destruct a as [|n]; [eexists; eexists; repeat split; reflexivity|].
    b2p H. unfold enc_sub. rewrite (pack_B_ok n H). cbn [obind]. eexists. eexists. repeat split; reflexivity.
  - (* quick timer *)
    apply andb_prop in H as [Hac Htm]. b2p Hac. b2p Htm.
    pose proof (below_forall _ _ qt_sweep tm Htm) as S. cbn beta in S.
    apply andb_prop in S as [S S3]. apply andb_prop in S as [S1 S2]. b2p S1.
    unfold enc_sub. rewrite (pack_B_ok ac Hac). cbn [obind app].
    eexists. eexists. split; [reflexivity|]. split; [reflexivity|]. split; [reflexivity|].
    unfold dec_sub. cbn [N.eqb Pos.eqb]. destruct t; cbn [timer_type_code N.land timer_type_of obind]; rewrite S1; reflexivity.
  - (* version *)
    apply andb_prop in H as [H Hs]. apply andb_prop in H as [Hne Hf].
    unfold dom_str in Hs. apply andb_prop in Hs as [Hl Hu]. b2p Hl.
    unfold enc_sub. rewrite (pack_B_ok _ Hl). cbn [obind].
    eexists. eexists. split; [reflexivity|]. split; [reflexivity|]. split; [reflexivity|].
    unfold dec_sub. cbn [N.eqb Pos.eqb]. cbn [length Nat.eqb]. cbn [app]. rewrite Nat2N.id.
    rewrite firstn_all, skipn_all, Hu.
    rewrite split_join; [|destruct vs; [discriminate Hne|discriminate]|exact Hf].
    destruct up; reflexivity.
  - eexists. eexists. repeat split; reflexivity.
Qed.

(* ------------------------------------------------------------- top level *)
Definition dom4 (m : msg4) : bool :=
  match m with
  | M_GroupCtrl c => dom_group_ctrl c
  | M_GroupStatus l => negb (is_nil l) && forallb dom_group_status l
  | M_AcCtrl c => dom_ac_ctrl c
  | M_AcStatus l => negb (is_nil l) && forallb dom_ac_status l
  | M_TimerCtrl l | M_TimerStatus l => dom_timers4 l
  | M_GroupStatusReq | M_AcStatusReq | M_TimerStatusReq => true
  | M_Ext s => dom_sub4 s
  | M_Unsupported _ _ => false
  end.


Ltac status_list_case RT n :=
  match goal with
  | H : negb (is_nil ?l) && forallb _ ?l = true |- _ =>
    let Hne := fresh "Hne" in let Hl := fresh "Hl" in apply andb_prop in H as [Hne Hl];
    let p := fresh "p" in let E := fresh "E" in let L := fresh "L" in let D := fresh "D" in
    destruct (list_roundtrip _ _ n l ltac:(lia) (fun a Ha => RT a (forallb_In _ _ Hl a Ha))) as [p [E [L D]]];
    cbn [enc4 size4 type_of]; rewrite E; eexists; split; [reflexivity|]; split; [now rewrite L|];
    unfold dec4; cbn [N.eqb Pos.eqb];
    let Hlen := fresh "Hlen" in
    assert (Hlen : (n <= length l * n)%nat) by (destruct l; [discriminate Hne|cbn [length]; lia]);
    assert (Nat.eqb (length p) 0 = false) as -> by (apply Nat.eqb_neq; lia);
    assert (Nat.eqb (length p mod n) 0 = true) as -> by (apply Nat.eqb_eq; rewrite L, Nat.mul_comm; apply Nat.mod_mul; lia);
    cbn [negb]; rewrite D; reflexivity
  end.

Theorem msg4_roundtrip m : dom4 m = true ->
  exists p, enc4 m = Some p /\ size4 m = Some (length p) /\ dec4 (type_of m) p = Some m.
Proof.
  destruct m as [c|l| |c|l| |l|l| |s|id raw]; cbn [dom4]; intros H; try discriminate H.
  - destruct (group_ctrl_roundtrip c H) as [p [E [L D]]]. cbn [enc4 size4 type_of]. rewrite E.
    eexists. split; [reflexivity|]. split; [now rewrite L|]. unfold dec4. cbn [N.eqb Pos.eqb]. now rewrite D.
  - status_list_case group_status_roundtrip 6%nat.
  - eexists. repeat split; reflexivity.
  - destruct (ac_ctrl_roundtrip c H) as [p [E [L D]]]. cbn [enc4 size4 type_of]. rewrite E.
    eexists. split; [reflexivity|]. split; [now rewrite L|]. unfold dec4. cbn [N.eqb Pos.eqb]. now rewrite D.
  - status_list_case ac_status_roundtrip 8%nat.
  - eexists. repeat split; reflexivity.
  - destruct (timers4_roundtrip l H) as [p [E [L D]]]. cbn [enc4 size4 type_of]. rewrite E.
    eexists. split; [reflexivity|]. split; [now rewrite L|]. unfold dec4. cbn [N.eqb Pos.eqb]. rewrite L, D. reflexivity.
  - destruct (timers4_roundtrip l H) as [p [E [L D]]]. cbn [enc4 size4 type_of]. rewrite E.
    eexists. split; [reflexivity|]. split; [now rewrite L|]. unfold dec4. cbn [N.eqb Pos.eqb]. rewrite L, D. reflexivity.
  - eexists. repeat split; reflexivity.
  - destruct (sub4_roundtrip s H) as [id [body [E [Hid [Sz D]]]]]. cbn [enc4 type_of]. rewrite E. cbn [obind fst snd].
    eexists. split; [reflexivity|]. split; [rewrite Sz; reflexivity|].
    unfold dec4. cbn [N.eqb Pos.eqb app]. rewrite be16_div_mod, D. reflexivity.
Qed.
