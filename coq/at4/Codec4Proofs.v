(* Codec4Proofs.v — C03 for AirTouch 4: every message in the domain encodes to a payload
   of the announced size which decodes back to the same message. *)
From Coq Require Import NArith ZArith List Bool Lia Arith.
From PV Require Import base.Res base.Utf8 at4.Msg4 at4.Codec4.
Import ListNotations.
Open Scope N_scope.

(* ------------------------------------------------------------ finite sweeps *)
Lemma below_forall (f : N -> bool) n :
  forallb f (below n) = true -> forall i, i < N.of_nat n -> f i = true.
Proof.
  intros H i Hi. rewrite forallb_forall in H. apply H.
  unfold below. apply in_map_iff. exists (N.to_nat i). split; [apply N2Nat.id|].
  apply in_seq. lia.
Qed.

Lemma below2_forall (f : N -> N -> bool) n m :
  forallb (fun a => forallb (f a) (below m)) (below n) = true ->
  forall a b, a < N.of_nat n -> b < N.of_nat m -> f a b = true.
Proof. intros H a b Ha Hb. exact (below_forall _ _ (below_forall _ _ H a Ha) b Hb). Qed.

Lemma below3_forall (f : N -> N -> N -> bool) n m k :
  forallb (fun a => forallb (fun b => forallb (f a b) (below k)) (below m)) (below n) = true ->
  forall a b c, a < N.of_nat n -> b < N.of_nat m -> c < N.of_nat k -> f a b c = true.
Proof. intros H a b c Ha Hb Hc. exact (below_forall _ _ (below2_forall _ _ _ H a b Ha Hb) c Hc). Qed.

Lemma pack_B_ok v : v < 256 -> pack_B v = Some [v].
Proof. intros H. unfold pack_B. apply N.ltb_lt in H. now rewrite H. Qed.

Lemma pack_H_ok v : v < 65536 -> pack_H v = Some [v / 256; v mod 256].
Proof. intros H. unfold pack_H. apply N.ltb_lt in H. now rewrite H. Qed.

(* ------------------------------------------------------- repeated records *)
Lemma chunks_step fuel n l : l <> [] -> (n <= length l)%nat ->
  chunks (S fuel) n l = (rs <- chunks fuel n (skipn n l) ;; Some (firstn n l :: rs)).
Proof.
  intros Hne Hl. destruct l as [|x l]; [contradiction|]. cbn [chunks].
  assert (Nat.ltb (length (x :: l)) n = false) as -> by (apply Nat.ltb_ge; exact Hl). reflexivity.
Qed.

Lemma chunks_concat n : forall (rs : list (list N)) fuel,
  (0 < n)%nat -> Forall (fun r => length r = n) rs -> (length rs <= fuel)%nat ->
  chunks fuel n (concat rs) = Some rs.
Proof.
  induction rs as [|r rs IH]; intros fuel Hn Hf Hfuel.
  - destruct fuel; reflexivity.
  - inversion Hf as [|? ? Hr Hrs]; subst.
    destruct fuel as [|fuel]; [cbn in Hfuel; lia|].
    cbn [concat]. rewrite chunks_step.
    + rewrite skipn_app, skipn_all, Nat.sub_diag. cbn [skipn app].
      rewrite (IH fuel Hn Hrs ltac:(cbn in Hfuel; lia)). cbn [obind].
      rewrite firstn_app, firstn_all, Nat.sub_diag. cbn [firstn]. now rewrite app_nil_r.
    + destruct r; [cbn in Hn; lia|discriminate].
    + rewrite app_length. lia.
Qed.

Lemma sequence_map_some {A B} (f : A -> option B) (g : A -> B) l :
  (forall a, In a l -> f a = Some (g a)) -> sequence (map f l) = Some (map g l).
Proof.
  induction l as [|a l IH]; intros H; cbn; [reflexivity|].
  rewrite (H a (or_introl eq_refl)). cbn. rewrite IH; [reflexivity|]. intros x Hx. apply H. now right.
Qed.

(* per-record round trip lifts to the list encoders *)
Lemma list_roundtrip {A} (enc : A -> option (list N)) (dec : list N -> option A) n (l : list A) :
  (0 < n)%nat ->
  (forall a, In a l -> exists r, enc a = Some r /\ length r = n /\ dec r = Some a) ->
  exists p, enc_list enc l = Some p /\ length p = (n * length l)%nat /\ dec_list n dec p = Some l.
Proof.
  intros Hn H.
  assert (G : exists rs, sequence (map enc l) = Some rs /\ Forall (fun r => length r = n) rs /\
                         length rs = length l /\ sequence (map dec rs) = Some l).
  { induction l as [|a l IH]; cbn.
    - exists []. repeat split; constructor.
    - destruct (H a (or_introl eq_refl)) as [r [E [L D]]].
      destruct IH as [rs [S1 [F [Ln S2]]]]; [intros x Hx; apply H; now right|].
      exists (r :: rs). rewrite E, S1. cbn. rewrite D, S2. cbn. repeat split; auto. }
  destruct G as [rs [S1 [F [Ln S2]]]].
  exists (concat rs). unfold enc_list, dec_list. rewrite S1. cbn [obind]. split; [reflexivity|]. split.
  - clear - F Ln. revert l Ln. induction F as [|r rs Hr F IH]; intros l Ln; destruct l; cbn in *; try lia.
    rewrite app_length, Hr. rewrite (IH l) by lia. lia.
  - assert (length (concat rs) >= length rs)%nat.
    { clear - F Hn. induction F as [|r rs Hr F IH]; cbn; [lia|]. rewrite app_length. lia. }
    rewrite (chunks_concat n rs (S (length (concat rs))) Hn F ltac:(lia)). cbn [obind]. exact S2.
Qed.

(* --------------------------------------------------------------- enum codes *)
Lemma gpower_ctl_rt p : gpower_ctl_of (gpower_ctl_code p) = Some p. Proof. destruct p; reflexivity. Qed.
Lemma gmethod_ctl_rt p : gmethod_ctl_of (gmethod_ctl_code p) = Some p. Proof. destruct p; reflexivity. Qed.
Lemma gpower_rt p : gpower_of (gpower_code p) = Some p. Proof. destruct p; reflexivity. Qed.
Lemma gmethod_rt p : gmethod_of (gmethod_code p) = Some p. Proof. destruct p; reflexivity. Qed.
Lemma battery_rt p : battery_of (battery_code p) = Some p. Proof. destruct p; reflexivity. Qed.
Lemma apower_ctl_rt p : apower_ctl_of (apower_ctl_code p) = Some p. Proof. destruct p; reflexivity. Qed.
Lemma apower_rt p : apower_of (apower_code p) = Some p. Proof. destruct p; reflexivity. Qed.
Lemma amode_rt p : amode_of (amode_code p) = Some p. Proof. destruct p; reflexivity. Qed.
Lemma afan_rt p : afan_of (afan_code p) = Some p. Proof. destruct p; reflexivity. Qed.
Lemma timer_type_rt p : timer_type_of (timer_type_code p) = Some p. Proof. destruct p; reflexivity. Qed.

(* ------------------------------------------------------ x2A group control *)
Definition dom_group_ctrl (c : group_ctrl) : bool :=
  (gc_group c <? 256) &&
  match gc_setting c with GS_Damper p => p <? 256 | GS_SetPoint v => v <? 256 | _ => true end.

Lemma group_ctrl_roundtrip c : dom_group_ctrl c = true ->
  exists p, enc_group_ctrl c = Some p /\ length p = 4%nat /\ dec_group_ctrl p = Some (c, []).
Proof.
  destruct c as [g pw me st]. unfold dom_group_ctrl. cbn [gc_group gc_setting].
  intros H. apply andb_prop in H as [Hg Hs]. apply N.ltb_lt in Hg.
  unfold enc_group_ctrl. cbn [gc_group gc_power gc_method gc_setting].
  rewrite (pack_B_ok g Hg).
  destruct st as [| | |p|v]; try apply N.ltb_lt in Hs;
    destruct pw, me; cbn -[pack_B]; rewrite ?(pack_B_ok _ Hs); cbn;
    eexists; (split; [reflexivity|split; [reflexivity|reflexivity]]).
Qed.

(* --------------------------------------------------------- x2C AC control *)
Definition dom_ac_ctrl (c : ac_ctrl) : bool :=
  (ac_number c <? 64) && match ac_sp c with AS_Value v => v <? 64 | _ => true end.

Lemma ac_b1_sweep :
  forallb (fun n => forallb (fun pw =>
    let b1 := N.land (N.shiftl pw 6) 0xC0 + N.land n 0x3F in
    (b1 <? 256) && (N.land b1 0x3F =? n) && (N.shiftr (N.land b1 0xC0) 6 =? pw)) (below 4)) (below 64) = true.
Proof. vm_compute. reflexivity. Qed.

Lemma ac_b3_sweep :
  forallb (fun ct => forallb (fun v =>
    let b3 := N.land (N.shiftl ct 6) 0xC0 + N.land v 0x3F in
    (b3 <? 256) && (N.land b3 0x3F =? v) && (N.shiftr (N.land b3 0xC0) 6 =? ct)) (below 64)) (below 4) = true.
Proof. vm_compute. reflexivity. Qed.

Lemma apower_ctl_code_lt p : apower_ctl_code p < 4. Proof. destruct p; reflexivity. Qed.

Lemma ac_ctrl_roundtrip c : dom_ac_ctrl c = true ->
  exists p, enc_ac_ctrl c = Some p /\ length p = 4%nat /\ dec_ac_ctrl p = Some (c, []).
Proof.
  destruct c as [n pw mo fa sp]. unfold dom_ac_ctrl. cbn [ac_number ac_sp].
  intros H. apply andb_prop in H as [Hn Hs]. apply N.ltb_lt in Hn.
  pose proof (below2_forall _ _ _ ac_b1_sweep n (apower_ctl_code pw) Hn (apower_ctl_code_lt pw)) as B1.
  cbn zeta in B1. apply andb_prop in B1 as [B1 B1c]. apply andb_prop in B1 as [B1a B1b].
  apply N.ltb_lt in B1a. apply N.eqb_eq in B1b, B1c.
  unfold enc_ac_ctrl. cbn [ac_number ac_power ac_mode ac_fan ac_sp].
  rewrite (pack_B_ok _ B1a).
  assert (Hb2 : N.land (N.shiftl (amode_ctl_code mo) 4) 0xF0 + N.land (afan_ctl_code fa) 0x0F < 256
                /\ amode_ctl_of (N.shiftr (N.land (N.land (N.shiftl (amode_ctl_code mo) 4) 0xF0 + N.land (afan_ctl_code fa) 0x0F) 0xF0) 4) = mo
                /\ afan_ctl_of (N.land (N.land (N.shiftl (amode_ctl_code mo) 4) 0xF0 + N.land (afan_ctl_code fa) 0x0F) 0x0F) = fa)
    by (destruct mo, fa; vm_compute; repeat split; reflexivity).
  destruct Hb2 as [B2a [B2b B2c]]. rewrite (pack_B_ok _ B2a).
  assert (Hb3 : exists ct v, (ct, v) = match sp with AS_None => (0, 0x3F) | AS_Dec => (2, 0x3F) | AS_Inc => (3, 0x3F) | AS_Value v => (1, v) end
                /\ ct < 4 /\ v < 64).
  { destruct sp as [| | |v]; try apply N.ltb_lt in Hs; eexists; eexists; (split; [reflexivity|split; [reflexivity|assumption||reflexivity]]). }
  destruct Hb3 as [ct [v [E [Hct Hv]]]]. rewrite <- E.
  pose proof (below2_forall _ _ _ ac_b3_sweep ct v Hct Hv) as B3.
  cbn zeta in B3. apply andb_prop in B3 as [B3 B3c]. apply andb_prop in B3 as [B3a B3b].
  apply N.ltb_lt in B3a. apply N.eqb_eq in B3b, B3c.
  rewrite (pack_B_ok _ B3a). cbn [obind app].
  eexists. split; [reflexivity|]. split; [reflexivity|].
  unfold dec_ac_ctrl. rewrite B1b, B1c, B2b, B2c, B3b, B3c, apower_ctl_rt. cbn [obind].
  destruct sp as [| | |v']; inversion E; subst; reflexivity.
Qed.
